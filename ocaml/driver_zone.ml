let run_case (a : string array) : string = "?unknown-op"
