(* driver_zone.ml — zone operations of the extracted model.  Zones come from
   the table file named by $VERIF_ZONES: one line per zone, "<id> <hex bytes>". *)
open Model
open Util

type zentry = {
  bytes : z list;
  model : zone option res Lazy.t;          (* load_bytes *)
  spec : (header * ast) option Lazy.t;     (* parse_ast *)
  sz : szone option Lazy.t;
  wf : bool Lazy.t;
  changes : z list Lazy.t;
  mutable hint_bt : z;                     (* hidden state threaded for C14 *)
  mutable hint_mt : z;
}

(* the zone table is kept as hex text (a thorough run has tens of thousands of mutated files); entries are built on
   demand and only the most recently used ones are kept (cases of one zone are contiguous) *)
let hextab : (string, string) Hashtbl.t = Hashtbl.create 64
let table : (string, zentry) Hashtbl.t = Hashtbl.create 64
let recent : string list ref = ref []
let loaded = ref false

let mk_entry (bytes : z list) : zentry =
  let spec = lazy (parse_ast bytes) in
  let sz = lazy (match Lazy.force spec with Some (_, a) -> Some (szone_of a) | None -> None) in
  { bytes;
    model = lazy (load_bytes bytes);
    spec; sz;
    wf = lazy (match Lazy.force spec with Some (h, a) -> wf_ast h a | None -> false);
    changes = lazy (match Lazy.force sz with Some s -> all_changes s | None -> []);
    hint_bt = Z0; hint_mt = Z0 }

let load_table () =
  if not !loaded then begin
    loaded := true;
    match Sys.getenv_opt "VERIF_ZONES" with
    | None -> ()
    | Some path ->
      let ic = open_in path in
      (try while true do
        let line = input_line ic in
        match String.index_opt line ' ' with
        | Some i ->
          let id = String.sub line 0 i in
          let hx = String.sub line (i + 1) (String.length line - i - 1) in
          Hashtbl.replace hextab id hx
        | None -> ()
      done with End_of_file -> ());
      close_in ic
  end

(* "N:<hex name>": a zone named directly (fixed-offset names need no data) *)
let mk_named (name : z list) : zentry =
  let spec_off = fixed_from_spec name in
  let sz = lazy (match spec_off with
    | Some off ->
      let a = { a_version = Z0; a_times = []; a_idx = []; a_types = [((off, false), Z0)];
                a_abbr = fixed_abbr_spec off @ [Z0]; a_footer = [] } in
      Some (szone_of a)
    | None -> None) in
  { bytes = [];
    model = lazy (load_name (fun _ -> None) name);
    spec = lazy None; sz;
    wf = lazy (spec_off <> None);
    changes = lazy [];
    hint_bt = Z0; hint_mt = Z0 }

let touch id =
  if not (List.mem id !recent) then begin
    recent := id :: !recent;
    if List.length !recent > 12 then begin
      let keep = List.filteri (fun i _ -> i < 6) !recent in
      List.iter (fun old -> if not (List.mem old keep) then Hashtbl.remove table old) !recent;
      recent := keep
    end
  end

let get id =
  load_table ();
  match Hashtbl.find_opt table id with
  | Some e -> e
  | None ->
    if String.length id > 2 && String.sub id 0 2 = "N:" then begin
      let e = mk_named (bytes_of_hex (String.sub id 2 (String.length id - 2))) in
      Hashtbl.replace table id e; touch id; e
    end else
      (match Hashtbl.find_opt hextab id with
       | Some hx -> let e = mk_entry (bytes_of_hex hx) in Hashtbl.replace table id e; touch id; e
       | None -> raise Not_found)

let known_zone id = load_table (); Hashtbl.mem table id || Hashtbl.mem hextab id

let show_al (al : alookup) =
  Printf.sprintf "%s %s %s %s" (string_of_z al.al_off) (b2s al.al_dst) (hex_of_bytes al.al_abbr) (show_fields al.al_cs)
let show_sl (sl : slookup) =
  Printf.sprintf "%s %s %s %s" (string_of_z sl.sl_off) (b2s sl.sl_dst) (hex_of_bytes sl.sl_abbr) (show_fields sl.sl_cs)
let kind_s = function UNIQUE -> "U" | SKIPPED -> "S" | REPEATED -> "R"
let skind_s = function SU -> "U" | SS -> "S" | SR -> "R" | SX -> "X"
let show_cl (c : clookup) =
  Printf.sprintf "%s %s %s %s" (kind_s c.cl_kind) (string_of_z c.cl_pre) (string_of_z c.cl_trans) (string_of_z c.cl_post)
let show_scl (c : scl) =
  Printf.sprintf "%s %s %s %s" (skind_s c.s_kind) (string_of_z c.s_pre) (string_of_z c.s_trans) (string_of_z c.s_post)
let show_tr = function
  | None -> "0"
  | Some (f, t) -> "1 " ^ show_fields f ^ " " ^ show_fields t

(* run f on the loaded model zone; "noload" if the loader rejected *)
let with_model (e : zentry) (f : zone -> string) : string =
  match Lazy.force e.model with
  | OK (Some z) -> f z
  | OK None -> "noload"
  | Err er -> "ERR:" ^ string_of_err er
let with_spec (e : zentry) (f : szone -> string) : string =
  match Lazy.force e.sz with
  | Some s -> if Lazy.force e.wf then f s else "notwf"
  | None -> "noparse"

let fields_of a off = { fy = zi a off; fm = zi a (off+1); fd = zi a (off+2); fhh = zi a (off+3); fmm = zi a (off+4); fss = zi a (off+5) }

let zlt a b = (Z.compare a b = Lt)

(* domain restriction for spec_info: a footer-only zone below the -2^59 sentinel *)
let below_sentinel_footer_only (s : szone) (t : z) =
  (match s.sz_ast.a_times, s.sz_footer with [], FRule _ -> zlt t big_bang | _ -> false)

(* Known-finding family F9: a DST-rule footer behind a last transition before
   1970 (or no transition at all).  The tag is attached to every case on such a
   zone so that known_findings.json can name the family precisely. *)
let f9_zone (e : zentry) : bool =
  let by_spec =
    (match Lazy.force e.sz with
     | Some s ->
       (match s.sz_footer with
        | FRule _ ->
          (* the sentinel lands BEHIND the generated window only when all 401 generated years precede 1970,
             i.e. the last file transition is before 1570 (two days of margin; the exact test is by_model) *)
          (match List.rev s.sz_ast.a_times with [] -> true | t :: _ -> zlt t (z_of_string "-12622953600"))
        | _ -> false)
     | None -> false) in
  (* the specification's reader may reject or read the bytes differently (e.g. junk behind the footer) while the
     loader accepts them: also recognise the family on the LOADED zone - extended, and the 2^31-1 sentinel sits
     behind generated years that all lie before 1970 *)
  let by_model =
    (match Lazy.force e.model with
     | OK (Some z) when z.z_extended ->
       (match List.rev z.z_trans with
        | l :: p :: _ -> Z.compare l.tr_time (z_of_int 2147483647) = Eq && zlt p.tr_time Z0
        | _ -> false)
     | _ -> false) in
  by_spec || by_model

let run_case_inner (a : string array) : string =
  match a.(0) with
  | "zload" ->
    let e = get a.(1) in
    let m = (match Lazy.force e.model with OK (Some _) -> "1" | OK None -> "0" | Err er -> "ERR:" ^ string_of_err er) in
    let wf = Lazy.force e.wf in
    (* spec: a well-formed file must load; for others the spec does not say *)
    out m (if wf then "1" else m) wf
  | "bt" ->
    let e = get a.(1) in let t = zi a 2 in
    let m = with_model e (fun z -> show_res (fun (al, _) -> show_al al) (break_time z Z0 t)) in
    let s = with_spec e (fun s -> match spec_lookup s t with Some sl -> show_sl sl | None -> "undef") in
    let p = Lazy.force e.wf && in64 t &&
            (match Lazy.force e.sz with Some s -> not (below_sentinel_footer_only s t) && spec_lookup s t <> None | None -> false) in
    out m s p
  | "mt" | "cv" ->
    let e = get a.(1) in let cs = fields_of a 2 in
    let l = sec_of cs in
    if a.(0) = "mt" then begin
      let m = with_model e (fun z -> show_res (fun (c, _) -> show_cl c) (make_time z Z0 cs)) in
      let sc = (match Lazy.force e.sz with Some s when Lazy.force e.wf -> Some (spec_civil s l) | _ -> None) in
      let s = (match sc with Some c -> show_scl c | None -> "notwf") in
      let p = (match sc with Some c -> c.s_kind <> SX && valid_fields cs && in64 cs.fy | None -> false) in
      out m s p
    end else begin
      let m = with_model e (fun z -> show_res string_of_z (convert_cs z Z0 cs)) in
      let sc = (match Lazy.force e.sz with Some s when Lazy.force e.wf -> spec_convert s l | _ -> None) in
      out m (match sc with Some v -> string_of_z v | None -> "undef") (sc <> None && valid_fields cs && in64 cs.fy)
    end
  | "dsp" ->
    (* C03, converse half: every instant returned for a UNIQUE or REPEATED civil second displays that civil second *)
    let e = get a.(1) in let cs = fields_of a 2 in
    let l = sec_of cs in
    let shows z t = (match break_time z Z0 t with OK (al, _) -> if fields_eqb al.al_cs cs then "1" else "0" | Err er -> "ERR:" ^ string_of_err er) in
    let m = with_model e (fun z ->
      match make_time z Z0 cs with
      | OK (c, _) ->
        (match c.cl_kind with
         | UNIQUE -> "U " ^ shows z c.cl_pre
         | REPEATED -> "R " ^ shows z c.cl_pre ^ " " ^ shows z c.cl_post
         | SKIPPED -> "S")
      | Err er -> "ERR:" ^ string_of_err er) in
    let sc = (match Lazy.force e.sz with Some s when Lazy.force e.wf -> Some (spec_civil s l) | _ -> None) in
    let s = (match sc with
             | Some c -> (match c.s_kind with SU -> "U 1" | SR -> "R 1 1" | SS -> "S" | SX -> "outside")
             | None -> "notwf") in
    let inner v = zlt min64 v && zlt v max64 in
    let p = (match sc with
             | Some c -> c.s_kind <> SX && valid_fields cs && in64 cs.fy && inner c.s_pre && inner c.s_post
             | None -> false) in
    out m s p
  | "nt" | "pt" ->
    let e = get a.(1) in let t = zi a 2 in
    let m = with_model e (fun z -> show_res show_tr (if a.(0) = "nt" then next_transition z t else prev_transition z t)) in
    let wf = Lazy.force e.wf in
    let s = with_spec e (fun s ->
      let ch = Lazy.force e.changes in
      let cand = if a.(0) = "nt" then (try Some (List.find (fun x -> zlt t x) ch) with Not_found -> None)
                 else (try Some (List.find (fun x -> zlt x t) (List.rev ch)) with Not_found -> None) in
      match cand with
      | None -> "0"
      | Some tt -> show_tr (spec_transition s tt)) in
    out m s (wf && in64 t)
  | "ntm" | "ptm" ->
    (* sub-second time points (milliseconds): strictly after / strictly before the INSTANT ms/1000 *)
    let e = get a.(1) in let ms = zi a 2 in
    let k = z_of_int 1000 in
    let m = with_model e (fun z -> show_res show_tr
              (if a.(0) = "ntm" then next_transition_sub z (z_of_int 1) k ms else prev_transition_sub z (z_of_int 1) k ms)) in
    let wf = Lazy.force e.wf in
    let s = with_spec e (fun s ->
      let ch = Lazy.force e.changes in
      let cand = if a.(0) = "ntm" then (try Some (List.find (fun x -> zlt ms (Z.mul x k)) ch) with Not_found -> None)
                 else (try Some (List.find (fun x -> zlt (Z.mul x k) ms) (List.rev ch)) with Not_found -> None) in
      match cand with
      | None -> "0"
      | Some tt -> show_tr (spec_transition s tt)) in
    out m s (wf && in64 (Z.mul ms k))
  | "rt" ->
    (* C03: instant -> civil -> instant *)
    let e = get a.(1) in let t = zi a 2 in
    let m = with_model e (fun z ->
      show_res (fun x -> x)
        (bind (break_time z Z0 t) (fun (al, _) ->
         bind (make_time z Z0 al.al_cs) (fun (c, _) -> OK (show_cl c))))) in
    let sc = (match Lazy.force e.sz with
              | Some s when Lazy.force e.wf ->
                (match spec_lookup s t with Some sl -> Some (spec_civil s (sec_of sl.sl_cs)) | None -> None)
              | _ -> None) in
    let day = z_of_int 86400 in
    let inner = in64 (Z.sub t day) && in64 (Z.add t day) in
    let ok_rt = (match sc with
                 | Some c -> (c.s_kind = SU && c.s_pre = t) || (c.s_kind = SR && (c.s_pre = t || c.s_post = t))
                 | None -> false) in
    (* S is the spec's own answer; additionally the spec answer must recover t (checked by P-side flag) *)
    out m (match sc with Some c -> show_scl c ^ (if ok_rt then "" else " !roundtrip") | None -> "notwf")
      (sc <> None && inner)
  | "hbt" | "xbt" ->
    (* C14: thread the hint the way the implementation's hidden state evolves *)
    let e = get a.(1) in let t = zi a 2 in
    let m = with_model e (fun z ->
      match break_time z e.hint_bt t with
      | OK (al, h) -> e.hint_bt <- h; show_al al
      | Err er -> "ERR:" ^ string_of_err er) in
    let fresh = with_model e (fun z -> show_res (fun (al, _) -> show_al al) (break_time z Z0 t)) in
    out m fresh (Lazy.force e.wf && in64 t)
  | "hmt" | "xmt" ->
    let e = get a.(1) in let cs = fields_of a 2 in
    let m = with_model e (fun z ->
      match make_time z e.hint_mt cs with
      | OK (c, h) -> e.hint_mt <- h; show_cl c
      | Err er -> "ERR:" ^ string_of_err er) in
    let fresh = with_model e (fun z -> show_res (fun (c, _) -> show_cl c) (make_time z Z0 cs)) in
    out m fresh (Lazy.force e.wf && valid_fields cs && in64 cs.fy)
  | "fbt" ->
    let e = get a.(1) in let t = zi a 3 in
    let m = with_model e (fun z -> show_res (fun (al, _) -> show_al al) (break_time z Z0 t)) in
    out m m (Lazy.force e.wf && in64 t)
  | "fmk" ->
    let e = get a.(1) in let cs = fields_of a 3 in
    let m = with_model e (fun z -> show_res (fun (c, _) -> show_cl c) (make_time z Z0 cs)) in
    out m m (Lazy.force e.wf && valid_fields cs && in64 cs.fy)
  | "reload" ->
    (* an id the data source does not know: the factory returns nullptr *)
    let ok = (match (try Some (get a.(1)) with Not_found -> None) with
              | Some e -> (match Lazy.force e.model with OK (Some _) -> true | _ -> false)
              | None -> false) in
    let b = b2s ok in
    let m = Printf.sprintf "ok=%s%s eq=1 calls=1+0 utc=%s name=1" b b (b2s (not ok)) in
    (* the cache contract holds for every byte string, well-formed or not *)
    out m m true
  | "fz" ->
    let off = zi a 1 and t = zi a 2 in
    let m = (match fixedOffsetToName off with
      | Err er -> "ERR:" ^ string_of_err er
      | OK name ->
        (match load_name (fun _ -> None) name with
         | OK (Some z) ->
           (match break_time z Z0 t with
            | OK (al, _) ->
              let isutc = (fixedOffsetFromName name = Some Z0) in
              Printf.sprintf "%s name=%s eq=1 ok=1 utc=%s" (show_al al) (hex_of_bytes name) (b2s isutc)
            | Err er -> "ERR:" ^ string_of_err er)
         | OK None -> "noload"
         | Err er -> "ERR:" ^ string_of_err er)) in
    let inrange = not (off = Z0) && Z.compare (Z.abs off) (z_of_int 86400) <> Gt in
    let o = if inrange then off else Z0 in
    let s = Printf.sprintf "%s 0 %s %s name=%s eq=1 ok=1 utc=%s" (string_of_z o) (hex_of_bytes (fixed_abbr_spec o))
              (show_fields (civil_of_seconds (Z.add t o))) (hex_of_bytes (fixed_name_spec off)) (b2s (not inrange)) in
    out m s (in64 t && in64 off)
  | "cert" ->
    (* the boolean certificates of the loaded zone, and agreement of the
       integer-level functions with the implementation-level ones on a probe *)
    let e = get a.(1) in
    let m = with_model e (fun z ->
      Printf.sprintf "zone_ok=%s sorted=%s" (b2s (zone_ok z)) (b2s (table_sorted z))) in
    (* the hypotheses of the end-to-end theorems (c01_whole; c02/c03/c06_whole), evaluated on the bytes *)
    let (d1, d2) = (match Lazy.force e.spec with
                    | Some (h, a) -> (wf_ast h a && c01_domain h a, whole_domain h a)
                    | None -> (false, false)) in
    let m = Printf.sprintf "%s c01_whole_domain=%s whole_domain=%s" m (b2s d1) (b2s d2) in
    out m m false
  | "zzmt" ->
    (* make_time of the implementation-level model vs zmake of the integer-level model *)
    let e = get a.(1) in let cs = fields_of a 2 in
    let m = with_model e (fun z -> show_res (fun (c, _) -> show_cl c) (make_time z Z0 cs)) in
    let s = with_model e (fun z ->
      let c = zmake (abs_zone z) (sec_of cs) in
      let cl v = if zlt v min64 then min64 else if zlt max64 v then max64 else v in
      Printf.sprintf "%s %s %s %s" (match c.zk with ZU -> "U" | ZS -> "S" | ZR -> "R")
        (string_of_z (cl c.zpre)) (string_of_z (cl c.ztrans)) (string_of_z (cl c.zpost))) in
    out m s false
  | "nameres" ->
    (* nameres <tzdir hex|NONE> <tz hex|NONE> <localtime hex|NONE> <name hex|LOCAL> ; fs table in $VERIF_FS *)
    let fs_tab : (string, z list option) Hashtbl.t = Hashtbl.create 64 in
    (match Sys.getenv_opt "VERIF_FS" with
     | Some p ->
       let ic = open_in p in
       (try while true do
         let line = input_line ic in
         (match String.split_on_char ' ' line with
          | [k; "NONE"] -> Hashtbl.replace fs_tab k None
          | [k; v] -> Hashtbl.replace fs_tab k (Some (bytes_of_hex v))
          | _ -> ())
       done with End_of_file -> ()); close_in ic
     | None -> ());
    let missing = ref false in
    let fs (path : z list) : z list option =
      match Hashtbl.find_opt fs_tab (hex_of_bytes path) with
      | Some r -> r
      | None -> missing := true; None in
    let opt s = if s = "NONE" then None else Some (bytes_of_hex s) in
    let e = { e_tzdir = opt a.(1); e_tz = opt a.(2); e_localtime = opt a.(3) } in
    let name = if a.(4) = "LOCAL" then local_zone_name e else bytes_of_hex a.(4) in
    let r = load_time_zone fs e name in
    let probe = z_of_string "1700000000" in
    let m = (match r with
      | Err er -> "ERR:" ^ string_of_err er
      | OK ((ok, nm), k) ->
        let (utc, off) = (match k with
          | KUtc -> (true, "0")
          | KFixed o -> (false, string_of_z o)
          | KLibc -> (false, "?libc")
          | KInfo z -> (false, (match break_time z Z0 probe with OK (al, _) -> string_of_z al.al_off | Err er -> "ERR:" ^ string_of_err er))) in
        let okflag = if a.(4) = "LOCAL" then not utc else ok in
        Printf.sprintf "ok=%s name=%s utc=%s off=%s" (b2s okflag) (hex_of_bytes nm) (b2s utc) off) in
    if !missing then out ("fs-not-measured " ^ m) m false else out m m true
  | "sched" | "sched20" ->
    (* C13/C20: a schedule of Start/Release events; names as in the thread harness *)
    load_table ();
    let data (n : z list) : z list option =
      let s = String.concat "" (List.map (fun c -> String.make 1 (Char.chr ((int_of_z c) land 255))) n) in
      if String.length s > 2 && String.sub s 0 2 = "V:" then begin
        (* "V:<id>#key" and "V:<id>%00rest" (a NUL inside the name) are other names for the same bytes *)
        let id = String.sub s 2 (String.length s - 2) in
        let cut c id = match String.index_opt id c with Some i -> String.sub id 0 i | None -> id in
        let id = cut '%' (cut '#' id) in
        (if known_zone id then Some (get id).bytes else None)
      end else None in
    let bytes_of s = List.init (String.length s) (fun i -> z_of_int (Char.code s.[i])) in
    let str_of n = String.concat "" (List.map (fun c -> String.make 1 (Char.chr ((int_of_z c) land 255))) n) in
    let evs = List.filter_map (fun tok ->
      if String.length tok = 0 then None
      else if tok.[0] = 'S' then
        let c = String.index tok ':' in
        Some (Start (nat_of_int (int_of_string (String.sub tok 1 (c - 1))), bytes_of (String.sub tok (c + 1) (String.length tok - c - 1))))
      else if tok.[0] = 'R' then Some (Release (nat_of_int (int_of_string (String.sub tok 1 (String.length tok - 1)))))
      else None) (List.tl (Array.to_list a)) in
    (* threads still parked at the end are released in thread order, as the harness does *)
    let tids = List.sort_uniq compare (List.filter_map (function Start (t, _) -> Some (int_of_nat t) | _ -> None) evs) in
    let evs = evs @ List.map (fun t -> Release (nat_of_int t)) tids in
    let s = exec data evs in
    let seen = ref [] in
    let canon id = if int_of_nat id = 0 then 0 else begin
      let k = int_of_nat id in
      (match List.assoc_opt k !seen with
       | Some c -> c
       | None -> let c = List.length !seen + 1 in seen := !seen @ [(k, c)]; c) end in
    let res = String.concat "" (List.map (fun (((t, n), ok), id) ->
      let c = canon id in
      Printf.sprintf "R%d:%s:%s:%d:1 " (int_of_nat t) (str_of n) (b2s ok) c) s.ls_results) in
    let inside = ref 0 and mx = ref 0 in
    let log = String.concat "" (List.map (fun ev ->
      match ev with
      | FEnter (t, n) -> incr inside; if !inside > !mx then mx := !inside; Printf.sprintf " E%d:%s" (int_of_nat t) (str_of n)
      | FExit (t, n) -> decr inside; Printf.sprintf " X%d:%s" (int_of_nat t) (str_of n)) s.ls_log) in
    let m = Printf.sprintf "%s|%s | maxinside=%d" res log !mx in
    (* the property (C20): at most one invocation per name, never two at once *)
    let names = List.sort_uniq compare (List.filter_map (function FEnter (_, n) -> Some n | _ -> None) s.ls_log) in
    let once = List.for_all (fun n -> int_of_nat (entries_for s.ls_log n) <= 1) names in
    let serial = not (overlapping s.ls_log) in
    if a.(0) = "sched" then out m m true
    else if once && serial then out m m true
    else out m "a-factory-invocation-repeated-or-overlapping(contract-violated)" true ^ " ; K F7"
  | "chain" ->
    let e = get a.(1) in
    let m = with_model e (fun z ->
      let rec go t acc guard =
        if guard > 100000 then Err Fuel else
        match next_transition z t with
        | Err er -> Err er
        | OK None -> OK (List.rev acc)
        | OK (Some (f, tt)) ->
          (match make_time z Z0 tt with
           | Err er -> Err er
           | OK (c, _) -> go c.cl_trans ((show_fields f ^ " " ^ show_fields tt) :: acc) (guard + 1)) in
      let rec back t acc guard =
        if guard > 100000 then Err Fuel else
        match prev_transition z t with
        | Err er -> Err er
        | OK None -> OK acc
        | OK (Some (f, tt)) ->
          (match make_time z Z0 tt with
           | Err er -> Err er
           | OK (c, _) -> back c.cl_trans ((show_fields f ^ " " ^ show_fields tt) :: acc) (guard + 1)) in
      match go min64 [] 0, back max64 [] 0 with
      | OK l, OK b -> Printf.sprintf "%d B=%s%s" (List.length l) (b2s (l = b)) (String.concat "" (List.map (fun x -> " | " ^ x) l))
      | Err er, _ | _, Err er -> "ERR:" ^ string_of_err er) in
    let s = with_spec e (fun s ->
      let ch = Lazy.force e.changes in
      let l = List.map (fun t -> match spec_transition s t with Some (f, tt) -> show_fields f ^ " " ^ show_fields tt | None -> "undef") ch in
      Printf.sprintf "%d B=1%s" (List.length l) (String.concat "" (List.map (fun x -> " | " ^ x) l))) in
    out m s (Lazy.force e.wf)
  | _ -> "?unknown-op"

(* F9b: the overflow half of the finding without the sentinel: an extended zone whose table ends before ~2196
   (last file transition before ~1795): BreakTime's shift * kSecsPer400Years overflows for instants near max() *)
let f9b_zone (e : zentry) : bool =
  match Lazy.force e.model with
  | OK (Some z) when z.z_extended ->
    (match List.rev z.z_trans with
     | l :: _ -> not (zlt (z_of_string "7161147007") l.tr_time)
     | [] -> false)
  | _ -> false

let run_case (a : string array) : string =
  let r = run_case_inner a in
  if Array.length a > 1 && known_zone a.(1) then begin
    let e = get a.(1) in
    if f9_zone e then r ^ " ; K F9" else if f9b_zone e then r ^ " ; K F9b" else r
  end else r
