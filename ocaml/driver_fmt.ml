(* driver_fmt.ml — format/parse operations of the extracted model; the
   strftime/strptime oracles are the real libc (libc_stub.c). *)
open Model
open Util
open Driver_zone

external c_strftime : string -> int array -> string = "verif_strftime"
external c_strptime : string -> string -> int array -> int array = "verif_strptime"

let string_of_bytes (l : z list) : string =
  let b = Buffer.create 32 in
  List.iter (fun c -> Buffer.add_char b (Char.chr ((int_of_z c) land 255))) l; Buffer.contents b
let bytes_of_string (s : string) : z list = List.init (String.length s) (fun i -> z_of_int (Char.code s.[i]))

let clampi (v : z) : int =
  (* tm fields are C ints *)
  match v with Z0 -> 0 | Zpos p -> if pos_bits p > 31 then 2147483647 else int_of_pos p
             | Zneg p -> if pos_bits p > 32 then (-2147483648) else max (-2147483648) (- (int_of_pos p))
let arr_of_tm (t : tmrec) : int array =
  Array.map clampi [| t.tm_sec; t.tm_min; t.tm_hour; t.tm_mday; t.tm_mon; t.tm_year; t.tm_wday; t.tm_yday; t.tm_isdst |]

(* the oracle sees a C string: cut at the first NUL *)
let cstr (s : string) : string = match String.index_opt s '\000' with Some i -> String.sub s 0 i | None -> s

let strftime_o (fmt : z list) (tm : tmrec) : z list =
  bytes_of_string (c_strftime (cstr (string_of_bytes fmt)) (arr_of_tm tm))
let strptime_o (data : z list) (fmt : z list) (tm : tmrec) : (z list * tmrec) option =
  let ds = cstr (string_of_bytes data) in
  let r = c_strptime ds (cstr (string_of_bytes fmt)) (arr_of_tm tm) in
  if r.(0) < 0 then None
  else begin
    let rest = String.sub ds r.(0) (String.length ds - r.(0)) in
    let zi k = z_of_int r.(k) in
    Some (bytes_of_string rest, { tm_sec = zi 1; tm_min = zi 2; tm_hour = zi 3; tm_mday = zi 4; tm_mon = zi 5;
                                  tm_year = zi 6; tm_wday = zi 7; tm_yday = zi 8; tm_isdst = zi 9 })
  end

let utc_zone : zone res Lazy.t = lazy (reset_to_builtin_utc Z0)
let e15 = z_of_string "1000000000000000"

let run_case (a : string array) : string =
  match a.(0) with
  | "fmt" ->
    (* fmt <zid> <fmt hex> <t> <fs> *)
    let e = get a.(1) in
    let fmt = bytes_of_hex a.(2) in let t = zi a 3 in let fs = zi a 4 in
    let m = with_model e (fun z ->
      show_res hex_of_bytes (bind (break_time z Z0 t) (fun (al, _) -> format_impl strftime_o fmt al fs t))) in
    let sp = (match Lazy.force e.sz with
      | Some s when Lazy.force e.wf ->
        (match spec_lookup s t with
         | Some sl -> Some (render_spec strftime_o fmt sl.sl_cs sl.sl_off sl.sl_abbr fs t (spec_tm sl.sl_cs sl.sl_dst))
         | None -> None)
      | _ -> None) in
    let nonneg = (match fs with Zneg _ -> false | _ -> true) in
    out m (match sp with Some b -> hex_of_bytes b | None -> "undef")
      (sp <> None && clean_fmt fmt && in64 t && nonneg && (Z.compare fs e15 = Lt))
  | "parse" | "fp" ->
    (* parse <zid> <fmt hex> <input hex> [EXP t fs | REJ]      (C09)
       fp    <zid> <fmt hex> <t> <fs>                          (C07: format then parse) *)
    let e = get a.(1) in
    let fmt = bytes_of_hex a.(2) in
    let show = function Some (t, f) -> "1 " ^ string_of_z t ^ " " ^ string_of_z f | None -> "0" in
    if a.(0) = "parse" then begin
      let input = bytes_of_hex a.(3) in
      let m = with_model e (fun z ->
        match Lazy.force utc_zone with
        | OK u -> show_res show (parse_impl strptime_o z u fmt input)
        | Err er -> "ERR:" ^ string_of_err er) in
      let (s, p) =
        if Array.length a > 4 && a.(4) = "REJ" then ("0", true)
        else if Array.length a > 6 && a.(4) = "EXP" then ("1 " ^ a.(5) ^ " " ^ a.(6), true)
        else if Array.length a > 11 && a.(4) = "CIV" then begin
          (* expected: the civil fields read in the zone, taking pre *)
          let cs = fields_of a 5 in
          match Lazy.force e.sz with
          | Some sz when Lazy.force e.wf ->
            let c = spec_civil sz (sec_of cs) in
            if c.s_kind = SX then (m, false)
            else
              (* a saturated pre means the instant is not representable: reject *)
              let pre_exact = (match c.s_kind with SS -> Z.sub (sec_of cs) (Z.sub (sec_of cs) c.s_pre) | _ -> c.s_pre) in
              ignore pre_exact;
              ("1 " ^ string_of_z c.s_pre ^ " " ^ a.(11), not (c.s_pre = max64 || c.s_pre = min64))
          | _ -> (m, false)
        end
        else (m, false) in
      out m s p
    end else begin
      let t = zi a 3 in let fs = zi a 4 in
      let m = with_model e (fun z ->
        match Lazy.force utc_zone with
        | Err er -> "ERR:" ^ string_of_err er
        | OK u ->
          show_res show
            (bind (break_time z Z0 t) (fun (al, _) ->
             bind (format_impl strftime_o fmt al fs t) (fun txt ->
             parse_impl strptime_o u u fmt txt)))) in
      let p = (match Lazy.force e.sz with
        | Some s when Lazy.force e.wf ->
          (match spec_lookup s t with
           | Some sl -> lossless_fmt fmt sl.sl_off sl.sl_cs.fy && in64 t
           | None -> false)
        | _ -> false) in
      (* %s denotes whole seconds: parse() returns it with a zero fraction *)
      let f6 = (match Lazy.force e.sz with
        | Some s -> (match spec_lookup s t with Some sl -> Z.abs sl.sl_off = z_of_int 86400 | None -> false)
        | None -> false) in
      let out m s p = if f6 then Util.out m s p ^ " ; K F6" else Util.out m s p in
      let has_s = List.exists (fun tk -> match tk with FLib Ls -> true | _ -> false) (lex fmt) in
      out m ("1 " ^ string_of_z t ^ " " ^ (if has_s then "0" else string_of_z fs)) p
    end
  | _ -> "?unknown-op"
