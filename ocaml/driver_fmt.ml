(* driver_fmt.ml — format/parse operations of the extracted model; the
   strftime/strptime oracles are the real libc (libc_stub.c). *)
open Model
open Util
open Driver_zone

external c_strftime : string -> int array -> string = "verif_strftime"
external c_strptime : string -> string -> int array -> int array = "verif_strptime"

let string_of_bytes (l : z list) : string =
  let b = Buffer.create 32 in
  List.iter (fun c -> Buffer.add_char b (Char.chr ((int_of_z c) land 255))) l; Buffer.contents b
let bytes_of_string (s : string) : z list = List.init (String.length s) (fun i -> z_of_int (Char.code s.[i]))

let clampi (v : z) : int =
  (* tm fields are C ints *)
  match v with Z0 -> 0 | Zpos p -> if pos_bits p > 31 then 2147483647 else int_of_pos p
             | Zneg p -> if pos_bits p > 32 then (-2147483648) else max (-2147483648) (- (int_of_pos p))
let arr_of_tm (t : tmrec) : int array =
  Array.map clampi [| t.tm_sec; t.tm_min; t.tm_hour; t.tm_mday; t.tm_mon; t.tm_year; t.tm_wday; t.tm_yday; t.tm_isdst |]

(* the oracle sees a C string: cut at the first NUL *)
let cstr (s : string) : string = match String.index_opt s '\000' with Some i -> String.sub s 0 i | None -> s

(* finding F12: FormatTM gives up when a run's rendering needs 16x the run's length or more; the model
   (FormatImpl.format_tm) emulates that, the specification (render as strftime does) does not.  The
   oracle records when a NON-EMPTY rendering was that long, so that the case can be tagged. *)
let cap_hit = ref false
let strftime_o (fmt : z list) (tm : tmrec) : z list =
  let f = cstr (string_of_bytes fmt) in
  let r = c_strftime f (arr_of_tm tm) in
  if String.length r > 0 && String.length r + 1 > 16 * String.length f then cap_hit := true;
  bytes_of_string r
let strptime_o (data : z list) (fmt : z list) (tm : tmrec) : (z list * tmrec) option =
  let ds = cstr (string_of_bytes data) in
  let r = c_strptime ds (cstr (string_of_bytes fmt)) (arr_of_tm tm) in
  if r.(0) < 0 then None
  else begin
    let rest = String.sub ds r.(0) (String.length ds - r.(0)) in
    let zi k = z_of_int r.(k) in
    Some (bytes_of_string rest, { tm_sec = zi 1; tm_min = zi 2; tm_hour = zi 3; tm_mday = zi 4; tm_mon = zi 5;
                                  tm_year = zi 6; tm_wday = zi 7; tm_yday = zi 8; tm_isdst = zi 9 })
  end

let utc_zone : zone res Lazy.t = lazy (reset_to_builtin_utc Z0)
let e15 = z_of_string "1000000000000000"

(* C18: (num, den, bits) of the panel's duration types *)
let c18_types = [ "ns64", (1, 1000000000, 64); "us64", (1, 1000000, 64); "ms64", (1, 1000, 64); "s64", (1, 1, 64);
                  "min32", (60, 1, 32); "h32", (3600, 1, 32); "s8", (1, 1, 8); "s16", (1, 1, 16);
                  "min8", (60, 1, 8); "min16", (60, 1, 16); "third64", (1, 3, 64); "fs64", (1, 1000000000000000, 64) ]

let utc_al (sec : z) : alookup res =
  bind (Lazy.force utc_zone) (fun u -> bind (break_time u Z0 sec) (fun (al, _) -> OK al))

let c18 (a : string array) : string =
  let (num_i, den_i, bits_i) = List.assoc a.(1) c18_types in
  let num = z_of_int num_i and den = z_of_int den_i and bits = z_of_int bits_i in
  let fits v = (Z.compare (rep_min bits) v <> Gt) && (Z.compare v (rep_max bits) <> Gt) in
  match a.(0) with
  | "split" ->
    let c = zi a 2 in
    let m = if a.(1) = "s64" then OK (c, Z0) else split_seconds num den c in
    let s = split_spec num den c in
    let sh (x, y) = string_of_z x ^ " " ^ string_of_z y in
    out (show_res sh m) (sh s) (fits c && in64 (Z.mul c num))
  | "tconv" ->
    let c = zi a 2 in
    let m = bind (if a.(1) = "s64" then OK (c, Z0) else split_seconds num den c) (fun (sec, _) ->
            bind (utc_al sec) (fun al -> OK (show_fields al.al_cs))) in
    let (fsec, _) = split_spec num den c in
    out (show_res (fun x -> x) m) (show_fields (civil_of_seconds fsec)) (fits c && in64 fsec)
  | "tfmt" ->
    let c = zi a 2 in let fmt = bytes_of_hex a.(3) in
    let m = bind (if a.(1) = "s64" then OK (c, Z0) else split_seconds num den c) (fun (sec, sub) ->
            bind (if a.(1) = "s64" then OK Z0 else to_femto num den sub) (fun fs ->
            bind (utc_al sec) (fun al -> format_impl strftime_o fmt al fs sec))) in
    let (fsec, fsub) = split_spec num den c in
    (* spec: floor second, remainder truncated to femtoseconds *)
    let ffs = fst (Z.div_eucl (Z.mul (Z.mul fsub num) e15) den) in
    let cs = civil_of_seconds fsec in
    let sp = render_spec strftime_o fmt cs Z0 [z_of_int 85; z_of_int 84; z_of_int 67] ffs fsec (spec_tm cs false) in
    out (show_res hex_of_bytes m) (hex_of_bytes sp) (fits c && in64 fsec && clean_fmt fmt)
  | "join" ->
    let sec = zi a 2 and fs = zi a 3 in
    let show = function Some v -> "1 " ^ string_of_z v | None -> "0" in
    let m = if den_i > 1 then show_res show (join_subsecond bits den sec fs)
            else if num_i > 1 then show (join_coarse bits num sec)
            else if bits_i = 64 then show (Some sec)
            else show (join_seconds_rep bits sec) in
    let fl = fst (Z.div_eucl sec num) in
    let s = if den_i > 1 then m else if fits fl then "1 " ^ string_of_z fl else "0" in
    out m s (den_i = 1)
  | _ ->
    (* tparse <T> <fmt> <input> [EXP count | REJ] *)
    let fmt = bytes_of_hex a.(2) and input = bytes_of_hex a.(3) in
    let show = function Some v -> "1 " ^ string_of_z v | None -> "0" in
    let m = (match Lazy.force utc_zone with
      | Err er -> "ERR:" ^ string_of_err er
      | OK u ->
        (match parse_impl strptime_o u u fmt input with
         | Err er -> "ERR:" ^ string_of_err er
         | OK None -> "0"
         | OK (Some (sec, fs)) ->
           if den_i > 1 then show_res show (join_subsecond bits den sec fs)
           else if num_i > 1 then show (join_coarse bits num sec)
           else if bits_i = 64 then show (Some sec)
           else show (join_seconds_rep bits sec))) in
    let (s, p) = if Array.length a > 4 && a.(4) = "REJ" then ("0", true)
                 else if Array.length a > 5 && a.(4) = "EXP" then ("1 " ^ a.(5), true)
                 else (m, false) in
    out m s p

let run_case (a : string array) : string =
  match a.(0) with
  | "fmt" ->
    (* fmt <zid> <fmt hex> <t> <fs> *)
    cap_hit := false;
    let e = get a.(1) in
    let fmt = bytes_of_hex a.(2) in let t = zi a 3 in let fs = zi a 4 in
    let m = with_model e (fun z ->
      show_res hex_of_bytes (bind (break_time z Z0 t) (fun (al, _) -> format_impl strftime_o fmt al fs t))) in
    let sp = (match Lazy.force e.sz with
      | Some s when Lazy.force e.wf ->
        (match spec_lookup s t with
         | Some sl -> Some (render_spec strftime_o fmt sl.sl_cs sl.sl_off sl.sl_abbr fs t (spec_tm sl.sl_cs sl.sl_dst))
         | None -> None)
      | _ -> None) in
    let nonneg = (match fs with Zneg _ -> false | _ -> true) in
    let r = out m (match sp with Some b -> hex_of_bytes b | None -> "undef")
      (sp <> None && clean_fmt fmt && in64 t && nonneg && (Z.compare fs e15 = Lt)) in
    if !cap_hit then r ^ " ; K F12" else r
  | "parse" | "fp" ->
    (* parse <zid> <fmt hex> <input hex> [EXP t fs | REJ]      (C09)
       fp    <zid> <fmt hex> <t> <fs> [<parse zid>]            (C07: format then parse) *)
    let e = get a.(1) in
    let fmt = bytes_of_hex a.(2) in
    let show = function Some (t, f) -> "1 " ^ string_of_z t ^ " " ^ string_of_z f | None -> "0" in
    if a.(0) = "parse" then begin
      let input = bytes_of_hex a.(3) in
      let m = with_model e (fun z ->
        match Lazy.force utc_zone with
        | OK u -> show_res show (parse_impl strptime_o z u fmt input)
        | Err er -> "ERR:" ^ string_of_err er) in
      let (s, p) =
        if Array.length a > 4 && a.(4) = "REJ" then ("0", true)
        else if Array.length a > 6 && a.(4) = "EXP" then ("1 " ^ a.(5) ^ " " ^ a.(6), true)
        else if Array.length a > 11 && a.(4) = "CIV" then begin
          (* expected: the civil fields read in the zone, taking pre *)
          let cs = fields_of a 5 in
          match Lazy.force e.sz with
          | Some sz when Lazy.force e.wf ->
            let c = spec_civil sz (sec_of cs) in
            if c.s_kind = SX then (m, false)
            else
              (* a saturated pre means the instant is not representable: reject *)
              let pre_exact = (match c.s_kind with SS -> Z.sub (sec_of cs) (Z.sub (sec_of cs) c.s_pre) | _ -> c.s_pre) in
              ignore pre_exact;
              ("1 " ^ string_of_z c.s_pre ^ " " ^ a.(11), not (c.s_pre = max64 || c.s_pre = min64))
          | _ -> (m, false)
        end
        else (m, false) in
      out m s p
    end else begin
      let t = zi a 3 in let fs = zi a 4 in
      (* optional 6th field: the zone handed to parse() ("any zone"); default UTC *)
      let with_pz k = if Array.length a > 5 then with_model (get a.(5)) (fun pz -> k (Some pz)) else k None in
      let m = with_model e (fun z ->
        match Lazy.force utc_zone with
        | Err er -> "ERR:" ^ string_of_err er
        | OK u ->
          with_pz (fun pzo ->
          let pz = (match pzo with Some pz -> pz | None -> u) in
          show_res show
            (bind (break_time z Z0 t) (fun (al, _) ->
             bind (format_impl strftime_o fmt al fs t) (fun txt ->
             parse_impl strptime_o pz u fmt txt))))) in
      let p = (match Lazy.force e.sz with
        | Some s when Lazy.force e.wf ->
          (match spec_lookup s t with
           | Some sl -> lossless_fmt fmt sl.sl_off sl.sl_cs.fy && in64 t
           | None -> false)
        | _ -> false) in
      (* %s denotes whole seconds: parse() returns it with a zero fraction *)
      let f6 = (match Lazy.force e.sz with
        | Some s -> (match spec_lookup s t with Some sl -> Z.abs sl.sl_off = z_of_int 86400 | None -> false)
        | None -> false) in
      (* F15: a lossy item after the lossless one it duplicates (parse keeps the LAST value scanned for each field):
         the format passes lossless_fmt but not the executable side condition of the round-trip theorem *)
      let f15 = (match Lazy.force e.sz with
        | Some s -> (match spec_lookup s t with
                     | Some sl -> lossless_fmt fmt sl.sl_off sl.sl_cs.fy && not (last_writer_ok_x fmt sl.sl_off sl.sl_cs.fy)
                     | None -> false)
        | None -> false) in
      let out m s p = if f6 then Util.out m s p ^ " ; K F6" else if f15 then Util.out m s p ^ " ; K F15" else Util.out m s p in
      let has_s = List.exists (fun tk -> match tk with FLib Ls -> true | _ -> false) (lex fmt) in
      out m ("1 " ^ string_of_z t ^ " " ^ (if has_s then "0" else string_of_z fs)) p
    end
  | "split" | "tfmt" | "tconv" | "tparse" | "join" -> c18 a
  | _ -> "?unknown-op"
