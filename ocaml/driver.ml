(* driver.ml — runs the extracted Coq model (Model) on a case file.
   For each case line prints:   M <model result> ; S <spec result> ; P <0|1>
   M = the Impl64 model's answer (or ERR:<kind>), S = what the Spec layer says
   the answer must be, P = 1 iff the case lies inside the property's domain. *)
open Model

open Util

(* spec-normalised civil time of six ctor args, aligned *)
let spec_ct tag a off =
  align_spec tag (norm_spec (zi a off) (zi a (off+1)) (zi a (off+2)) (zi a (off+3)) (zi a (off+4)) (zi a (off+5)))
let ctor_dom a off =
  let l = List.init 6 (fun k -> zi a (off + k)) in
  all_in64 l && in64 (carry_year (zi a off) (zi a (off+1)))
  && in64 (norm_spec (zi a off) (zi a (off+1)) (zi a (off+2)) (zi a (off+3)) (zi a (off+4)) (zi a (off+5))).fy
let model_ct tag a off =
  construct64 tag (zi a off) (zi a (off+1)) (zi a (off+2)) (zi a (off+3)) (zi a (off+4)) (zi a (off+5))

let z1 = z_of_int 1
let z3 = z_of_int 3
let z7 = z_of_int 7
let z0 = Z0

let next_wd_spec (day : z) (w : z) (dir : int) : z =
  (* nearest day strictly after/before [day] with weekday w *)
  let rec go k =
    let cand = if dir > 0 then Z.add day (z_of_int k) else Z.sub day (z_of_int k) in
    if weekday_of_days cand = w then cand else if k > 8 then cand else go (k + 1) in
  go 1

let show_optz = function Some v -> string_of_z v | None -> "U"
let show_ptrans (t : ptrans) : string =
  (match t.pt_date with
   | None -> "U"
   | Some (DJ d) -> "J " ^ string_of_z d
   | Some (DN d) -> "N " ^ string_of_z d
   | Some (DM (m, w, d)) -> "M " ^ string_of_z m ^ " " ^ string_of_z w ^ " " ^ string_of_z d)
  ^ " / " ^ show_optz t.pt_time
let show_posix (r : posix_tz option) : string =
  match r with
  | None -> "0"
  | Some z -> Printf.sprintf "1 %s %s %s %s ; %s ; %s" (hex_of_bytes z.std_abbr) (show_optz z.std_offset)
                (hex_of_bytes z.dst_abbr) (show_optz z.dst_offset) (show_ptrans z.dst_start) (show_ptrans z.dst_end)

let run_case (a : string array) : string =
  let op = a.(0) in
  match op with
  | "ctor" ->
    let tag = nat_of_int (int_of_string a.(1)) in
    out (show_res show_fields (model_ct tag a 2)) (show_fields (spec_ct tag a 2)) (ctor_dom a 2)
  | "add" | "sub" | "addeq" | "subeq" | "addl" ->
    (* c + n, c - n and the other spellings (c += n, c -= n, n + c): the header defines the compound forms through
       the binary ones, so one model serves them all *)
    let op = (match op with "addeq" | "addl" -> "add" | "subeq" -> "sub" | o -> o) in
    let tag = nat_of_int (int_of_string a.(1)) in
    let n = zi a 8 in
    let m = bind (model_ct tag a 2) (fun c -> if op = "add" then plus64 tag c n else minus64 tag c n) in
    let c = spec_ct tag a 2 in
    let o = if op = "add" then Z.add (ord_spec tag c) n else Z.sub (ord_spec tag c) n in
    let s = of_ord_spec tag o in
    out (show_res show_fields m) (show_fields s) (ctor_dom a 2 && in64 n && in64 s.fy)
  | "diff" ->
    let tag = nat_of_int (int_of_string a.(1)) in
    let m = bind (model_ct tag a 2) (fun c1 -> bind (model_ct tag a 8) (fun c2 -> difference64 tag c1 c2)) in
    let s = Z.sub (ord_spec tag (spec_ct tag a 2)) (ord_spec tag (spec_ct tag a 8)) in
    out (show_res string_of_z m) (string_of_z s) (ctor_dom a 2 && ctor_dom a 8 && in64 s)
  | "inc" ->
    let tag = nat_of_int (int_of_string a.(1)) in
    let c = model_ct tag a 2 in
    let pl k = bind c (fun c -> plus64 tag c (z_of_int k)) in
    let mi k = bind c (fun c -> minus64 tag c (z_of_int k)) in
    let ms = [pl 1; pl 1; mi 1; mi 1; pl 3; mi 3] in
    let sc = spec_ct tag a 2 in
    let sp k = of_ord_spec tag (Z.add (ord_spec tag sc) (z_of_int k)) in
    let ss = [sp 1; sp 1; sp (-1); sp (-1); sp 3; sp (-3)] in
    let anyerr = List.exists (fun r -> match r with Err _ -> true | _ -> false) ms in
    out (if anyerr then "ERR:Overflow" else String.concat " | " (List.map (show_res show_fields) ms))
      (String.concat " | " (List.map show_fields ss))
      (ctor_dom a 2 && List.for_all (fun f -> in64 f.fy) ss)
  | "stream" ->
    let tag = nat_of_int (int_of_string a.(1)) in
    let m = bind (model_ct tag a 2) (fun c -> OK (stream64 tag c)) in
    out (show_res hex_of_bytes m) (hex_of_bytes (stream64 tag (spec_ct tag a 2))) (ctor_dom a 2)
  | "conv" ->
    let t1 = nat_of_int (int_of_string a.(1)) and t2 = nat_of_int (int_of_string a.(2)) in
    let m = bind (model_ct t1 a 3) (fun c -> OK (convert64 t2 c)) in
    out (show_res show_fields m) (show_fields (align_spec t2 (spec_ct t1 a 3))) (ctor_dom a 3)
  | "cmp" ->
    let t1 = nat_of_int (int_of_string a.(1)) and t2 = nat_of_int (int_of_string a.(2)) in
    let m = bind (model_ct t1 a 3) (fun c1 -> bind (model_ct t2 a 9) (fun c2 ->
      let lt = lt64 c1 c2 and gt = lt64 c2 c1 and eq = eq64 c1 c2 in
      OK (String.concat "" (List.map b2s [lt; not gt; eq; not eq; not lt; gt])))) in
    let s1 = sec_of (spec_ct t1 a 3) and s2 = sec_of (spec_ct t2 a 9) in
    let cmp = Z.compare s1 s2 in
    let lt = (cmp = Lt) and gt = (cmp = Gt) and eq = (cmp = Eq) in
    out (show_res (fun x -> x) m) (String.concat "" (List.map b2s [lt; not gt; eq; not eq; not lt; gt]))
      (ctor_dom a 3 && ctor_dom a 9)
  | "wd" ->
    let m = bind (model_ct O a 1) get_weekday64 in
    let c = spec_ct O a 1 in
    out (show_res string_of_z m) (string_of_z (weekday_of_days (days_from_civil c.fy c.fm c.fd))) (ctor_dom a 1)
  | "yd" ->
    let m = bind (model_ct O a 1) get_yearday64 in
    let c = spec_ct O a 1 in
    let s = Z.add (Z.sub (days_from_civil c.fy c.fm c.fd) (days_from_civil c.fy z1 z1)) z1 in
    out (show_res string_of_z m) (string_of_z s) (ctor_dom a 1)
  | "nwd" | "pwd" ->
    let tag = nat_of_int 3 in
    let a6 = Array.append (Array.sub a 1 3) [| "0"; "0"; "0" |] in
    let w = zi a 4 in
    let m = bind (model_ct tag a6 0) (fun c -> if op = "nwd" then next_weekday64 c w else prev_weekday64 c w) in
    let c = spec_ct tag a6 0 in
    let day = days_from_civil c.fy c.fm c.fd in
    let r = next_wd_spec day w (if op = "nwd" then 1 else -1) in
    let s = civil_of_seconds (Z.mul r (z_of_int 86400)) in
    out (show_res show_fields m) (show_fields s) (ctor_dom a6 0 && in64 s.fy)
  | "fx_name" ->
    let off = zi a 1 in
    out (show_res hex_of_bytes (fixedOffsetToName off)) (hex_of_bytes (fixed_name_spec off)) (in64 off)
  | "fx_abbr" ->
    let off = zi a 1 in
    out (show_res hex_of_bytes (fixedOffsetToAbbr off)) (hex_of_bytes (fixed_abbr_spec off)) (in64 off)
  | "fx_from" ->
    let s = bytes_of_hex a.(1) in
    let m = (match fixedOffsetFromName s with Some o -> "1 " ^ string_of_z o | None -> "0") in
    let sp = (match fixed_from_spec s with Some o -> "1 " ^ string_of_z o | None -> "0") in
    out m sp true
  | "posix" ->
    let s = bytes_of_hex a.(1) in
    out (show_posix (parsePosixSpec s)) (show_posix (posix_spec s)) (nul_free s)
  | "fmt" | "parse" | "fp" | "split" | "tfmt" | "tconv" | "tparse" | "join" -> Driver_fmt.run_case a
  | _ -> Driver_zone.run_case a

let () =
  let ic = open_in Sys.argv.(1) in
  let oc = if Array.length Sys.argv > 2 then open_out Sys.argv.(2) else stdout in
  (try
    while true do
      let line = input_line ic in
      if String.length line = 0 || line.[0] = '#' then output_string oc "\n"
      else begin
        let a = Array.of_list (List.filter (fun s -> s <> "") (String.split_on_char ' ' line)) in
        let r = (try run_case a with e -> "EXN " ^ Printexc.to_string e) in
        output_string oc r; output_char oc '\n'
      end
    done
  with End_of_file -> ());
  close_out oc
