/* libc_stub.c — supplies the strftime/strptime *oracle arguments* of the
   extracted model with the real C library (DESIGN.md section 7). */
#define _XOPEN_SOURCE 700
#define _GNU_SOURCE
#include <string.h>
#include <time.h>
#include <stdlib.h>
#include <caml/mlvalues.h>
#include <caml/alloc.h>
#include <caml/memory.h>

static void tm_of_array(value a, struct tm* tm) {
  memset(tm, 0, sizeof *tm);
  tm->tm_sec = Int_val(Field(a, 0)); tm->tm_min = Int_val(Field(a, 1)); tm->tm_hour = Int_val(Field(a, 2));
  tm->tm_mday = Int_val(Field(a, 3)); tm->tm_mon = Int_val(Field(a, 4)); tm->tm_year = Int_val(Field(a, 5));
  tm->tm_wday = Int_val(Field(a, 6)); tm->tm_yday = Int_val(Field(a, 7)); tm->tm_isdst = Int_val(Field(a, 8));
}

/* complete rendering (buffer grows until it fits; "" for an empty rendering) */
CAMLprim value verif_strftime(value fmt, value tma) {
  CAMLparam2(fmt, tma);
  CAMLlocal1(res);
  struct tm tm;
  tm_of_array(tma, &tm);
  size_t cap = 256;
  for (int i = 0; i < 12; ++i, cap *= 4) {
    char* buf = malloc(cap);
    size_t n = strftime(buf, cap, String_val(fmt), &tm);
    if (n > 0) { res = caml_alloc_initialized_string(n, buf); free(buf); CAMLreturn(res); }
    free(buf);
  }
  res = caml_alloc_string(0);
  CAMLreturn(res);
}

/* returns [| consumed (-1 = NULL); 9 tm fields |] */
CAMLprim value verif_strptime(value data, value fmt, value tma) {
  CAMLparam3(data, fmt, tma);
  CAMLlocal1(res);
  struct tm tm;
  tm_of_array(tma, &tm);
  const char* d = String_val(data);
  char* e = strptime(d, String_val(fmt), &tm);
  res = caml_alloc_tuple(10);
  Store_field(res, 0, Val_int(e ? (int)(e - d) : -1));
  Store_field(res, 1, Val_int(tm.tm_sec)); Store_field(res, 2, Val_int(tm.tm_min)); Store_field(res, 3, Val_int(tm.tm_hour));
  Store_field(res, 4, Val_int(tm.tm_mday)); Store_field(res, 5, Val_int(tm.tm_mon)); Store_field(res, 6, Val_int(tm.tm_year));
  Store_field(res, 7, Val_int(tm.tm_wday)); Store_field(res, 8, Val_int(tm.tm_yday)); Store_field(res, 9, Val_int(tm.tm_isdst));
  CAMLreturn(res);
}
