open Model

(* ---------- Z <-> string ---------- *)
let rec pos_of_int (n : int) : positive =
  if n = 1 then XH
  else if n land 1 = 0 then XO (pos_of_int (n lsr 1))
  else XI (pos_of_int (n lsr 1))
let z_of_int (n : int) : z =
  if n = 0 then Z0 else if n > 0 then Zpos (pos_of_int n) else Zneg (pos_of_int (-n))
let z10 = z_of_int 10
let z_of_string (s : string) : z =
  let neg = String.length s > 0 && s.[0] = '-' in
  let body = if neg then String.sub s 1 (String.length s - 1) else s in
  if String.length body <= 17 then
    let v = int_of_string body in z_of_int (if neg then -v else v)
  else begin
    let acc = ref Z0 in
    String.iter (fun c ->
      acc := Z.add (Z.mul !acc z10) (z_of_int (Char.code c - 48))) body;
    if neg then Z.opp !acc else !acc
  end
let rec int_of_pos (p : positive) : int =
  match p with XH -> 1 | XO q -> 2 * int_of_pos q | XI q -> 2 * int_of_pos q + 1
let rec pos_bits (p : positive) : int =
  match p with XH -> 1 | XO q | XI q -> 1 + pos_bits q
let string_of_z (v : z) : string =
  let small p = pos_bits p <= 61 in
  match v with
  | Z0 -> "0"
  | Zpos p when small p -> string_of_int (int_of_pos p)
  | Zneg p when small p -> string_of_int (- (int_of_pos p))
  | _ ->
    let neg = (match v with Zneg _ -> true | _ -> false) in
    let a = ref (if neg then Z.opp v else v) in
    let buf = Buffer.create 24 in
    let digits = ref [] in
    while !a <> Z0 do
      let (q, r) = Z.div_eucl !a z10 in
      digits := (match r with Z0 -> 0 | Zpos p -> int_of_pos p | Zneg _ -> 0) :: !digits;
      a := q
    done;
    if neg then Buffer.add_char buf '-';
    List.iter (fun d -> Buffer.add_char buf (Char.chr (48 + d))) !digits;
    Buffer.contents buf
let int_of_z (v : z) : int =
  match v with Z0 -> 0 | Zpos p -> int_of_pos p | Zneg p -> - (int_of_pos p)
let rec nat_of_int (n : int) : nat = if n <= 0 then O else S (nat_of_int (n - 1))
let rec int_of_nat (n : nat) : int = match n with O -> 0 | S k -> 1 + int_of_nat k

(* ---------- bytes <-> hex ---------- *)
let bytes_of_hex (h : string) : z list =
  if h = "-" then [] else begin
    let n = String.length h / 2 in
    List.init n (fun i -> z_of_int (int_of_string ("0x" ^ String.sub h (2 * i) 2)))
  end
let hex_of_bytes (l : z list) : string =
  if l = [] then "-" else
  String.concat "" (List.map (fun b -> Printf.sprintf "%02x" ((int_of_z b) land 255)) l)

let string_of_err = function
  | Overflow -> "Overflow" | OOB -> "OOB" | Uninit -> "Uninit" | Precond -> "Precond" | Fuel -> "Fuel"
let show_res (f : 'a -> string) (r : 'a res) : string =
  match r with OK a -> f a | Err e -> "ERR:" ^ string_of_err e

let show_fields (f : fields) : string =
  String.concat " " (List.map string_of_z [f.fy; f.fm; f.fd; f.fhh; f.fmm; f.fss])

let zi a i = z_of_string a.(i)
let b2s b = if b then "1" else "0"
let all_in64 l = List.for_all in64 l
(* result triple *)
let out m s p = Printf.sprintf "M %s ; S %s ; P %s" m s (b2s p)
