(* Source64InfoProofs.v - tie between the source-derived checked functions of
   src/time_zone_info.cc (Source64.v: s64_IsLeap, s64_ToPosixWeekday,
   s64_AllYearDST, s64_TransOffset) and the hand-written model (ZoneLoad.v).
   The C++ structs are passed field by field (one argument per member path the
   function reads); [flat_trans] / [flat_allyear] say how a model value maps to
   those arguments.  Hypotheses: the output invariant of the footer parser
   (LoadSafe.pt_ok / ptz_ok, proved for every accepted string), nothing else. *)
From CCTZ Require Import Base SrcConstants Cal CivilImpl PosixImpl ZoneLoad ZoneSpec RuleProofs LoadSafe Source64.
Require Import Lia ZifyBool.
Local Open Scope Z_scope.

Definition flat_trans (leap : bool) (wd : Z) (pt : ptrans) : res Z :=
  match pt_date pt, pt_time pt with
  | Some (DJ d), Some t => s64_TransOffset leap wd 0 d 0 0 0 0 t
  | Some (DN d), Some t => s64_TransOffset leap wd 1 0 0 0 0 d t
  | Some (DM m w k), Some t => s64_TransOffset leap wd 2 0 m w k 0 t
  | _, _ => Err Uninit
  end.

Definition fmt_of (d : pdate) : Z := match d with DJ _ => 0 | DN _ => 1 | DM _ _ _ => 2 end.
Definition jday_of (d : pdate) : Z := match d with DJ x => x | _ => 0 end.
Definition nday_of (d : pdate) : Z := match d with DN x => x | _ => 0 end.

Definition flat_allyear (p : posix_tz) : res bool :=
  match pt_date (dst_start p), pt_time (dst_start p), pt_date (dst_end p), pt_time (dst_end p), std_offset p, dst_offset p with
  | Some sd, Some st, Some ed, Some et, Some so, Some dof =>
      s64_AllYearDST (fmt_of ed) (jday_of ed) et dof (fmt_of sd) (nday_of sd) st so
  | _, _, _, _, _, _ => Err Uninit
  end.

Lemma s64_IsLeap_tie y : s64_IsLeap y = OK (is_leap_year64 y).
Proof. reflexivity. Qed.

Lemma s64_ToPosixWeekday_tie w : 0 <= w <= 6 -> s64_ToPosixWeekday w = OK (to_posix_weekday w).
Proof.
  intros H. assert (w = 0 \/ w = 1 \/ w = 2 \/ w = 3 \/ w = 4 \/ w = 5 \/ w = 6) as C by lia.
  destruct C as [->|[->|[->|[->|[->|[->| ->]]]]]]; reflexivity.
Qed.

Lemma in64_small z : -4000000000000 <= z <= 4000000000000 -> int64 z.
Proof. unfold int64, min64, max64. lia. Qed.
Lemma in32_small z : -1000000 <= z <= 1000000 -> int32 z.
Proof. unfold int32, min32, max32. lia. Qed.

Lemma tail_ok x tm r : (do a <- mul64 x src_kSecsPerDay ;; add64 a tm) = OK r ->
  (do t14 <- mul64 x 86400 ;; do t15 <- add64 t14 tm ;; OK t15) = OK r.
Proof.
  change src_kSecsPerDay with 86400. destruct (mul64 x 86400) as [a|e]; cbn [bind]; [|discriminate].
  destruct (add64 a tm); cbn [bind]; auto.
Qed.

Ltac ok64 := rewrite chk64_in by (apply in64_small; lia); cbn [bind].
Ltac ok32 := rewrite chk32_in by (apply in32_small; lia); cbn [bind].

Lemma tbl_get_nth l i x : nth_res l i = OK x -> tbl_get l i = OK x.
Proof.
  unfold nth_res, tbl_get. destruct (i <? 0) eqn:E; [discriminate|].
  destruct (nth_error l (Z.to_nat i)) as [y|] eqn:N; [|discriminate]. intros H. inversion H. subst y.
  pose proof (nth_error_Some l (Z.to_nat i)) as [L _]. specialize (L ltac:(congruence)).
  replace ((0 <=? i) && (i <? Z.of_nat (length l))) with true by lia.
  f_equal. apply nth_error_nth. exact N.
Qed.

Lemma month_offsets_rows leap : nth (Z.to_nat (Source64.b2z leap)) [src_kMonthOffsets0; src_kMonthOffsets1] [] = month_offsets leap.
Proof. destruct leap; reflexivity. Qed.

Lemma s64_TransOffset_tie leap wd pt r :
  pt_ok pt -> -1000000 <= wd <= 1000000 ->
  trans_offset leap wd pt = OK r -> flat_trans leap wd pt = OK r.
Proof.
  intros (d & tm & -> & Hd & Ht) Hw H.
  unfold trans_offset in H. cbn [pt_date pt_time get_opt bind] in H.
  unfold flat_trans. cbn [pt_date pt_time].
  destruct d as [day|day|month week weekday]; unfold pdate_ok' in Hd.
  - (* Jn *)
    change (nth_res src_kMonthOffsets1 3) with (OK 60 : res Z) in H. cbn [bind] in H.
    unfold s64_TransOffset. change (1 =? 0) with false. cbv iota.
    replace (0 =? 0) with true by reflexivity. cbv iota.
    change (tbl_get2 _ 1 3) with (OK 60 : res Z).
    destruct leap; cbn [negb orb bind] in *.
    + destruct (day <? 60) eqn:E; cbn [bind].
      * unfold sub64. ok64. apply tail_ok. exact H.
      * apply tail_ok. exact H.
    + unfold sub64. ok64. apply tail_ok. exact H.
  - (* n *)
    unfold s64_TransOffset. cbn [bind] in *. apply tail_ok. exact H.
  - (* Mm.w.d *)
    assert (Rm : 1 <= month <= 12 /\ 1 <= week <= 5 /\ 0 <= weekday <= 6) by lia.
    destruct Rm as (Rm & Rk & Rd).
    apply bind_ok in H. destruct H as (days & Hdays & H).
    destruct (nth_res (month_offsets leap) (month + CivilImpl.b2z (week =? 5))) as [d0|] eqn:N; [|discriminate].
    cbn [bind] in Hdays.
    assert (R0 : -1 <= d0 <= 366).
    { unfold nth_res in N. destruct (_ <? 0); [discriminate|].
      destruct (nth_error _ _) eqn:NE; [|discriminate]. inversion N; subst.
      apply nth_error_In in NE. destruct leap; cbn in NE; lia. }
    unfold s64_TransOffset. change (2 =? 0) with false. change (2 =? 1) with false. change (2 =? 2) with true. cbv iota.
    assert (Rw : -7 < Z.rem (wd + d0) 7 < 7) by (pose proof (Z.rem_bound_abs (wd + d0) 7); lia).
    destruct (week =? 5) eqn:W; cbn [Source64.b2z CivilImpl.b2z] in *.
    + unfold add32. ok32.
      unfold tbl_get2.
      change [[-1; 0; 31; 59; 90; 120; 151; 181; 212; 243; 273; 304; 334; 365];
              [-1; 0; 31; 60; 91; 121; 152; 182; 213; 244; 274; 305; 335; 366]]
        with [src_kMonthOffsets0; src_kMonthOffsets1].
      replace ((0 <=? Source64.b2z leap) && (Source64.b2z leap <? Z.of_nat (length [src_kMonthOffsets0; src_kMonthOffsets1]))) with true by (destruct leap; reflexivity).
      change [[-1; 0; 31; 59; 90; 120; 151; 181; 212; 243; 273; 304; 334; 365];
              [-1; 0; 31; 60; 91; 121; 152; 182; 213; 244; 274; 305; 335; 366]]
        with [src_kMonthOffsets0; src_kMonthOffsets1].
      replace (nth (Z.to_nat (Source64.b2z leap)) [src_kMonthOffsets0; src_kMonthOffsets1] []) with (month_offsets leap) by (destruct leap; reflexivity).
      rewrite (tbl_get_nth _ _ _ N). cbn [bind].
      unfold add64, sub64. ok64. ok64. ok64. ok64.
      assert (-7 < Z.rem (Z.rem (wd + d0) 7 + 7 - 1 - weekday) 7 < 7) as R2
        by (pose proof (Z.rem_bound_abs (Z.rem (wd + d0) 7 + 7 - 1 - weekday) 7); lia).
      ok64. ok64.
      inversion Hdays; subst days. apply tail_ok. exact H.
    + unfold add32. ok32.
      unfold tbl_get2.
      change [[-1; 0; 31; 59; 90; 120; 151; 181; 212; 243; 273; 304; 334; 365];
              [-1; 0; 31; 60; 91; 121; 152; 182; 213; 244; 274; 305; 335; 366]]
        with [src_kMonthOffsets0; src_kMonthOffsets1].
      replace ((0 <=? Source64.b2z leap) && (Source64.b2z leap <? Z.of_nat (length [src_kMonthOffsets0; src_kMonthOffsets1]))) with true by (destruct leap; reflexivity).
      change [[-1; 0; 31; 59; 90; 120; 151; 181; 212; 243; 273; 304; 334; 365];
              [-1; 0; 31; 60; 91; 121; 152; 182; 213; 244; 274; 305; 335; 366]]
        with [src_kMonthOffsets0; src_kMonthOffsets1].
      replace (nth (Z.to_nat (Source64.b2z leap)) [src_kMonthOffsets0; src_kMonthOffsets1] []) with (month_offsets leap) by (destruct leap; reflexivity).
      rewrite (tbl_get_nth _ _ _ N). cbn [bind].
      unfold add64, sub64, add32, sub32, mul32. ok64. ok32. ok64.
      assert (-7 < Z.rem (weekday + 7 - Z.rem (wd + d0) 7) 7 < 7) as R2
        by (pose proof (Z.rem_bound_abs (weekday + 7 - Z.rem (wd + d0) 7) 7); lia).
      ok64. ok32. ok32. ok64.
      inversion Hdays; subst days. apply tail_ok. exact H.
Qed.

Lemma s64_AllYearDST_tie p b :
  ptz_ok p -> dst_abbr p <> [] -> all_year_dst p = OK b -> flat_allyear p = OK b.
Proof.
  intros (so & Hso & Rso & [E | (dof & Hdof & Rdof & (sd & st & Es & Hsd & Rst) & (ed & et & Ee & Hed & Ret))]) Hne H;
    [contradiction|].
  unfold all_year_dst in H. unfold flat_allyear.
  rewrite Es, Ee, Hso, Hdof in *. cbn [pt_date pt_time get_opt bind] in *.
  unfold s64_AllYearDST.
  destruct sd as [x|x|m w k]; cbn [fmt_of nday_of jday_of] in *;
    [ change (negb (0 =? 1)) with true; cbv iota; exact H | | change (negb (2 =? 1)) with true; cbv iota; exact H ].
  change (negb (1 =? 1)) with false. cbv iota.
  destruct (negb (x =? 0)); [exact H|].
  destruct (negb (st =? 0)); [exact H|].
  destruct ed as [j|j|m w k]; cbn [fmt_of jday_of] in *;
    [ | change (negb (1 =? 0)) with true; cbv iota; exact H | change (negb (2 =? 0)) with true; cbv iota; exact H ].
  change (negb (0 =? 0)) with false. cbv iota.
  change (tbl_get [365; 366] 0) with (OK 365 : res Z). cbn [bind].
  change (nthZ src_kDaysPerYear 0) with 365 in H.
  destruct (negb (j =? 365)); [exact H|].
  unfold sub64, add64. ok64. ok64.
  change src_kSecsPerDay with 86400 in H.
  inversion H. destruct (et + (so - dof) =? 86400); reflexivity.
Qed.

(* the source-derived TransOffset computes the calendar reading of the rule date, every year *)
Lemma src64_trans_offset_matches_calendar_lemma : forall Y d time,
  pdate_ok' d = true -> -604799 <= time <= 604799 ->
  flat_trans (is_leap_year64 Y) (posix_wd_of_days (days_from_civil Y 1 1)) (mkPT (Some d) (Some time))
  = OK (date_yday d Y * 86400 + time).
Proof.
  intros Y d time Hd Ht. apply s64_TransOffset_tie.
  - exists d, time. repeat split; [exact Hd | lia | lia].
  - unfold posix_wd_of_days. pose proof (Z.mod_pos_bound (Cal.weekday_of_days (days_from_civil Y 1 1) + 1) 7 ltac:(lia)). lia.
  - apply trans_offset_matches_calendar_lemma; [exact Hd | lia].
Qed.

Print Assumptions s64_TransOffset_tie.
Print Assumptions s64_AllYearDST_tie.
