(* SourceFmtLoopSrcProofs.v - sl_format_tie without the ToWeek oracle: the oracle parameter ext_ToWeek of the
   source-derived format() loop (SourceFmtLoop.v) is instantiated with the source-derived ToWeek
   (SourceFmtWeek.v) applied to civil_day(al.cs) (Source64.s64_convert_second_day), as the C++ calls it. *)
From Coq Require Import ZArith List Lia Bool.
From CCTZ Require Import Base SrcConstants Cal CivilImpl PosixImpl ZoneLoad FormatImpl.
From CCTZ Require Import SourcePosix SourceFmtLoop SourceFmtLoopProofs.
From CCTZ Require Import Source64 Source64Proofs Source64MoreProofs SourceFmtWeek SourceFmtWeekProofs.
Import ListNotations.
Local Open Scope Z_scope.

(* ToWeek(civil_day(al.cs), week_start) *)
Definition src_ToWeek (cs : fields) (wd : Z) : res Z :=
  do cd <- Source64.s64_convert_second_day cs ;; sw_ToWeek s64_fuel cd wd.

(* the civil-time values of the week computation are representable (int_least8_t fields, int week number) *)
Definition week_repr (cs : fields) : Prop :=
  forall wd d p w,
    construct64 3 (Z.rem (fy cs) 400) (fm cs) (fd cs) 0 0 0 = OK d ->
    prev_weekday64 (align64 5 d) wd = OK p ->
    to_week (align64 3 cs) wd = OK w ->
    fields_repr d /\ fields_repr p /\ int32 w.

Lemma convert_second_day_is cs : s64_convert_second_day cs = s64m_convert 0 3 cs.
Proof. reflexivity. Qed.

Lemma src_ToWeek_ok cs : week_repr cs ->
  forall wd w, to_week (align64 3 cs) wd = OK w -> src_ToWeek cs wd = OK w.
Proof.
  intros WR wd w H. unfold src_ToWeek.
  eapply bind_step; [rewrite convert_second_day_is; exact (s64m_convert_tie 0 3 cs ltac:(lia) ltac:(lia) ltac:(lia))|].
  cbv beta. change (convert64 3 cs) with (align64 3 cs).
  pose proof H as H'. unfold to_week in H'.
  apply bind_ok in H'. destruct H' as [d [Hd H']]. cbv zeta in H'.
  apply bind_ok in H'. destruct H' as [p [Hp _]].
  assert (Hd' : construct64 3 (Z.rem (fy cs) 400) (fm cs) (fd cs) 0 0 0 = OK d) by exact Hd. clear Hd. rename Hd' into Hd.
  destruct (WR wd d p w Hd Hp H) as (Rd & Rp & Iw).
  exact (sw_ToWeek_tie (align64 3 cs) wd d p w Hd Hp Rd Rp H Iw).
Qed.

Theorem sl_format_src_tie : forall strftime_o al tm fs unix fmt r fuel,
  to_tm al = OK tm ->
  format_impl strftime_o fmt al fs unix = OK r ->
  bytes_ok fmt -> ~ In 0 fmt -> ~ In 0 (al_abbr al) -> 0 <= fs < 10 ^ 15 -> blen fmt < 2 ^ 62 ->
  (3 * length fmt + 30 <= fuel)%nat ->
  week_repr (al_cs al) ->
  sl_format (format_tm strftime_o) src_ToWeek fuel fmt fs (al_cs al) (al_off al) (al_abbr al) tm unix = OK r.
Proof.
  intros strftime_o al tm fs unix fmt r fuel Htm H Hby Hnz Hab Hfs Hsz Hfu WR.
  exact (sl_format_tie_gen strftime_o al tm fs unix src_ToWeek (src_ToWeek_ok (al_cs al) WR) fmt r fuel Htm H Hby Hnz Hab Hfs Hsz Hfu).
Qed.

(* the demo of SourceFmtLoopProofs.v with %U and %W, through the source-derived ToWeek *)
Example sl_format_src_demo :
  sl_format (format_tm demo_strftime) src_ToWeek 60 [37; 85; 32; 37; 87] 0
    (al_cs demo_al) (al_off demo_al) (al_abbr demo_al) demo_tm 1700000000 = OK [48; 53; 32; 48; 54] /\
  format_impl demo_strftime [37; 85; 32; 37; 87] demo_al 0 1700000000 = OK [48; 53; 32; 48; 54].
Proof. split; vm_compute; reflexivity. Qed.

Print Assumptions sl_format_src_tie.
