(* Base.v — checked-integer result monad, int64/int32 arithmetic as C++ performs
   it (truncating division, undefined overflow made an explicit error value),
   byte strings as lists of Z.  No proofs about cctz live here; only the
   vocabulary every model file uses, plus the inversion lemmas the proofs use. *)
From Coq Require Export ZArith List Bool Lia.
Export ListNotations.
Local Open Scope Z_scope.

(* ------------------------------------------------------------------ *)
(* Result monad                                                        *)

Inductive err := Overflow | OOB | Uninit | Precond | Fuel.

Inductive res (A : Type) : Type :=
| OK (a : A)
| Err (e : err).
Arguments OK {A} a.
Arguments Err {A} e.

Definition bind {A B} (r : res A) (f : A -> res B) : res B :=
  match r with OK a => f a | Err e => Err e end.

Declare Scope res_scope.
Delimit Scope res_scope with res.
Notation "'do' x <- e1 ;; e2" := (bind e1 (fun x => e2))
  (at level 200, x name, e1 at level 100, e2 at level 200, right associativity).
Notation "'do' ' p <- e1 ;; e2" := (bind e1 (fun x => match x with p => e2 end))
  (at level 200, p pattern, e1 at level 100, e2 at level 200, right associativity).

Definition is_ok {A} (r : res A) : bool := match r with OK _ => true | _ => false end.

Lemma bind_ok {A B} (r : res A) (f : A -> res B) b :
  bind r f = OK b <-> exists a, r = OK a /\ f a = OK b.
Proof.
  destruct r as [a|e]; simpl; split.
  - intros H; exists a; auto.
  - intros [a' [H1 H2]]; inversion H1; subst; auto.
  - discriminate.
  - intros [a' [H1 _]]; discriminate.
Qed.

(* ------------------------------------------------------------------ *)
(* Machine integers                                                    *)

Definition min64 : Z := -9223372036854775808.
Definition max64 : Z := 9223372036854775807.
Definition min32 : Z := -2147483648.
Definition max32 : Z := 2147483647.

Definition in64 (z : Z) : bool := (min64 <=? z) && (z <=? max64).
Definition in32 (z : Z) : bool := (min32 <=? z) && (z <=? max32).
Definition int64 (z : Z) : Prop := min64 <= z <= max64.
Definition int32 (z : Z) : Prop := min32 <= z <= max32.

Lemma in64_spec z : in64 z = true <-> int64 z.
Proof. unfold in64, int64. rewrite andb_true_iff, !Z.leb_le. tauto. Qed.
Lemma in32_spec z : in32 z = true <-> int32 z.
Proof. unfold in32, int32. rewrite andb_true_iff, !Z.leb_le. tauto. Qed.

Definition chk64 (z : Z) : res Z := if in64 z then OK z else Err Overflow.
Definition chk32 (z : Z) : res Z := if in32 z then OK z else Err Overflow.

Lemma chk64_ok z v : chk64 z = OK v <-> v = z /\ int64 z.
Proof.
  unfold chk64. destruct (in64 z) eqn:E.
  - apply in64_spec in E. split; [intros H; inversion H; subst; split; auto | intros [-> _]; auto].
  - split; [discriminate|]. intros [_ H]. apply in64_spec in H. congruence.
Qed.
Lemma chk32_ok z v : chk32 z = OK v <-> v = z /\ int32 z.
Proof.
  unfold chk32. destruct (in32 z) eqn:E.
  - apply in32_spec in E. split; [intros H; inversion H; subst; split; auto | intros [-> _]; auto].
  - split; [discriminate|]. intros [_ H]. apply in32_spec in H. congruence.
Qed.
Lemma chk64_in z : int64 z -> chk64 z = OK z.
Proof. intros H. apply chk64_ok; auto. Qed.
Lemma chk32_in z : int32 z -> chk32 z = OK z.
Proof. intros H. apply chk32_ok; auto. Qed.

(* 64-bit signed arithmetic: result or Overflow (C++: undefined behaviour). *)
Definition add64 (a b : Z) : res Z := chk64 (a + b).
Definition sub64 (a b : Z) : res Z := chk64 (a - b).
Definition mul64 (a b : Z) : res Z := chk64 (a * b).
Definition neg64 (a : Z) : res Z := chk64 (- a).
(* C++ '/' and '%' truncate toward zero; INT64_MIN / -1 overflows; /0 is UB. *)
Definition div64 (a b : Z) : res Z :=
  if b =? 0 then Err Precond else chk64 (Z.quot a b).
Definition rem64 (a b : Z) : res Z :=
  if b =? 0 then Err Precond
  else if (a =? min64) && (b =? -1) then Err Overflow else OK (Z.rem a b).

(* 32-bit 'int' arithmetic. *)
Definition add32 (a b : Z) : res Z := chk32 (a + b).
Definition sub32 (a b : Z) : res Z := chk32 (a - b).
Definition mul32 (a b : Z) : res Z := chk32 (a * b).
Definition neg32 (a : Z) : res Z := chk32 (- a).

(* A narrowing static_cast that the code relies on being value-preserving. *)
Definition narrow8 (z : Z) : res Z :=
  if (-128 <=? z) && (z <=? 127) then OK z else Err Overflow.
Definition narrow32 (z : Z) : res Z := chk32 z.

Lemma narrow8_ok z v : narrow8 z = OK v <-> v = z /\ -128 <= z <= 127.
Proof.
  unfold narrow8. destruct ((-128 <=? z) && (z <=? 127)) eqn:E.
  - rewrite andb_true_iff, !Z.leb_le in E. split; [intros H; inversion H; subst; split; auto|intros [-> _]; auto].
  - split; [discriminate|]. intros [_ H].
    assert (((-128 <=? z) && (z <=? 127)) = true) by (rewrite andb_true_iff, !Z.leb_le; lia).
    congruence.
Qed.

(* Two's-complement wrap (only where the C++ performs *unsigned* arithmetic). *)
Definition wrap64u (z : Z) : Z := z mod 18446744073709551616.
Definition wrap32u (z : Z) : Z := z mod 4294967296.

(* ------------------------------------------------------------------ *)
(* Byte strings: list Z with elements 0..255.                          *)

Definition byte := Z.
Definition bytes := list Z.

Definition is_byte (c : Z) : bool := (0 <=? c) && (c <=? 255).
Definition all_bytes (s : bytes) : bool := forallb is_byte s.

(* C-string read: position i of a std::string::c_str(): in range, the byte;
   at i = length, the terminating NUL; beyond, out of bounds. *)
Definition cstr_at (s : bytes) (i : nat) : res Z :=
  match nth_error s i with
  | Some c => OK c
  | None => if Nat.eqb i (length s) then OK 0 else Err OOB
  end.

(* Total variant used where the index is known in range by construction. *)
Definition nthZ (s : list Z) (i : nat) : Z := nth i s 0.

Definition is_digit (c : Z) : bool := (48 <=? c) && (c <=? 57).
(* std::isspace in the "C" locale: space, \t \n \v \f \r *)
Definition is_space (c : Z) : bool := (c =? 32) || ((9 <=? c) && (c <=? 13)).

(* strchr(set, c) != nullptr for a NUL-terminated literal [set]: true for any
   member and also for c = 0 (it finds the terminator).  Returns the index. *)
Fixpoint index_of (c : Z) (set : list Z) (i : Z) : option Z :=
  match set with
  | [] => if c =? 0 then Some i else None
  | x :: r => if x =? c then Some i else index_of c r (i + 1)
  end.
Definition strchr (set : list Z) (c : Z) : option Z := index_of c set 0.

Definition kDigits : list Z := [48;49;50;51;52;53;54;55;56;57].

Lemma strchr_digits c :
  strchr kDigits c = if is_digit c then Some (c - 48) else if c =? 0 then Some 10 else None.
Proof.
  unfold strchr, kDigits, is_digit. cbn [index_of].
  repeat match goal with
  | |- context [?x =? c] => destruct (Z.eqb_spec x c); [subst; reflexivity|]
  end.
  destruct ((48 <=? c) && (c <=? 57)) eqn:E; [|reflexivity].
  rewrite andb_true_iff, !Z.leb_le in E. lia.
Qed.

(* ASCII helpers for writing literals in models. *)
Definition ch (n : Z) : Z := n.

Fixpoint list_eqb (a b : list Z) : bool :=
  match a, b with
  | [], [] => true
  | x :: a', y :: b' => (x =? y) && list_eqb a' b'
  | _, _ => false
  end.

Lemma list_eqb_eq a b : list_eqb a b = true <-> a = b.
Proof.
  revert b; induction a as [|x a IH]; intros [|y b]; simpl; split; try discriminate; auto.
  - rewrite andb_true_iff, Z.eqb_eq, IH. intros [-> ->]; auto.
  - intros H; inversion H; subst. rewrite andb_true_iff, Z.eqb_eq, IH; auto.
Qed.

(* Decimal rendering of a non-negative Z, most significant digit first;
   fuel-based so that it is structurally recursive (fuel 20 suffices for
   64-bit values; 40 for anything used here). *)
Fixpoint dec_digits_fuel (fuel : nat) (v : Z) (acc : list Z) : list Z :=
  match fuel with
  | O => acc
  | S f =>
      let acc' := (48 + v mod 10) :: acc in
      if v / 10 =? 0 then acc' else dec_digits_fuel f (v / 10) acc'
  end.
Definition dec_digits (v : Z) : list Z := dec_digits_fuel 40 v [].

Fixpoint range_nat (n : nat) : list nat :=
  match n with O => [] | S k => range_nat k ++ [k] end.

(* Z range [lo, lo+n) *)
Fixpoint zrange (lo : Z) (n : nat) : list Z :=
  match n with O => [] | S k => lo :: zrange (lo + 1) k end.

Lemma zrange_In lo n x : In x (zrange lo n) <-> lo <= x < lo + Z.of_nat n.
Proof.
  revert lo; induction n as [|n IH]; intros lo; simpl zrange.
  - simpl. lia.
  - simpl In. rewrite IH. lia.
Qed.
