(* LoaderProofs.v — proofs about the LoadTimeZone cache protocol model
   (LoaderSM.v): C13 (one identity per name, schedule independence, cache
   monotonicity) and C20 (factory on caller thread, never for fixed names,
   at most once / serially in serial schedules, bounded once cached). *)
From Coq Require Import ZArith List Lia Bool Arith.
From CCTZ Require Import Base FixedImpl ZoneLoad LoaderSM.
Import ListNotations.
Local Open Scope Z_scope.

(* ------------------------------------------------------------------ *)
(* data-independent facts                                              *)
(* ------------------------------------------------------------------ *)

Lemma list_eqb_refl n : list_eqb n n = true.
Proof. apply list_eqb_eq; reflexivity. Qed.

Lemma cache_find_cons_same c n x : cache_find ((n, x) :: c) n = Some x.
Proof. simpl. rewrite list_eqb_refl. reflexivity. Qed.

Lemma cache_find_cons_mono c n x m id :
  cache_find c n = None -> cache_find c m = Some id -> cache_find ((n, x) :: c) m = Some id.
Proof.
  intros Hn Hm. simpl. destruct (list_eqb n m) eqn:E; auto.
  apply list_eqb_eq in E. subst. congruence.
Qed.

Lemma get_set l t st t' :
  get_thr (set_thr l t st) t' = if Nat.eqb t t' then Some st else get_thr l t'.
Proof.
  induction l as [|[k v] r IH]; simpl.
  - reflexivity.
  - destruct (Nat.eqb_spec k t) as [->|Hkt]; simpl.
    + destruct (Nat.eqb t t'); reflexivity.
    + rewrite IH.
      destruct (Nat.eqb_spec k t'), (Nat.eqb_spec t t'); subst; try congruence; reflexivity.
Qed.

Lemma entries_for_app l1 l2 n :
  entries_for (l1 ++ l2) n = (entries_for l1 n + entries_for l2 n)%nat.
Proof. unfold entries_for. rewrite filter_app, app_length. reflexivity. Qed.

Lemma entries_for_exit t m n : entries_for [FExit t m] n = 0%nat.
Proof. reflexivity. Qed.

Lemma entries_for_enter t m n :
  entries_for [FEnter t m] n = if list_eqb m n then 1%nat else 0%nat.
Proof. unfold entries_for; simpl. destruct (list_eqb m n); reflexivity. Qed.

Lemma entries_for_pair t m n :
  entries_for [FEnter t m; FExit t m] n = if list_eqb m n then 1%nat else 0%nat.
Proof. unfold entries_for; simpl. destruct (list_eqb m n); reflexivity. Qed.

Fixpoint inside_after (log : list fevent) (inside : list tid) : list tid :=
  match log with
  | [] => inside
  | FEnter t _ :: r => inside_after r (t :: inside)
  | FExit t _ :: r => inside_after r (filter (fun x => negb (Nat.eqb x t)) inside)
  end.

Lemma overlap_aux_app l1 : forall l2 ins,
  overlap_aux (l1 ++ l2) ins = overlap_aux l1 ins || overlap_aux l2 (inside_after l1 ins).
Proof.
  induction l1 as [|[t m|t m] r IH]; intros l2 ins; simpl.
  - reflexivity.
  - rewrite IH. rewrite orb_assoc. reflexivity.
  - apply IH.
Qed.

Lemma inside_after_app l1 : forall l2 ins,
  inside_after (l1 ++ l2) ins = inside_after l2 (inside_after l1 ins).
Proof.
  induction l1 as [|[t m|t m] r IH]; intros l2 ins; simpl; auto.
Qed.

(* ------------------------------------------------------------------ *)
Section LoaderProofs.
Variable data : name -> option (list Z).

Local Opaque FixedOffsetFromName.
Local Opaque construct_ok.

Local Notation cok := (construct_ok data).
Local Notation stp := (step data).
Local Notation pub := publish.

Definition ret (s : lstate) (t : tid) (n : name) (ok : bool) (id : impl_id)
    (log : list fevent) : lstate :=
  mkLS (ls_cache s) (ls_next s) (ls_impls s) log
       (set_thr (ls_thr s) t (TDone ok id)) (ls_results s ++ [(t, n, ok, id)]).

Definition enter (s : lstate) (t : tid) (n : name) : lstate :=
  mkLS (ls_cache s) (ls_next s) (ls_impls s) (ls_log s ++ [FEnter t n])
       (set_thr (ls_thr s) t (TInFactory n)) (ls_results s).

Definition notparked (s : lstate) (t : tid) : Prop :=
  forall m, get_thr (ls_thr s) t <> Some (TInFactory m).

Inductive stepR (s : lstate) : event -> lstate -> Prop :=
| R_parked t n m : get_thr (ls_thr s) t = Some (TInFactory m) -> stepR s (Start t n) s
| R_zero t n : notparked s t -> FixedOffsetFromName n = Some 0 ->
    stepR s (Start t n) (ret s t n true utc_id (ls_log s))
| R_hit t n id : notparked s t -> FixedOffsetFromName n <> Some 0 ->
    cache_find (ls_cache s) n = Some id ->
    stepR s (Start t n) (ret s t n (negb (Nat.eqb id utc_id)) id (ls_log s))
| R_fixed t n : notparked s t -> FixedOffsetFromName n <> Some 0 ->
    FixedOffsetFromName n <> None -> cache_find (ls_cache s) n = None ->
    stepR s (Start t n) (pub s t n (cok n) (ls_log s))
| R_enter t n : notparked s t -> FixedOffsetFromName n = None ->
    cache_find (ls_cache s) n = None ->
    stepR s (Start t n) (enter s t n)
| R_rel_noop t : notparked s t -> stepR s (Release t) s
| R_release t n : get_thr (ls_thr s) t = Some (TInFactory n) ->
    stepR s (Release t) (pub s t n (cok n) (ls_log s ++ [FExit t n])).

Lemma step_R s e : stepR s e (stp s e).
Proof.
  destruct e as [t n|t]; unfold LoaderSM.step.
  - destruct (get_thr (ls_thr s) t) as [[m|ok id]|] eqn:Ht.
    + eapply R_parked; eauto.
    + assert (Hnp : notparked s t) by (intros m; congruence).
      destruct (FixedOffsetFromName n) as [[|p|p]|] eqn:Hf.
      * apply R_zero; auto.
      * destruct (cache_find (ls_cache s) n) eqn:Hc.
        -- apply R_hit; auto; congruence.
        -- apply R_fixed; auto; congruence.
      * destruct (cache_find (ls_cache s) n) eqn:Hc.
        -- apply R_hit; auto; congruence.
        -- apply R_fixed; auto; congruence.
      * destruct (cache_find (ls_cache s) n) eqn:Hc.
        -- apply R_hit; auto; congruence.
        -- apply R_enter; auto.
    + assert (Hnp : notparked s t) by (intros m; congruence).
      destruct (FixedOffsetFromName n) as [[|p|p]|] eqn:Hf.
      * apply R_zero; auto.
      * destruct (cache_find (ls_cache s) n) eqn:Hc.
        -- apply R_hit; auto; congruence.
        -- apply R_fixed; auto; congruence.
      * destruct (cache_find (ls_cache s) n) eqn:Hc.
        -- apply R_hit; auto; congruence.
        -- apply R_fixed; auto; congruence.
      * destruct (cache_find (ls_cache s) n) eqn:Hc.
        -- apply R_hit; auto; congruence.
        -- apply R_enter; auto.
  - destruct (get_thr (ls_thr s) t) as [[m|ok id]|] eqn:Ht.
    + apply R_release; auto.
    + apply R_rel_noop. intros m; congruence.
    + apply R_rel_noop. intros m; congruence.
Qed.

Lemma fold_inv (P : lstate -> Prop) :
  (forall s e, P s -> P (stp s e)) ->
  forall es s, P s -> P (fold_left stp es s).
Proof.
  intros Hstep es; induction es as [|e es IH]; intros s Hs; simpl; auto.
Qed.

(* ---- projections of publish ---- *)
Lemma publish_log s t n ok log : ls_log (pub s t n ok log) = log.
Proof.
  unfold publish. destruct (cache_find (ls_cache s) n); [|destruct ok]; reflexivity.
Qed.

Lemma publish_thr s t n ok log :
  exists ok' id', ls_thr (pub s t n ok log) = set_thr (ls_thr s) t (TDone ok' id').
Proof.
  unfold publish. destruct (cache_find (ls_cache s) n); [|destruct ok]; simpl; eauto.
Qed.

Lemma publish_cache_mono s t n ok log m id :
  cache_find (ls_cache s) m = Some id ->
  cache_find (ls_cache (pub s t n ok log)) m = Some id.
Proof.
  intros Hm. unfold publish. destruct (cache_find (ls_cache s) n) eqn:Hn; [|destruct ok];
    cbn [ls_cache]; auto; apply cache_find_cons_mono; auto.
Qed.

Lemma publish_cache_n s t n ok log :
  cache_find (ls_cache (pub s t n ok log)) n <> None.
Proof.
  unfold publish. destruct (cache_find (ls_cache s) n) eqn:Hn; [|destruct ok];
    cbn [ls_cache]; try rewrite cache_find_cons_same; congruence.
Qed.

Lemma step_cache_mono s e m id :
  cache_find (ls_cache s) m = Some id ->
  cache_find (ls_cache (stp s e)) m = Some id.
Proof.
  intros Hm. destruct (step_R s e); auto using publish_cache_mono.
Qed.

Lemma step_log s e :
  ls_log (stp s e) = ls_log s \/
  (exists t n, e = Start t n /\ cache_find (ls_cache s) n = None /\
               FixedOffsetFromName n = None /\ ls_log (stp s e) = ls_log s ++ [FEnter t n]) \/
  (exists t n, ls_log (stp s e) = ls_log s ++ [FExit t n]).
Proof.
  destruct (step_R s e); try rewrite publish_log; auto.
  - right; left. exists t, n. auto.
  - right; right. eauto.
Qed.

(* ------------------------------------------------------------------ *)
(* the main invariant (I1, I2, thread facts)                           *)
(* ------------------------------------------------------------------ *)

Definition res_ok (s : lstate) (n : name) (ok : bool) (id : impl_id) : Prop :=
  (FixedOffsetFromName n = Some 0 /\ id = utc_id /\ ok = true) \/
  (FixedOffsetFromName n <> Some 0 /\ cache_find (ls_cache s) n = Some id /\
   ok = negb (Nat.eqb id utc_id)).

Definition cache_ok (s : lstate) (n : name) (id : impl_id) : Prop :=
  FixedOffsetFromName n <> Some 0 /\
  (id = utc_id -> cok n = false) /\
  (id <> utc_id -> cok n = true /\ In (id, n) (ls_impls s)).

Record Inv (s : lstate) : Prop := mkInv {
  inv_res : forall t n ok id, In (t, n, ok, id) (ls_results s) -> res_ok s n ok id;
  inv_cache : forall n id, cache_find (ls_cache s) n = Some id -> cache_ok s n id;
  inv_thr : forall t n, get_thr (ls_thr s) t = Some (TInFactory n) -> FixedOffsetFromName n = None;
  inv_next : (1 <= ls_next s)%nat
}.

Lemma Inv_ls0 : Inv ls0.
Proof.
  constructor; simpl; intros; try contradiction; try discriminate; lia.
Qed.

Lemma Inv_ret s t n ok id log :
  Inv s -> res_ok s n ok id -> Inv (ret s t n ok id log).
Proof.
  intros [Hr Hc Ht Hn] Hnew. constructor; cbn [ret ls_results ls_cache ls_thr ls_next ls_impls].
  - intros t' n' ok' id' Hin. apply in_app_or in Hin. destruct Hin as [Hin|[Hin|[]]].
    + apply Hr in Hin. exact Hin.
    + inversion Hin; subst. exact Hnew.
  - intros n' id' Hf. apply Hc in Hf. exact Hf.
  - intros t' n'. rewrite get_set. destruct (Nat.eqb t t'); [discriminate|]. apply Ht.
  - exact Hn.
Qed.

Lemma Inv_enter s t n :
  Inv s -> FixedOffsetFromName n = None -> Inv (enter s t n).
Proof.
  intros [Hr Hc Ht Hn] Hnew. constructor; cbn [enter ls_results ls_cache ls_thr ls_next ls_impls].
  - intros t' n' ok' id' Hin. apply Hr in Hin. exact Hin.
  - intros n' id' Hf. apply Hc in Hf. exact Hf.
  - intros t' n'. rewrite get_set. destruct (Nat.eqb t t').
    + intros E; inversion E; subst; auto.
    + apply Ht.
  - exact Hn.
Qed.

Lemma Inv_publish s t n log :
  Inv s -> FixedOffsetFromName n <> Some 0 -> Inv (pub s t n (cok n) log).
Proof.
  intros HI Hnz. unfold publish.
  destruct (cache_find (ls_cache s) n) as [id|] eqn:Hn.
  - apply (Inv_ret s t n _ id log HI). right. auto.
  - destruct HI as [Hr Hc Ht Hnx].
    remember (cok n) as ok eqn:Hok. symmetry in Hok. destruct ok.
    + constructor; cbn [ls_results ls_cache ls_thr ls_next ls_impls].
      * intros t' n' ok' id' Hin. apply in_app_or in Hin. destruct Hin as [Hin|[Hin|[]]].
        -- apply Hr in Hin. destruct Hin as [Hz|(H1 & H2 & H3)]; [left; exact Hz|].
           right. split; [exact H1|]. split; [|exact H3].
           apply cache_find_cons_mono; auto.
        -- inversion Hin; subst. right. split; [exact Hnz|].
           split; [apply cache_find_cons_same|].
           destruct (ls_next s); [lia|reflexivity].
      * intros n' id'. simpl. destruct (list_eqb n n') eqn:E.
        -- apply list_eqb_eq in E. subst n'. intros Hs; inversion Hs; subst id'.
           split; [exact Hnz|]. split.
           ++ unfold utc_id. intros; lia.
           ++ intros _. split; [exact Hok|]. left; reflexivity.
        -- intros Hf. apply Hc in Hf. destruct Hf as (H1 & H2 & H3).
           split; [exact H1|]. split; [exact H2|].
           intros Hne. destruct (H3 Hne). split; auto. right; auto.
      * intros t' n'. rewrite get_set. destruct (Nat.eqb t t'); [discriminate|]. apply Ht.
      * lia.
    + constructor; cbn [ls_results ls_cache ls_thr ls_next ls_impls].
      * intros t' n' ok' id' Hin. apply in_app_or in Hin. destruct Hin as [Hin|[Hin|[]]].
        -- apply Hr in Hin. destruct Hin as [Hz|(H1 & H2 & H3)]; [left; exact Hz|].
           right. split; [exact H1|]. split; [|exact H3].
           apply cache_find_cons_mono; auto.
        -- inversion Hin; subst. right. split; [exact Hnz|].
           split; [apply cache_find_cons_same|]. reflexivity.
      * intros n' id'. simpl. destruct (list_eqb n n') eqn:E.
        -- apply list_eqb_eq in E. subst n'. intros Hs; inversion Hs; subst id'.
           split; [exact Hnz|]. split.
           ++ intros _. exact Hok.
           ++ intros Hne; exfalso; apply Hne; reflexivity.
        -- intros Hf. apply Hc in Hf. exact Hf.
      * intros t' n'. rewrite get_set. destruct (Nat.eqb t t'); [discriminate|]. apply Ht.
      * exact Hnx.
Qed.

Lemma Inv_step s e : Inv s -> Inv (stp s e).
Proof.
  intros HI. destruct (step_R s e); auto.
  - apply Inv_ret; auto. left; auto.
  - apply Inv_ret; auto. right; auto.
  - apply Inv_publish; auto.
  - apply Inv_enter; auto.
  - apply Inv_publish; auto.
    pose proof (inv_thr s HI t n H) as Hf. congruence.
Qed.

Lemma Inv_exec es : Inv (exec data es).
Proof. unfold exec. apply fold_inv; [apply Inv_step|apply Inv_ls0]. Qed.

(* ------------------------------------------------------------------ *)
(* C13                                                                 *)
(* ------------------------------------------------------------------ *)

Lemma one_identity_per_name_lemma0 : forall es t1 t2 n ok1 ok2 id1 id2,
  In (t1, n, ok1, id1) (ls_results (exec data es)) ->
  In (t2, n, ok2, id2) (ls_results (exec data es)) ->
  id1 = id2 /\ ok1 = ok2.
Proof.
  intros es t1 t2 n ok1 ok2 id1 id2 H1 H2.
  pose proof (Inv_exec es) as HI.
  apply (inv_res _ HI) in H1. apply (inv_res _ HI) in H2.
  destruct H1 as [(A1 & A2 & A3)|(A1 & A2 & A3)], H2 as [(B1 & B2 & B3)|(B1 & B2 & B3)];
    subst; try congruence.
  - split; reflexivity.
  - rewrite A2 in B2. inversion B2; subst. split; reflexivity.
Qed.

Lemma schedule_independent_lemma0 : forall es t n ok id,
  In (t, n, ok, id) (ls_results (exec data es)) ->
  ok = (match FixedOffsetFromName n with Some 0 => true | _ => cok n end) /\
  (ok = false -> id = utc_id) /\
  (FixedOffsetFromName n = Some 0 -> id = utc_id) /\
  (ok = true -> FixedOffsetFromName n <> Some 0 -> In (id, n) (ls_impls (exec data es))).
Proof.
  intros es t n ok id H.
  pose proof (Inv_exec es) as HI.
  apply (inv_res _ HI) in H.
  destruct H as [(A1 & A2 & A3)|(A1 & A2 & A3)].
  - subst. rewrite A1. repeat split; auto; try discriminate. intros _ Hc; congruence.
  - apply (inv_cache _ HI) in A2. destruct A2 as (C1 & C2 & C3).
    destruct (Nat.eqb_spec id utc_id) as [E|E]; simpl in A3; subst ok.
    + specialize (C2 E).
      repeat split; auto; try discriminate.
      destruct (FixedOffsetFromName n) as [[|p|p]|]; congruence.
    + destruct (C3 E) as [C4 C5].
      repeat split; auto; try discriminate; try congruence.
      destruct (FixedOffsetFromName n) as [[|p|p]|]; congruence.
Qed.

Lemma fold_cache_mono es : forall s m id,
  cache_find (ls_cache s) m = Some id ->
  cache_find (ls_cache (fold_left stp es s)) m = Some id.
Proof.
  induction es as [|e es IH]; intros s m id H; simpl; auto.
  apply IH. apply step_cache_mono. exact H.
Qed.

Lemma cache_monotone_lemma0 : forall es1 es2 n id,
  cache_find (ls_cache (exec data es1)) n = Some id ->
  cache_find (ls_cache (exec data (es1 ++ es2))) n = Some id.
Proof.
  intros es1 es2 n id H. unfold exec in *. rewrite fold_left_app.
  apply fold_cache_mono. exact H.
Qed.

(* ------------------------------------------------------------------ *)
(* C20                                                                 *)
(* ------------------------------------------------------------------ *)

Lemma on_caller_gen es : forall s t n,
  In (FEnter t n) (ls_log (fold_left stp es s)) ->
  In (FEnter t n) (ls_log s) \/ In (Start t n) es.
Proof.
  induction es as [|e es IH]; intros s t n H; simpl in *.
  - left; exact H.
  - apply IH in H. destruct H as [H|H]; [|right; right; exact H].
    destruct (step_log s e) as [E|[(t' & n' & He & _ & _ & E)|(t' & n' & E)]]; rewrite E in H.
    + left; exact H.
    + apply in_app_or in H. destruct H as [H|[H|[]]]; [left; exact H|].
      inversion H; subst. right; left; reflexivity.
    + apply in_app_or in H. destruct H as [H|[H|[]]]; [left; exact H|discriminate].
Qed.

Lemma factory_on_caller_lemma0 : forall es t n,
  In (FEnter t n) (ls_log (exec data es)) -> In (Start t n) es.
Proof.
  intros es t n H. apply on_caller_gen in H. destruct H as [[]|H]; exact H.
Qed.

Lemma factory_not_for_fixed_lemma0 : forall es n,
  FixedOffsetFromName n <> None -> entries_for (ls_log (exec data es)) n = 0%nat.
Proof.
  intros es n Hfx. unfold exec.
  apply (fold_inv (fun s => entries_for (ls_log s) n = 0%nat)); [|reflexivity].
  intros s e Hs.
  destruct (step_log s e) as [E|[(t' & n' & He & _ & Hf & E)|(t' & n' & E)]]; rewrite E.
  - exact Hs.
  - rewrite entries_for_app, entries_for_enter, Hs.
    destruct (list_eqb n' n) eqn:El; [|reflexivity].
    apply list_eqb_eq in El. subst. contradiction.
  - rewrite entries_for_app, entries_for_exit, Hs. reflexivity.
Qed.

Lemma factory_calls_bounded_partial_lemma0 : forall es1 es2 n,
  cache_find (ls_cache (exec data es1)) n <> None ->
  entries_for (ls_log (exec data (es1 ++ es2))) n = entries_for (ls_log (exec data es1)) n.
Proof.
  intros es1 es2 n Hc. unfold exec in *. rewrite fold_left_app.
  set (s1 := fold_left stp es1 ls0) in *.
  set (K := entries_for (ls_log s1) n).
  assert (HP : cache_find (ls_cache (fold_left stp es2 s1)) n <> None /\
               entries_for (ls_log (fold_left stp es2 s1)) n = K).
  { apply (fold_inv (fun s => cache_find (ls_cache s) n <> None /\ entries_for (ls_log s) n = K));
      [|split; [exact Hc|reflexivity]].
    intros s e [Hs1 Hs2]. split.
    - destruct (cache_find (ls_cache s) n) as [id|] eqn:Hf; [|congruence].
      rewrite (step_cache_mono s e n id Hf). discriminate.
    - destruct (step_log s e) as [E|[(t' & n' & He & Hcn & Hf & E)|(t' & n' & E)]]; rewrite E.
      + exact Hs2.
      + rewrite entries_for_app, entries_for_enter.
        destruct (list_eqb n' n) eqn:El; [|lia].
        apply list_eqb_eq in El. subst. contradiction.
      + rewrite entries_for_app, entries_for_exit. lia. }
  exact (proj2 HP).
Qed.

(* ---- serial schedules ---- *)

Definition SInv (s : lstate) : Prop :=
  (forall t, notparked s t) /\
  overlap_aux (ls_log s) [] = false /\
  inside_after (ls_log s) [] = [] /\
  forall m, (entries_for (ls_log s) m <= 1)%nat /\
            (cache_find (ls_cache s) m = None -> entries_for (ls_log s) m = 0%nat).

Lemma SInv_ls0 : SInv ls0.
Proof.
  split; [|split; [|split]].
  - intros t m. simpl. discriminate.
  - reflexivity.
  - reflexivity.
  - intros m. split; [unfold entries_for; simpl; lia|reflexivity].
Qed.

Lemma SInv_same_log s s' t ok id :
  SInv s -> ls_log s' = ls_log s ->
  ls_thr s' = set_thr (ls_thr s) t (TDone ok id) ->
  (forall m x, cache_find (ls_cache s) m = Some x -> cache_find (ls_cache s') m = Some x) ->
  SInv s'.
Proof.
  intros (Hnp & Hov & Hins & Hen) Hlog Hthr Hmono.
  split; [|split; [|split]].
  - intros t' m. rewrite Hthr, get_set. destruct (Nat.eqb t t'); [discriminate|]. apply Hnp.
  - rewrite Hlog; exact Hov.
  - rewrite Hlog; exact Hins.
  - intros m. rewrite Hlog. destruct (Hen m) as [H1 H2]. split; [exact H1|].
    intros Hc. apply H2.
    destruct (cache_find (ls_cache s) m) as [x|] eqn:Hf; [|reflexivity].
    apply Hmono in Hf. congruence.
Qed.

Lemma release_done s t ok id :
  get_thr (ls_thr s) t = Some (TDone ok id) -> stp s (Release t) = s.
Proof. intros H. unfold LoaderSM.step. rewrite H. reflexivity. Qed.

Lemma start_cases s t n :
  (exists m, get_thr (ls_thr s) t = Some (TInFactory m)) \/
  (exists ok id, stp s (Start t n) = ret s t n ok id (ls_log s)) \/
  (stp s (Start t n) = pub s t n (cok n) (ls_log s)) \/
  (cache_find (ls_cache s) n = None /\ stp s (Start t n) = enter s t n).
Proof.
  pose proof (step_R s (Start t n)) as HR.
  remember (Start t n) as e eqn:Ee. remember (stp s e) as s1 eqn:E.
  destruct HR; try discriminate Ee; injection Ee as -> ->.
  - left; eauto.
  - right; left; eauto.
  - right; left; eauto.
  - right; right; left; reflexivity.
  - right; right; right; split; auto.
Qed.

Lemma SInv_pair s t n : SInv s -> SInv (stp (stp s (Start t n)) (Release t)).
Proof.
  intros HS. pose proof HS as (Hnp & Hov & Hins & Hen).
  destruct (start_cases s t n) as [(m & Hp)|[(ok & id & E)|[E|(Hc & E)]]]; try (rewrite E; clear E).
  - exfalso. exact (Hnp t m Hp).
  - rewrite (release_done _ t ok id).
    + eapply SInv_same_log; [exact HS|reflexivity|reflexivity|auto].
    + cbn [ret ls_thr]. rewrite get_set, Nat.eqb_refl. reflexivity.
  - destruct (publish_thr s t n (cok n) (ls_log s)) as (ok' & id' & Hthr).
    rewrite (release_done _ t ok' id').
    + eapply SInv_same_log; [exact HS|apply publish_log|exact Hthr|].
      intros m x. apply publish_cache_mono.
    + rewrite Hthr, get_set, Nat.eqb_refl. reflexivity.
  - assert (Hg : get_thr (ls_thr (enter s t n)) t = Some (TInFactory n)).
    { cbn [enter ls_thr]. rewrite get_set, Nat.eqb_refl. reflexivity. }
    assert (E : stp (enter s t n) (Release t) =
                pub (enter s t n) t n (cok n) (ls_log (enter s t n) ++ [FExit t n])).
    { unfold LoaderSM.step. rewrite Hg. reflexivity. }
    rewrite E. clear E.
    set (s1 := enter s t n) in *.
    set (log2 := ls_log s1 ++ [FExit t n]).
    assert (Hlog2 : log2 = ls_log s ++ [FEnter t n; FExit t n]).
    { unfold log2, s1. cbn [enter ls_log]. rewrite <- app_assoc. reflexivity. }
    destruct (publish_thr s1 t n (cok n) log2) as (ok' & id' & Hthr).
    pose proof (publish_log s1 t n (cok n) log2) as Hl.
    pose proof (publish_cache_n s1 t n (cok n) log2) as Hcn.
    assert (Hmono : forall m x, cache_find (ls_cache s) m = Some x ->
              cache_find (ls_cache (pub s1 t n (cok n) log2)) m = Some x).
    { intros m x Hm. apply publish_cache_mono. exact Hm. }
    set (s2 := pub s1 t n (cok n) log2) in *.
    split; [|split; [|split]].
    + intros t' m. rewrite Hthr, get_set. destruct (Nat.eqb_spec t t') as [|Hne]; [discriminate|].
      unfold s1. cbn [enter ls_thr]. rewrite get_set.
      destruct (Nat.eqb_spec t t'); [contradiction|]. apply Hnp.
    + rewrite Hl, Hlog2, overlap_aux_app, Hov, Hins. reflexivity.
    + rewrite Hl, Hlog2, inside_after_app, Hins. simpl. rewrite Nat.eqb_refl. reflexivity.
    + intros m. rewrite Hl, Hlog2, entries_for_app, entries_for_pair.
      destruct (Hen m) as [H1 H2].
      destruct (list_eqb n m) eqn:El.
      * apply list_eqb_eq in El. subst m. rewrite (H2 Hc). split; [lia|].
        intros Hx. contradiction.
      * split; [lia|]. intros Hx. rewrite Nat.add_0_r. apply H2.
        destruct (cache_find (ls_cache s) m) as [x|] eqn:Hfm; [|reflexivity].
        apply Hmono in Hfm. congruence.
Qed.

Lemma SInv_serial loads : forall s, SInv s -> SInv (fold_left stp (serial loads) s).
Proof.
  induction loads as [|[t n] r IH]; intros s HS; simpl.
  - exact HS.
  - apply IH. apply SInv_pair. exact HS.
Qed.

Lemma factory_once_sequential_lemma0 : forall loads n,
  (entries_for (ls_log (exec data (serial loads))) n <= 1)%nat /\
  overlapping (ls_log (exec data (serial loads))) = false.
Proof.
  intros loads n. unfold exec, overlapping.
  destruct (SInv_serial loads ls0 SInv_ls0) as (_ & Hov & _ & Hen).
  split; [apply (Hen n)|exact Hov].
Qed.

End LoaderProofs.

(* ------------------------------------------------------------------ *)
(* exported statements (verbatim from Properties_C13.v / Properties_C20.v) *)
(* ------------------------------------------------------------------ *)

Lemma one_identity_per_name_lemma : forall data es t1 t2 n ok1 ok2 id1 id2,
  In (t1, n, ok1, id1) (ls_results (exec data es)) ->
  In (t2, n, ok2, id2) (ls_results (exec data es)) ->
  id1 = id2 /\ ok1 = ok2.
Proof. exact one_identity_per_name_lemma0. Qed.

Lemma schedule_independent_lemma : forall data es t n ok id,
  In (t, n, ok, id) (ls_results (exec data es)) ->
  ok = (match FixedOffsetFromName n with Some 0 => true | _ => construct_ok data n end) /\
  (ok = false -> id = utc_id) /\
  (FixedOffsetFromName n = Some 0 -> id = utc_id) /\
  (ok = true -> FixedOffsetFromName n <> Some 0 -> In (id, n) (ls_impls (exec data es))).
Proof. exact schedule_independent_lemma0. Qed.

Lemma cache_monotone_lemma : forall data es1 es2 n id,
  cache_find (ls_cache (exec data es1)) n = Some id ->
  cache_find (ls_cache (exec data (es1 ++ es2))) n = Some id.
Proof. exact cache_monotone_lemma0. Qed.

Lemma factory_on_caller_lemma : forall data es t n,
  In (FEnter t n) (ls_log (exec data es)) -> In (Start t n) es.
Proof. exact factory_on_caller_lemma0. Qed.

Lemma factory_not_for_fixed_lemma : forall data es n,
  FixedOffsetFromName n <> None -> entries_for (ls_log (exec data es)) n = 0%nat.
Proof. exact factory_not_for_fixed_lemma0. Qed.

Lemma factory_once_sequential_lemma : forall data loads n,
  (entries_for (ls_log (exec data (serial loads))) n <= 1)%nat /\
  overlapping (ls_log (exec data (serial loads))) = false.
Proof. exact factory_once_sequential_lemma0. Qed.

Lemma factory_calls_bounded_partial_lemma : forall data es1 es2 n,
  cache_find (ls_cache (exec data es1)) n <> None ->
  entries_for (ls_log (exec data (es1 ++ es2))) n = entries_for (ls_log (exec data es1)) n.
Proof. exact factory_calls_bounded_partial_lemma0. Qed.

Print Assumptions one_identity_per_name_lemma.
Print Assumptions schedule_independent_lemma.
Print Assumptions cache_monotone_lemma.
Print Assumptions factory_on_caller_lemma.
Print Assumptions factory_not_for_fixed_lemma.
Print Assumptions factory_once_sequential_lemma.
Print Assumptions factory_calls_bounded_partial_lemma.
