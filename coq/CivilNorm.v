(* CivilNorm.v — refinement proofs for civil-time normalisation (n_day .. n_sec),
   construction/alignment, step (+ n / - n) and next/prev weekday.
   IMPL64 (CivilImpl.v) = OK (SPEC (Cal.v)) under the stated representability
   bounds. *)
From CCTZ Require Import Base Cal SrcConstants CivilImpl CalProofs WeekdayProofs.
Require Import Lia ZifyBool.
Local Open Scope Z_scope.
Ltac Zify.zify_post_hook ::= Z.to_euclidean_division_equations.
(* Kernel conversion must unfold wrappers such as norm_spec before it ever
   looks inside the calendar functions (their let-bound bodies blow up). *)
Local Strategy 100 [civil_of_seconds civil_of_days days_from_civil].

Ltac n_i64 := unfold int64, min64, max64 in *; lia.
Ltac n_step :=
  unfold add64, sub64, mul64, neg64;
  rewrite chk64_in by n_i64; cbn [bind].

(* A generous bound for every running year inside n_day. *)
Definition EB : Z := 1000000000000000000.
Definition ebound (e : Z) : Prop := - EB <= e <= EB.

(* ------------------------------------------------------------------ *)
(* Pure helpers                                                         *)

Definition yidx (e m : Z) : Z := (e + b2z (2 <? m)) mod 400.
Definition dpy (e m : Z) : Z := if is_leap (e + b2z (2 <? m)) then 366 else 365.

Lemma b2z_01 b : 0 <= b2z b <= 1.
Proof. destruct b; cbn; lia. Qed.

Lemma year_index64_ok e m : ebound e -> year_index64 e m = OK (yidx e m).
Proof.
  intros H. unfold ebound, EB in H. unfold year_index64, yidx.
  pose proof (b2z_01 (2 <? m)). set (b := b2z (2 <? m)) in *. clearbody b.
  n_step. f_equal.
  destruct (Z.ltb_spec (Z.rem (e + b) 400) 0); lia.
Qed.

Lemma days_per_year64_ok e m : ebound e -> days_per_year64 e m = OK (dpy e m).
Proof.
  intros H. unfold ebound, EB in H. unfold days_per_year64, dpy.
  pose proof (b2z_01 (2 <? m)). set (b := b2z (2 <? m)) in *. clearbody b.
  n_step. rewrite is_leap_year64_spec. reflexivity.
Qed.

Lemma dpy_range e m : 365 <= dpy e m <= 366.
Proof. unfold dpy. destruct (is_leap _); lia. Qed.

Lemma dfc_dpy e m : 1 <= m <= 12 ->
  days_from_civil (e + 1) m 1 = days_from_civil e m 1 + dpy e m.
Proof.
  intros Hm. rewrite dfc_year_step_m by lia. unfold dpy, days_in_year.
  destruct (Z.leb_spec m 2); destruct (Z.ltb_spec 2 m); try lia; cbn [b2z].
  - now rewrite Z.add_0_r.
  - reflexivity.
Qed.

Lemma days_per_month64_ok e m : 1 <= m <= 12 ->
  days_per_month64 e m = OK (days_in_month e m).
Proof.
  intros Hm. unfold days_per_month64. rewrite is_leap_year64_spec.
  assert (m = 1 \/ m = 2 \/ m = 3 \/ m = 4 \/ m = 5 \/ m = 6 \/ m = 7 \/ m = 8 \/
          m = 9 \/ m = 10 \/ m = 11 \/ m = 12) as Hc by lia.
  unfold days_in_month.
  repeat (destruct Hc as [-> | Hc]); [ .. | subst m]; cbn; try reflexivity;
    destruct (is_leap e); reflexivity.
Qed.

Lemma dim_range y m : 28 <= days_in_month y m <= 31.
Proof.
  unfold days_in_month. destruct (m =? 2); [destruct (is_leap y); lia|].
  destruct (_ || _); lia.
Qed.

(* ------------------------------------------------------------------ *)
(* Chunk lengths: 100-year and 4-year blocks, by a sweep over one period *)

Definition chunk_check (e m : Z) : bool :=
  (days_from_civil (e + 100) m 1 - days_from_civil e m 1 =? days_per_century64 (yidx e m)) &&
  (days_from_civil (e + 4) m 1 - days_from_civil e m 1 =? days_per_4years64 (yidx e m)).

Lemma chunk_sweep :
  forallb (fun e => forallb (fun m => chunk_check e m) (zrange 1 12)) (zrange 0 400) = true.
Proof. vm_compute. reflexivity. Qed.

Lemma yidx_period e m k : yidx (e + 400 * k) m = yidx e m.
Proof. unfold yidx. set (b := b2z _). clearbody b. lia. Qed.

Lemma chunk_facts e m : 1 <= m <= 12 ->
  days_from_civil (e + 100) m 1 = days_from_civil e m 1 + days_per_century64 (yidx e m) /\
  days_from_civil (e + 4) m 1 = days_from_civil e m 1 + days_per_4years64 (yidx e m).
Proof.
  intros Hm.
  pose proof chunk_sweep as S. rewrite forallb_forall in S.
  remember (e mod 400) as r eqn:Er. remember (e / 400) as k eqn:Ek.
  assert (0 <= r < 400 /\ e = r + 400 * k) as [Hr He] by lia.
  clear Er Ek. subst e.
  specialize (S r). rewrite zrange_In in S.
  assert (0 <= r < 0 + Z.of_nat 400) as Hr' by lia.
  specialize (S Hr'). rewrite forallb_forall in S.
  specialize (S m). rewrite zrange_In in S.
  assert (1 <= m < 1 + Z.of_nat 12) as Hm' by lia. specialize (S Hm').
  unfold chunk_check in S. rewrite andb_true_iff, !Z.eqb_eq in S.
  replace (r + 400 * k + 100) with (r + 100 + 400 * k) by lia.
  replace (r + 400 * k + 4) with (r + 4 + 400 * k) by lia.
  rewrite !dfc_period, yidx_period. lia.
Qed.

Lemma dpc_range yi : 36524 <= days_per_century64 yi <= 36525.
Proof.
  unfold days_per_century64, src_days_per_century_base.
  pose proof (b2z_01 ((yi =? 0) || (300 <? yi))). lia.
Qed.
Lemma dp4_range yi : 1460 <= days_per_4years64 yi <= 1461.
Proof.
  unfold days_per_4years64, src_days_per_4years_base.
  pose proof (b2z_01 ((yi =? 0) || (300 <? yi) || (Z.rem (yi - 1) 100 <? 96))). lia.
Qed.

Lemma yidx_shift e m c : 0 <= c < 400 ->
  (if 400 <=? yidx e m + c then yidx e m + c - 400 else yidx e m + c) = yidx (e + c) m.
Proof.
  intros Hc. unfold yidx. set (b := b2z _). clearbody b.
  destruct (Z.leb_spec 400 ((e + b) mod 400 + c)); lia.
Qed.

(* ------------------------------------------------------------------ *)
(* The three chunk loops                                                *)

Lemma century_loop_ok : forall fuel d ey m,
  1 <= m <= 12 -> - EB <= ey -> ey + 100 * Z.of_nat fuel <= EB ->
  (fuel <= 100)%nat -> 1 <= d <= 36524 * Z.of_nat fuel ->
  exists d' ey', century_loop fuel d ey (yidx ey m) = OK (d', ey', yidx ey' m) /\
    days_from_civil ey' m 1 + d' = days_from_civil ey m 1 + d /\
    1 <= d' <= 36525 /\ ey <= ey' <= ey + 100 * Z.of_nat fuel.
Proof.
  induction fuel as [|f IH]; intros d ey m Hm Hlo Hhi Hf Hd.
  - lia.
  - cbn [century_loop]. pose proof (dpc_range (yidx ey m)) as Hn.
    destruct (chunk_facts ey m Hm) as [Hc _].
    set (n := days_per_century64 (yidx ey m)) in *. clearbody n.
    destruct (Z.leb_spec d n).
    + exists d, ey. repeat split; lia.
    + unfold EB in *. n_step. n_step.
      rewrite (yidx_shift ey m 100) by lia.
      destruct (IH (d - n) (ey + 100) m) as (d' & ey' & E & H1 & H2 & H3); try (unfold EB; lia).
      exists d', ey'. rewrite E. repeat split; lia.
Qed.

Lemma years4_loop_ok : forall fuel d ey m,
  1 <= m <= 12 -> - EB <= ey -> ey + 4 * Z.of_nat fuel <= EB ->
  (fuel <= 100)%nat -> 1 <= d <= 1460 * Z.of_nat fuel ->
  exists d' ey', years4_loop fuel d ey (yidx ey m) = OK (d', ey', yidx ey' m) /\
    days_from_civil ey' m 1 + d' = days_from_civil ey m 1 + d /\
    1 <= d' <= 1461 /\ ey <= ey' <= ey + 4 * Z.of_nat fuel.
Proof.
  induction fuel as [|f IH]; intros d ey m Hm Hlo Hhi Hf Hd.
  - lia.
  - cbn [years4_loop]. pose proof (dp4_range (yidx ey m)) as Hn.
    destruct (chunk_facts ey m Hm) as [_ Hc].
    set (n := days_per_4years64 (yidx ey m)) in *. clearbody n.
    destruct (Z.leb_spec d n).
    + exists d, ey. repeat split; lia.
    + unfold EB in *. n_step. n_step.
      rewrite (yidx_shift ey m 4) by lia.
      destruct (IH (d - n) (ey + 4) m) as (d' & ey' & E & H1 & H2 & H3); try (unfold EB; lia).
      exists d', ey'. rewrite E. repeat split; lia.
Qed.

Lemma year_loop_ok : forall fuel d ey m,
  1 <= m <= 12 -> - EB <= ey -> ey + Z.of_nat fuel <= EB ->
  (fuel <= 100)%nat -> 1 <= d <= 365 * Z.of_nat fuel ->
  exists d' ey', year_loop fuel d ey m = OK (d', ey') /\
    days_from_civil ey' m 1 + d' = days_from_civil ey m 1 + d /\
    1 <= d' <= 366 /\ ey <= ey' <= ey + Z.of_nat fuel.
Proof.
  induction fuel as [|f IH]; intros d ey m Hm Hlo Hhi Hf Hd.
  - lia.
  - cbn [year_loop]. rewrite days_per_year64_ok by (unfold ebound; lia). cbn [bind].
    pose proof (dpy_range ey m) as Hn. pose proof (dfc_dpy ey m Hm) as Hc.
    set (n := dpy ey m) in *. clearbody n.
    destruct (Z.leb_spec d n).
    + exists d, ey. repeat split; lia.
    + unfold EB in *. n_step. n_step.
      destruct (IH (d - n) (ey + 1) m) as (d' & ey' & E & H1 & H2 & H3); try (unfold EB; lia).
      exists d', ey'. rewrite E. repeat split; lia.
Qed.

(* ------------------------------------------------------------------ *)
(* The month loop                                                       *)

Lemma valid_date_inv y m d : valid_date y m d = true ->
  1 <= m <= 12 /\ 1 <= d <= days_in_month y m.
Proof. unfold valid_date. rewrite !andb_true_iff, !Z.leb_le. lia. Qed.

Lemma valid_date_intro y m d : 1 <= m <= 12 -> 1 <= d <= days_in_month y m ->
  valid_date y m d = true.
Proof. unfold valid_date. rewrite !andb_true_iff, !Z.leb_le. lia. Qed.

Lemma valid_first y m : 1 <= m <= 12 -> valid_date y m 1 = true.
Proof. intros. apply valid_date_intro; auto. pose proof (dim_range y m). lia. Qed.

(* a valid date at or after (ey, m, 1) on the day line is at or after it in
   (year, month) order, and conversely *)
Lemma ym_ge ey m ry rm rd : 1 <= m <= 12 -> valid_date ry rm rd = true ->
  days_from_civil ey m 1 <= days_from_civil ry rm rd -> 12 * ey + m <= 12 * ry + rm.
Proof.
  intros Hm Hv Hle. pose proof (valid_date_inv _ _ _ Hv) as [Hrm Hrd].
  pose proof (dfc_lt_iff ry rm rd ey m 1 Hv (valid_first ey m Hm)) as [_ H].
  destruct (Z_lt_le_dec (12 * ry + rm) (12 * ey + m)); [|lia].
  assert (days_from_civil ry rm rd < days_from_civil ey m 1); [|lia].
  apply H. lia.
Qed.

Lemma ym_le ey m ry rm rd : 1 <= m <= 12 -> valid_date ry rm rd = true ->
  days_from_civil ry rm rd <= days_from_civil ey m 1 -> 12 * ry + rm <= 12 * ey + m.
Proof.
  intros Hm Hv Hle. pose proof (valid_date_inv _ _ _ Hv) as [Hrm Hrd].
  pose proof (dfc_lt_iff ey m 1 ry rm rd (valid_first ey m Hm) Hv) as [_ H].
  destruct (Z_lt_le_dec (12 * ey + m) (12 * ry + rm)); [|lia].
  assert (days_from_civil ey m 1 < days_from_civil ry rm rd); [|lia].
  apply H. lia.
Qed.

Lemma month_loop_ok : forall fuel d ey m ry rm rd,
  1 <= m <= 12 -> 1 <= d <= EB -> - EB <= ey -> ey + Z.of_nat fuel <= EB ->
  valid_date ry rm rd = true ->
  days_from_civil ry rm rd = days_from_civil ey m 1 + (d - 1) ->
  12 * ry + rm - (12 * ey + m) < Z.of_nat fuel ->
  month_loop fuel d ey m = OK (rd, ry, rm).
Proof.
  induction fuel as [|f IH]; intros d ey m ry rm rd Hm Hd Hlo Hhi Hv He Hf.
  - pose proof (ym_ge ey m ry rm rd Hm Hv). lia.
  - cbn [month_loop]. rewrite days_per_month64_ok by lia. cbn [bind].
    pose proof (dim_range ey m) as Hn.
    destruct (Z.leb_spec d (days_in_month ey m)) as [Hle|Hgt].
    + rewrite <- dfc_day in He.
      destruct (dfc_inj ry rm rd ey m d Hv (valid_date_intro ey m d Hm ltac:(lia)) He)
        as (-> & -> & ->). reflexivity.
    + unfold EB in *. n_step.
      unfold narrow8.
      replace ((-128 <=? m + 1) && (m + 1 <=? 127)) with true by lia. cbn [bind].
      destruct (Z.ltb_spec 12 (m + 1)).
      * assert (m = 12) as -> by lia. n_step.
        apply IH; try (unfold EB; lia); auto.
        rewrite dfc_dec_jan. change (days_in_month ey 12) with 31 in *. lia.
      * apply IH; try (unfold EB; lia); auto.
        rewrite dfc_month_step by lia. lia.
Qed.

(* ------------------------------------------------------------------ *)
(* n_day, cut into phases at its bind boundaries                        *)

Definition pA (ey1 cd1 : Z) : res (Z * Z) :=
  if cd1 <? 0
  then (do e <- sub64 ey1 400 ;; do c <- add64 cd1 146097 ;; OK (e, c))
  else OK (ey1, cd1).

Definition pB (ey3 d1 m : Z) : res (Z * Z) :=
  if 0 <? d1 then
    (if 146097 <? d1
     then (do e <- add64 ey3 400 ;; do dd <- sub64 d1 146097 ;; OK (e, dd))
     else OK (ey3, d1))
  else
    (if -365 <? d1
     then (do e <- sub64 ey3 1 ;;
           do n <- days_per_year64 e m ;;
           do dd <- add64 d1 n ;; OK (e, dd))
     else (do e <- sub64 ey3 400 ;; do dd <- add64 d1 146097 ;; OK (e, dd))).

Definition pC (d2 ey4 m : Z) : res (Z * Z) :=
  if 365 <? d2 then
    (do yi <- year_index64 ey4 m ;;
     do '(da, ea, yia) <- century_loop fuel_century d2 ey4 yi ;;
     do '(db, eb, yib) <- years4_loop fuel_4years da ea yia ;;
     year_loop fuel_year db eb m)
  else OK (d2, ey4).

Definition pD (d3 ey5 m : Z) : res (Z * Z * Z) :=
  if 28 <? d3 then month_loop fuel_month d3 ey5 m else OK (d3, ey5, m).

Lemma n_day64_unfold y m d cd hh mm ss :
  n_day64 y m d cd hh mm ss =
  (do t1 <- mul64 (Z.quot cd 146097) 400 ;;
   do ey1 <- add64 (Z.rem y 400) t1 ;;
   do '(ey2, cd2) <- pA ey1 (Z.rem cd 146097) ;;
   do t2 <- mul64 (Z.quot d 146097) 400 ;;
   do ey3 <- add64 ey2 t2 ;;
   do d1 <- add64 (Z.rem d 146097) cd2 ;;
   do '(ey4, d2) <- pB ey3 d1 m ;;
   do '(d3, ey5) <- pC d2 ey4 m ;;
   do '(d4, ey6, m1) <- pD d3 ey5 m ;;
   do dy <- sub64 ey6 (Z.rem y 400) ;;
   do ry <- add64 y dy ;;
   do rd <- narrow8 d4 ;;
   OK (mkF ry m1 rd hh mm ss)).
Proof. reflexivity. Qed.

Lemma dfc_m400 e m d : days_from_civil (e - 400) m d = days_from_civil e m d - 146097.
Proof. replace (e - 400) with (e + 400 * (-1)) by lia. rewrite dfc_period. lia. Qed.
Lemma dfc_p400 e m d : days_from_civil (e + 400) m d = days_from_civil e m d + 146097.
Proof. replace (e + 400) with (e + 400 * 1) by lia. rewrite dfc_period. lia. Qed.

Lemma pA_ok ey1 cd1 m : ebound (2 * ey1) -> -146097 < cd1 < 146097 ->
  exists ey2 cd2, pA ey1 cd1 = OK (ey2, cd2) /\
    days_from_civil ey2 m 1 + cd2 = days_from_civil ey1 m 1 + cd1 /\
    0 <= cd2 < 146097 /\ ey1 - 400 <= ey2 <= ey1.
Proof.
  unfold ebound, EB, pA. intros He Hc.
  destruct (Z.ltb_spec cd1 0).
  - n_step. n_step. exists (ey1 - 400), (cd1 + 146097).
    rewrite dfc_m400.
    repeat split; lia.
  - exists ey1, cd1. repeat split; lia.
Qed.

Lemma pB_ok ey3 d1 m : 1 <= m <= 12 -> ebound (2 * ey3) -> -146097 < d1 < 2 * 146097 ->
  exists ey4 d2, pB ey3 d1 m = OK (ey4, d2) /\
    days_from_civil ey4 m 1 + d2 = days_from_civil ey3 m 1 + d1 /\
    1 <= d2 <= 146097 /\ ey3 - 400 <= ey4 <= ey3 + 400.
Proof.
  unfold ebound, EB, pB. intros Hm He Hd.
  destruct (Z.ltb_spec 0 d1).
  - destruct (Z.ltb_spec 146097 d1).
    + n_step. n_step. exists (ey3 + 400), (d1 - 146097).
      rewrite dfc_p400.
      repeat split; lia.
    + exists ey3, d1. repeat split; lia.
  - destruct (Z.ltb_spec (-365) d1).
    + n_step. rewrite days_per_year64_ok by (unfold ebound, EB; lia). cbn [bind].
      pose proof (dpy_range (ey3 - 1) m). pose proof (dfc_dpy (ey3 - 1) m Hm) as Hs.
      replace (ey3 - 1 + 1) with ey3 in Hs by lia.
      n_step. exists (ey3 - 1), (d1 + dpy (ey3 - 1) m). repeat split; lia.
    + n_step. n_step. exists (ey3 - 400), (d1 + 146097).
      rewrite dfc_m400.
      repeat split; lia.
Qed.

Lemma pC_ok d2 ey4 m : 1 <= m <= 12 -> ebound (2 * ey4) -> 1 <= d2 <= 146097 ->
  exists d3 ey5, pC d2 ey4 m = OK (d3, ey5) /\
    days_from_civil ey5 m 1 + d3 = days_from_civil ey4 m 1 + d2 /\
    1 <= d3 <= 366 /\ ey4 <= ey5 <= ey4 + 1000.
Proof.
  unfold ebound, pC. intros Hm He Hd. unfold fuel_century, fuel_4years, fuel_year.
  assert (EB = 1000000000000000000) as HEB by reflexivity.
  destruct (Z.ltb_spec 365 d2).
  - rewrite year_index64_ok by (unfold ebound; lia). cbn [bind].
    destruct (century_loop_ok 5%nat d2 ey4 m) as (da & ea & -> & A1 & A2 & A3);
      try lia. cbn [bind].
    destruct (years4_loop_ok 26%nat da ea m) as (db & eb & -> & B1 & B2 & B3);
      try lia. cbn [bind].
    destruct (year_loop_ok 5%nat db eb m) as (dc & ec & -> & C1 & C2 & C3);
      try lia.
    exists dc, ec. repeat split; lia.
  - exists d2, ey4. repeat split; lia.
Qed.

Lemma pD_ok d3 ey5 m ry rm rd : 1 <= m <= 12 -> ebound (2 * ey5) -> 1 <= d3 <= 366 ->
  civil_of_days (days_from_civil ey5 m 1 + (d3 - 1)) = (ry, rm, rd) ->
  pD d3 ey5 m = OK (rd, ry, rm) /\ ey5 <= ry <= ey5 + 1 /\ 1 <= rd <= 31.
Proof.
  unfold ebound, pD. intros Hm He Hd Hc.
  pose proof (dfc_cod (days_from_civil ey5 m 1 + (d3 - 1))) as Hz. rewrite Hc in Hz.
  destruct Hz as [Hv Hz]. pose proof (valid_date_inv _ _ _ Hv) as [Hrm Hrd].
  pose proof (dim_range ry rm).
  assert (12 * ey5 + m <= 12 * ry + rm) as G1 by (apply (ym_ge ey5 m ry rm rd); auto; lia).
  assert (12 * ry + rm <= 12 * (ey5 + 1) + m) as G2.
  { apply (ym_le (ey5 + 1) m ry rm rd); auto.
    rewrite dfc_dpy by lia. pose proof (dpy_range ey5 m). lia. }
  split; [|lia].
  destruct (Z.ltb_spec 28 d3).
  - apply month_loop_ok; auto; try (unfold EB, fuel_month in *; lia).
  - pose proof (dim_range ey5 m). rewrite <- dfc_day in Hz.
    destruct (dfc_inj ry rm rd ey5 m d3 Hv (valid_date_intro ey5 m d3 Hm ltac:(lia)) Hz)
      as (-> & -> & ->). reflexivity.
Qed.

Lemma n_day_refines y m d cd hh mm ss ry rm rd :
  int64 y -> 1 <= m <= 12 -> int64 d -> int64 cd ->
  civil_of_days (days_from_civil y m 1 + (d - 1) + cd) = (ry, rm, rd) ->
  int64 ry ->
  n_day64 y m d cd hh mm ss = OK (mkF ry rm rd hh mm ss).
Proof.
  intros Hy Hm Hd Hcd Hc Hry. rewrite n_day64_unfold.
  remember (Z.rem y 400) as ey0 eqn:E0. remember (Z.quot y 400) as q eqn:Eq.
  assert (y = ey0 + 400 * q /\ -400 < ey0 < 400) as [Ey Hey0] by lia. clear E0 Eq.
  remember (Z.quot cd 146097) as qc eqn:E1. remember (Z.rem cd 146097) as rc eqn:E2.
  assert (cd = 146097 * qc + rc /\ -146097 < rc < 146097 /\
          -64000000000000 <= qc <= 64000000000000) as (Ecd & Hrc & Hqc) by n_i64.
  clear E1 E2.
  remember (Z.quot d 146097) as qd eqn:E1. remember (Z.rem d 146097) as rd0 eqn:E2.
  assert (d = 146097 * qd + rd0 /\ -146097 < rd0 < 146097 /\
          -64000000000000 <= qd <= 64000000000000) as (Ed & Hrd0 & Hqd) by n_i64.
  clear E1 E2.
  n_step. n_step.
  destruct (pA_ok (ey0 + qc * 400) rc m) as (ey2 & cd2 & -> & A1 & A2 & A3);
    try (unfold ebound, EB; lia). cbn [bind].
  n_step. n_step. n_step.
  destruct (pB_ok (ey2 + qd * 400) (rd0 + cd2) m) as (ey4 & d2 & -> & B1 & B2 & B3);
    try (unfold ebound, EB; lia). cbn [bind].
  destruct (pC_ok d2 ey4 m) as (d3 & ey5 & -> & C1 & C2 & C3);
    try (unfold ebound, EB; lia). cbn [bind].
  (* relate the target day to the running state *)
  replace (ey0 + qc * 400) with (ey0 + 400 * qc) in * by lia.
  replace (ey2 + qd * 400) with (ey2 + 400 * qd) in * by lia.
  rewrite dfc_period in A1, B1.
  assert (days_from_civil y m 1 + (d - 1) + cd =
          days_from_civil ey5 m 1 + (d3 - 1) + 146097 * q) as Ez.
  { rewrite Ey at 1. rewrite dfc_period. lia. }
  rewrite Ez, cod_period in Hc.
  destruct (civil_of_days (days_from_civil ey5 m 1 + (d3 - 1))) as [[y' m'] d'] eqn:Ec'.
  change ((y' + 400 * q, m', d') = (ry, rm, rd)) in Hc.
  apply pair_equal_spec in Hc. destruct Hc as [Hc Hc3].
  apply pair_equal_spec in Hc. destruct Hc as [Hc1 Hc2]. subst ry rm rd.
  destruct (pD_ok d3 ey5 m y' m' d') as (-> & D1 & D2); auto;
    try (unfold ebound, EB; lia). cbn [bind].
  n_step.
  replace (y + (y' - ey0)) with (y' + 400 * q) by lia.
  n_step. unfold narrow8.
  replace ((-128 <=? d') && (d' <=? 127)) with true by lia. cbn [bind].
  reflexivity.
Qed.

(* ------------------------------------------------------------------ *)
(* civil_of_seconds on an already split argument                        *)

Lemma cos_split D hh mm ss y m d :
  0 <= hh < 24 -> 0 <= mm < 60 -> 0 <= ss < 60 -> civil_of_days D = (y, m, d) ->
  civil_of_seconds (D * 86400 + hh * 3600 + mm * 60 + ss) = mkF y m d hh mm ss.
Proof.
  intros Hh Hm Hs Hc. unfold civil_of_seconds.
  set (r := hh * 3600 + mm * 60 + ss).
  assert (0 <= r < 86400) as Hr by (unfold r; lia).
  replace (D * 86400 + hh * 3600 + mm * 60 + ss) with (D * 86400 + r) by (unfold r; lia).
  assert ((D * 86400 + r) / 86400 = D) as -> by lia.
  assert ((D * 86400 + r) mod 86400 = r) as -> by lia.
  rewrite Hc.
  assert (r / 3600 = hh) as -> by (unfold r; lia).
  assert (r mod 3600 = mm * 60 + ss) as -> by (unfold r; lia).
  assert ((mm * 60 + ss) / 60 = mm) as -> by lia.
  assert (r mod 60 = ss) as -> by (unfold r; lia).
  reflexivity.
Qed.

Definition HB : Z := 4611686018427387904.

Lemma carry_month_range m : 1 <= carry_month m <= 12.
Proof. unfold carry_month. lia. Qed.

(* ------------------------------------------------------------------ *)
(* n_mon                                                                *)

Lemma n_mon_to_n_day y m d cd hh mm ss :
  int64 y -> int64 m -> int64 (carry_year y m) ->
  n_mon64 y m d cd hh mm ss = n_day64 (carry_year y m) (carry_month m) d cd hh mm ss.
Proof.
  intros Hy Hm Hc. unfold n_mon64.
  pose proof (carry_month_range m) as Hcm.
  assert (narrow8 (carry_month m) = OK (carry_month m)) as Hn.
  { unfold narrow8. replace ((-128 <=? carry_month m) && (carry_month m <=? 127)) with true by lia.
    reflexivity. }
  destruct (Z.eqb_spec m 12) as [->|Hne]; cbn [negb].
  - cbn [bind]. change (carry_month 12) with 12 in *. rewrite Hn. cbn [bind].
    replace (carry_year y 12) with y by (unfold carry_year; lia). reflexivity.
  - destruct (Z.leb_spec (Z.rem m 12) 0).
    + n_step. n_step. cbn [bind]. unfold carry_year in Hc.
      replace (y + (Z.quot m 12 - 1)) with (y + (m - 1) / 12) by lia.
      n_step.
      replace (Z.rem m 12 + 12) with (carry_month m) by (unfold carry_month; lia).
      rewrite Hn. cbn [bind]. reflexivity.
    + cbn [bind]. unfold carry_year in Hc. unfold add64.
      replace (y + Z.quot m 12) with (y + (m - 1) / 12) by lia.
      n_step.
      replace (Z.rem m 12) with (carry_month m) by (unfold carry_month; lia).
      rewrite Hn. cbn [bind]. reflexivity.
Qed.

Lemma n_mon_refines y m d cd hh mm ss S :
  int64 y -> int64 m -> int64 d -> int64 cd -> int64 (carry_year y m) ->
  0 <= hh < 24 -> 0 <= mm < 60 -> 0 <= ss < 60 ->
  S = (days_from_civil (carry_year y m) (carry_month m) 1 + (d - 1) + cd) * 86400
      + hh * 3600 + mm * 60 + ss ->
  int64 (fy (civil_of_seconds S)) ->
  n_mon64 y m d cd hh mm ss = OK (civil_of_seconds S).
Proof.
  intros Hy Hm Hd Hcd Hc Hh Hmi Hs -> Hr.
  rewrite n_mon_to_n_day by assumption.
  destruct (civil_of_days (days_from_civil (carry_year y m) (carry_month m) 1 + (d - 1) + cd))
    as [[ry rm] rd] eqn:Ec.
  rewrite (cos_split _ hh mm ss ry rm rd) in * by assumption.
  cbn [fy] in Hr.
  apply n_day_refines; auto. apply carry_month_range.
Qed.

(* ------------------------------------------------------------------ *)
(* n_hour                                                               *)

Lemma n_hour_refines y m d cd hh mm ss S :
  int64 y -> int64 m -> int64 d -> - HB <= cd <= HB -> int64 hh -> int64 (carry_year y m) ->
  0 <= mm < 60 -> 0 <= ss < 60 ->
  S = (days_from_civil (carry_year y m) (carry_month m) 1 + (d - 1) + cd) * 86400
      + hh * 3600 + mm * 60 + ss ->
  int64 (fy (civil_of_seconds S)) ->
  n_hour64 y m d cd hh mm ss = OK (civil_of_seconds S).
Proof.
  intros Hy Hm Hd Hcd Hh Hc Hmi Hs HS Hr. unfold HB in Hcd. unfold n_hour64.
  remember (Z.quot hh 24) as qh eqn:E1. remember (Z.rem hh 24) as rh eqn:E2.
  assert (hh = 24 * qh + rh /\ -24 < rh < 24 /\
          -400000000000000000 <= qh <= 400000000000000000) as (Eh & Hrh & Hqh) by n_i64.
  clear E1 E2.
  n_step.
  assert (narrow8 (hh mod 24) = OK (hh mod 24)) as Hn.
  { unfold narrow8. replace ((-128 <=? hh mod 24) && (hh mod 24 <=? 127)) with true by lia.
    reflexivity. }
  destruct (Z.ltb_spec rh 0).
  - n_step. n_step.
    replace (rh + 24) with (hh mod 24) by lia. rewrite Hn. cbn [bind].
    apply n_mon_refines; auto; try n_i64; try lia.
  - cbn [bind]. replace rh with (hh mod 24) by lia. rewrite Hn. cbn [bind].
    apply n_mon_refines; auto; try n_i64; try lia.
Qed.

(* ------------------------------------------------------------------ *)
(* n_min                                                                *)

Lemma n_min_refines y m d hh ch mm ss S :
  int64 y -> int64 m -> int64 d -> int64 hh -> - HB <= ch <= HB -> int64 mm ->
  int64 (carry_year y m) -> 0 <= ss < 60 ->
  S = (days_from_civil (carry_year y m) (carry_month m) 1 + (d - 1)) * 86400
      + (hh + ch) * 3600 + mm * 60 + ss ->
  int64 (fy (civil_of_seconds S)) ->
  n_min64 y m d hh ch mm ss = OK (civil_of_seconds S).
Proof.
  intros Hy Hm Hd Hh Hch Hmi Hc Hs HS Hr. unfold HB in Hch. unfold n_min64.
  remember (Z.quot mm 60) as qm eqn:E1. remember (Z.rem mm 60) as rm eqn:E2.
  assert (mm = 60 * qm + rm /\ -60 < rm < 60 /\
          -160000000000000000 <= qm <= 160000000000000000) as (Em & Hrm & Hqm) by n_i64.
  clear E1 E2.
  n_step.
  assert (narrow8 (mm mod 60) = OK (mm mod 60)) as Hn.
  { unfold narrow8. replace ((-128 <=? mm mod 60) && (mm mod 60 <=? 127)) with true by lia.
    reflexivity. }
  assert (forall c2, c2 = ch + mm / 60 ->
    (do a <- add64 (Z.quot hh 24) (Z.quot c2 24);;
     do b <- add64 (Z.rem hh 24) (Z.rem c2 24);;
     do m8 <- narrow8 (mm mod 60);; n_hour64 y m d a b m8 ss) = OK (civil_of_seconds S)) as K.
  { intros c2 Ec2.
    remember (Z.quot hh 24) as qh eqn:E1. remember (Z.rem hh 24) as rh eqn:E2.
    assert (hh = 24 * qh + rh /\ -24 < rh < 24 /\
            -400000000000000000 <= qh <= 400000000000000000) as (Eh & Hrh & Hqh) by n_i64.
    clear E1 E2.
    remember (Z.quot c2 24) as qc eqn:E1. remember (Z.rem c2 24) as rc eqn:E2.
    assert (c2 = 24 * qc + rc /\ -24 < rc < 24 /\
            -400000000000000000 <= qc <= 400000000000000000) as (Ec & Hrc & Hqc) by n_i64.
    clear E1 E2.
    n_step. n_step. rewrite Hn. cbn [bind].
    apply n_hour_refines; auto; try n_i64; try (unfold HB; lia). }
  destruct (Z.ltb_spec rm 0).
  - n_step. n_step. replace (rm + 60) with (mm mod 60) by lia.
    apply K. lia.
  - cbn [bind]. replace rm with (mm mod 60) by lia. apply K. lia.
Qed.

(* ------------------------------------------------------------------ *)
(* n_sec: C04                                                           *)

Lemma n_sec_fast y m d hh mm ss :
  1 <= d <= 28 -> 1 <= m <= 12 -> 0 <= hh < 24 -> 0 <= mm < 60 -> 0 <= ss < 60 ->
  mkF y m d hh mm ss = norm_spec y m d hh mm ss.
Proof.
  intros Hd Hm Hh Hmi Hs. symmetry. unfold norm_spec, norm_sec.
  replace (carry_year y m) with y by (unfold carry_year; lia).
  replace (carry_month m) with m by (unfold carry_month; lia).
  rewrite <- dfc_day.
  assert (valid_fields (mkF y m d hh mm ss) = true) as Hv.
  { unfold valid_fields, valid_date. cbn [fy fm fd fhh fmm fss].
    pose proof (dim_range y m). lia. }
  apply cos_sec_of in Hv. unfold sec_of in Hv. cbn [fy fm fd fhh fmm fss] in Hv. exact Hv.
Qed.

Lemma n_sec_refines_lemma : forall y m d hh mm ss,
  int64 y -> int64 m -> int64 d -> int64 hh -> int64 mm -> int64 ss ->
  int64 (carry_year y m) -> int64 (fy (norm_spec y m d hh mm ss)) ->
  n_sec64 y m d hh mm ss = OK (norm_spec y m d hh mm ss).
Proof.
  intros y m d hh mm ss Hy Hm Hd Hh Hmi Hs Hc Hr.
  unfold n_sec64.
  destruct ((0 <=? ss) && (ss <? 60)) eqn:Ess.
  - destruct ((0 <=? mm) && (mm <? 60)) eqn:Emm.
    + destruct ((0 <=? hh) && (hh <? 24)) eqn:Ehh.
      * destruct ((1 <=? d) && (d <=? 28) && (1 <=? m) && (m <=? 12)) eqn:Ed.
        -- f_equal. apply n_sec_fast; lia.
        -- unfold norm_spec, norm_sec in *. apply n_mon_refines; auto; try n_i64; lia.
      * remember (Z.quot hh 24) as qh eqn:E1. remember (Z.rem hh 24) as rh eqn:E2.
        assert (hh = 24 * qh + rh /\ -24 < rh < 24 /\
                -400000000000000000 <= qh <= 400000000000000000) as (Eh & Hrh & Hqh) by n_i64.
        clear E1 E2. unfold norm_spec, norm_sec in *.
        apply n_hour_refines; auto; try n_i64; try (unfold HB; lia).
    + remember (Z.quot mm 60) as qm eqn:E1. remember (Z.rem mm 60) as rm eqn:E2.
      assert (mm = 60 * qm + rm /\ -60 < rm < 60 /\
              -160000000000000000 <= qm <= 160000000000000000) as (Em & Hrm & Hqm) by n_i64.
      clear E1 E2. unfold norm_spec, norm_sec in *.
      apply n_min_refines; auto; try n_i64; try (unfold HB; lia).
  - clear Ess. unfold norm_spec, norm_sec in *.
    assert (narrow8 (ss mod 60) = OK (ss mod 60)) as Hn.
    { unfold narrow8. replace ((-128 <=? ss mod 60) && (ss mod 60 <=? 127)) with true by lia.
      reflexivity. }
    assert (forall c1, c1 = ss / 60 ->
      (do a <- add64 (Z.quot mm 60) (Z.quot c1 60);;
       do b <- add64 (Z.rem mm 60) (Z.rem c1 60);;
       do s8 <- narrow8 (ss mod 60);; n_min64 y m d hh a b s8) =
      OK (civil_of_seconds
           ((days_from_civil (carry_year y m) (carry_month m) 1 + (d - 1)) * 86400 +
            hh * 3600 + mm * 60 + ss))) as K.
    { intros c1 Ec1.
      remember (Z.quot mm 60) as qm eqn:E1. remember (Z.rem mm 60) as rm eqn:E2.
      assert (mm = 60 * qm + rm /\ -60 < rm < 60 /\
              -160000000000000000 <= qm <= 160000000000000000) as (Em & Hrm & Hqm) by n_i64.
      clear E1 E2.
      remember (Z.quot c1 60) as qc eqn:E1. remember (Z.rem c1 60) as rc eqn:E2.
      assert (c1 = 60 * qc + rc /\ -60 < rc < 60 /\
              -160000000000000000 <= qc <= 160000000000000000) as (Ec & Hrc & Hqc) by n_i64.
      clear E1 E2.
      n_step. n_step. rewrite Hn. cbn [bind].
      apply n_min_refines; auto; try n_i64; try (unfold HB; lia). }
    remember (Z.quot ss 60) as qs eqn:E1. remember (Z.rem ss 60) as rs eqn:E2.
    assert (ss = 60 * qs + rs /\ -60 < rs < 60 /\
            -160000000000000000 <= qs <= 160000000000000000) as (Es & Hrs & Hqs) by n_i64.
    clear E1 E2.
    destruct (Z.ltb_spec rs 0).
    + n_step. n_step. replace (rs + 60) with (ss mod 60) by lia. apply K. lia.
    + cbn [bind]. replace rs with (ss mod 60) by lia. apply K. lia.
Qed.

Lemma align64_spec tag f : align64 tag f = align_spec tag f.
Proof. reflexivity. Qed.

Lemma construct_refines_lemma : forall tag y m d hh mm ss,
  int64 y -> int64 m -> int64 d -> int64 hh -> int64 mm -> int64 ss ->
  int64 (carry_year y m) -> int64 (fy (norm_spec y m d hh mm ss)) ->
  construct64 tag y m d hh mm ss = OK (align_spec tag (norm_spec y m d hh mm ss)).
Proof.
  intros. unfold construct64. rewrite n_sec_refines_lemma by assumption. reflexivity.
Qed.

(* ------------------------------------------------------------------ *)
(* Alignment                                                            *)

Lemma valid_fields_inv f : valid_fields f = true ->
  valid_date (fy f) (fm f) (fd f) = true /\
  0 <= fhh f <= 23 /\ 0 <= fmm f <= 59 /\ 0 <= fss f <= 59.
Proof. unfold valid_fields. rewrite !andb_true_iff, !Z.leb_le. tauto. Qed.

Lemma valid_fields_intro f :
  valid_date (fy f) (fm f) (fd f) = true ->
  0 <= fhh f <= 23 -> 0 <= fmm f <= 59 -> 0 <= fss f <= 59 -> valid_fields f = true.
Proof. unfold valid_fields. rewrite !andb_true_iff, !Z.leb_le. tauto. Qed.

Lemma dfc_jan1_le y m d : valid_date y m d = true ->
  days_from_civil y 1 1 <= days_from_civil y m d.
Proof.
  intros Hv. pose proof (valid_date_inv _ _ _ Hv) as [Hm Hd].
  pose proof (dfc_lt_iff y m d y 1 1 Hv (valid_first y 1 ltac:(lia))) as [H _].
  destruct (Z_lt_le_dec (days_from_civil y m d) (days_from_civil y 1 1)) as [L|L]; [|lia].
  apply H in L. lia.
Qed.

Lemma align_truncates_lemma : forall tag f, valid_fields f = true ->
  valid_fields (align_spec tag f) = true /\ sec_of (align_spec tag f) <= sec_of f /\
  align_spec tag (align_spec tag f) = align_spec tag f /\ convert64 tag f = align_spec tag f /\
  fy (align_spec tag f) = fy f.
Proof.
  intros tag f Hv. pose proof (valid_fields_inv f Hv) as (Hd & Hh & Hm & Hs).
  pose proof (valid_date_inv _ _ _ Hd) as [Hmo Hda].
  pose proof (dfc_day (fy f) (fm f) (fd f)) as Hday.
  pose proof (dfc_jan1_le _ _ _ Hd) as Hjan.
  assert (forall g, convert64 tag f = g -> convert64 tag f = g) as _ by auto.
  destruct tag as [|[|[|[|[|tag]]]]]; cbn [align_spec];
    (split; [apply valid_fields_intro; cbn [fy fm fd fhh fmm fss]; auto; try lia;
             try (apply valid_first; lia) |
     split; [unfold sec_of; cbn [fy fm fd fhh fmm fss]; lia |
     split; [reflexivity | split; reflexivity]]]).
Qed.

(* ------------------------------------------------------------------ *)
(* Ordinals                                                             *)

Lemma cos_days x :
  civil_of_seconds (x * 86400) =
  let '(y, m, d) := civil_of_days x in mkF y m d 0 0 0.
Proof.
  destruct (civil_of_days x) as [[y m] d] eqn:E.
  replace (x * 86400) with (x * 86400 + 0 * 3600 + 0 * 60 + 0) by lia.
  apply cos_split; auto; lia.
Qed.

Lemma cos_fss_60 x : fss (civil_of_seconds (x * 60)) = 0.
Proof.
  unfold civil_of_seconds. destruct (civil_of_days _) as [[y m] d]. cbn [fss]. lia.
Qed.
Lemma cos_fmm_3600 x : fmm (civil_of_seconds (x * 3600)) = 0 /\ fss (civil_of_seconds (x * 3600)) = 0.
Proof.
  unfold civil_of_seconds. destruct (civil_of_days _) as [[y m] d]. cbn [fss fmm]. lia.
Qed.

Lemma align_of_ord tag x : align_spec tag (of_ord_spec tag x) = of_ord_spec tag x.
Proof.
  destruct tag as [|[|[|[|[|tag]]]]]; cbn [align_spec of_ord_spec]; try reflexivity.
  - pose proof (cos_fss_60 x) as H. destruct (civil_of_seconds (x * 60)) as [a1 a2 a3 a4 a5 a6].
    cbn [fy fm fd fhh fmm fss] in *. subst. reflexivity.
  - pose proof (cos_fmm_3600 x) as [H1 H2]. destruct (civil_of_seconds (x * 3600)) as [a1 a2 a3 a4 a5 a6].
    cbn [fy fm fd fhh fmm fss] in *. subst. reflexivity.
  - rewrite cos_days. destruct (civil_of_days x) as [[y m] d]. reflexivity.
Qed.

Lemma valid_of_ord tag x : valid_fields (of_ord_spec tag x) = true.
Proof.
  destruct tag as [|[|[|[|[|tag]]]]]; cbn [of_ord_spec]; try apply valid_cos.
  - apply valid_fields_intro; cbn [fy fm fd fhh fmm fss]; try lia. apply valid_first. lia.
  - apply valid_fields_intro; cbn [fy fm fd fhh fmm fss]; try lia. apply valid_first. lia.
Qed.

Lemma ord_of_ord tag x : ord_spec tag (of_ord_spec tag x) = x.
Proof.
  destruct tag as [|[|[|[|[|tag]]]]]; cbn [ord_spec of_ord_spec].
  - apply sec_of_cos.
  - rewrite sec_of_cos. lia.
  - rewrite sec_of_cos. lia.
  - rewrite cos_days. pose proof (dfc_cod x) as H.
    destruct (civil_of_days x) as [[y m] d]. cbn [fy fm fd]. tauto.
  - cbn [fy fm]. lia.
  - reflexivity.
Qed.

(* the year is monotone along the civil time line *)
Lemma cos_year_mono s1 s2 : s1 <= s2 ->
  fy (civil_of_seconds s1) <= fy (civil_of_seconds s2).
Proof.
  intros Hle.
  pose proof (valid_cos s1) as V1. pose proof (valid_cos s2) as V2.
  pose proof (sec_of_cos s1) as E1. pose proof (sec_of_cos s2) as E2.
  set (f1 := civil_of_seconds s1) in *. set (f2 := civil_of_seconds s2) in *.
  clearbody f1 f2.
  apply valid_fields_inv in V1, V2.
  destruct V1 as (D1 & ? & ? & ?). destruct V2 as (D2 & ? & ? & ?).
  unfold sec_of in E1, E2.
  destruct (Z_lt_le_dec (fy f2) (fy f1)) as [L|L]; [|lia].
  pose proof (dfc_lt_iff _ _ _ _ _ _ D2 D1) as [_ HH].
  assert (days_from_civil (fy f2) (fm f2) (fd f2) < days_from_civil (fy f1) (fm f1) (fd f1))
    by (apply HH; lia).
  lia.
Qed.

Lemma of_ord_year_mono tag x1 x2 : x1 <= x2 ->
  fy (of_ord_spec tag x1) <= fy (of_ord_spec tag x2).
Proof.
  intros H.
  destruct tag as [|[|[|[|[|tag]]]]]; cbn [of_ord_spec]; try (apply cos_year_mono; lia);
    cbn [fy]; lia.
Qed.

Lemma of_ord_ord tag f : valid_fields f = true -> align_spec tag f = f ->
  of_ord_spec tag (ord_spec tag f) = f.
Proof.
  intros Hv Ha. pose proof (valid_fields_inv f Hv) as (Hd & Hh & Hm & Hs).
  pose proof (valid_date_inv _ _ _ Hd) as [Hmo Hda].
  destruct tag as [|[|[|[|[|tag]]]]]; cbn [ord_spec of_ord_spec].
  - apply cos_sec_of; auto.
  - assert (fss f = 0) as Z0 by (rewrite <- Ha; reflexivity).
    replace (sec_of f / 60 * 60) with (sec_of f) by (unfold sec_of; lia).
    apply cos_sec_of; auto.
  - assert (fss f = 0) as Z0 by (rewrite <- Ha; reflexivity).
    assert (fmm f = 0) as Z1 by (rewrite <- Ha; reflexivity).
    replace (sec_of f / 3600 * 3600) with (sec_of f) by (unfold sec_of; lia).
    apply cos_sec_of; auto.
  - assert (fss f = 0) as Z0 by (rewrite <- Ha; reflexivity).
    assert (fmm f = 0) as Z1 by (rewrite <- Ha; reflexivity).
    assert (fhh f = 0) as Z2 by (rewrite <- Ha; reflexivity).
    replace (days_from_civil (fy f) (fm f) (fd f) * 86400) with (sec_of f) by (unfold sec_of; lia).
    apply cos_sec_of; auto.
  - transitivity (align_spec 4 f); [|exact Ha]. cbn [align_spec]. f_equal; lia.
  - transitivity (align_spec (S (S (S (S (S tag))))) f); [|exact Ha]. reflexivity.
Qed.

(* ------------------------------------------------------------------ *)
(* step: C05                                                            *)

Lemma carry_id y m : 1 <= m <= 12 -> carry_year y m = y /\ carry_month m = m.
Proof. unfold carry_year, carry_month. lia. Qed.

Lemma step_refines : forall tag f n, (tag <= 5)%nat ->
  valid_fields f = true -> align_spec tag f = f -> int64 (fy f) -> int64 n ->
  int64 (fy (of_ord_spec tag (ord_spec tag f + n))) ->
  step64 tag f n = OK (of_ord_spec tag (ord_spec tag f + n)).
Proof.
  intros tag f n Ht Hv Ha Hy Hn Hr.
  pose proof (valid_fields_inv f Hv) as (Hd & Hh & Hm & Hs).
  pose proof (valid_date_inv _ _ _ Hd) as [Hmo Hda].
  pose proof (dim_range (fy f) (fm f)) as Hdim.
  destruct (carry_id (fy f) (fm f) Hmo) as [Ecy Ecm].
  pose proof (dfc_day (fy f) (fm f) (fd f)) as Hday.
  remember (Z.quot n 60) as q60 eqn:E1. remember (Z.rem n 60) as r60 eqn:E2.
  assert (n = 60 * q60 + r60 /\ -60 < r60 < 60 /\
          -160000000000000000 <= q60 <= 160000000000000000) as (En60 & Hr60 & Hq60) by n_i64.
  remember (Z.quot n 24) as q24 eqn:E3. remember (Z.rem n 24) as r24 eqn:E4.
  assert (n = 24 * q24 + r24 /\ -24 < r24 < 24 /\
          -400000000000000000 <= q24 <= 400000000000000000) as (En24 & Hr24 & Hq24) by n_i64.
  destruct tag as [|[|[|[|[|tag]]]]]; cbn [step64 ord_spec of_ord_spec] in *;
    rewrite <- ?E1, <- ?E2, <- ?E3, <- ?E4; clear E1 E2 E3 E4.
  - (* second *)
    n_step. n_step.
    assert (norm_spec (fy f) (fm f) (fd f) (fhh f) (fmm f + q60) (fss f + r60) =
            civil_of_seconds (sec_of f + n)) as E.
    { unfold norm_spec, norm_sec, sec_of. rewrite Ecy, Ecm. f_equal. lia. }
    rewrite <- E in *.
    apply n_sec_refines_lemma; auto; try n_i64.
  - (* minute *)
    assert (fss f = 0) as Z0 by (rewrite <- Ha; reflexivity).
    n_step. n_step.
    apply n_min_refines; auto; try n_i64; try (unfold HB; lia).
    rewrite Ecy, Ecm. unfold sec_of. lia.
  - (* hour *)
    assert (fss f = 0) as Z0 by (rewrite <- Ha; reflexivity).
    assert (fmm f = 0) as Z1 by (rewrite <- Ha; reflexivity).
    n_step. n_step.
    apply n_hour_refines; auto; try n_i64; try (unfold HB; lia).
    rewrite Ecy, Ecm. unfold sec_of. lia.
  - (* day *)
    assert (fss f = 0) as Z0 by (rewrite <- Ha; reflexivity).
    assert (fmm f = 0) as Z1 by (rewrite <- Ha; reflexivity).
    assert (fhh f = 0) as Z2 by (rewrite <- Ha; reflexivity).
    rewrite cos_days in *.
    replace (days_from_civil (fy f) (fm f) (fd f) + n)
      with (days_from_civil (fy f) (fm f) 1 + (fd f - 1) + n) in * by lia.
    destruct (civil_of_days (days_from_civil (fy f) (fm f) 1 + (fd f - 1) + n))
      as [[ry rm] rd] eqn:Ec.
    cbn [fy] in Hr. rewrite Z0, Z1, Z2.
    apply n_day_refines; auto; try n_i64.
  - (* month *)
    assert (fd f = 1) as Z3 by (rewrite <- Ha; reflexivity).
    assert (fss f = 0) as Z0 by (rewrite <- Ha; reflexivity).
    assert (fmm f = 0) as Z1 by (rewrite <- Ha; reflexivity).
    assert (fhh f = 0) as Z2 by (rewrite <- Ha; reflexivity).
    cbn [fy] in Hr.
    remember (Z.quot n 12) as q12 eqn:E3. remember (Z.rem n 12) as r12 eqn:E4.
    assert (n = 12 * q12 + r12 /\ -12 < r12 < 12 /\ (0 <= n -> 0 <= r12) /\ (n <= 0 -> r12 <= 0) /\
            -800000000000000000 <= q12 <= 800000000000000000) as (En12 & Hr12 & Hs1 & Hs2 & Hq12) by n_i64.
    clear E3 E4.
    set (N := 12 * fy f + (fm f - 1) + n) in *.
    assert (int64 (fy f + q12)) as Ha1 by (unfold N in *; n_i64).
    n_step. n_step.
    assert (carry_year (fy f + q12) (fm f + r12) = N / 12) as Ecy'
      by (unfold carry_year, N; lia).
    assert (carry_month (fm f + r12) = N mod 12 + 1) as Ecm'
      by (unfold carry_month, N; lia).
    rewrite Z0, Z1, Z2, Z3.
    assert (mkF (N / 12) (N mod 12 + 1) 1 0 0 0 =
            civil_of_seconds ((days_from_civil (N / 12) (N mod 12 + 1) 1 + (1 - 1) + 0) * 86400
                              + 0 * 3600 + 0 * 60 + 0)) as E.
    { symmetry. apply cos_split; try lia.
      replace (days_from_civil (N / 12) (N mod 12 + 1) 1 + (1 - 1) + 0)
        with (days_from_civil (N / 12) (N mod 12 + 1) 1) by lia.
      apply cod_dfc. apply valid_first. lia. }
    rewrite E.
    apply n_mon_refines; auto; try n_i64; try lia.
    + rewrite Ecy', Ecm'. reflexivity.
    + rewrite <- E. cbn [fy]. auto.
  - (* year *)
    assert (fd f = 1) as Z3 by (rewrite <- Ha; reflexivity).
    assert (fm f = 1) as Z4 by (rewrite <- Ha; reflexivity).
    assert (fss f = 0) as Z0 by (rewrite <- Ha; reflexivity).
    assert (fmm f = 0) as Z1 by (rewrite <- Ha; reflexivity).
    assert (fhh f = 0) as Z2 by (rewrite <- Ha; reflexivity).
    cbn [fy] in Hr. n_step. rewrite Z0, Z1, Z2, Z3, Z4. reflexivity.
Qed.

Lemma plus_refines_lemma : forall tag f n, (tag <= 5)%nat ->
  valid_fields f = true -> align_spec tag f = f -> int64 (fy f) -> int64 n ->
  int64 (fy (of_ord_spec tag (ord_spec tag f + n))) ->
  plus64 tag f n = OK (of_ord_spec tag (ord_spec tag f + n)).
Proof.
  intros tag f n Ht Hv Ha Hy Hn Hr. unfold plus64.
  rewrite step_refines by assumption. cbn [bind].
  rewrite align64_spec, align_of_ord. reflexivity.
Qed.

Lemma minus_refines_lemma : forall tag f n, (tag <= 5)%nat ->
  valid_fields f = true -> align_spec tag f = f -> int64 (fy f) -> int64 n ->
  int64 (fy (of_ord_spec tag (ord_spec tag f - n))) ->
  minus64 tag f n = OK (of_ord_spec tag (ord_spec tag f - n)).
Proof.
  intros tag f n Ht Hv Ha Hy Hn Hr. unfold minus64.
  destruct (Z.eqb_spec n min64) as [En|En]; cbn [negb].
  - subst n.
    set (X := ord_spec tag f + max64).
    assert (ord_spec tag f - min64 = X + 1) as EX by (unfold X, min64, max64; lia).
    rewrite EX in *.
    n_step. n_step.
    change (- (min64 + 1)) with max64.
    assert (int64 (fy (of_ord_spec tag X))) as Hmid.
    { pose proof (of_ord_year_mono tag (ord_spec tag f) X ltac:(unfold X, max64; lia)) as L1.
      pose proof (of_ord_year_mono tag X (X + 1) ltac:(lia)) as L2.
      rewrite of_ord_ord in L1 by assumption. n_i64. }
    rewrite (step_refines tag f max64) by (auto; unfold int64, min64, max64; lia).
    cbn [bind]. fold X.
    rewrite (step_refines tag (of_ord_spec tag X) 1); auto.
    + cbn [bind]. rewrite ord_of_ord, align64_spec, align_of_ord. reflexivity.
    + apply valid_of_ord.
    + apply align_of_ord.
    + unfold int64, min64, max64; lia.
    + rewrite ord_of_ord. auto.
  - n_step.
    replace (ord_spec tag f - n) with (ord_spec tag f + - n) in * by lia.
    rewrite step_refines by (auto; n_i64). cbn [bind].
    rewrite align64_spec, align_of_ord. reflexivity.
Qed.

(* ------------------------------------------------------------------ *)
(* next_weekday / prev_weekday: C17                                     *)

Lemma small_cases x : 0 <= x <= 6 ->
  x = 0 \/ x = 1 \/ x = 2 \/ x = 3 \/ x = 4 \/ x = 5 \/ x = 6.
Proof. lia. Qed.

Lemma find_forw base w : 0 <= base <= 6 -> 0 <= w <= 6 ->
  exists i j, find_from 15 src_k_weekdays_forw base 0 = OK i /\
              find_from 15 src_k_weekdays_forw w (S i) = OK j /\
              Z.of_nat j - Z.of_nat i = (w - base - 1) mod 7 + 1.
Proof.
  intros Hb Hw. apply small_cases in Hb, Hw.
  repeat (destruct Hb as [Hb|Hb]); subst base;
  repeat (destruct Hw as [Hw|Hw]); subst w;
  (eexists; eexists; split; [vm_compute; reflexivity | split; vm_compute; reflexivity]).
Qed.

Lemma find_back base w : 0 <= base <= 6 -> 0 <= w <= 6 ->
  exists i j, find_from 15 src_k_weekdays_back base 0 = OK i /\
              find_from 15 src_k_weekdays_back w (S i) = OK j /\
              Z.of_nat j - Z.of_nat i = (base - w - 1) mod 7 + 1.
Proof.
  intros Hb Hw. apply small_cases in Hb, Hw.
  repeat (destruct Hb as [Hb|Hb]); subst base;
  repeat (destruct Hw as [Hw|Hw]); subst w;
  (eexists; eexists; split; [vm_compute; reflexivity | split; vm_compute; reflexivity]).
Qed.

Lemma day_aligned_align3 f : fhh f = 0 -> fmm f = 0 -> fss f = 0 -> align_spec 3 f = f.
Proof. destruct f as [a1 a2 a3 a4 a5 a6]. cbn. intros -> -> ->. reflexivity. Qed.

Lemma next_weekday_spec_lemma : forall f w,
  valid_fields f = true -> (fhh f = 0 /\ fmm f = 0 /\ fss f = 0) -> int64 (fy f) -> 0 <= w <= 6 ->
  exists k, 1 <= k <= 7 /\
    weekday_of_days (days_from_civil (fy f) (fm f) (fd f) + k) = w /\
    (forall j, 1 <= j < k -> weekday_of_days (days_from_civil (fy f) (fm f) (fd f) + j) <> w) /\
    (int64 (fy (civil_of_seconds ((days_from_civil (fy f) (fm f) (fd f) + k) * 86400))) ->
     next_weekday64 f w = OK (civil_of_seconds ((days_from_civil (fy f) (fm f) (fd f) + k) * 86400))).
Proof.
  intros f w Hv (Hh & Hm & Hs) Hy Hw.
  set (D := days_from_civil (fy f) (fm f) (fd f)).
  set (base := weekday_of_days D).
  assert (0 <= base <= 6) as Hb by (unfold base, weekday_of_days; lia).
  exists ((w - base - 1) mod 7 + 1).
  split; [lia|]. split; [|split].
  - unfold base, weekday_of_days. clearbody D. lia.
  - intros j Hj. unfold base, weekday_of_days in *. clearbody D. lia.
  - intros Hr. unfold next_weekday64.
    rewrite weekday_spec_lemma by assumption. cbn [bind]. fold D. fold base.
    destruct (find_forw base w Hb Hw) as (i & j & E1 & E2 & E3).
    rewrite E1. cbn [bind]. rewrite E2. cbn [bind]. rewrite E3.
    apply (plus_refines_lemma 3 f); auto.
    + apply day_aligned_align3; auto.
    + unfold int64, min64, max64. lia.
Qed.

Lemma prev_weekday_spec_lemma : forall f w,
  valid_fields f = true -> (fhh f = 0 /\ fmm f = 0 /\ fss f = 0) -> int64 (fy f) -> 0 <= w <= 6 ->
  exists k, 1 <= k <= 7 /\
    weekday_of_days (days_from_civil (fy f) (fm f) (fd f) - k) = w /\
    (forall j, 1 <= j < k -> weekday_of_days (days_from_civil (fy f) (fm f) (fd f) - j) <> w) /\
    (int64 (fy (civil_of_seconds ((days_from_civil (fy f) (fm f) (fd f) - k) * 86400))) ->
     prev_weekday64 f w = OK (civil_of_seconds ((days_from_civil (fy f) (fm f) (fd f) - k) * 86400))).
Proof.
  intros f w Hv (Hh & Hm & Hs) Hy Hw.
  set (D := days_from_civil (fy f) (fm f) (fd f)).
  set (base := weekday_of_days D).
  assert (0 <= base <= 6) as Hb by (unfold base, weekday_of_days; lia).
  exists ((base - w - 1) mod 7 + 1).
  split; [lia|]. split; [|split].
  - unfold base, weekday_of_days. clearbody D. lia.
  - intros j Hj. unfold base, weekday_of_days in *. clearbody D. lia.
  - intros Hr. unfold prev_weekday64.
    rewrite weekday_spec_lemma by assumption. cbn [bind]. fold D. fold base.
    destruct (find_back base w Hb Hw) as (i & j & E1 & E2 & E3).
    rewrite E1. cbn [bind]. rewrite E2. cbn [bind]. rewrite E3.
    apply (minus_refines_lemma 3 f); auto.
    + apply day_aligned_align3; auto.
    + unfold int64, min64, max64. lia.
Qed.
