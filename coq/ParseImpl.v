(* ParseImpl.v — IMPL64 layer: parse() and its helpers from
   src/time_zone_format.cc (:576-669, :687-1019).  strptime(3) is a Section
   variable (oracle).  `const char*` into a NUL-terminated string = the list
   of remaining bytes; nullptr = None. *)
From CCTZ Require Import Base SrcConstants Cal CivilImpl PosixImpl ZoneLoad ZoneImpl FormatImpl.
Local Open Scope Z_scope.

Definition rng (l : list Z) (i : nat) : Z := nthZ l i.

(* ParseOffset (:576-607) *)
Definition consumed2 (before after : list Z) : bool := Nat.eqb (length before) (length after + 2).

Definition fmt_parse_offset (dp : list Z) (mode_sep : Z) : option (Z * list Z) :=
  match dp with
  | [] => None                                     (* first = '\0' *)
  | first :: d1 =>
      if (first =? 43) || (first =? 45) then
        match parse_int32 d1 2 (rng src_parse_off_hh 0) (rng src_parse_off_hh 1) with
        | Some (hours, ap) =>
            if consumed2 d1 ap then
              let ap' := match ap with c :: r => if negb (mode_sep =? 0) && (c =? mode_sep) then r else ap | [] => ap end in
              let '(minutes, seconds, dpf) :=
                match parse_int32 ap' 2 (rng src_parse_off_mm 0) (rng src_parse_off_mm 1) with
                | Some (mi, bp) =>
                    if consumed2 ap' bp then
                      let bp' := match bp with c :: r => if negb (mode_sep =? 0) && (c =? mode_sep) then r else bp | [] => bp end in
                      match parse_int32 bp' 2 0 59 with
                      | Some (se, cp) => if consumed2 bp' cp then (mi, se, cp) else (mi, 0, bp)
                      | None => (mi, 0, bp)
                      end
                    else (0, 0, ap)
                | None => (0, 0, ap)
                end in
              let off := ((hours * 60 + minutes) * 60) + seconds in
              Some (if first =? 45 then - off else off, dpf)
            else None
        | None => None
        end
      else if (first =? 90) || (first =? 122) then Some (0, d1)
      else None
  end.

(* ParseSubSeconds (:618-641) *)
Fixpoint subsec_loop (dp : list Z) (v exp : Z) (n : nat) : Z * Z * list Z * nat :=
  match dp with
  | [] => (v, exp, dp, n)
  | c :: r =>
      if is_digit c then
        if exp <? 15 then subsec_loop r (v * 10 + (c - 48)) (exp + 1) (S n)
        else subsec_loop r v exp (S n)
      else (v, exp, dp, n)
  end.
Definition parse_subseconds (dp : list Z) : res (option (Z * list Z)) :=
  let '(v, exp, rest, n) := subsec_loop dp 0 0 0 in
  if Nat.eqb n 0 then OK None
  else (do e <- kExp10 (15 - exp) ;; do r <- mul64 v e ;; OK (Some (r, rest))).

Fixpoint skip_space (l : list Z) : list Z :=
  match l with c :: r => if is_space c then skip_space r else l | [] => [] end.

Record pstate := mkPS {
  ps_year : Z; ps_saw_year : bool; ps_tm : tmrec; ps_subsec : Z;
  ps_saw_offset : bool; ps_offset : Z;
  ps_twelve : bool; ps_afternoon : bool;
  ps_week_num : Z; ps_week_start : Z;
  ps_saw_s : bool; ps_percent_s : Z
}.

Definition tm0 : tmrec := mkTM 0 0 0 1 0 70 4 0 0.
Definition ps0 : pstate := mkPS 1970 false tm0 0 false 0 false false (-1) 6 false 0.

Definition set_tm (s : pstate) (t : tmrec) : pstate :=
  mkPS (ps_year s) (ps_saw_year s) t (ps_subsec s) (ps_saw_offset s) (ps_offset s) (ps_twelve s)
       (ps_afternoon s) (ps_week_num s) (ps_week_start s) (ps_saw_s s) (ps_percent_s s).
Definition set_twelve (s : pstate) (b : bool) : pstate :=
  mkPS (ps_year s) (ps_saw_year s) (ps_tm s) (ps_subsec s) (ps_saw_offset s) (ps_offset s) b
       (ps_afternoon s) (ps_week_num s) (ps_week_start s) (ps_saw_s s) (ps_percent_s s).
Definition set_week (s : pstate) (wn ws : Z) : pstate :=
  mkPS (ps_year s) (ps_saw_year s) (ps_tm s) (ps_subsec s) (ps_saw_offset s) (ps_offset s) (ps_twelve s)
       (ps_afternoon s) wn ws (ps_saw_s s) (ps_percent_s s).
Definition set_offset (s : pstate) (o : Z) : pstate :=
  mkPS (ps_year s) (ps_saw_year s) (ps_tm s) (ps_subsec s) true o (ps_twelve s)
       (ps_afternoon s) (ps_week_num s) (ps_week_start s) (ps_saw_s s) (ps_percent_s s).
Definition set_year (s : pstate) (y : Z) : pstate :=
  mkPS y true (ps_tm s) (ps_subsec s) (ps_saw_offset s) (ps_offset s) (ps_twelve s)
       (ps_afternoon s) (ps_week_num s) (ps_week_start s) (ps_saw_s s) (ps_percent_s s).
Definition set_subsec (s : pstate) (v : Z) : pstate :=
  mkPS (ps_year s) (ps_saw_year s) (ps_tm s) v (ps_saw_offset s) (ps_offset s) (ps_twelve s)
       (ps_afternoon s) (ps_week_num s) (ps_week_start s) (ps_saw_s s) (ps_percent_s s).
Definition set_percent_s (s : pstate) (v : Z) : pstate :=
  mkPS (ps_year s) (ps_saw_year s) (ps_tm s) (ps_subsec s) (ps_saw_offset s) (ps_offset s) (ps_twelve s)
       (ps_afternoon s) (ps_week_num s) (ps_week_start s) true v.
Definition set_afternoon (s : pstate) (b : bool) : pstate :=
  mkPS (ps_year s) (ps_saw_year s) (ps_tm s) (ps_subsec s) (ps_saw_offset s) (ps_offset s) (ps_twelve s)
       b (ps_week_num s) (ps_week_start s) (ps_saw_s s) (ps_percent_s s).

Definition tm_with (t : tmrec) (which : nat) (v : Z) : tmrec :=
  match which with
  | 0%nat => mkTM v (tm_min t) (tm_hour t) (tm_mday t) (tm_mon t) (tm_year t) (tm_wday t) (tm_yday t) (tm_isdst t)
  | 1%nat => mkTM (tm_sec t) v (tm_hour t) (tm_mday t) (tm_mon t) (tm_year t) (tm_wday t) (tm_yday t) (tm_isdst t)
  | 2%nat => mkTM (tm_sec t) (tm_min t) v (tm_mday t) (tm_mon t) (tm_year t) (tm_wday t) (tm_yday t) (tm_isdst t)
  | 3%nat => mkTM (tm_sec t) (tm_min t) (tm_hour t) v (tm_mon t) (tm_year t) (tm_wday t) (tm_yday t) (tm_isdst t)
  | 4%nat => mkTM (tm_sec t) (tm_min t) (tm_hour t) (tm_mday t) v (tm_year t) (tm_wday t) (tm_yday t) (tm_isdst t)
  | _ => mkTM (tm_sec t) (tm_min t) (tm_hour t) (tm_mday t) (tm_mon t) (tm_year t) v (tm_yday t) (tm_isdst t)
  end.

Section Parse.
Variable strptime_o : list Z -> list Z -> tmrec -> option (list Z * tmrec).

(* seconds, optionally followed by '.' and a fraction (%E*S, %E#S) *)
Definition parse_ext_seconds (data : list Z) (s : pstate) : res (option (list Z * pstate)) :=
  match parse_int32 data 2 (rng src_parse_range_S 0) (rng src_parse_range_S 1) with
  | None => OK None
  | Some (v, d1) =>
      let s1 := set_tm s (tm_with (ps_tm s) 0 v) in
      match d1 with
      | 46 :: d2 =>
          do r <- parse_subseconds d2 ;;
          match r with
          | None => OK None
          | Some (sub, d3) => OK (Some (d3, set_subsec s1 sub))
          end
      | _ => OK (Some (d1, s1))
      end
  end.
Definition parse_ext_frac (data : list Z) (s : pstate) : res (option (list Z * pstate)) :=
  match data with
  | c :: _ =>
      if is_digit c then
        (do r <- parse_subseconds data ;;
         match r with
         | None => OK None
         | Some (sub, d3) => OK (Some (d3, set_subsec s sub))
         end)
      else OK (Some (data, s))
  | [] => OK (Some (data, s))
  end.

(* hands one specifier to strptime (and runs the %p probe) *)
Definition parse_tm_spec (spec : list Z) (data : list Z) (s : pstate) : option (list Z * pstate) :=
  match strptime_o data spec (ps_tm s) with
  | None => None
  | Some (rest, tm') =>
      let s1 := set_tm s tm' in
      if list_eqb spec [37; 112] then
        let consumed := firstn (length data - length rest) data in
        let probe := strptime_o (49 :: consumed) [37; 73; 37; 112] (mkTM 0 0 0 0 0 0 0 0 0) in
        let aft := match probe with Some (_, t) => tm_hour t =? 13 | None => false end in
        Some (rest, set_afternoon s1 aft)
      else Some (rest, s1)
  end.

(* one iteration of the scanning loop; [None] = data became nullptr *)
Definition scan_step (fmt data : list Z) (s : pstate) : res (list Z * option (list Z * pstate)) :=
  (* returns the remaining format and the new (data, state) *)
  match fmt with
  | [] => OK (fmt, Some (data, s))
  | f0 :: f1 =>
    if is_space f0 then OK (skip_space f1, Some (skip_space data, s))
    else if negb (f0 =? 37) then
      match data with
      | c :: d1 => if c =? f0 then OK (f1, Some (d1, s)) else OK (fmt, None)
      | [] => OK (fmt, None)
      end
    else
      match f1 with
      | [] => OK (f1, None)                               (* "%" at the end *)
      | c :: f2 =>
        let int_field (width : Z) (rngl : list Z) (k : Z -> pstate) :=
          match parse_int32 data width (rng rngl 0) (rng rngl 1) with
          | Some (v, d1) => OK (f2, Some (d1, k v))
          | None => OK (f2, None)
          end in
        let to_strptime (fr : list Z) (s' : pstate) :=
          let spec := firstn (length fmt - length fr) fmt in
          OK (fr, parse_tm_spec spec data s') in
        if c =? 89 then
          match parse_int64 data 0 min64 max64 with
          | Some (v, d1) => OK (f2, Some (d1, set_year s v))
          | None => OK (f2, None)
          end
        else if c =? 109 then
          match parse_int32 data 2 (rng src_parse_range_m 0) (rng src_parse_range_m 1) with
          | Some (v, d1) => OK (f2, Some (d1, set_week (set_tm s (tm_with (ps_tm s) 4 (v - 1))) (-1) (ps_week_start s)))
          | None => OK (f2, None)
          end
        else if (c =? 100) || (c =? 101) then
          (* %e after a blank: format() renders a one-digit %e as a blank and the digit
             (fmt[-1] == 'e' && *data == ' '  =>  ParseInt(data + 1, 1, 1, 9, &tm.tm_mday)) *)
          match (if (c =? 101) && (match data with x :: _ => x =? 32 | [] => false end)
                 then parse_int32 (tl data) 1 1 9
                 else parse_int32 data 2 (rng src_parse_range_d 0) (rng src_parse_range_d 1)) with
          | Some (v, d1) => OK (f2, Some (d1, set_week (set_tm s (tm_with (ps_tm s) 3 v)) (-1) (ps_week_start s)))
          | None => OK (f2, None)
          end
        else if c =? 85 then
          match parse_int32 data 0 (rng src_parse_range_UW 0) (rng src_parse_range_UW 1) with
          | Some (v, d1) => OK (f2, Some (d1, set_week s v 6))
          | None => OK (f2, None)
          end
        else if c =? 87 then
          match parse_int32 data 0 (rng src_parse_range_UW 0) (rng src_parse_range_UW 1) with
          | Some (v, d1) => OK (f2, Some (d1, set_week s v 0))
          | None => OK (f2, None)
          end
        else if c =? 117 then int_field 0 src_parse_range_u (fun v => set_tm s (tm_with (ps_tm s) 6 (Z.rem v 7)))
        else if c =? 119 then int_field 0 src_parse_range_w (fun v => set_tm s (tm_with (ps_tm s) 6 v))
        else if c =? 72 then int_field 2 src_parse_range_H (fun v => set_twelve (set_tm s (tm_with (ps_tm s) 2 v)) false)
        else if c =? 77 then int_field 2 src_parse_range_M (fun v => set_tm s (tm_with (ps_tm s) 1 v))
        else if c =? 83 then int_field 2 src_parse_range_S (fun v => set_tm s (tm_with (ps_tm s) 0 v))
        else if (c =? 73) || (c =? 108) || (c =? 114) then to_strptime f2 (set_twelve s true)
        else if (c =? 82) || (c =? 84) || (c =? 99) || (c =? 88) then to_strptime f2 (set_twelve s false)
        else if c =? 122 then
          match fmt_parse_offset data 0 with
          | Some (o, d1) => OK (f2, Some (d1, set_offset s o))
          | None => OK (f2, None)
          end
        else if c =? 90 then
          (* ParseZone: consumes the non-space bytes; nullptr when there are none *)
          let '(zn, d1) := span_while (fun x => negb (is_space x)) data in
          match zn with [] => OK (f2, None) | _ => OK (f2, Some (d1, s)) end
        else if c =? 115 then
          match parse_int64 data 0 min64 max64 with
          | Some (v, d1) => OK (f2, Some (d1, set_percent_s s v))
          | None => OK (f2, None)
          end
        else if c =? 58 then
          let m : option (list Z) :=
            match f2 with
            | 122 :: r => Some r
            | 58 :: 122 :: r => Some r
            | 58 :: 58 :: 122 :: r => Some r
            | _ => None
            end in
          match m with
          | Some fr =>
              match fmt_parse_offset data 58 with
              | Some (o, d1) => OK (fr, Some (d1, set_offset s o))
              | None => OK (fr, None)
              end
          | None => to_strptime f2 s
          end
        else if c =? 37 then
          match data with
          | 37 :: d1 => OK (f2, Some (d1, s))
          | _ => OK (f2, None)
          end
        else if c =? 69 then
          match f2 with
          | 84 :: f3 =>
              match data with
              | x :: d1 => if (x =? 84) || (x =? 116) then OK (f3, Some (d1, s)) else OK (f2, None)
              | [] => OK (f2, None)
              end
          | 122 :: f3 =>
              match fmt_parse_offset data 58 with
              | Some (o, d1) => OK (f3, Some (d1, set_offset s o))
              | None => OK (f3, None)
              end
          | 42 :: 122 :: f4 =>
              match fmt_parse_offset data 58 with
              | Some (o, d1) => OK (f4, Some (d1, set_offset s o))
              | None => OK (f4, None)
              end
          | 42 :: 83 :: f4 => do r <- parse_ext_seconds data s ;; OK (f4, r)
          | 42 :: 102 :: f4 => do r <- parse_ext_frac data s ;; OK (f4, r)
          | 52 :: 89 :: f4 =>
              match parse_int64 data 4 (rng src_parse_range_E4Y 0) (rng src_parse_range_E4Y 1) with
              | Some (v, d1) =>
                  if Nat.eqb (length data) (length d1 + 4) then OK (f4, Some (d1, set_year s v))
                  else OK (f4, None)
              | None => OK (f4, None)
              end
          | _ =>
              let dflt :=
                (* falls through to strptime with "%E" + one more byte (if any) *)
                let s' := match f2 with
                          | 99 :: _ | 88 :: _ => set_twelve s false
                          | _ => s
                          end in
                to_strptime (match f2 with [] => f2 | _ :: r => r end) s' in
              match f2 with
              | d :: _ =>
                  if is_digit d then
                    match parse_int32 f2 0 0 1024 with
                    | Some (_, 83 :: f5) => do r <- parse_ext_seconds data s ;; OK (f5, r)
                    | Some (_, 102 :: f5) => do r <- parse_ext_frac data s ;; OK (f5, r)
                    | _ => dflt
                    end
                  else dflt
              | [] => dflt
              end
          end
        else if c =? 79 then
          let s' := match f2 with
                    | 72 :: _ => set_twelve s false
                    | 73 :: _ => set_twelve s true
                    | _ => s
                    end in
          to_strptime (match f2 with [] => f2 | _ :: r => r end) s'
        else to_strptime f2 s
      end
  end.

Fixpoint scan_loop (fuel : nat) (fmt data : list Z) (s : pstate) : res (option (list Z * pstate)) :=
  match fuel with
  | O => Err Fuel
  | S f =>
      match fmt with
      | [] => OK (Some (data, s))
      | _ =>
          do '(fmt', r) <- scan_step fmt data s ;;
          match r with
          | None => OK None
          | Some (data', s') => scan_loop f fmt' data' s'
          end
      end
  end.

(* FromWeek (:654-669) *)
Definition from_week (week_num week_start year : Z) (tm : tmrec) : res (option (Z * tmrec)) :=
  do y <- construct64 5 (Z.rem year 400) 1 1 0 0 0 ;;
  do cd0 <- prev_weekday64 (align64 3 y) week_start ;;
  do cdm <- minus64 3 cd0 1 ;;
  do cdn <- next_weekday64 cdm (from_tm_wday (tm_wday tm)) ;;
  do w7 <- mul32 week_num 7 ;;
  do cd <- plus64 3 cdn w7 ;;
  do shift <- sub64 (fy cd) (fy y) ;;
  do yr <-
    (if negb (shift =? 0) then
       if 0 <? shift then
         (do lim <- sub64 max64 shift ;; if lim <? year then OK None else (do y' <- add64 year shift ;; OK (Some y')))
       else
         (do lim <- sub64 min64 shift ;; if year <? lim then OK None else (do y' <- add64 year shift ;; OK (Some y')))
     else OK (Some year)) ;;
  match yr with
  | None => OK None
  | Some y' => OK (Some (y', tm_with (tm_with tm 4 (fm cd - 1)) 3 (fd cd)))
  end.

(* everything after the scanning loop (:924-1018).  [tz] is the zone passed
   by the caller, [utc] the built-in UTC zone. *)
Definition parse_finish (tz utc : zone) (r : option (list Z * pstate)) : res (option (Z * Z)) :=
  match r with
  | None => OK None
  | Some (data, s0) =>
    let tm_a := ps_tm s0 in
    let tm1 := if ps_twelve s0 && ps_afternoon s0 && (tm_hour tm_a <? 12)
               then tm_with tm_a 2 (tm_hour tm_a + 12) else tm_a in
    match skip_space data with
    | _ :: _ => OK None                                   (* trailing data *)
    | [] =>
      if ps_saw_s s0 then OK (Some (ps_percent_s s0, 0))
      else
        let ptz := if ps_saw_offset s0 then utc else tz in
        let '(tm2, offset, subsec) :=
          if tm_sec tm1 =? 60 then (tm_with tm1 0 59, ps_offset s0 - 1, 0)
          else (tm1, ps_offset s0, ps_subsec s0) in
        do year0 <-
          (if ps_saw_year s0 then OK (Some (ps_year s0))
           else if max64 - 1900 <? tm_year tm2 then OK None
           else OK (Some (tm_year tm2 + 1900))) ;;
        match year0 with
        | None => OK None
        | Some y0 =>
          do wk <- (if negb (ps_week_num s0 =? -1)
                    then from_week (ps_week_num s0) (ps_week_start s0) y0 tm2
                    else OK (Some (y0, tm2))) ;;
          match wk with
          | None => OK None
          | Some (year, tm3) =>
            let month := tm_mon tm3 + 1 in
            do cs <- construct64 0 year month (tm_mday tm3) (tm_hour tm3) (tm_min tm3) (tm_sec tm3) ;;
            if negb (fm cs =? month) || negb (fd cs =? tm_mday tm3) then OK None
            else
              do guard <-
                (if offset <? 0 then (do lim <- plus64 0 civil_max64 offset ;; OK (lt64 lim cs))
                 else if 0 <? offset then (do lim <- plus64 0 civil_min64 offset ;; OK (lt64 cs lim))
                 else OK false) ;;
              if guard then OK None
              else
                do cs' <- minus64 0 cs offset ;;
                do '(cl, _) <- make_time ptz 0 cs' ;;
                let tp := cl_pre cl in
                do over <-
                  (if tp =? max64 then
                     (do '(al, _) <- break_time ptz 0 max64 ;; OK (lt64 (al_cs al) cs'))
                   else OK false) ;;
                do under <-
                  (if tp =? min64 then
                     (do '(al, _) <- break_time ptz 0 min64 ;; OK (lt64 cs' (al_cs al)))
                   else OK false) ;;
                if over || under then OK None else OK (Some (tp, subsec))
          end
        end
    end
  end.

(* detail::parse(format, input, tz, &sec, &fs) *)
Definition parse_impl (tz utc : zone) (fmt input : list Z) : res (option (Z * Z)) :=
  let data := skip_space (c_str input) in
  let f := c_str fmt in
  do r <- scan_loop (S (length f)) f data ps0 ;;
  parse_finish tz utc r.
End Parse.
