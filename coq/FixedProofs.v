(* FixedProofs.v — proofs for C15 (src/time_zone_fixed.cc model in FixedImpl.v). *)
From CCTZ Require Import Base SrcConstants FixedImpl.
From Coq Require Import Lia ZifyBool.
Local Open Scope Z_scope.

(* ------------------------------------------------------------------ *)
(* Boolean equality helpers                                            *)

Definition res_list_eqb (r : res (list Z)) (l : list Z) : bool :=
  match r with OK a => list_eqb a l | Err _ => false end.

Lemma res_list_eqb_eq r l : res_list_eqb r l = true -> r = OK l.
Proof.
  destruct r as [a|e]; simpl; [|discriminate].
  intros H. apply list_eqb_eq in H. subst; reflexivity.
Qed.

Definition optZ_eqb (o : option Z) (z : Z) : bool :=
  match o with Some a => a =? z | None => false end.

Lemma optZ_eqb_eq o z : optZ_eqb o z = true -> o = Some z.
Proof.
  destruct o as [a|]; simpl; [|discriminate].
  intros H. apply Z.eqb_eq in H. subst; reflexivity.
Qed.

(* ------------------------------------------------------------------ *)
(* Exhaustive sweep over [-90000, 90000]                               *)

Definition check_off (off : Z) : bool :=
  res_list_eqb (FixedOffsetToName off) (fixed_name_spec off) &&
  res_list_eqb (FixedOffsetToAbbr off) (fixed_abbr_spec off) &&
  optZ_eqb (FixedOffsetFromName (fixed_name_spec off))
           (if (off <? -86400) || (86400 <? off) then 0 else off).

Lemma check_off_sweep :
  forallb check_off (zrange (-90000) (Z.to_nat 180001)) = true.
Proof. vm_cast_no_check (eq_refl true). Qed. (* evaluated once, by the kernel's VM, at Qed *)

Lemma fixed_exhaustive_lemma : forall off, -90000 <= off <= 90000 ->
  FixedOffsetToName off = OK (fixed_name_spec off) /\
  FixedOffsetToAbbr off = OK (fixed_abbr_spec off) /\
  FixedOffsetFromName (fixed_name_spec off) =
    Some (if (off <? -86400) || (86400 <? off) then 0 else off).
Proof.
  intros off Hoff.
  pose proof check_off_sweep as H.
  rewrite forallb_forall in H.
  assert (Hin : In off (zrange (-90000) (Z.to_nat 180001))).
  { apply zrange_In. rewrite Z2Nat.id by (clear; lia). lia. }
  specialize (H off Hin). clear Hin.
  unfold check_off in H.
  apply andb_true_iff in H. destruct H as [H H3].
  apply andb_true_iff in H. destruct H as [H1 H2].
  split; [apply res_list_eqb_eq; exact H1|].
  split; [apply res_list_eqb_eq; exact H2|].
  apply optZ_eqb_eq; exact H3.
Qed.

(* ------------------------------------------------------------------ *)
(* Out of range: UTC                                                   *)

Lemma fixed_out_of_range_name : forall off, off < -86400 \/ 86400 < off ->
  FixedOffsetToName off = OK str_UTC.
Proof.
  intros off H. unfold FixedOffsetToName.
  destruct (off =? 0); [reflexivity|].
  assert (E : (off <? -86400) || (86400 <? off) = true) by lia.
  rewrite E. reflexivity.
Qed.

Lemma fixed_out_of_range_lemma : forall off, off < -86400 \/ 86400 < off ->
  FixedOffsetToName off = OK str_UTC /\ FixedOffsetToAbbr off = OK str_UTC.
Proof.
  intros off H. pose proof (fixed_out_of_range_name off H) as HN.
  split; [exact HN|].
  unfold FixedOffsetToAbbr. rewrite HN. reflexivity.
Qed.

(* ------------------------------------------------------------------ *)
(* FixedOffsetFromName = fixed_from_spec on all lists                  *)

Lemma dig_inv c x : dig c = Some x -> c = 48 + x /\ 0 <= x <= 9.
Proof.
  unfold dig, is_digit. destruct ((48 <=? c) && (c <=? 57)) eqn:E; [|discriminate].
  intros H; inversion H; subst. lia.
Qed.

Lemma parse02d_spec a b :
  fixed_parse02d a b =
  match dig a, dig b with Some x, Some y => x * 10 + y | _, _ => -1 end.
Proof.
  unfold fixed_parse02d, dig. rewrite !strchr_digits.
  destruct (is_digit a) eqn:Da; destruct (is_digit b) eqn:Db; unfold is_digit in Da, Db.
  - assert (E : (a - 48 <? 10) && (b - 48 <? 10) = true) by lia.
    rewrite E. reflexivity.
  - destruct (b =? 0); [|reflexivity].
    change (10 <? 10) with false. rewrite andb_false_r. reflexivity.
  - destruct (a =? 0); [|reflexivity].
    change (10 <? 10) with false. reflexivity.
  - destruct (a =? 0); [|reflexivity].
    destruct (b =? 0); [|reflexivity].
    change (10 <? 10) with false. reflexivity.
Qed.

Lemma prefix_eqb_firstn p s :
  prefix_eqb p s = list_eqb (firstn (length p) s) p.
Proof.
  revert s; induction p as [|x p IH]; intros [|y s]; simpl; try reflexivity.
  rewrite IH, (Z.eqb_sym x y). reflexivity.
Qed.

Lemma spec_tail_len_ne (s : list Z) (A : Type) (f : Z -> Z -> Z -> Z -> Z -> Z -> Z -> Z -> Z -> option A) :
  length s <> 18%nat ->
  match skipn 9 s with
  | [sg; h1; h2; c1; m1; m2; c2; s1; s2] => f sg h1 h2 c1 m1 m2 c2 s1 s2
  | _ => None
  end = None.
Proof.
  intros HL.
  assert (HK : length (skipn 9 s) <> 9%nat) by (rewrite skipn_length; lia).
  destruct (skipn 9 s) as [|x0 [|x1 [|x2 [|x3 [|x4 [|x5 [|x6 [|x7 [|x8 [|x9 l]]]]]]]]]];
    try reflexivity.
  exfalso; apply HK; reflexivity.
Qed.

Lemma fromname_iff_spec_lemma : forall s, FixedOffsetFromName s = fixed_from_spec s.
Proof.
  intros s. unfold FixedOffsetFromName, fixed_from_spec.
  destruct (list_eqb s str_UTC || list_eqb s str_UTC0); [reflexivity|].
  rewrite prefix_eqb_firstn.
  change (length kFixedZonePrefix) with 9%nat.
  change (9 + 9)%nat with 18%nat.
  destruct (list_eqb (firstn 9 s) kFixedZonePrefix); cbn [negb].
  2:{ destruct (negb (Nat.eqb (length s) 18)); reflexivity. }
  destruct (Nat.eqb (length s) 18) eqn:L; cbn [negb].
  2:{ apply Nat.eqb_neq in L. symmetry. apply spec_tail_len_ne. exact L. }
  apply Nat.eqb_eq in L.
  do 18 (destruct s as [|? s]; [discriminate L|]; simpl in L; apply eq_add_S in L).
  destruct s; [clear L|discriminate L].
  cbn [skipn nthZ nth]. cbv zeta.
  rename z8 into sg, z9 into h1, z10 into h2, z11 into k1, z12 into m1,
         z13 into m2, z14 into k2, z15 into s1, z16 into s2.
  rewrite !parse02d_spec. unfold src_fixed_max_secs.
  destruct (dig h1) as [a|] eqn:Ha;
    [|destruct (negb _); [reflexivity|]; destruct (negb _); reflexivity].
  destruct (dig h2) as [b|] eqn:Hb;
    [|destruct (negb _); [reflexivity|]; destruct (negb _); reflexivity].
  apply dig_inv in Ha. apply dig_inv in Hb.
  assert (E1 : (a * 10 + b =? -1) = false) by lia. rewrite E1.
  destruct (dig m1) as [c|] eqn:Hc;
    [|destruct (negb _); [reflexivity|]; destruct (negb _); reflexivity].
  destruct (dig m2) as [d|] eqn:Hd;
    [|destruct (negb _); [reflexivity|]; destruct (negb _); reflexivity].
  apply dig_inv in Hc. apply dig_inv in Hd.
  assert (E2 : (c * 10 + d =? -1) = false) by lia. rewrite E2.
  destruct (dig s1) as [e|] eqn:He;
    [|destruct (negb _); [reflexivity|]; destruct (negb _); reflexivity].
  destruct (dig s2) as [f|] eqn:Hf;
    [|destruct (negb _); [reflexivity|]; destruct (negb _); reflexivity].
  apply dig_inv in He. apply dig_inv in Hf.
  assert (E3 : (e * 10 + f =? -1) = false) by lia. rewrite E3.
  clear E1 E2 E3.
  set (t1 := e * 10 + f + ((a * 10 + b) * 60 + (c * 10 + d)) * 60).
  set (t2 := ((a * 10 + b) * 60 + (c * 10 + d)) * 60 + (e * 10 + f)).
  assert (Ht : t1 = t2) by (unfold t1, t2; lia).
  rewrite Ht. clearbody t2. clear Ht t1.
  assert (Hlt : (86400 <? t2) = negb (t2 <=? 86400)) by lia.
  rewrite Hlt. clear Hlt.
  destruct (sg =? 43); destruct (sg =? 45); destruct (k1 =? 58); destruct (k2 =? 58);
    cbn [orb andb negb]; try reflexivity;
    destruct (t2 <=? 86400); cbn [negb]; try reflexivity; f_equal; lia.
Qed.

(* ------------------------------------------------------------------ *)
(* Accepted names are exactly "UTC", "UTC0" or the documented shape    *)

Lemma fromname_only_if_lemma : forall s off, FixedOffsetFromName s = Some off ->
  (s = str_UTC /\ off = 0) \/ (s = str_UTC0 /\ off = 0) \/ fixed_shape s off.
Proof.
  intros s off H. rewrite fromname_iff_spec_lemma in H.
  unfold fixed_from_spec in H.
  destruct (list_eqb s str_UTC) eqn:U1.
  { apply list_eqb_eq in U1. cbn [orb] in H. inversion H. left; split; auto. }
  destruct (list_eqb s str_UTC0) eqn:U2.
  { apply list_eqb_eq in U2. cbn [orb] in H. inversion H. right; left; split; auto. }
  cbn [orb] in H.
  destruct (list_eqb (firstn 9 s) kFixedZonePrefix) eqn:P; cbn [negb] in H; [|discriminate H].
  apply list_eqb_eq in P.
  destruct (skipn 9 s) as [|sg [|h1 [|h2 [|k1 [|m1 [|m2 [|k2 [|s1 [|s2 [|x l]]]]]]]]]] eqn:K;
    try discriminate H.
  destruct (dig h1) as [a|] eqn:Ha; [|discriminate H].
  destruct (dig h2) as [b|] eqn:Hb; [|discriminate H].
  destruct (dig m1) as [c|] eqn:Hc; [|discriminate H].
  destruct (dig m2) as [d|] eqn:Hd; [|discriminate H].
  destruct (dig s1) as [e|] eqn:He; [|discriminate H].
  destruct (dig s2) as [f|] eqn:Hf; [|discriminate H].
  cbv zeta in H.
  match type of H with (if ?t then _ else _) = _ => destruct t eqn:T; [|discriminate H] end.
  inversion H as [Hoff]; clear H.
  apply dig_inv in Ha, Hb, Hc, Hd, He, Hf.
  destruct Ha as [-> Ra], Hb as [-> Rb], Hc as [-> Rc], Hd as [-> Rd], He as [-> Re], Hf as [-> Rf].
  rewrite !andb_true_iff in T. destruct T as [[[Tsg Tk1] Tk2] Ttot].
  apply Z.eqb_eq in Tk1, Tk2. subst k1 k2.
  right; right. exists sg, a, b, c, d, e, f.
  split.
  { rewrite <- (firstn_skipn 9 s), K, P. reflexivity. }
  split; [lia|].
  repeat (split; [assumption|]).
  cbv zeta. split; [lia|reflexivity].
Qed.
