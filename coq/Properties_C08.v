(* Properties_C08.v — C08: format() renders exactly the fields lookup() reports,
   and no format string causes undefined behaviour. *)
From CCTZ Require Import Base SrcConstants Cal CivilImpl PosixImpl ZoneLoad FormatImpl FmtSpec FmtProofs.
Local Open Scope Z_scope.

(* the broken-down result a lookup can produce on any accepted zone: the loader
   bounds type-table offsets by 24 h, but footer-derived types reach 24:59:59
   and the default dst one hour more, i.e. |offset| <= 93599 s (25:59:59); cf.
   ZoneRefineDefs.type_ok and LoadCert.wide_footer_certified *)
Definition al_ok (al : alookup) : Prop :=
  valid_fields (al_cs al) = true /\ int64 (fy (al_cs al)) /\ -93599 <= al_off al <= 93599.

(* NO format string, however malformed (any bytes, dangling %, %E, %E*, %:,
   10^4-digit counts, embedded NULs), makes the formatter overflow its 21-byte
   scratch buffer, read a table out of bounds, overflow an integer or run out
   of fuel: for EVERY strftime oracle. *)
Theorem format_safe : forall strftime_o fmt al fs unix,
  al_ok al -> 0 <= fs < 10 ^ 15 -> int64 unix ->
  exists r, format_impl strftime_o fmt al fs unix = OK r.
Proof. exact format_safe_lemma. Qed.
Print Assumptions format_safe.

(* every conversion fits the scratch buffer char buf[3 + kDigits10_64] *)
Theorem scratch_bound : forall w v, int64 v -> 0 <= w <= 18 ->
  exists bs, format64 w v = OK bs /\ Z.of_nat (length bs) <= scratch_size.
Proof. exact scratch_bound_lemma. Qed.
Print Assumptions scratch_bound.

(* formats made of literal text, %% and library-defined specifiers only: the
   output is exactly the documented rendering, token by token - no oracle
   involved, any length, any order *)
Definition lib_only (fmt : list Z) : bool :=
  forallb (fun c => negb (c =? 0)) fmt &&
  forallb (fun t => match t with FLit _ | FPct | FLib _ => true | _ => false end) (lex fmt).

Theorem format_lib_only : forall strftime_o fmt al fs unix tm,
  lib_only fmt = true -> al_ok al -> 0 <= fs < 10 ^ 15 -> int64 unix ->
  format_impl strftime_o fmt al fs unix
  = OK (render_spec strftime_o fmt (al_cs al) (al_off al) (al_abbr al) fs unix tm).
Proof. exact format_lib_only_lemma. Qed.
Print Assumptions format_lib_only.

(* the tm handed to strftime carries the documented broken-down fields *)
Theorem to_tm_spec : forall al, al_ok al -> to_tm al = OK (spec_tm (al_cs al) (al_dst al)).
Proof. exact to_tm_spec_lemma. Qed.
Print Assumptions to_tm_spec.

Example c08_nonvacuous :
  let al := mkAL (mkF 2024 2 29 23 59 58) (-18000) false [69; 83; 84] in
  format_impl (fun _ _ => []) [37;89;45;37;109;45;37;100;84;37;72;58;37;77;58;37;69;42;83;37;69;122] al 500000000000000 0
  = OK [50;48;50;52;45;48;50;45;50;57;84;50;51;58;53;57;58;53;56;46;53;45;48;53;58;48;48].
Proof. vm_compute. reflexivity. Qed.

From CCTZ Require FormatSpecFull.
(* "... and every other specifier renders as the C library's strftime does": formats that MIX literal text, %%,
   library specifiers and strftime-delegated specifiers.  format() hands literal text and %% that follow a pending
   strftime specifier to strftime together with it, so the statement needs what is assumed of the oracle, as visible
   premises: strftime renders a run of complete items (literal bytes other than '%' and NUL, "%%", complete
   conversion specifications in glibc's own delimitation) item by item, a literal as itself and "%%" as "%"
   (hom), also when the format ends in a specification cut short after its E/O modifier (hom_tail). *)
Definition strftime_hom (strftime_o : list Z -> tmrec -> list Z) : Prop :=
  forall ts tm, forallb FormatSpecFull.run_ok ts = true ->
    strftime_o (flat_map FormatSpecFull.tok_raw ts) tm = flat_map (FormatSpecFull.run_render strftime_o tm) ts.
Definition strftime_hom_tail (strftime_o : list Z -> tmrec -> list Z) : Prop :=
  forall ts tl tm, forallb FormatSpecFull.run_ok ts = true -> FormatSpecFull.dangling tl = true ->
    strftime_o (flat_map FormatSpecFull.tok_raw ts ++ tl) tm
    = flat_map (FormatSpecFull.run_render strftime_o tm) ts ++ strftime_o tl tm.
(* unconditional: format() = the token-wise rendering WITH FormatTM's documented 16x buffer cap (finding F12) *)
Theorem format_spec_capped : forall strftime_o, strftime_hom strftime_o -> strftime_hom_tail strftime_o ->
  forall fmt al fs unix, clean_fmt fmt = true -> al_ok al -> 0 <= fs < 10 ^ 15 -> int64 unix ->
  format_impl strftime_o fmt al fs unix
  = OK (FormatSpecFull.render_spec_capped strftime_o fmt (al_cs al) (al_off al) (al_abbr al) fs unix
          (spec_tm (al_cs al) (al_dst al))).
Proof. exact FormatSpecFull.format_spec_capped. Qed.
Print Assumptions format_spec_capped.
(* whenever no strftime specifier's rendering hits the cap: exactly the specification's rendering *)
Theorem format_spec_full : forall strftime_o, strftime_hom strftime_o -> strftime_hom_tail strftime_o ->
  forall fmt al fs unix, clean_fmt fmt = true -> al_ok al -> 0 <= fs < 10 ^ 15 -> int64 unix ->
  FormatSpecFull.strftime_fits strftime_o fmt (spec_tm (al_cs al) (al_dst al)) = true ->
  format_impl strftime_o fmt al fs unix
  = OK (render_spec strftime_o fmt (al_cs al) (al_off al) (al_abbr al) fs unix (spec_tm (al_cs al) (al_dst al))).
Proof. exact FormatSpecFull.format_spec_full. Qed.
Print Assumptions format_spec_full.
(* the premises are satisfiable: an oracle (C-locale %a, everything else copied through) meeting both *)
Theorem format_spec_oracle_exists : strftime_hom FormatSpecFull.demo_o /\ strftime_hom_tail FormatSpecFull.demo_o.
Proof. split; [exact FormatSpecFull.demo_hom | exact FormatSpecFull.demo_hom_tail]. Qed.
Print Assumptions format_spec_oracle_exists.
(* F12, machine-checked: with a long rendering the cap makes format() return less than the specification *)
Theorem format_cap_is_real :
  let f := [37; 99] in
  let o := fun s tm => FormatSpecFull.wide tm s in
  let al := FormatSpecFull.ex_al in
  clean_fmt f = true /\
  format_impl o f al 0 0 = OK [] /\
  render_spec o f (al_cs al) (al_off al) (al_abbr al) 0 0 (spec_tm (al_cs al) (al_dst al)) = repeat 120 40.
Proof. vm_compute. repeat split. Qed.
Print Assumptions format_cap_is_real.

From CCTZ Require Import SourceFixed SourceFmtOut SourceFmtOutProofs.
(* SOURCE-DERIVED output helpers of format() (SourceFmtOut.v, regenerated from clang's AST of time_zone_format.cc on
   every run): Format64 / Format02d / FormatOffset write BACKWARDS into the scratch buffer (`*--ep = ...`); the array is
   a list of optional bytes with bounds- and initialisation-checked accesses.  Whenever the hand-written model renders bs
   and bs fits below ep, the source-derived function writes exactly bs ending at ep and returns ep - |bs| - no
   out-of-bounds write, no signed overflow (the width hypothesis of Format64 excludes --width on INT_MIN, unreachable
   from format(), whose widths are 0, 4, 15 and 1..18). *)
Theorem src_format64_tie : forall fuel arr ep width v bs,
  (25 <= fuel)%nat -> min32 + 24 <= width <= max32 ->
  format64 width v = OK bs -> Z.of_nat (length bs) <= ep <= alen arr ->
  sg_Format64 fuel arr ep width v = OK (ep - Z.of_nat (length bs), aw arr ep bs).
Proof. exact sg_Format64_tie. Qed.
Print Assumptions src_format64_tie.
Theorem src_format02d_tie : forall arr ep v, 2 <= ep <= alen arr ->
  sg_Format02d arr ep v = do ds <- format02d v ;; OK (ep - Z.of_nat (length ds), aw arr ep ds).
Proof. exact sg_Format02d_tie. Qed.
Print Assumptions src_format02d_tie.
Theorem src_format_offset_tie : forall buf arr ep offset mode bs,
  0 <= mode <= blen buf ->
  format_offset offset (skipn (Z.to_nat mode) buf) = OK bs ->
  Z.of_nat (length bs) <= ep <= alen arr ->
  sg_FormatOffset buf arr ep offset mode = OK (ep - Z.of_nat (length bs), aw arr ep bs).
Proof. exact sg_FormatOffset_tie. Qed.
Print Assumptions src_format_offset_tie.

From CCTZ Require Import SourcePosix SourceFmtLoop SourceFmtLoopProofs SourceFmtTM SourceFmtTMProofs Source64Proofs.
(* THE MAIN LOOP OF format() AS CLANG READS IT NOW (SourceFmtLoop.v, regenerated every run: the three cursors over the
   NUL-terminated format, result.append, the switch on the simple specifiers, the %E / %: look-aheads with their
   short-circuit reads, the %E#S / %E#f ParseInt, kExp10, the scratch buffer written through the translated
   Format64/Format02d/FormatOffset; FormatTM(strftime) and ToWeek stay oracles, instantiated with the model's): whenever the
   hand-written format_impl returns r, the source-derived function returns r - every read of the format and every scratch
   write in bounds.  Loop-invariant simulation, for every format string without NUL. *)
Theorem src_format_loop_tie : forall strftime_o al tm fs unix fmt r fuel,
  to_tm al = OK tm ->
  format_impl strftime_o fmt al fs unix = OK r ->
  bytes_ok fmt -> ~ In 0 fmt -> ~ In 0 (al_abbr al) -> 0 <= fs < 10 ^ 15 -> blen fmt < 2 ^ 62 ->
  (3 * length fmt + 30 <= fuel)%nat ->
  sl_format (format_tm strftime_o) (fun cs wd => to_week (align64 3 cs) wd) fuel fmt fs
            (al_cs al) (al_off al) (al_abbr al) tm unix = OK r.
Proof. exact sl_format_tie. Qed.
Print Assumptions src_format_loop_tie.
Theorem src_to_tm_tie : forall al tmr, fields_repr (al_cs al) -> to_tm al = OK tmr ->
  st_ToTM (al_cs al) (al_off al) (al_dst al) (al_abbr al) = OK tmr.
Proof. exact st_ToTM_tie. Qed.
Print Assumptions src_to_tm_tie.

From CCTZ Require Import ParseImpl Source64 Source64MoreProofs SourceFmtWeek SourceFmtWeekProofs SourceFmtLoopSrcProofs.
(* ToWeek / FromWeek AS CLANG READS THEM NOW (SourceFmtWeek.v: they call the source-derived civil_time constructors,
   conversions, difference and next/prev_weekday of Source64.v), and format()'s main loop with the source-derived ToWeek in
   place of the oracle *)
Theorem src_to_week_tie : forall cd ws d p w,
  construct64 3 (Z.rem (fy cd) 400) (fm cd) (fd cd) 0 0 0 = OK d ->
  prev_weekday64 (align64 5 d) ws = OK p ->
  fields_repr d -> fields_repr p ->
  to_week cd ws = OK w -> int32 w ->
  sw_ToWeek s64_fuel cd ws = OK w.
Proof. exact SourceFmtWeekProofs.sw_ToWeek_tie. Qed.
Print Assumptions src_to_week_tie.
Theorem src_from_week_tie : forall week_num ws year tm y cd0 cdm cdn w7 cd o,
  construct64 5 (Z.rem year 400) 1 1 0 0 0 = OK y ->
  prev_weekday64 (align64 3 y) ws = OK cd0 ->
  minus64 3 cd0 1 = OK cdm ->
  next_weekday64 cdm (from_tm_wday (tm_wday tm)) = OK cdn ->
  mul32 week_num 7 = OK w7 ->
  plus64 3 cdn w7 = OK cd ->
  int64 (fy y) -> fields_repr cdm -> fields_repr cd -> 0 <= tm_wday tm <= 6 ->
  from_week week_num ws year tm = OK o ->
  sw_FromWeek s64_fuel week_num ws year (tm_sec tm) (tm_min tm) (tm_hour tm) (tm_mday tm) (tm_mon tm) (tm_year tm)
    (tm_wday tm) (tm_yday tm) (tm_isdst tm) = OK (from_week_result year tm o).
Proof. exact SourceFmtWeekProofs.sw_FromWeek_tie. Qed.
Print Assumptions src_from_week_tie.
Theorem src_format_loop_week_tie : forall strftime_o al tm fs unix fmt r fuel,
  to_tm al = OK tm ->
  format_impl strftime_o fmt al fs unix = OK r ->
  bytes_ok fmt -> ~ In 0 fmt -> ~ In 0 (al_abbr al) -> 0 <= fs < 10 ^ 15 -> blen fmt < 2 ^ 62 ->
  (3 * length fmt + 30 <= fuel)%nat ->
  week_repr (al_cs al) ->
  sl_format (format_tm strftime_o) src_ToWeek fuel fmt fs (al_cs al) (al_off al) (al_abbr al) tm unix = OK r.
Proof. exact SourceFmtLoopSrcProofs.sl_format_src_tie. Qed.
Print Assumptions src_format_loop_week_tie.

From CCTZ Require Import FinishZone SourceFmtWeekCor.
(* ... with the representability side conditions DISCHARGED from validity of the civil day (SourceFmtWeekCor.v) *)
Theorem src_to_week_valid : forall cd ws,
  valid_fields cd = true -> (fhh cd = 0 /\ fmm cd = 0 /\ fss cd = 0) -> int64 (fy cd) -> 0 <= ws <= 6 ->
  exists w, to_week cd ws = OK w /\ sw_ToWeek s64_fuel cd ws = OK w /\ 0 <= w <= 53.
Proof. exact SourceFmtWeekCor.src_to_week_valid. Qed.
Print Assumptions src_to_week_valid.
Theorem src_from_week_valid : forall week_num ws year tm,
  int64 year -> 0 <= week_num <= 53 -> 0 <= ws <= 6 -> 0 <= tm_wday tm <= 6 ->
  from_week week_num ws year tm = OK (fw_expected week_num ws year tm) /\
  sw_FromWeek s64_fuel week_num ws year (tm_sec tm) (tm_min tm) (tm_hour tm) (tm_mday tm) (tm_mon tm) (tm_year tm)
    (tm_wday tm) (tm_yday tm) (tm_isdst tm) = OK (from_week_result year tm (fw_expected week_num ws year tm)).
Proof. exact SourceFmtWeekCor.src_from_week_valid. Qed.
Print Assumptions src_from_week_valid.
Theorem src_format_loop_week_valid : forall strftime_o al tm fs unix fmt r fuel,
  valid_fields (al_cs al) = true -> int64 (fy (al_cs al)) ->
  to_tm al = OK tm ->
  format_impl strftime_o fmt al fs unix = OK r ->
  bytes_ok fmt -> ~ In 0 fmt -> ~ In 0 (al_abbr al) -> 0 <= fs < 10 ^ 15 -> blen fmt < 2 ^ 62 ->
  (3 * length fmt + 30 <= fuel)%nat ->
  sl_format (format_tm strftime_o) src_ToWeek fuel fmt fs (al_cs al) (al_off al) (al_abbr al) tm unix = OK r.
Proof. exact SourceFmtWeekCor.sl_format_src_tie_valid. Qed.
Print Assumptions src_format_loop_week_valid.
