(* Properties_C08.v — C08: format() renders exactly the fields lookup() reports,
   and no format string causes undefined behaviour. *)
From CCTZ Require Import Base SrcConstants Cal CivilImpl PosixImpl ZoneLoad FormatImpl FmtSpec FmtProofs.
Local Open Scope Z_scope.

(* the broken-down result a lookup can produce on any accepted zone: the loader
   bounds type-table offsets by 24 h, but footer-derived types reach 24:59:59
   and the default dst one hour more, i.e. |offset| <= 93599 s (25:59:59); cf.
   ZoneRefineDefs.type_ok and LoadCert.wide_footer_certified *)
Definition al_ok (al : alookup) : Prop :=
  valid_fields (al_cs al) = true /\ int64 (fy (al_cs al)) /\ -93599 <= al_off al <= 93599.

(* NO format string, however malformed (any bytes, dangling %, %E, %E*, %:,
   10^4-digit counts, embedded NULs), makes the formatter overflow its 21-byte
   scratch buffer, read a table out of bounds, overflow an integer or run out
   of fuel: for EVERY strftime oracle. *)
Theorem format_safe : forall strftime_o fmt al fs unix,
  al_ok al -> 0 <= fs < 10 ^ 15 -> int64 unix ->
  exists r, format_impl strftime_o fmt al fs unix = OK r.
Proof. exact format_safe_lemma. Qed.
Print Assumptions format_safe.

(* every conversion fits the scratch buffer char buf[3 + kDigits10_64] *)
Theorem scratch_bound : forall w v, int64 v -> 0 <= w <= 18 ->
  exists bs, format64 w v = OK bs /\ Z.of_nat (length bs) <= scratch_size.
Proof. exact scratch_bound_lemma. Qed.
Print Assumptions scratch_bound.

(* formats made of literal text, %% and library-defined specifiers only: the
   output is exactly the documented rendering, token by token - no oracle
   involved, any length, any order *)
Definition lib_only (fmt : list Z) : bool :=
  forallb (fun c => negb (c =? 0)) fmt &&
  forallb (fun t => match t with FLit _ | FPct | FLib _ => true | _ => false end) (lex fmt).

Theorem format_lib_only : forall strftime_o fmt al fs unix tm,
  lib_only fmt = true -> al_ok al -> 0 <= fs < 10 ^ 15 -> int64 unix ->
  format_impl strftime_o fmt al fs unix
  = OK (render_spec strftime_o fmt (al_cs al) (al_off al) (al_abbr al) fs unix tm).
Proof. exact format_lib_only_lemma. Qed.
Print Assumptions format_lib_only.

(* the tm handed to strftime carries the documented broken-down fields *)
Theorem to_tm_spec : forall al, al_ok al -> to_tm al = OK (spec_tm (al_cs al) (al_dst al)).
Proof. exact to_tm_spec_lemma. Qed.
Print Assumptions to_tm_spec.

Example c08_nonvacuous :
  let al := mkAL (mkF 2024 2 29 23 59 58) (-18000) false [69; 83; 84] in
  format_impl (fun _ _ => []) [37;89;45;37;109;45;37;100;84;37;72;58;37;77;58;37;69;42;83;37;69;122] al 500000000000000 0
  = OK [50;48;50;52;45;48;50;45;50;57;84;50;51;58;53;57;58;53;56;46;53;45;48;53;58;48;48].
Proof. vm_compute. reflexivity. Qed.
