(* Extract.v — extraction of the executable model to OCaml.
   ExtrOcamlBasic only: Z, positive, nat stay the extracted inductive types. *)
Require Extraction.
Require Import ExtrOcamlBasic.
From CCTZ Require Import Base SrcConstants Cal CivilImpl FixedImpl PosixImpl PosixSpec ZoneLoad ZoneImpl ZoneSpec WholeDomain ZoneZ ZoneHist ZoneRefineDefs SplitJoin SubSecondDefs LoaderSM NameRes FormatImpl ParseImpl FmtSpec LastWriter.
Extraction Language OCaml.
Extraction "model.ml"
  Z.add Z.mul Z.sub Z.opp Z.div_eucl Z.compare Z.of_nat Z.to_nat
  in64 norm_spec norm_sec carry_year sec_of civil_of_seconds valid_fields fields_ltb fields_eqb
  days_from_civil civil_of_days weekday_of_days days_in_month is_leap
  align_spec ord_spec of_ord_spec
  construct64 convert64 plus64 minus64 difference64 lt64 eq64
  stream64 get_weekday64 get_yearday64 next_weekday64 prev_weekday64 civil_max64 civil_min64
  FixedOffsetFromName FixedOffsetToName FixedOffsetToAbbr fixed_name_spec fixed_abbr_spec fixed_from_spec
  ParsePosixSpec posix_spec nul_free ptz_determined
  load_bytes load_name reset_to_builtin_utc break_time make_time convert_cs next_transition prev_transition
  fixed_abbr_spec min64 max64 big_bang parse_ast szone_of wf_ast spec_lookup spec_civil spec_convert all_changes spec_transition spec_next spec_prev
  c01_domain whole_domain
  zone_ok abs_zone table_sorted zmake zbreak zconvert wfz
  next_transition_sub prev_transition_sub
  split_seconds split_spec to_femto join_subsecond join_coarse join_seconds_rep rep_min rep_max
  exec ls_results ls_log ls_impls overlapping entries_for
  NameRes.load_time_zone local_zone_name zone_path
  format_impl parse_impl render_spec clean_fmt lossless_fmt last_writer_ok_x no_other_x has_percent_s_x spec_tm lex format64 format_offset fmt_parse_offset parse_int64 parse_int32.
