(* FinishDefs.v — what parse()'s post-processing (everything after the scanning
   loop) is specified to return when an offset was parsed (so the fields are
   read in UTC and shifted) or the zone passed is UTC. *)
From CCTZ Require Import Base SrcConstants Cal CivilImpl PosixImpl ZoneLoad ZoneImpl FormatImpl ParseImpl.
Local Open Scope Z_scope.

(* the instant the scanned fields denote: fields read at UTC minus the parsed
   offset; ":60" rolls to the next minute (second 59, plus one) with a zero
   fraction *)
Definition finish_expected (s : pstate) : option (Z * Z) :=
  let tm := ps_tm s in
  let leap := tm_sec tm =? 60 in
  let hour := if ps_twelve s && ps_afternoon s && (tm_hour tm <? 12) then tm_hour tm + 12 else tm_hour tm in
  let y := if ps_saw_year s then ps_year s else tm_year tm + 1900 in
  let m := tm_mon tm + 1 in
  let d := tm_mday tm in
  let L := days_from_civil y m d * 86400 + hour * 3600 + tm_min tm * 60 + (if leap then 59 else tm_sec tm) in
  let t := L - ps_offset s + (if leap then 1 else 0) in
  if valid_date y m d && in64 t then Some (t, if leap then 0 else ps_subsec s) else None.
