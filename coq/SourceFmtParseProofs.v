(* SourceFmtParseProofs.v - the source-derived data-side helpers of parse() (SourceFmtParse.v,
   generated from clang's AST of src/time_zone_format.cc: ParseInt<int>, ParseInt<int_fast64_t>,
   ParseOffset, ParseSubSeconds; pointers as indices into the buffer, every read / pointer step /
   signed operation checked) compute exactly what the hand-written model computes (FormatImpl.v:
   parse_int32 / parse_int64; ParseImpl.v: fmt_parse_offset / parse_subseconds), on EVERY buffer
   (arbitrary list Z, embedded NULs included: the model works on suffix buf dp = the C string at
   index dp) and every in-bounds position 0 <= dp <= length buf (length buf = the terminating NUL).

   In particular the source-derived functions NEVER return Err for in-bounds dp and fuel > length buf:
   no out-of-bounds read, no null dereference, no signed overflow (ParseInt accumulates NEGATIVE
   values down to kmin; the checked mul/add/sub/neg all pass; --width never underflows because it is
   only decremented when positive), the kExp10 index 15 - exp stays within the table, and
   v * kExp10[15 - exp] < 10^15.  When the C++ returns nullptr the output parameter is untouched.

   Hypotheses beyond positions/fuel: only int32 width (width is a C++ int).  lo/hi/vp/off0/s0 are
   arbitrary.  The model receives the mode separator as the byte mode[0] = deref (suffix mode_buf mode).

   The proofs never mention the generated temporaries (t1, t2, ...): they unfold, rewrite with the
   bridging lemmas of SourcePosixProofs.v and reduce with cbn [bind].  One proof script (Ltac) serves
   both instantiations of the ParseInt template. *)
From CCTZ Require Import Base SrcConstants PosixImpl FormatImpl ParseImpl SourcePosix SourcePosixProofs SourceFmtParse.
Require Import Lia ZifyBool.
Local Open Scope Z_scope.

Ltac b32 := unfold int32, min32, max32 in *; lia.
Ltac b64 := unfold int64, min64, max64 in *; lia.
(* ------------------------------------------------------------------ *)
(* ParseInt<T> *)

Ltac fin' := repeat split; try assumption; try (unfold valid in *; lia); try discriminate;
  try (symmetry; assumption).

Lemma d45 : forall A (p : list Z) (f : list Z -> A) (g : A),
  match p with 45 :: r => f r | _ => g end = if deref p =? 45 then f (tl p) else g.
Proof. head_tac. Qed.

(* one script for both instantiations of the template: KMIN = numeric_limits<T>::min(),
   KQ = KMIN / 10 (truncating), CHK = chk32_in / chk64_in, bnd = its side-condition solver *)
Ltac int_loop_proof KMIN KQ CHK bnd :=
  let c := fresh "c" in let r := fresh "r" in let IH := fresh "IH" in
  intros buf l; induction l as [|c r IH]; intros p width value n fuel Hv Hs Hval Hw Hf;
    (destruct fuel as [|fuel]; [cbn [length] in Hf; lia|]);
    cbn [sf_ParseInt_int_loop1 sf_ParseInt_long_loop1 parse_int_loop];
    rewrite (rd_suffix buf p Hv), Hs; cbn [bind deref];
  [ rewrite strchr_ix_digits; change (is_digit 0) with false; change (0 =? 0) with true;
    change (10 =? -1) with false; cbn [negb]; unfold tdiff; change (10 <? 0) with false; cbn [bind];
    unfold narrow32; rewrite chk32_in by b32; cbn [bind];
    change (10 <=? 10) with true; cbv iota;
    exists p, width; rewrite Nat.sub_diag, Z.add_0_r, Nat.add_0_r;
    fin'
  | destruct (suffix_cons buf p c r Hv Hs) as (Hc & Hlt & Hv1 & Hr);
    rewrite strchr_digits, strchr_ix_digits;
    destruct (is_digit c) eqn:D;
    [ unfold is_digit in D;
      (destruct (c - 48 =? -1) eqn:E1; [lia|]); cbn [negb]; unfold tdiff;
      (destruct (c - 48 <? 0) eqn:E2; [lia|]); cbn [bind];
      unfold narrow32; rewrite chk32_in by b32; cbn [bind];
      (destruct (10 <=? c - 48) eqn:E3; [lia|]);
      change (Z.quot KMIN 10) with KQ;
      destruct (value <? KQ) eqn:E4;
      [ exists p, width; rewrite Nat.sub_diag, Z.add_0_r, Nat.add_0_r;
        fin' |];
      unfold mul32, sub32, add32, mul64, sub64, add64;
      rewrite (CHK (value * 10)) by bnd; cbn [bind];
      rewrite (CHK (KMIN + (c - 48))) by bnd; cbn [bind];
      destruct (value * 10 <? KMIN + (c - 48)) eqn:E5;
      [ exists p, width; rewrite Nat.sub_diag, Z.add_0_r, Nat.add_0_r;
        fin' |];
      rewrite (CHK (value * 10 - (c - 48))) by bnd; cbn [bind];
      rewrite (padd_1 buf p Hv); cbn [bind];
      assert (Hf' : (length r < fuel)%nat) by (cbn [length] in Hf; lia);
      assert (Hval' : KMIN <= value * 10 - (c - 48) <= 0) by lia;
      replace (width + -1) with (width - 1) by lia;
      destruct (0 <? width) eqn:W; cbn [andb];
      [ rewrite (chk32_in (width - 1)) by b32; cbn [bind];
        destruct (width - 1 =? 0) eqn:W1;
        [ exists (p + 1), (width - 1); cbn [length];
          fin'
        | assert (Hw' : int32 (width - 1)) by b32;
          specialize (IH (p + 1) (width - 1) (value * 10 - (c - 48)) (S n) fuel Hv1 (eq_sym Hr) Hval' Hw' Hf') ]
      | cbn [bind];
        specialize (IH (p + 1) width (value * 10 - (c - 48)) (S n) fuel Hv1 (eq_sym Hr) Hval' Hw Hf') ];
      (destruct (parse_int_loop KMIN r _ (value * 10 - (c - 48)) (S n)) as [[[v' rest] n'] er'];
       destruct IH as (p' & w' & E & R & V & P & N & L & B); exists p', w'; cbn [length];
       fin')
    | (destruct (c =? 0) eqn:E0; [lia|]); change (-1 =? -1) with true; cbn [negb];
      exists p, width; rewrite Nat.sub_diag, Z.add_0_r, Nat.add_0_r;
      fin' ] ].

Lemma fmt_int_loop_tie : forall buf l p width value n fuel,
  valid buf p -> suffix buf p = l -> -2147483648 <= value <= 0 -> int32 width -> (length l < fuel)%nat ->
  match parse_int_loop (-2147483648) l width value n with
  | (v', rest, n', er') => exists p' w',
      sf_ParseInt_int_loop1 fuel buf (-2147483648) p width false value = OK (p', w', er', v') /\
      rest = suffix buf p' /\ valid buf p' /\ p' = p + Z.of_nat (n' - n) /\ (n <= n')%nat /\
      length l = (length rest + (n' - n))%nat /\ (er' = false -> -2147483648 <= v' <= 0)
  end.
Proof. int_loop_proof (-2147483648) (-214748364) chk32_in b32. Qed.

Lemma fmt_long_loop_tie : forall buf l p width value n fuel,
  valid buf p -> suffix buf p = l -> -9223372036854775808 <= value <= 0 -> int32 width -> (length l < fuel)%nat ->
  match parse_int_loop (-9223372036854775808) l width value n with
  | (v', rest, n', er') => exists p' w',
      sf_ParseInt_long_loop1 fuel buf (-9223372036854775808) p width false value = OK (p', w', er', v') /\
      rest = suffix buf p' /\ valid buf p' /\ p' = p + Z.of_nat (n' - n) /\ (n <= n')%nat /\
      length l = (length rest + (n' - n))%nat /\ (er' = false -> -9223372036854775808 <= v' <= 0)
  end.
Proof. int_loop_proof (-9223372036854775808) (-922337203685477580) chk64_in b64. Qed.

Definition int_post (buf : list Z) (dp lo hi : Z) (r : res (Z * Z)) (vp : Z) (m : option (Z * list Z)) : Prop :=
  match m with
  | Some (v, rest) => exists dp', r = OK (dp', v) /\ rest = suffix buf dp' /\ valid buf dp' /\ dp < dp' /\
        lo <= v <= hi /\ (length (suffix buf dp) = length rest + Z.to_nat (dp' - dp))%nat
  | None => r = OK (-1, vp)
  end.

(* after the optional '-': the digit loop from a valid position q with width w, and the final tests *)
Ltac int_tail TIE KMIN CHK bnd buf fuel q w lo hi Hq Hw Hf :=
  (destruct (q =? -1) eqn:?; [unfold valid in Hq; lia|]); cbn [negb];
  let T := fresh "T" in let v := fresh "v" in let rest := fresh "rest" in let n := fresh "n" in
  let er := fresh "er" in let p' := fresh "p'" in let w' := fresh "w'" in
  let E := fresh "E" in let R := fresh "R" in let V := fresh "V" in let P := fresh "P" in
  let N := fresh "N" in let L := fresh "L" in let B := fresh "B" in let Q := fresh "Q" in
  pose proof (TIE buf (suffix buf q) q w 0 0%nat fuel Hq eq_refl ltac:(lia) Hw (suffix_fuel buf q fuel Hq Hf)) as T;
  destruct (parse_int_loop KMIN (suffix buf q) w 0 0) as [[[v rest] n] er];
  destruct T as (p' & w' & E & R & V & P & N & L & B); rewrite E; cbn [bind];
  assert (Q : (p' =? q) = Nat.eqb n 0) by (destruct (Nat.eqb_spec n 0); lia);
  rewrite Q; destruct (Nat.eqb_spec n 0); cbn [negb andb orb bind]; [reflexivity|];
  destruct er; cbn [negb andb orb bind]; [reflexivity|];
  specialize (B eq_refl);
  match goal with
  | |- context [v =? KMIN] => destruct (v =? KMIN) eqn:?; cbn [negb andb orb bind]; [reflexivity|]
  | _ => idtac end;
  match goal with
  | |- context [v =? 0] => destruct (v =? 0) eqn:?; cbn [negb andb orb bind]; [reflexivity|]
  | _ => idtac end;
  unfold neg32, neg64; try (rewrite (CHK (- v)) by bnd; cbn [bind]);
  match goal with |- context [(lo <=? ?x) && (?x <=? hi)] => destruct ((lo <=? x) && (x <=? hi)) eqn:? end;
  cbn [bind]; [exists p'; fin' | reflexivity].

Ltac int_main TIE KMIN CHK bnd :=
  intros buf fuel dp width lo hi vp Hv Hf Hw;
  unfold int_post, sf_ParseInt_int, sf_ParseInt_long, parse_int32, parse_int64, parse_int, min32, min64;
  (destruct (dp =? -1) eqn:Em; [unfold valid in Hv; lia|]); cbn [negb];
  rewrite d45, (rd_suffix buf dp Hv); cbn [bind];
  destruct (deref (suffix buf dp) =? 45) eqn:E45;
  [ assert (D : deref (suffix buf dp) <> 0) by lia;
    destruct (suffix_step buf dp Hv D) as (_ & Hv1 & Hs & Ht); rewrite Ht;
    assert (HL : length (suffix buf dp) = S (length (suffix buf (dp + 1)))) by (rewrite Hs; reflexivity);
    destruct (width <=? 0) eqn:W0; cbn [orb bind];
    [ rewrite (padd_1 buf dp Hv); cbn [bind];
      int_tail TIE KMIN CHK bnd buf fuel (dp + 1) width lo hi Hv1 Hw Hf
    | unfold add32; replace (width + -1) with (width - 1) by lia;
      rewrite (chk32_in (width - 1)) by b32; cbn [bind];
      destruct (width - 1 =? 0) eqn:W1; cbn [negb bind];
      [ reflexivity
      | rewrite (padd_1 buf dp Hv); cbn [bind];
        assert (Hw' : int32 (width - 1)) by b32;
        int_tail TIE KMIN CHK bnd buf fuel (dp + 1) (width - 1) lo hi Hv1 Hw' Hf ] ]
  | cbn [bind]; rewrite Em;
    int_tail TIE KMIN CHK bnd buf fuel dp width lo hi Hv Hw Hf ].

Lemma sf_ParseInt_int_strong : forall buf fuel dp width lo hi vp,
  valid buf dp -> (length buf < fuel)%nat -> int32 width ->
  int_post buf dp lo hi (sf_ParseInt_int fuel buf dp width lo hi vp) vp (parse_int32 (suffix buf dp) width lo hi).
Proof. int_main fmt_int_loop_tie (-2147483648) chk32_in b32. Qed.

Lemma sf_ParseInt_long_strong : forall buf fuel dp width lo hi vp,
  valid buf dp -> (length buf < fuel)%nat -> int32 width ->
  int_post buf dp lo hi (sf_ParseInt_long fuel buf dp width lo hi vp) vp (parse_int64 (suffix buf dp) width lo hi).
Proof. int_main fmt_long_loop_tie (-9223372036854775808) chk64_in b64. Qed.

(* ------------------------------------------------------------------ *)
(* ParseOffset *)

Definition skip_sep (sep : Z) (l : list Z) : list Z :=
  if negb (sep =? 0) && (deref l =? sep) then tl l else l.

Lemma skip_sep_eq sep l :
  match l with c :: r => if negb (sep =? 0) && (c =? sep) then r else l | [] => l end = skip_sep sep l.
Proof.
  unfold skip_sep. destruct l as [|c r]; cbn [deref tl]; [|reflexivity].
  destruct (negb (sep =? 0) && (0 =? sep)); reflexivity.
Qed.

Definition fmt_parse_offset_alt (dp : list Z) (sep : Z) : option (Z * list Z) :=
  if (deref dp =? 43) || (deref dp =? 45) then
    match parse_int32 (tl dp) 2 0 23 with
    | Some (hours, ap) =>
        if consumed2 (tl dp) ap then
          let '(minutes, seconds, dpf) :=
            match parse_int32 (skip_sep sep ap) 2 0 59 with
            | Some (mi, bp) =>
                if consumed2 (skip_sep sep ap) bp then
                  match parse_int32 (skip_sep sep bp) 2 0 59 with
                  | Some (se, cp) => if consumed2 (skip_sep sep bp) cp then (mi, se, cp) else (mi, 0, bp)
                  | None => (mi, 0, bp)
                  end
                else (0, 0, ap)
            | None => (0, 0, ap)
            end in
          Some (if deref dp =? 45 then - ((hours * 60 + minutes) * 60 + seconds)
                else (hours * 60 + minutes) * 60 + seconds, dpf)
        else None
    | None => None
    end
  else if (deref dp =? 90) || (deref dp =? 122) then Some (0, tl dp)
  else None.

Lemma fmt_parse_offset_alt_eq dp sep : fmt_parse_offset dp sep = fmt_parse_offset_alt dp sep.
Proof.
  unfold fmt_parse_offset, fmt_parse_offset_alt.
  change (rng src_parse_off_hh 0) with 0. change (rng src_parse_off_hh 1) with 23.
  change (rng src_parse_off_mm 0) with 0. change (rng src_parse_off_mm 1) with 59.
  destruct dp as [|first d1]; [reflexivity|]. cbn [deref tl].
  destruct ((first =? 43) || (first =? 45)); [|reflexivity].
  destruct (parse_int32 d1 2 0 23) as [[hours ap]|]; [|reflexivity].
  destruct (consumed2 d1 ap); [|reflexivity].
  rewrite !(skip_sep_eq sep ap). cbv zeta.
  destruct (parse_int32 (skip_sep sep ap) 2 0 59) as [[mi bp]|]; [|reflexivity].
  destruct (consumed2 (skip_sep sep ap) bp); [|reflexivity].
  rewrite !(skip_sep_eq sep bp). reflexivity.
Qed.

Lemma skip_sep_0 sep l : (sep =? 0) = true -> skip_sep sep l = l.
Proof. unfold skip_sep. intros ->. reflexivity. Qed.
Lemma skip_sep_no sep l : (deref l =? sep) = false -> skip_sep sep l = l.
Proof. unfold skip_sep. intros ->. rewrite andb_false_r. reflexivity. Qed.
Lemma skip_sep_yes buf q sep : valid buf q -> (sep =? 0) = false -> (deref (suffix buf q) =? sep) = true ->
  skip_sep sep (suffix buf q) = suffix buf (q + 1) /\ valid buf (q + 1).
Proof.
  intros Hv S0 S1. unfold skip_sep. rewrite S0, S1. cbn [negb andb].
  assert (D : deref (suffix buf q) <> 0) by lia.
  destruct (suffix_step buf q Hv D) as (_ & V & _ & T). auto.
Qed.

Lemma consumed2_ix l1 l2 d : 0 < d -> length l1 = (length l2 + Z.to_nat d)%nat ->
  consumed2 l1 l2 = (d =? 2).
Proof.
  intros Hd L. unfold consumed2. destruct (Nat.eqb_spec (length l1) (length l2 + 2)), (Z.eqb_spec d 2); lia.
Qed.

Lemma padd_0 buf p : valid buf p -> padd buf p 0 = OK p.
Proof.
  unfold valid, padd. intros H. destruct (p <? 0) eqn:E0; [lia|].
  destruct ((0 <=? p + 0) && (p + 0 <=? blen buf + 1)) eqn:E1; [rewrite Z.add_0_r; reflexivity|lia].
Qed.

Lemma w2_ok : int32 2. Proof. unfold int32, min32, max32; lia. Qed.

(* "if (sep != '\0' && *q == sep) ++q" at a valid position q, then continue with k *)
Ltac sep_step buf q Vq sep S0 k :=
  cbn [negb bind];
  lazymatch goal with
  | |- context [rd buf q] =>
      rewrite (rd_suffix buf q Vq); cbn [bind];
      let S1 := fresh "S1" in
      destruct (deref (suffix buf q) =? sep) eqn:S1; cbn [bind];
      [ let V' := fresh "V'" in let Y := fresh "Y" in
        destruct (skip_sep_yes buf q sep Vq S0 S1) as [Y V']; rewrite !Y;
        rewrite (padd_1 buf q Vq); cbn [bind]; k (q + 1) V'
      | rewrite !(skip_sep_no sep (suffix buf q) S1); k q Vq ]
  | |- _ => rewrite !(skip_sep_0 sep (suffix buf q) S0); k q Vq
  end.

(* "const char* q = ParseInt(a, 2, 0, hi, &x); if (q != nullptr && q - a == 2)" *)
Ltac int_step buf fuel a Va hi Hf kSome kElse :=
  let T := fresh "T" in let x := fresh "x" in let l := fresh "l" in let q := fresh "q" in
  let E := fresh "E" in let R := fresh "R" in let V := fresh "V" in let Lt := fresh "Lt" in
  let B := fresh "B" in let Len := fresh "Len" in
  pose proof (sf_ParseInt_int_strong buf fuel a 2 0 hi 0 Va Hf w2_ok) as T; unfold int_post in T;
  destruct (parse_int32 (suffix buf a) 2 0 hi) as [[x l]|];
  [ destruct T as (q & E & R & V & Lt & B & Len); rewrite E; cbn [bind]; subst l;
    (destruct (q =? -1) eqn:?; [unfold valid in V; lia|]); cbn [negb];
    rewrite (pdiff_ok q a) by (unfold valid in *; lia); cbn [bind];
    rewrite (consumed2_ix _ _ (q - a) ltac:(lia) Len);
    destruct (q - a =? 2) eqn:?; cbn [bind]; [kSome q V | kElse ]
  | rewrite T; cbn [bind]; change (-1 =? -1) with true; cbn [negb bind]; kElse ].

(* "*offset = ((hours * 60 + minutes) * 60) + seconds; if (first == '-') *offset = -*offset;" *)
Ltac off_fin buf dp q :=
  unfold mul32, add32, neg32;
  repeat (rewrite chk32_in by (unfold int32, min32, max32; lia); cbn [bind]);
  destruct (deref (suffix buf dp) =? 45); cbn [bind]; exists q; fin'.

Lemma sf_ParseOffset_strong buf fuel dp mode_buf mode off0 :
  valid buf dp -> valid mode_buf mode -> (length buf < fuel)%nat ->
  match fmt_parse_offset (suffix buf dp) (deref (suffix mode_buf mode)) with
  | Some (v, rest) => exists dp',
      sf_ParseOffset fuel buf dp mode_buf mode off0 = OK (dp', v) /\ rest = suffix buf dp' /\
      valid buf dp' /\ dp < dp' /\ -86399 <= v <= 86399
  | None => sf_ParseOffset fuel buf dp mode_buf mode off0 = OK (-1, off0)
  end.
Proof.
  intros Hv Hm Hf. rewrite fmt_parse_offset_alt_eq. unfold fmt_parse_offset_alt, sf_ParseOffset.
  destruct (dp =? -1) eqn:Em; [unfold valid in Hv; lia|]. cbn [negb].
  rewrite (padd_1 buf dp Hv). cbn [bind]. rewrite (rd_suffix buf dp Hv). cbn [bind].
  destruct ((deref (suffix buf dp) =? 43) || (deref (suffix buf dp) =? 45)) eqn:SG; cbn [bind].
  - assert (D : deref (suffix buf dp) <> 0) by lia.
    destruct (suffix_step buf dp Hv D) as (_ & Hv1 & _ & Ht). rewrite Ht.
    rewrite (padd_0 mode_buf mode Hm). cbn [bind]. rewrite (rd_suffix mode_buf mode Hm). cbn [bind].
    generalize (deref (suffix mode_buf mode)). intros sep.
    destruct (sep =? 0) eqn:S0.
    all: int_step buf fuel (dp + 1) Hv1 23 Hf
      ltac:(fun q1 V1 => sep_step buf q1 V1 sep S0
        ltac:(fun a Va => int_step buf fuel a Va 59 Hf
          ltac:(fun q2 V2 => sep_step buf q2 V2 sep S0
            ltac:(fun b Vb => int_step buf fuel b Vb 59 Hf
              ltac:(fun q3 V3 => off_fin buf dp q3)
              ltac:(off_fin buf dp q2)))
          ltac:(off_fin buf dp q1)))
      ltac:(reflexivity).
  - destruct ((deref (suffix buf dp) =? 90) || (deref (suffix buf dp) =? 122)) eqn:ZZ; cbn [bind]; [|reflexivity].
    assert (D : deref (suffix buf dp) <> 0) by lia.
    destruct (suffix_step buf dp Hv D) as (_ & Hv1 & _ & Ht). rewrite Ht.
    exists (dp + 1). fin'.
Qed.

(* ------------------------------------------------------------------ *)
(* ParseSubSeconds *)

Definition exp10_row (e : Z) : bool :=
  match tbl_get [1; 10; 100; 1000; 10000; 100000; 1000000; 10000000; 100000000; 1000000000; 10000000000; 100000000000; 1000000000000; 10000000000000; 100000000000000; 1000000000000000; 10000000000000000; 100000000000000000; 1000000000000000000] e,
        kExp10 e with
  | OK a, OK b => (a =? 10 ^ e) && (b =? 10 ^ e)
  | _, _ => false
  end.

Lemma exp10_tbl e : 0 <= e <= 18 ->
  tbl_get [1; 10; 100; 1000; 10000; 100000; 1000000; 10000000; 100000000; 1000000000; 10000000000; 100000000000; 1000000000000; 10000000000000; 100000000000000; 1000000000000000; 10000000000000000; 100000000000000000; 1000000000000000000] e = OK (10 ^ e) /\
  kExp10 e = OK (10 ^ e).
Proof.
  intros H. assert (A : forallb exp10_row (zrange 0 19) = true) by (vm_compute; reflexivity).
  rewrite forallb_forall in A. specialize (A e). rewrite zrange_In in A. specialize (A ltac:(lia)).
  unfold exp10_row in A.
  destruct (tbl_get _ e) as [a|]; [|discriminate]. destruct (kExp10 e) as [b|]; [|discriminate].
  split; f_equal; lia.
Qed.

Lemma subsec_loop_tie buf : forall l p v exp n fuel,
  valid buf p -> suffix buf p = l -> 0 <= exp <= 15 -> 0 <= v < 10 ^ exp -> (length l < fuel)%nat ->
  match subsec_loop l v exp n with
  | (v', exp', rest, n') => exists p',
      sf_ParseSubSeconds_loop1 fuel buf p v exp = OK (p', v', exp') /\
      rest = suffix buf p' /\ valid buf p' /\ p' = p + Z.of_nat (n' - n) /\ (n <= n')%nat /\
      0 <= exp' <= 15 /\ 0 <= v' < 10 ^ exp'
  end.
Proof.
  induction l as [|c r IH]; intros p v exp n fuel Hv Hs He Hval Hf;
    (destruct fuel as [|fuel]; [cbn [length] in Hf; lia|]);
    cbn [sf_ParseSubSeconds_loop1 subsec_loop]; rewrite (rd_suffix buf p Hv), Hs; cbn [bind deref].
  - rewrite strchr_ix_digits. change (is_digit 0) with false. change (0 =? 0) with true.
    change (10 =? -1) with false. cbn [negb]. unfold tdiff. change (10 <? 0) with false. cbn [bind].
    unfold narrow32. rewrite chk32_in by b32. cbn [bind].
    change (10 <=? 10) with true. cbv iota.
    exists p. rewrite Nat.sub_diag, Z.add_0_r. fin'.
  - destruct (suffix_cons buf p c r Hv Hs) as (Hc & Hlt & Hv1 & Hr).
    rewrite strchr_ix_digits.
    destruct (is_digit c) eqn:D.
    + unfold is_digit in D.
      destruct (c - 48 =? -1) eqn:E1; [lia|]. cbn [negb]. unfold tdiff.
      destruct (c - 48 <? 0) eqn:E2; [lia|]. cbn [bind].
      unfold narrow32. rewrite chk32_in by b32. cbn [bind].
      destruct (10 <=? c - 48) eqn:E3; [lia|].
      assert (Hf' : (length r < fuel)%nat) by (cbn [length] in Hf; lia).
      assert (P15 : 10 ^ exp <= 10 ^ 15) by (apply Z.pow_le_mono_r; lia).
      change (10 ^ 15) with 1000000000000000 in P15.
      destruct (exp <? 15) eqn:E4; cbn [bind].
      * unfold add64, mul64.
        rewrite (chk64_in (exp + 1)) by b64. cbn [bind].
        rewrite (chk64_in (v * 10)) by b64. cbn [bind].
        rewrite (chk64_in (v * 10 + (c - 48))) by b64. cbn [bind].
        rewrite (padd_1 buf p Hv). cbn [bind].
        assert (Hval' : 0 <= v * 10 + (c - 48) < 10 ^ (exp + 1)).
        { replace (exp + 1) with (Z.succ exp) by lia. rewrite Z.pow_succ_r by lia. lia. }
        specialize (IH (p + 1) (v * 10 + (c - 48)) (exp + 1) (S n) fuel Hv1 (eq_sym Hr) ltac:(lia) Hval' Hf').
        destruct (subsec_loop r (v * 10 + (c - 48)) (exp + 1) (S n)) as [[[v' e'] rest] n'].
        destruct IH as (p' & E & R & V & P & N & B1 & B2). exists p'. fin'.
      * rewrite (padd_1 buf p Hv). cbn [bind].
        specialize (IH (p + 1) v exp (S n) fuel Hv1 (eq_sym Hr) He Hval Hf').
        destruct (subsec_loop r v exp (S n)) as [[[v' e'] rest] n'].
        destruct IH as (p' & E & R & V & P & N & B1 & B2). exists p'. fin'.
    + destruct (c =? 0) eqn:E0; [lia|]. change (-1 =? -1) with true. cbn [negb].
      exists p. rewrite Nat.sub_diag, Z.add_0_r. fin'.
Qed.

Lemma sf_ParseSubSeconds_strong buf fuel dp s0 : valid buf dp -> (length buf < fuel)%nat ->
  match parse_subseconds (suffix buf dp) with
  | OK (Some (v, rest)) => exists dp',
      sf_ParseSubSeconds fuel buf dp s0 = OK (dp', v) /\ rest = suffix buf dp' /\
      valid buf dp' /\ dp < dp' /\ 0 <= v < 1000000000000000
  | OK None => sf_ParseSubSeconds fuel buf dp s0 = OK (-1, s0)
  | Err _ => False
  end.
Proof.
  intros Hv Hf. unfold parse_subseconds, sf_ParseSubSeconds.
  destruct (dp =? -1) eqn:Em; [unfold valid in Hv; lia|]. cbn [negb].
  pose proof (subsec_loop_tie buf (suffix buf dp) dp 0 0 0%nat fuel Hv eq_refl ltac:(lia)
                ltac:(change (10 ^ 0) with 1; lia) (suffix_fuel buf dp fuel Hv Hf)) as T.
  destruct (subsec_loop (suffix buf dp) 0 0 0) as [[[v e] rest] n].
  destruct T as (p' & E & R & V & P & N & B1 & B2). rewrite E. cbn [bind].
  assert (Q : (p' =? dp) = Nat.eqb n 0) by (destruct (Nat.eqb_spec n 0); lia).
  rewrite Q. destruct (Nat.eqb_spec n 0); cbn [negb bind]; [reflexivity|].
  unfold sub64. rewrite (chk64_in (15 - e)) by b64. cbn [bind].
  destruct (exp10_tbl (15 - e) ltac:(lia)) as [A B]. rewrite A, B. cbn [bind].
  assert (P15 : 10 ^ 15 = 10 ^ e * 10 ^ (15 - e)) by (rewrite <- Z.pow_add_r by lia; f_equal; lia).
  assert (Pp : 0 < 10 ^ (15 - e)) by (apply Z.pow_pos_nonneg; lia).
  assert (Lo : 0 <= v * 10 ^ (15 - e)) by (apply Z.mul_nonneg_nonneg; lia).
  assert (Hi : v * 10 ^ (15 - e) < 10 ^ e * 10 ^ (15 - e)) by (apply Z.mul_lt_mono_pos_r; lia).
  rewrite <- P15 in Hi. change (10 ^ 15) with 1000000000000000 in Hi.
  unfold mul64. rewrite chk64_in by b64. cbn [bind].
  exists p'. fin'.
Qed.

(* ------------------------------------------------------------------ *)
(* The statements in index form                                        *)

Lemma sf_ParseInt_int_tie : forall fuel buf dp width lo hi vp,
  0 <= dp <= blen buf -> (length buf < fuel)%nat -> int32 width ->
  match parse_int32 (suffix buf dp) width lo hi with
  | Some (v, rest) => exists dp',
      sf_ParseInt_int fuel buf dp width lo hi vp = OK (dp', v) /\ rest = suffix buf dp' /\
      dp < dp' <= blen buf /\ lo <= v <= hi
  | None => sf_ParseInt_int fuel buf dp width lo hi vp = OK (-1, vp)
  end.
Proof.
  intros fuel buf dp width lo hi vp Hv Hf Hw.
  pose proof (sf_ParseInt_int_strong buf fuel dp width lo hi vp Hv Hf Hw) as T. unfold int_post in T.
  destruct (parse_int32 (suffix buf dp) width lo hi) as [[v rest]|]; [|exact T].
  destruct T as (dp' & E & R & V & L & B & _). exists dp'. fin'.
Qed.

Lemma sf_ParseInt_long_tie : forall fuel buf dp width lo hi vp,
  0 <= dp <= blen buf -> (length buf < fuel)%nat -> int32 width ->
  match parse_int64 (suffix buf dp) width lo hi with
  | Some (v, rest) => exists dp',
      sf_ParseInt_long fuel buf dp width lo hi vp = OK (dp', v) /\ rest = suffix buf dp' /\
      dp < dp' <= blen buf /\ lo <= v <= hi
  | None => sf_ParseInt_long fuel buf dp width lo hi vp = OK (-1, vp)
  end.
Proof.
  intros fuel buf dp width lo hi vp Hv Hf Hw.
  pose proof (sf_ParseInt_long_strong buf fuel dp width lo hi vp Hv Hf Hw) as T. unfold int_post in T.
  destruct (parse_int64 (suffix buf dp) width lo hi) as [[v rest]|]; [|exact T].
  destruct T as (dp' & E & R & V & L & B & _). exists dp'. fin'.
Qed.

(* the number of bytes consumed is the difference of the C-string lengths (no NUL is skipped) *)
Lemma sf_ParseInt_int_consumed : forall fuel buf dp width lo hi vp dp' v,
  0 <= dp <= blen buf -> (length buf < fuel)%nat -> int32 width ->
  sf_ParseInt_int fuel buf dp width lo hi vp = OK (dp', v) -> dp' <> -1 ->
  (length (suffix buf dp) = length (suffix buf dp') + Z.to_nat (dp' - dp))%nat.
Proof.
  intros fuel buf dp width lo hi vp dp' v Hv Hf Hw E N.
  pose proof (sf_ParseInt_int_strong buf fuel dp width lo hi vp Hv Hf Hw) as T. unfold int_post in T.
  destruct (parse_int32 (suffix buf dp) width lo hi) as [[v1 rest]|].
  - destruct T as (q & E1 & R & _ & _ & _ & L). rewrite E in E1. inversion E1; subst. exact L.
  - rewrite E in T. inversion T. lia.
Qed.

(* nullptr in, nullptr out, output untouched *)
Lemma sf_ParseInt_int_null fuel buf width lo hi vp :
  sf_ParseInt_int fuel buf (-1) width lo hi vp = OK (-1, vp).
Proof. reflexivity. Qed.
Lemma sf_ParseInt_long_null fuel buf width lo hi vp :
  sf_ParseInt_long fuel buf (-1) width lo hi vp = OK (-1, vp).
Proof. reflexivity. Qed.
Lemma sf_ParseOffset_null fuel buf mode_buf mode off0 :
  sf_ParseOffset fuel buf (-1) mode_buf mode off0 = OK (-1, off0).
Proof. reflexivity. Qed.
Lemma sf_ParseSubSeconds_null fuel buf s0 :
  sf_ParseSubSeconds fuel buf (-1) s0 = OK (-1, s0).
Proof. reflexivity. Qed.

Lemma sf_ParseOffset_tie : forall fuel buf dp mode_buf mode off0,
  0 <= dp <= blen buf -> 0 <= mode <= blen mode_buf -> (length buf < fuel)%nat ->
  match fmt_parse_offset (suffix buf dp) (deref (suffix mode_buf mode)) with
  | Some (v, rest) => exists dp',
      sf_ParseOffset fuel buf dp mode_buf mode off0 = OK (dp', v) /\ rest = suffix buf dp' /\
      dp < dp' <= blen buf /\ -86399 <= v <= 86399
  | None => sf_ParseOffset fuel buf dp mode_buf mode off0 = OK (-1, off0)
  end.
Proof.
  intros fuel buf dp mode_buf mode off0 Hv Hm Hf.
  pose proof (sf_ParseOffset_strong buf fuel dp mode_buf mode off0 Hv Hm Hf) as T.
  destruct (fmt_parse_offset (suffix buf dp) (deref (suffix mode_buf mode))) as [[v rest]|]; [|exact T].
  destruct T as (dp' & E & R & V & L & B). exists dp'. fin'.
Qed.

Lemma sf_ParseSubSeconds_tie : forall fuel buf dp s0,
  0 <= dp <= blen buf -> (length buf < fuel)%nat ->
  match parse_subseconds (suffix buf dp) with
  | OK (Some (v, rest)) => exists dp',
      sf_ParseSubSeconds fuel buf dp s0 = OK (dp', v) /\ rest = suffix buf dp' /\
      dp < dp' <= blen buf /\ 0 <= v < 1000000000000000
  | OK None => sf_ParseSubSeconds fuel buf dp s0 = OK (-1, s0)
  | Err _ => False      (* the model itself never errs either *)
  end.
Proof.
  intros fuel buf dp s0 Hv Hf.
  pose proof (sf_ParseSubSeconds_strong buf fuel dp s0 Hv Hf) as T.
  destruct (parse_subseconds (suffix buf dp)) as [[[v rest]|]|e]; [|exact T|exact T].
  destruct T as (dp' & E & R & V & L & B). exists dp'. fin'.
Qed.

(* the source-derived functions never err: no out-of-bounds read, no null dereference,
   no signed overflow, enough fuel *)
Corollary sf_ParseInt_int_total : forall fuel buf dp width lo hi vp,
  0 <= dp <= blen buf -> (length buf < fuel)%nat -> int32 width ->
  is_ok (sf_ParseInt_int fuel buf dp width lo hi vp) = true.
Proof.
  intros fuel buf dp width lo hi vp Hv Hf Hw.
  pose proof (sf_ParseInt_int_tie fuel buf dp width lo hi vp Hv Hf Hw) as T.
  destruct (parse_int32 (suffix buf dp) width lo hi) as [[v rest]|];
    [destruct T as (dp' & E & _)|]; rewrite ?E, ?T; reflexivity.
Qed.
Corollary sf_ParseInt_long_total : forall fuel buf dp width lo hi vp,
  0 <= dp <= blen buf -> (length buf < fuel)%nat -> int32 width ->
  is_ok (sf_ParseInt_long fuel buf dp width lo hi vp) = true.
Proof.
  intros fuel buf dp width lo hi vp Hv Hf Hw.
  pose proof (sf_ParseInt_long_tie fuel buf dp width lo hi vp Hv Hf Hw) as T.
  destruct (parse_int64 (suffix buf dp) width lo hi) as [[v rest]|];
    [destruct T as (dp' & E & _)|]; rewrite ?E, ?T; reflexivity.
Qed.
Corollary sf_ParseOffset_total : forall fuel buf dp mode_buf mode off0,
  0 <= dp <= blen buf -> 0 <= mode <= blen mode_buf -> (length buf < fuel)%nat ->
  is_ok (sf_ParseOffset fuel buf dp mode_buf mode off0) = true.
Proof.
  intros fuel buf dp mode_buf mode off0 Hv Hm Hf.
  pose proof (sf_ParseOffset_tie fuel buf dp mode_buf mode off0 Hv Hm Hf) as T.
  destruct (fmt_parse_offset (suffix buf dp) (deref (suffix mode_buf mode))) as [[v rest]|];
    [destruct T as (dp' & E & _)|]; rewrite ?E, ?T; reflexivity.
Qed.
Corollary sf_ParseSubSeconds_total : forall fuel buf dp s0,
  0 <= dp <= blen buf -> (length buf < fuel)%nat ->
  is_ok (sf_ParseSubSeconds fuel buf dp s0) = true.
Proof.
  intros fuel buf dp s0 Hv Hf.
  pose proof (sf_ParseSubSeconds_tie fuel buf dp s0 Hv Hf) as T.
  destruct (parse_subseconds (suffix buf dp)) as [[[v rest]|]|e];
    [destruct T as (dp' & E & _)| |destruct T]; rewrite ?E, ?T; reflexivity.
Qed.

(* ------------------------------------------------------------------ *)
(* Sanity: concrete buffers, both sides computed (regression for the reading of the tuples).
   No statement was refuted: on every probe the source-derived function and the model agree. *)

Definition probe32 (buf : list Z) dp width lo hi :=
  (parse_int32 (suffix buf dp) width lo hi, sf_ParseInt_int (S (length buf)) buf dp width lo hi 777).
Definition probe64 (buf : list Z) dp width lo hi :=
  (parse_int64 (suffix buf dp) width lo hi, sf_ParseInt_long (S (length buf)) buf dp width lo hi 777).
Definition probe_off (buf : list Z) dp (m : list Z) :=
  (fmt_parse_offset (suffix buf dp) (deref (suffix m 0)), sf_ParseOffset (S (length buf)) buf dp m 0 777).
Definition probe_sub (buf : list Z) dp :=
  (parse_subseconds (suffix buf dp), sf_ParseSubSeconds (S (length buf)) buf dp 777).

(* "-0", "-", "" : rejected, *vp untouched *)
Example ex_minus_zero : probe32 [45; 48] 0 0 min32 max32 = (None, OK (-1, 777)) /\
                        probe64 [45; 48] 0 0 min64 max64 = (None, OK (-1, 777)).
Proof. vm_compute. split; reflexivity. Qed.
Example ex_minus : probe32 [45] 0 0 min32 max32 = (None, OK (-1, 777)).
Proof. vm_compute. reflexivity. Qed.
Example ex_empty : probe32 [] 0 0 min32 max32 = (None, OK (-1, 777)) /\
                   probe_off [] 0 [58] = (None, OK (-1, 777)) /\
                   probe_sub [] 0 = (OK None, OK (-1, 777)).
Proof. vm_compute. repeat split; reflexivity. Qed.
(* "12345" width 2; "-12345" width 2 (the sign counts); "-12345" width 1 *)
Example ex_width : probe32 [49; 50; 51; 52; 53] 0 2 min32 max32 = (Some (12, [51; 52; 53]), OK (2, 12)) /\
                   probe32 [45; 49; 50; 51; 52; 53] 0 2 min32 max32 = (Some (-1, [50; 51; 52; 53]), OK (2, -1)) /\
                   probe32 [45; 49; 50; 51; 52; 53] 0 1 min32 max32 = (None, OK (-1, 777)).
Proof. vm_compute. repeat split; reflexivity. Qed.
(* "-2147483648" accepted, "2147483648" and "-2147483649" rejected without overflow *)
Example ex_min32 :
  probe32 [45; 50; 49; 52; 55; 52; 56; 51; 54; 52; 56] 0 0 min32 max32 = (Some (-2147483648, []), OK (11, -2147483648)) /\
  probe32 [50; 49; 52; 55; 52; 56; 51; 54; 52; 56] 0 0 min32 max32 = (None, OK (-1, 777)) /\
  probe32 [45; 50; 49; 52; 55; 52; 56; 51; 54; 52; 57] 0 0 min32 max32 = (None, OK (-1, 777)).
Proof. vm_compute. repeat split; reflexivity. Qed.
(* "-9223372036854775808" accepted; "9223372036854775808", "-9223372036854775809" and the
   19-digit "9999999999999999999" rejected without overflow *)
Example ex_min64 :
  probe64 [45; 57; 50; 50; 51; 51; 55; 50; 48; 51; 54; 56; 53; 52; 55; 55; 53; 56; 48; 56] 0 0 min64 max64
    = (Some (-9223372036854775808, []), OK (20, -9223372036854775808)) /\
  probe64 [57; 50; 50; 51; 51; 55; 50; 48; 51; 54; 56; 53; 52; 55; 55; 53; 56; 48; 56] 0 0 min64 max64 = (None, OK (-1, 777)) /\
  probe64 [45; 57; 50; 50; 51; 51; 55; 50; 48; 51; 54; 56; 53; 52; 55; 55; 53; 56; 48; 57] 0 0 min64 max64 = (None, OK (-1, 777)) /\
  probe64 [57; 57; 57; 57; 57; 57; 57; 57; 57; 57; 57; 57; 57; 57; 57; 57; 57; 57; 57] 0 0 min64 max64 = (None, OK (-1, 777)).
Proof. vm_compute. repeat split; reflexivity. Qed.
(* "+12:34:56" with mode ":" and mode ""; "Z"; "-12:3" and "+01:02:3" (a lone minute / second digit
   is not consumed and, since the ParseOffset fix, not counted either: -12*3600 and 3720, in the C++
   and in the model alike; the pre-fix values -43380 / 3723 are kept in History.v); "-1" *)
Example ex_offset :
  probe_off [43; 49; 50; 58; 51; 52; 58; 53; 54] 0 [58] = (Some (45296, []), OK (9, 45296)) /\
  probe_off [43; 49; 50; 58; 51; 52; 58; 53; 54] 0 [] = (Some (43200, [58; 51; 52; 58; 53; 54]), OK (3, 43200)) /\
  probe_off [90] 0 [58] = (Some (0, []), OK (1, 0)) /\
  probe_off [45; 49; 50; 58; 51] 0 [58] = (Some (-43200, [58; 51]), OK (3, -43200)) /\
  probe_off [43; 48; 49; 58; 48; 50; 58; 51] 0 [58] = (Some (3720, [58; 51]), OK (6, 3720)) /\
  probe_off [45; 49] 0 [58] = (None, OK (-1, 777)).
Proof. vm_compute. repeat split; reflexivity. Qed.
(* embedded NUL: "12\0" "34" read at 0, 2 (the NUL), 3; "+12\0" "34" *)
Example ex_nul :
  probe32 [49; 50; 0; 51; 52] 0 0 min32 max32 = (Some (12, []), OK (2, 12)) /\
  probe32 [49; 50; 0; 51; 52] 2 0 min32 max32 = (None, OK (-1, 777)) /\
  probe32 [49; 50; 0; 51; 52] 3 0 min32 max32 = (Some (34, []), OK (5, 34)) /\
  probe_off [43; 49; 50; 0; 51; 52] 0 [58] = (Some (43200, []), OK (3, 43200)) /\
  probe_sub [49; 50; 0; 51; 52] 0 = (OK (Some (120000000000000, [])), OK (2, 120000000000000)).
Proof. vm_compute. repeat split; reflexivity. Qed.
(* more than 15 fractional digits: the rest is consumed and ignored *)
Example ex_subsec :
  probe_sub [49; 50; 51; 52; 53; 54; 55; 56; 57; 48; 49; 50; 51; 52; 53; 54; 55; 56; 57; 48; 120] 0
    = (OK (Some (123456789012345, [120])), OK (20, 123456789012345)).
Proof. vm_compute. reflexivity. Qed.

Print Assumptions sf_ParseInt_int_tie.
Print Assumptions sf_ParseInt_long_tie.
Print Assumptions sf_ParseOffset_tie.
Print Assumptions sf_ParseSubSeconds_tie.
