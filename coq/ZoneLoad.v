(* ZoneLoad.v — IMPL64 layer: TimeZoneInfo::Load / ExtendTransitions /
   GetTransitionType / ResetToBuiltinUTC / LocalTime from src/time_zone_info.cc.
   A ZoneInfoSource is the list of bytes it will deliver. *)
From CCTZ Require Import Base SrcConstants Cal CivilImpl FixedImpl PosixImpl.
Local Open Scope Z_scope.

Record transition := mkTr {
  tr_time : Z;        (* unix_time *)
  tr_type : Z;        (* type_index *)
  tr_cs : fields;     (* civil_sec *)
  tr_pcs : fields     (* prev_civil_sec *)
}.

Record ttype := mkTT {
  tt_off : Z;
  tt_cmax : fields;
  tt_cmin : fields;
  tt_isdst : bool;
  tt_abbr : Z         (* abbr_index *)
}.

Record zone := mkZone {
  z_trans : list transition;
  z_types : list ttype;
  z_default : Z;
  z_abbrs : list Z;       (* abbreviations_ (std::string contents) *)
  z_future : list Z;      (* future_spec_ *)
  z_extended : bool;
  z_last_year : Z
}.

Record alookup := mkAL { al_cs : fields; al_off : Z; al_dst : bool; al_abbr : list Z }.

Definition epoch : fields := mkF 1970 1 1 0 0 0.

Definition nth_res {A} (l : list A) (i : Z) : res A :=
  if i <? 0 then Err OOB
  else match nth_error l (Z.to_nat i) with Some x => OK x | None => Err OOB end.

(* &abbreviations_[i] read as a C string: valid for i <= size (the terminator) *)
Definition cstr_from (s : list Z) (i : Z) : res (list Z) :=
  if (i <? 0) || (Z.of_nat (length s) <? i) then Err OOB
  else OK (c_str (skipn (Z.to_nat i) s)).

(* ---- LocalTime (:855-872) ---- *)
Definition local_time_tt (abbrs : list Z) (t : Z) (ty : ttype) : res alookup :=
  do a <- plus64 0 epoch t ;;
  do b <- plus64 0 a (tt_off ty) ;;
  do ab <- cstr_from abbrs (tt_abbr ty) ;;
  OK (mkAL b (tt_off ty) (tt_isdst ty) ab).

Definition local_time_tr (z : zone) (t : Z) (tr : transition) : res alookup :=
  do ty <- nth_res (z_types z) (tr_type tr) ;;
  do d <- sub64 t (tr_time tr) ;;
  do c <- plus64 0 (tr_cs tr) d ;;
  do ab <- cstr_from (z_abbrs z) (tt_abbr ty) ;;
  OK (mkAL c (tt_off ty) (tt_isdst ty) ab).

(* ---- decoding helpers (:106-175) ---- *)
Definition decode_be (bs : list Z) : Z := fold_left (fun a b => a * 256 + b) bs 0.
Definition decode32 (bs : list Z) : Z :=
  let v := decode_be bs in if v <=? 2147483647 then v else v - 4294967296.
Definition decode64 (bs : list Z) : Z :=
  let v := decode_be bs in if v <=? max64 then v else v - 18446744073709551616.

(* zip->Read(buf, n) == n *)
Definition read_n (n : Z) (src : list Z) : option (list Z * list Z) :=
  if Z.of_nat (length src) <? n then None
  else Some (firstn (Z.to_nat n) src, skipn (Z.to_nat n) src).

(* zip->Skip(n): advance min(n, remaining); written so that a huge declared
   length never builds a huge nat *)
Definition skip_z (n : Z) (src : list Z) : list Z :=
  if Z.of_nat (length src) <=? n then [] else skipn (Z.to_nat n) src.

Record header := mkH { h_timecnt : Z; h_typecnt : Z; h_charcnt : Z; h_leapcnt : Z; h_isstdcnt : Z; h_isutcnt : Z }.

Definition sub_bytes (bs : list Z) (off len : nat) : list Z := firstn len (skipn off bs).

(* Header::Build: every count must be non-negative *)
Definition header_build (tzh : list Z) : option header :=
  let isut := decode32 (sub_bytes tzh 20 4) in
  let isstd := decode32 (sub_bytes tzh 24 4) in
  let leap := decode32 (sub_bytes tzh 28 4) in
  let timecnt := decode32 (sub_bytes tzh 32 4) in
  let typecnt := decode32 (sub_bytes tzh 36 4) in
  let charcnt := decode32 (sub_bytes tzh 40 4) in
  if (timecnt <? 0) || (typecnt <? 0) || (charcnt <? 0) || (leap <? 0) || (isstd <? 0) || (isut <? 0)
  then None else Some (mkH timecnt typecnt charcnt leap isstd isut).

Definition data_length (h : header) (time_len : Z) : Z :=
  (time_len + 1) * h_timecnt h + 6 * h_typecnt h + h_charcnt h
  + (time_len + 4) * h_leapcnt h + h_isstdcnt h + h_isutcnt h.

Definition magic_ok (tzh : list Z) : bool := list_eqb (firstn 4 tzh) [84; 90; 105; 102].
Definition version_of (tzh : list Z) : Z := nthZ tzh 4.

(* split a buffer into n chunks of k bytes *)
Fixpoint chunks (n : nat) (k : nat) (bs : list Z) : list (list Z) :=
  match n with
  | O => []
  | S n' => firstn k bs :: chunks n' k (skipn k bs)
  end.

Fixpoint strictly_increasing (l : list Z) : bool :=
  match l with
  | a :: ((b :: _) as r) => (a <? b) && strictly_increasing r
  | _ => true
  end.

(* ---- GetTransitionType (:261-290) ---- *)
(* returns (types', abbrs', Some index) or None for "no index space" *)
Fixpoint gtt_scan (types : list ttype) (abbrs : list Z) (off : Z) (isdst : bool) (abbr : list Z)
         (type_index abbr_index : Z) : res (Z * Z) :=
  match types with
  | [] => OK (type_index, abbr_index)
  | ty :: rest =>
      do tt_ab <- cstr_from abbrs (tt_abbr ty) ;;
      let abbr_index' := if list_eqb tt_ab abbr then tt_abbr ty else abbr_index in
      if (tt_off ty =? off) && Bool.eqb (tt_isdst ty) isdst && (abbr_index' =? tt_abbr ty)
      then OK (type_index, abbr_index')
      else gtt_scan rest abbrs off isdst abbr (type_index + 1) abbr_index'
  end.

Definition get_transition_type (types : list ttype) (abbrs : list Z) (off : Z) (isdst : bool) (abbr : list Z)
  : res (option (list ttype * list Z * Z)) :=
  do '(type_index, abbr_index) <- gtt_scan types abbrs off isdst abbr 0 (Z.of_nat (length abbrs)) ;;
  if (255 <? type_index) || (255 <? abbr_index) then OK None
  else if type_index =? Z.of_nat (length types) then
    let abbrs' := if abbr_index =? Z.of_nat (length abbrs) then abbrs ++ abbr ++ [0] else abbrs in
    OK (Some (types ++ [mkTT off epoch epoch isdst abbr_index], abbrs', type_index))
  else OK (Some (types, abbrs, type_index)).

(* ---- EquivTransitions (:295-308) ---- *)
(* As in /repo after the C11 fix: two types whose abbr_index differ are still
   equivalent when both indices designate the same abbreviation TEXT
   (strcmp(&abbreviations_[i1], &abbreviations_[i2]) == 0).  The pre-fix
   comparison of the bare indices is History.equiv_transitions_prefix.
   Evaluation order as in the C++: offset, is_dst, then the abbreviation. *)
Definition equiv_transitions (abbrs : list Z) (types : list ttype) (i1 i2 : Z) : res bool :=
  if i1 =? i2 then OK true
  else
    do t1 <- nth_res types i1 ;;
    do t2 <- nth_res types i2 ;;
    if negb (tt_off t1 =? tt_off t2) then OK false
    else if negb (Bool.eqb (tt_isdst t1) (tt_isdst t2)) then OK false
    else if tt_abbr t1 =? tt_abbr t2 then OK true
    else
      do a1 <- cstr_from abbrs (tt_abbr t1) ;;
      do a2 <- cstr_from abbrs (tt_abbr t2) ;;
      OK (list_eqb a1 a2).

(* ---- AllYearDST (:179-190) ---- *)
Definition get_opt {A} (o : option A) : res A := match o with Some a => OK a | None => Err Uninit end.

Definition all_year_dst (p : posix_tz) : res bool :=
  do sd <- get_opt (pt_date (dst_start p)) ;;
  match sd with
  | DN day =>
      if negb (day =? 0) then OK false else
      do st <- get_opt (pt_time (dst_start p)) ;;
      if negb (st =? 0) then OK false else
      do ed <- get_opt (pt_date (dst_end p)) ;;
      match ed with
      | DJ jday =>
          if negb (jday =? nthZ src_kDaysPerYear 0) then OK false else
          do so <- get_opt (std_offset p) ;;
          do dof <- get_opt (dst_offset p) ;;
          do et <- get_opt (pt_time (dst_end p)) ;;
          OK (et + (so - dof) =? src_kSecsPerDay)
      | _ => OK false
      end
  | _ => OK false
  end.

(* ---- TransOffset (:193-220) ---- *)
Definition month_offsets (leap : bool) : list Z := if leap then src_kMonthOffsets1 else src_kMonthOffsets0.

Definition trans_offset (leap : bool) (jan1_weekday : Z) (pt : ptrans) : res Z :=
  do date <- get_opt (pt_date pt) ;;
  do time <- get_opt (pt_time pt) ;;
  do days <-
    match date with
    | DJ day =>
        do mo3 <- nth_res src_kMonthOffsets1 3 ;;
        OK (if negb leap || (day <? mo3) then day - 1 else day)
    | DN day => OK day
    | DM month week weekday =>
        let last_week := week =? 5 in
        do days0 <- nth_res (month_offsets leap) (month + b2z last_week) ;;
        let wd := Z.rem (jan1_weekday + days0) 7 in
        if last_week then
          OK (days0 - (Z.rem (wd + 7 - 1 - weekday) 7 + 1))
        else
          OK (days0 + Z.rem (weekday + 7 - wd) 7 + (week - 1) * 7)
    end ;;
  do a <- mul64 days src_kSecsPerDay ;;
  add64 a time.

(* ToPosixWeekday(get_weekday(..)): cctz monday=0..sunday=6 -> POSIX sunday=0 *)
Definition to_posix_weekday (w : Z) : Z := if w =? 6 then 0 else w + 1.

(* ---- ExtendTransitions (:308-375) ---- *)
Record ext_state := mkES { es_year : Z; es_leap : bool; es_jan1_time : Z; es_jan1_wd : Z; es_acc : list transition }.

Fixpoint extend_loop (fuel : nat) (p_start p_end : ptrans) (std_off dst_off : Z) (std_ti dst_ti : Z)
         (last_time limit : Z) (st : ext_state) : res ext_state :=
  match fuel with
  | O => Err Fuel
  | S f =>
      do dst_trans_off <- trans_offset (es_leap st) (es_jan1_wd st) p_start ;;
      do std_trans_off <- trans_offset (es_leap st) (es_jan1_wd st) p_end ;;
      do d1 <- add64 (es_jan1_time st) dst_trans_off ;;
      do dst_time <- sub64 d1 std_off ;;
      do s1 <- add64 (es_jan1_time st) std_trans_off ;;
      do std_time <- sub64 s1 dst_off ;;
      let dst := mkTr dst_time dst_ti epoch epoch in
      let std := mkTr std_time std_ti epoch epoch in
      let '(ta, tb) := if dst_time <? std_time then (dst, std) else (std, dst) in
      let acc1 :=
        if last_time <? tr_time tb then
          (if last_time <? tr_time ta then es_acc st ++ [ta] else es_acc st) ++ [tb]
        else es_acc st in
      if es_year st =? limit then OK (mkES (es_year st) (es_leap st) (es_jan1_time st) (es_jan1_wd st) acc1)
      else
        do spy <- nth_res [365 * src_kSecsPerDay; 366 * src_kSecsPerDay] (b2z (es_leap st)) ;;
        do j' <- add64 (es_jan1_time st) spy ;;
        do dpy <- nth_res src_kDaysPerYear (b2z (es_leap st)) ;;
        let wd' := Z.rem (es_jan1_wd st + dpy) 7 in
        do y1 <- add64 (es_year st) 1 ;;
        let leap' := negb (es_leap st) && is_leap_year64 y1 in
        extend_loop f p_start p_end std_off dst_off std_ti dst_ti last_time limit
                    (mkES y1 leap' j' wd' acc1)
  end.

Definition last_opt {A} (l : list A) : option A := match rev l with x :: _ => Some x | [] => None end.

(* returns None for `return false`, otherwise the updated zone pieces *)
Definition extend_transitions (trans : list transition) (types : list ttype) (abbrs : list Z) (future : list Z)
  : res (option (list transition * list ttype * list Z * bool * Z)) :=
  match future with
  | [] => OK (Some (trans, types, abbrs, false, 0))
  | _ =>
    match ParsePosixSpec future with
    | None => OK None
    | Some posix =>
      do so <- get_opt (std_offset posix) ;;
      do r1 <- get_transition_type types abbrs so false (std_abbr posix) ;;
      match r1 with
      | None => OK None
      | Some (types1, abbrs1, std_ti) =>
        do last <- match last_opt trans with Some x => OK x | None => Err OOB end ;;
        match dst_abbr posix with
        | [] =>
            do e <- equiv_transitions abbrs1 types1 (tr_type last) std_ti ;;
            if e then OK (Some (trans, types1, abbrs1, false, 0)) else OK None
        | _ =>
          do dof <- get_opt (dst_offset posix) ;;
          do r2 <- get_transition_type types1 abbrs1 dof true (dst_abbr posix) ;;
          match r2 with
          | None => OK None
          | Some (types2, abbrs2, dst_ti) =>
            do ay <- all_year_dst posix ;;
            if ay then
              (do e <- equiv_transitions abbrs2 types2 (tr_type last) dst_ti ;;
               if e then OK (Some (trans, types2, abbrs2, false, 0)) else OK None)
            else
              let last_time := tr_time last in
              do last_tt <- nth_res types2 (tr_type last) ;;
              do al <- local_time_tt abbrs2 last_time last_tt ;;
              let last_year := fy (al_cs al) in
              let leap := is_leap_year64 last_year in
              do jan1 <- construct64 0 last_year 1 1 0 0 0 ;;
              do jan1_time <- difference64 0 jan1 epoch ;;
              do wd <- get_weekday64 jan1 ;;
              do limit <- add64 last_year src_extend_years ;;
              do st <- extend_loop 403 (dst_start posix) (dst_end posix) so dof std_ti dst_ti
                         last_time limit (mkES last_year leap jan1_time (to_posix_weekday wd) []) ;;
              OK (Some (trans ++ es_acc st, types2, abbrs2, true, es_year st))
          end
        end
      end
    end
  end.

(* ---- the civil-second pass of Load (:793-808) ---- *)
Fixpoint civil_pass (abbrs : list Z) (types : list ttype) (ttp : ttype) (prev : option (fields * Z))
         (trans : list transition) (acc : list transition) : res (option (list transition)) :=
  match trans with
  | [] => OK (Some (rev acc))
  | tr :: rest =>
      do a <- local_time_tt abbrs (tr_time tr) ttp ;;
      do pcs <- minus64 0 (al_cs a) 1 ;;
      do ttp' <- nth_res types (tr_type tr) ;;
      do b <- local_time_tt abbrs (tr_time tr) ttp' ;;
      let tr' := mkTr (tr_time tr) (tr_type tr) (al_cs b) pcs in
      match prev with
      | Some (pc, pt) =>
          if negb (lt64 pc (al_cs b)) then OK None
          else if negb (pt <? tr_time tr) then OK None
          else civil_pass abbrs types ttp' (Some (al_cs b, tr_time tr)) rest (tr' :: acc)
      | None => civil_pass abbrs types ttp' (Some (al_cs b, tr_time tr)) rest (tr' :: acc)
      end
  end.

Fixpoint set_civil_limits (abbrs : list Z) (types : list ttype) : res (list ttype) :=
  match types with
  | [] => OK []
  | ty :: rest =>
      do mx <- local_time_tt abbrs max64 ty ;;
      do mn <- local_time_tt abbrs min64 ty ;;
      do r <- set_civil_limits abbrs rest ;;
      OK (mkTT (tt_off ty) (al_cs mx) (al_cs mn) (tt_isdst ty) (tt_abbr ty) :: r)
  end.

(* ---- default-type search (:713-726).  As in /repo after the C12 "fix:"
   commit 354404f the index is a size_t (the pre-fix 8-bit index, which could
   loop forever, is in History.v). ---- *)
Fixpoint dflt_down (fuel : nat) (types : list ttype) (index : Z) : res Z :=
  match fuel with
  | O => Err Fuel
  | S f =>
      if index =? 0 then OK index else
      do ty <- nth_res types index ;;
      if tt_isdst ty then dflt_down f types (index - 1) else OK index
  end.
(* walk up from [index] to the first standard type or to typecnt; the fuel
   given by the caller is length types + 1, which always suffices *)
Fixpoint dflt_up (fuel : nat) (types : list ttype) (typecnt index : Z) : res Z :=
  match fuel with
  | O => Err Fuel
  | S f =>
      if index =? typecnt then OK index else
      do ty <- nth_res types index ;;
      if tt_isdst ty then dflt_up f types typecnt (index + 1) else OK index
  end.

Fixpoint footer_scan (s : list Z) (acc : list Z) : option (list Z) :=
  match s with
  | [] => None
  | c :: s' => if c =? 10 then Some (rev acc) else footer_scan s' (c :: acc)
  end.
Definition footer_read (src : list Z) : option (list Z) :=
  match src with
  | 10 :: r => footer_scan r []
  | _ => None
  end.

Definition big_bang : Z := - 2 ^ src_big_bang_shift.
Definition time_in_range (t : Z) : bool := (big_bang <=? t) && (t <=? 2 ^ 59).

(* ---- TimeZoneInfo::Load(ZoneInfoSource ptr) (:629-819) ---- *)
Definition load_bytes (src : list Z) : res (option zone) :=
  match read_n 44 src with
  | None => OK None
  | Some (tzh1, src1) =>
    if negb (magic_ok tzh1) then OK None else
    match header_build tzh1 with
    | None => OK None
    | Some hdr1 =>
      (* second header for version >= 2 *)
      let step2 : option (header * Z * Z * list Z) :=
        if negb (version_of tzh1 =? 0) then
          let src2 := skip_z (data_length hdr1 4) src1 in
          match read_n 44 src2 with
          | None => None
          | Some (tzh2, src3) =>
              if negb (magic_ok tzh2) then None
              else if version_of tzh2 =? 0 then None
              else match header_build tzh2 with
                   | None => None
                   | Some hdr2 => Some (hdr2, 8, version_of tzh2, src3)
                   end
          end
        else Some (hdr1, 4, 0, src1) in
      match step2 with
      | None => OK None
      | Some (hdr, time_len, version, src4) =>
        if h_typecnt hdr =? 0 then OK None
        else if negb (h_leapcnt hdr =? 0) then OK None
        else if negb (h_isstdcnt hdr =? 0) && negb (h_isstdcnt hdr =? h_typecnt hdr) then OK None
        else if negb (h_isutcnt hdr =? 0) && negb (h_isutcnt hdr =? h_typecnt hdr) then OK None
        else
        match read_n (data_length hdr time_len) src4 with
        | None => OK None
        | Some (tbuf, src5) =>
          let timecnt := Z.to_nat (h_timecnt hdr) in
          let typecnt := Z.to_nat (h_typecnt hdr) in
          let tl := Z.to_nat time_len in
          let times := map (if time_len =? 4 then decode32 else decode64) (chunks timecnt tl tbuf) in
          (* each time is validated as it is decoded, before the order check of
             the next one: reject iff the first offending index is a range error
             or an order error - both give `return false` *)
          if negb (strictly_increasing times) || negb (forallb time_in_range times) then OK None else
          let bp1 := skipn (timecnt * tl) tbuf in
          let idxs := firstn timecnt bp1 in
          if negb (forallb (fun i => i <? h_typecnt hdr) idxs) then OK None else
          let seen_type_0 := existsb (fun i => i =? 0) idxs in
          let bp2 := skipn timecnt bp1 in
          let raw_types := chunks typecnt 6 bp2 in
          let types0 := map (fun c => mkTT (decode32 (firstn 4 c)) epoch epoch (negb (nthZ c 4 =? 0)) (nthZ c 5)) raw_types in
          if negb (forallb (fun ty => (tt_off ty <? src_kSecsPerDay) && (- src_kSecsPerDay <? tt_off ty)
                                      && (tt_abbr ty <? h_charcnt hdr)) types0)
          then OK None else
          (* default type *)
          do dflt <-
            (if seen_type_0 && negb (h_timecnt hdr =? 0) then
               do t0 <- nth_res types0 0 ;;
               do i1 <- (if tt_isdst t0 then dflt_down 257 types0 (nthZ idxs 0) else OK 0) ;;
               do i2 <- dflt_up (S (length types0)) types0 (h_typecnt hdr) i1 ;;
               OK (if negb (i2 =? h_typecnt hdr) && (i2 <=? 255) then i2 else 0)
             else OK 0) ;;
          let bp3 := skipn (typecnt * 6) bp2 in
          let abbrs := firstn (Z.to_nat (h_charcnt hdr)) bp3 in
          (* footer *)
          let footer : option (list Z) :=
            if negb (version =? 0) then footer_read src5 else Some [] in
          match footer with
          | None => OK None
          | Some future =>
            let trans0 := map (fun '(t, i) => mkTr t i epoch epoch) (combine times idxs) in
            let trans1 :=
              match trans0 with
              | [] => [mkTr big_bang dflt epoch epoch]
              | tr :: _ => if 0 <=? tr_time tr then mkTr big_bang dflt epoch epoch :: trans0 else trans0
              end in
            do ext <- extend_transitions trans1 types0 abbrs future ;;
            match ext with
            | None => OK None
            | Some (trans2, types1, abbrs1, extended, last_year) =>
              do last <- match last_opt trans2 with Some x => OK x | None => Err OOB end ;;
              let trans3 :=
                if tr_time last <? 0 then trans2 ++ [mkTr src_second_half_sentinel (tr_type last) epoch epoch]
                else trans2 in
              do dtt <- nth_res types1 dflt ;;
              do cp <- civil_pass abbrs1 types1 dtt None trans3 [] ;;
              match cp with
              | None => OK None
              | Some trans4 =>
                do types2 <- set_civil_limits abbrs1 types1 ;;
                OK (Some (mkZone trans4 types2 dflt abbrs1 future extended last_year))
              end
            end
          end
        end
      end
    end
  end.

(* ---- ResetToBuiltinUTC (:583-627) ---- *)
Definition builtin_times : list Z :=
  [big_bang; 1420070400; 1451606400; 1483228800; 1514764800; 1546300800; 1577836800;
   1609459200; 1640995200; 1672531200; 1704067200; 1735689600].

Fixpoint builtin_trans (abbrs : list Z) (ty : ttype) (ts : list Z) : res (list transition) :=
  match ts with
  | [] => OK []
  | t :: r =>
      do a <- local_time_tt abbrs t ty ;;
      do p <- minus64 0 (al_cs a) 1 ;;
      do rest <- builtin_trans abbrs ty r ;;
      OK (mkTr t 0 (al_cs a) p :: rest)
  end.

Definition reset_to_builtin_utc (offset : Z) : res zone :=
  do off32 <- narrow32 offset ;;
  let tt0 := mkTT off32 epoch epoch false 0 in
  do trans <- builtin_trans [] tt0 builtin_times ;;
  do ab <- FixedOffsetToAbbr offset ;;
  let abbrs := ab ++ [0] in
  do mx <- local_time_tt abbrs max64 tt0 ;;
  do mn <- local_time_tt abbrs min64 tt0 ;;
  OK (mkZone trans [mkTT off32 (al_cs mx) (al_cs mn) false 0] 0 abbrs [] false 0).

(* ---- TimeZoneInfo::Load(name) (:821-840) with the data source as a function ---- *)
Definition load_name (data : list Z -> option (list Z)) (name : list Z) : res (option zone) :=
  match FixedOffsetFromName name with
  | Some off => do z <- reset_to_builtin_utc off ;; OK (Some z)
  | None =>
      match data name with
      | None => OK None
      | Some bytes => load_bytes bytes
      end
  end.
