(* Properties_C01.v — C01: instant -> civil follows the TZif data exactly.
   (a) table part: the index search returns the type of the latest transition
       at or before t, whatever the hint (Properties_C03.zbreak_spec,
       Properties_C14.hint_irrelevant_break);
   (b) footer part, below: the code's year-relative offset arithmetic equals
       the calendar statement of the POSIX rule for EVERY year, the rule is
       400-year periodic (which is what justifies BreakTime's back-mapping),
       and the 402-iteration extension loop generates exactly the rule's
       instants. *)
From CCTZ Require Import Base SrcConstants Cal CivilImpl PosixImpl ZoneLoad ZoneImpl ZoneSpec RuleProofs.
Local Open Scope Z_scope.

Definition pdate_ok (d : pdate) : bool :=
  match d with
  | DJ n => (1 <=? n) && (n <=? 365)
  | DN n => (0 <=? n) && (n <=? 365)
  | DM m w wd => (1 <=? m) && (m <=? 12) && (1 <=? w) && (w <=? 5) && (0 <=? wd) && (wd <=? 6)
  end.

(* TransOffset (time_zone_info.cc:193-220) = the calendar reading of Jn / n /
   Mm.w.d ("the w-th weekday d of month m; w = 5: the last one"), every year *)
Theorem trans_offset_matches_calendar : forall Y d time,
  pdate_ok d = true -> -1000000 <= time <= 1000000 ->
  trans_offset (is_leap_year64 Y) (posix_wd_of_days (days_from_civil Y 1 1)) (mkPT (Some d) (Some time))
  = OK (date_yday d Y * 86400 + time).
Proof. exact trans_offset_matches_calendar_lemma. Qed.
Print Assumptions trans_offset_matches_calendar.

Theorem date_yday_range : forall Y d, pdate_ok d = true -> 0 <= date_yday d Y <= 365.
Proof. exact date_yday_range_lemma. Qed.
Print Assumptions date_yday_range.

(* the rule is periodic with period 400 years = 146097 days *)
Theorem rule_periodic : forall r Y k,
  rule_start r (Y + 400 * k) = rule_start r Y + 146097 * 86400 * k /\
  rule_end r (Y + 400 * k) = rule_end r Y + 146097 * 86400 * k.
Proof. exact rule_periodic_lemma. Qed.
Print Assumptions rule_periodic.

(* what the extension loop is specified to produce *)
Fixpoint rule_gen (r : rule) (std_ti dst_ti : Z) (last_time : Z) (Y : Z) (n : nat) : list (Z * Z) :=
  match n with
  | O => []
  | S k =>
      let a := (rule_start r Y, dst_ti) in
      let b := (rule_end r Y, std_ti) in
      let '(ta, tb) := if fst a <? fst b then (a, b) else (b, a) in
      (if last_time <? fst tb then (if last_time <? fst ta then [ta; tb] else [tb]) else [])
      ++ rule_gen r std_ti dst_ti last_time (Y + 1) k
  end.

(* ExtendTransitions' loop (incremental jan1_time / weekday / leap flag) from
   year y0 generates exactly the rule instants of years y0 .. y0+401 that lie
   after last_time, in order, without overflow *)
Theorem extend_loop_matches_rule : forall r std_ti dst_ti last_time y0,
  pdate_ok (r_start_date r) = true -> pdate_ok (r_end_date r) = true ->
  -1000000 <= r_start_time r <= 1000000 -> -1000000 <= r_end_time r <= 1000000 ->
  -100000 <= fst (fst (r_std r)) <= 100000 -> -100000 <= fst (fst (r_dst r)) <= 100000 ->
  -20000000000 <= y0 <= 20000000000 ->
  exists st,
    extend_loop 403 (mkPT (Some (r_start_date r)) (Some (r_start_time r)))
                    (mkPT (Some (r_end_date r)) (Some (r_end_time r)))
                    (fst (fst (r_std r))) (fst (fst (r_dst r))) std_ti dst_ti last_time (y0 + 401)
                    (mkES y0 (is_leap_year64 y0) (86400 * days_from_civil y0 1 1)
                          (posix_wd_of_days (days_from_civil y0 1 1)) [])
    = OK st /\
    es_year st = y0 + 401 /\
    map (fun tr => (tr_time tr, tr_type tr)) (es_acc st) = rule_gen r std_ti dst_ti last_time y0 402.
Proof. exact extend_loop_matches_rule_lemma. Qed.
Print Assumptions extend_loop_matches_rule.

From CCTZ Require Import Base Cal CivilImpl PosixImpl FixedImpl ZoneLoad ZoneImpl ZoneZ ZoneHist ZoneRefineDefs ZoneRefine.

(* instant -> civil, table region (every t when the zone is not extended) *)
Theorem c01_table_lookup : forall z h t, zone_ok z = true -> int64 t ->
  (z_extended z = false \/ (forall l, last_opt (z_trans z) = Some l -> t < tr_time l)) ->
  exists h' dst ab,
    break_time z h t = OK (mkAL (civil_of_seconds (t + zoff (abs_zone z) t)) (zoff (abs_zone z) t) dst ab, h')
    /\ info_of z (zid (abs_zone z) t) = OK (dst, ab).
Proof. exact break_refines_lemma. Qed.
Print Assumptions c01_table_lookup.

Example c01_nonvacuous :
  trans_offset true 6 (mkPT (Some (DM 3 2 0)) (Some 7200)) = OK (date_yday (DM 3 2 0) 2028 * 86400 + 7200)
  /\ date_yday (DM 3 2 0) 2028 = 71.
Proof. vm_compute. split; reflexivity. Qed.

From CCTZ Require Import FutureDefs FutureProofs.

(* instant -> civil, beyond the table of an extended zone: the answer is the table's answer
   400*k years earlier (inside the generated window), re-dated *)
Theorem c01_future_lookup : forall z h t l,
  zone_ok z = true -> z_extended z = true -> last_opt (z_trans z) = Some l ->
  P400 <= tr_time l -> int64 t -> tr_time l <= t ->
  let k := (t - tr_time l) / P400 + 1 in
  exists h' dst ab,
    break_time z h t = OK (mkAL (civil_of_seconds (t + zoff (abs_zone z) (t - k * P400)))
                                (zoff (abs_zone z) (t - k * P400)) dst ab, h')
    /\ info_of z (zid (abs_zone z) (t - k * P400)) = OK (dst, ab)
    /\ tr_time l - P400 <= t - k * P400 < tr_time l.
Proof. exact break_future_lemma. Qed.
Print Assumptions c01_future_lookup.

Theorem rule_state_periodic : forall r t k, rule_state r (t + P400 * k) = rule_state r t.
Proof. exact rule_state_periodic_lemma. Qed.
Print Assumptions rule_state_periodic.

Theorem rule_window : forall r std_ti dst_ti last_time y0 n (l : list ztr) t b,
  rule_ok r = true ->
  pdate_ok' (r_start_date r) = true -> pdate_ok' (r_end_date r) = true ->
  -1000000 <= r_start_time r <= 1000000 -> -1000000 <= r_end_time r <= 1000000 ->
  -100000 <= fst (fst (r_std r)) <= 100000 -> -100000 <= fst (fst (r_dst r)) <= 100000 ->
  map (fun x => (zt_time x, zt_id x)) l = rule_gen' r std_ti dst_ti last_time y0 n ->
  y0 + 1 <= year_of_instant t <= y0 + Z.of_nat n - 2 ->
  last_time <= t - 3 * 366 * 86400 ->
  rule_state r t = Some b ->
  (forall cur, zid_list l cur t = (if b then dst_ti else std_ti)) /\
  (forall offf, (forall x, In x l -> zt_off x = offf (zt_id x)) ->
     forall cur, zoff_list l cur t = offf (if b then dst_ti else std_ti)).
Proof. exact rule_window_lemma. Qed.
Print Assumptions rule_window.


From CCTZ Require Import LoadSafe Source64 Source64InfoProofs.

(* SOURCE-DERIVED TransOffset (Source64.v, regenerated from clang's AST of the current
   src/time_zone_info.cc on every run; the struct is passed member by member, flat_trans maps a
   model value to those arguments): it computes the calendar reading of the rule date for EVERY
   year without overflow, for every date form and every time the footer parser can produce *)
Theorem src64_trans_offset_matches_calendar : forall Y d time,
  pdate_ok d = true -> -604799 <= time <= 604799 ->
  flat_trans (is_leap_year64 Y) (posix_wd_of_days (days_from_civil Y 1 1)) (mkPT (Some d) (Some time))
  = OK (date_yday d Y * 86400 + time).
Proof. exact src64_trans_offset_matches_calendar_lemma. Qed.
Print Assumptions src64_trans_offset_matches_calendar.

Theorem src64_tie_trans_offset : forall leap wd pt r,
  pt_ok pt -> -1000000 <= wd <= 1000000 ->
  trans_offset leap wd pt = OK r -> flat_trans leap wd pt = OK r.
Proof. exact s64_TransOffset_tie. Qed.
Print Assumptions src64_tie_trans_offset.

Theorem src64_tie_all_year_dst : forall p b,
  ptz_ok p -> dst_abbr p <> [] -> all_year_dst p = OK b -> flat_allyear p = OK b.
Proof. exact s64_AllYearDST_tie. Qed.
Print Assumptions src64_tie_all_year_dst.

From CCTZ Require Import LoadCert.

(* end to end: for EVERY accepted byte string whose data satisfies the side condition *)
Theorem c01_every_accepted_file : forall bs z h t, load_bytes bs = OK (Some z) ->
  gaps_wide (zz_doff (abs_zone z)) (zz_tr (abs_zone z)) = true -> int64 t ->
  (z_extended z = false \/ (forall l, last_opt (z_trans z) = Some l -> t < tr_time l)) ->
  exists h' dst ab,
    break_time z h t = OK (mkAL (civil_of_seconds (t + zoff (abs_zone z) t)) (zoff (abs_zone z) t) dst ab, h')
    /\ info_of z (zid (abs_zone z) t) = OK (dst, ab).
Proof. exact accepted_break_refines_lemma. Qed.
Print Assumptions c01_every_accepted_file.


From CCTZ Require Import ZoneSpec C01Whole.

(* C01 AS ONE STATEMENT.  For every byte string that the specification's own reader parses into a
   well-formed file (wf_ast) inside the domain c01_domain (four boolean clauses on the parsed file, each
   shown necessary in C01Whole.v by a machine-checked witness: not the F9 family; room for the footer's
   types below index 256;
   footer offsets that keep the seam ordered; rule instants that stay inside their own UTC year), the
   loader accepts it and, for EVERY int64 instant and every hint, BreakTime reports exactly the civil
   fields, offset, DST flag and abbreviation that the file's data designates (ZoneSpec.spec_lookup:
   default type before the first transition, latest file transition inside the table, the POSIX footer
   rule on the calendar beyond it). *)
Theorem c01_whole_chain : forall bs h a,
  parse_ast bs = Some (h, a) -> wf_ast h a = true -> c01_domain h a = true ->
  exists z, load_bytes bs = OK (Some z) /\
    forall hint t, int64 t -> exists al hint',
      break_time z hint t = OK (al, hint') /\
      spec_lookup (szone_of a) t = Some (mkSL (al_cs al) (al_off al) (al_dst al) (al_abbr al)).
Proof. exact c01_whole. Qed.
Print Assumptions c01_whole_chain.

From CCTZ Require Import SourceZone SourceZoneProofs.
(* SOURCE-DERIVED zone queries (SourceZone.v, regenerated by gen/ast_translate_zone.py from clang's AST of the CURRENT
   src/time_zone_info.cc on every run: control flow, comparisons, the relaxed-atomic hint logic, std::upper_bound with its
   partition precondition as Err Precond, pointer-as-index arithmetic with Err OOB, the 400-year shift in checked 64-bit
   arithmetic, assert as Err Precond).  An edit of the C++ changes SourceZone.v and breaks these obligations; the
   hypotheses are only the C++ types (size_t: 0 <= x < 2^64).  fuel counts the recursive self-calls. *)
Theorem src_break_time_tie : forall z hint t r,
  size_t (vec_size (z_trans z)) -> size_t hint ->
  break_time z hint t = OK r ->
  forall fuel, (2 <= fuel)%nat -> sz_BreakTime fuel z hint t = OK r.
Proof. exact sz_BreakTime_tie. Qed.
Print Assumptions src_break_time_tie.
Theorem src_local_time_tie : forall z t tr, sz_LocalTime_i64_tr z t tr = local_time_tr z t tr.
Proof. exact sz_LocalTime_tr_tie. Qed.
Print Assumptions src_local_time_tie.
(* composed with the refinement theorem: the code as clang reads it now returns the integer-level lookup *)
Theorem src_break_meets_spec : forall z h t fuel, zone_ok z = true -> int64 t ->
  size_t (vec_size (z_trans z)) -> size_t h -> (2 <= fuel)%nat ->
  (z_extended z = false \/ (forall l, last_opt (z_trans z) = Some l -> t < tr_time l)) ->
  exists h' dst ab,
    sz_BreakTime fuel z h t = OK (mkAL (civil_of_seconds (t + zoff (abs_zone z) t)) (zoff (abs_zone z) t) dst ab, h')
    /\ info_of z (zid (abs_zone z) t) = OK (dst, ab).
Proof. exact src_zone_break_meets_spec. Qed.
Print Assumptions src_break_meets_spec.

From CCTZ Require Import SourceDecodeProofs SourceLoad SourceLoadProofs.
(* THE LOADER AS CLANG READS IT NOW (SourceLoad.v, regenerated by gen/ast_translate_load.py from the current
   time_zone_info.cc: Header::Build, Header::DataLength, GetTransitionType, ExtendTransitions and Load(ZoneInfoSource *zip)
   itself - the source as a byte list + cursor, unset header members as Err Uninit, vector aliases invalidated on resize,
   byte pointers with strict bounds): whatever the hand-written load_bytes decides for a byte string - accept with zone z,
   or reject - the source-derived Load decides the same and builds the same zone. *)
Theorem src_load_accepts : forall bs z ver zver d0 a0 f0 e0 ly0 fuel,
  bytes_ok bs -> Z.of_nat (length bs) < 2 ^ 62 -> (length bs + 1300 <= fuel)%nat ->
  load_bytes bs = OK (Some z) ->
  exists ver' rest, sl_Load fuel (mkZone [] [] d0 a0 f0 e0 ly0) ver bs zver = OK (true, load_result ly0 z, ver', rest).
Proof. exact sl_Load_accepts. Qed.
Print Assumptions src_load_accepts.
Theorem src_load_rejects : forall bs ver zver d0 a0 f0 e0 ly0 fuel,
  bytes_ok bs -> Z.of_nat (length bs) < 2 ^ 62 -> (length bs + 1300 <= fuel)%nat ->
  load_bytes bs = OK None ->
  exists z' ver' rest, sl_Load fuel (mkZone [] [] d0 a0 f0 e0 ly0) ver bs zver = OK (false, z', ver', rest).
Proof. exact sl_Load_rejects. Qed.
Print Assumptions src_load_rejects.
