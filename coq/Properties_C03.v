(* Properties_C03.v — C03: instant -> civil -> instant round trip. *)
From CCTZ Require Import Base ZoneZ ZoneZProofs.
Local Open Scope Z_scope.

Theorem zroundtrip : forall z t, wfz z = true ->
  let c := zmake z (t + zoff z t) in
  (zk c = ZU /\ zpre c = t) \/ (zk c = ZR /\ (zpre c = t \/ zpost c = t)).
Proof. exact zroundtrip_lemma. Qed.
Print Assumptions zroundtrip.

Theorem zdisplays_back : forall z L, wfz z = true ->
  let c := zmake z L in
  zk c <> ZS -> displays z (zpre c) L /\ displays z (zpost c) L.
Proof. exact zdisplays_back_lemma. Qed.
Print Assumptions zdisplays_back.

(* the instant -> civil direction reads the same table: index search = spec *)
Theorem zbreak_spec : forall z t, times_increasing (zz_tr z) = true ->
  zbreak z t = (zoff z t, zid z t).
Proof. exact zbreak_spec_lemma. Qed.
Print Assumptions zbreak_spec.
