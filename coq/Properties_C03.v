(* Properties_C03.v — C03: instant -> civil -> instant round trip. *)
From CCTZ Require Import Base ZoneZ ZoneZProofs.
Local Open Scope Z_scope.

Theorem zroundtrip : forall z t, wfz z = true ->
  let c := zmake z (t + zoff z t) in
  (zk c = ZU /\ zpre c = t) \/ (zk c = ZR /\ (zpre c = t \/ zpost c = t)).
Proof. exact zroundtrip_lemma. Qed.
Print Assumptions zroundtrip.

Theorem zdisplays_back : forall z L, wfz z = true ->
  let c := zmake z L in
  zk c <> ZS -> displays z (zpre c) L /\ displays z (zpost c) L.
Proof. exact zdisplays_back_lemma. Qed.
Print Assumptions zdisplays_back.

(* the instant -> civil direction reads the same table: index search = spec *)
Theorem zbreak_spec : forall z t, times_increasing (zz_tr z) = true ->
  zbreak z t = (zoff z t, zid z t).
Proof. exact zbreak_spec_lemma. Qed.
Print Assumptions zbreak_spec.

From CCTZ Require Import Base Cal CivilImpl ZoneLoad ZoneImpl ZoneZ ZoneRefineDefs ZoneRefine FutureDefs LoadCert ImplRoundTrip.

(* IMPLEMENTATION LEVEL (checked int64 BreakTime / MakeTime): the round trip, inside the table, beyond it
   (400-year shift; the tail hypotheses are what ExtendTransitions guarantees), and for every accepted file *)
Theorem c03_roundtrip_impl : forall z h h2 t al h',
  zone_ok z = true -> int64 t ->
  (z_extended z = false \/ (forall l, last_opt (z_trans z) = Some l -> t < tr_time l)) ->
  break_time z h t = OK (al, h') ->
  exists cl h'', make_time z h2 (al_cs al) = OK (cl, h'') /\
    ((cl_kind cl = UNIQUE /\ cl_pre cl = t) \/
     (cl_kind cl = REPEATED /\ (cl_pre cl = t \/ cl_post cl = t))).
Proof. exact c03_roundtrip_impl_lemma. Qed.
Print Assumptions c03_roundtrip_impl.

Theorem c03_roundtrip_future : forall z h h2 t l al h',
  zone_ok z = true -> z_extended z = true -> last_opt (z_trans z) = Some l ->
  P400 <= tr_time l ->
  (* the table's last transition is in local year last_year, and so is the civil second before it
     (the hypotheses of make_future_lemma) *)
  fy (tr_cs l) = z_last_year z -> fy (tr_pcs l) <= z_last_year z ->
  (* the table's tail is periodic where BreakTime and MakeTime re-date differently: from 400
     years before the last transition to the end of that civil year the offset is the final one *)
  (forall t', tr_time l - P400 <= t' < tr_time l ->
     fy (civil_of_seconds (t' + zoff (abs_zone z) t')) <= z_last_year z - 400 ->
     zoff (abs_zone z) t' = zoff (abs_zone z) (tr_time l)) ->
  int64 t -> tr_time l <= t ->
  break_time z h t = OK (al, h') ->
  exists cl h'', make_time z h2 (al_cs al) = OK (cl, h'') /\
    ((cl_kind cl = UNIQUE /\ cl_pre cl = t) \/
     (cl_kind cl = REPEATED /\ (cl_pre cl = t \/ cl_post cl = t))).
Proof. exact c03_roundtrip_future_lemma. Qed.
Print Assumptions c03_roundtrip_future.

Theorem c03_every_accepted_file : forall bs z h h2 t al h',
  load_bytes bs = OK (Some z) ->
  gaps_wide (zz_doff (abs_zone z)) (zz_tr (abs_zone z)) = true ->
  int64 t ->
  (z_extended z = false \/ (forall l, last_opt (z_trans z) = Some l -> t < tr_time l)) ->
  break_time z h t = OK (al, h') ->
  exists cl h'', make_time z h2 (al_cs al) = OK (cl, h'') /\
    ((cl_kind cl = UNIQUE /\ cl_pre cl = t) \/
     (cl_kind cl = REPEATED /\ (cl_pre cl = t \/ cl_post cl = t))).
Proof. exact accepted_c03_roundtrip_lemma. Qed.
Print Assumptions c03_every_accepted_file.


From CCTZ Require Import ZoneSpec WholeDomain C01Whole.
From CCTZ Require C02Whole.
(* END TO END against the TZif specification, every int64 instant (inside and beyond the table; the periodic-tail
   hypothesis of c03_roundtrip_future is discharged): BreakTime reports what the file designates for t, and MakeTime
   on that civil second is UNIQUE with pre = t, or REPEATED with t = pre or t = post - never SKIPPED.  The converse
   clause (every instant returned for a UNIQUE / REPEATED civil second displays it) is part of c02_whole. *)
Theorem c03_whole : forall bs h a,
  parse_ast bs = Some (h, a) -> wf_ast h a = true -> c01_domain h a = true ->
  footer_below_day a = true -> table_gaps_ok a = true ->
  exists z, load_bytes bs = OK (Some z) /\
    forall hint hint2 t, int64 t ->
      exists al h' cl h'',
        break_time z hint t = OK (al, h') /\
        spec_lookup (szone_of a) t = Some (mkSL (al_cs al) (al_off al) (al_dst al) (al_abbr al)) /\
        make_time z hint2 (al_cs al) = OK (cl, h'') /\
        ((cl_kind cl = UNIQUE /\ cl_pre cl = t) \/
         (cl_kind cl = REPEATED /\ (cl_pre cl = t \/ cl_post cl = t))).
Proof. exact C02Whole.c03_whole_ast. Qed.
Print Assumptions c03_whole.
