(* FmtRoundTripNames.v — C07, stage 5: the general format -> parse round trip for formats that ALSO
   contain the locale-name specifiers %a %A %b %B %h ("dates expressed through ... locale names"),
   which format() hands to strftime and parse() hands to strptime.  Everything the C library is
   assumed to do is a visible premise of the theorem:
     - strftime_hom / strftime_hom_tail (the premises of FormatSpecFull.format_spec_full, C08):
       strftime renders a run of complete items item by item;
     - FmtRTScanN.oracle_names: for these five specifiers the name is a non-empty run of at most 31
       ASCII letters; strptime(name ++ K, "%c", &tm0) with K not starting with a letter consumes
       exactly the name and returns a tm that keeps sec/min/hour/mday/year; a month name sets
       tm_mon (tm_wday/tm_yday are NOT assumed kept: glibc recomputes them); a weekday name sets
       tm_wday and keeps tm_mon.
   The side condition [last_writer_ok_names] is FmtRoundTrip.last_writer_ok plus two clauses that
   only concern name tokens: (a) the token after a name must not render a leading letter
   (strptime matches names greedily: "%bch" renders "March" and %b then consumes all of it);
   (b) when a week number decides the date, the last token among {%u %w %a %A, month names} must
   set the weekday (a month name after it clobbers tm_wday in glibc).
   FmtRTScanN.v is FmtRTScan.v generalised by the switch [names_on]; this file instantiates it
   with names_on = true.  FmtRoundTrip.v (library-only formats, no premise about the C library)
   is untouched and remains the main unconditional result. *)
From CCTZ Require Import Base SrcConstants Cal CivilImpl PosixImpl FixedImpl ZoneLoad ZoneImpl
  FormatImpl ParseImpl FinishDefs FmtSpec.
From CCTZ Require Import CalProofs CivilNorm ParseProofs FmtProofs FinishProofs FinishZone FmtRTParse.
From CCTZ Require FormatSpecFull FmtRoundTrip.
From CCTZ Require Import FmtRTScanN.
From Coq Require Import Lia ZifyBool.
Local Open Scope Z_scope.
Local Ltac Zify.zify_post_hook ::= Z.to_euclidean_division_equations.
Local Strategy 200 [lex_fuel fmt_loop].

Definition is_LE4Y (k : libspec) : bool := match k with LE4Y => true | _ => false end.
Definition has_percent_s (fmt : list Z) : bool := existsb (libp is_Ls) (lex fmt).

(* FmtRoundTrip.last_writer_ok with the two clauses about name tokens *)
Definition last_writer_ok_names (fmt : list Z) (off year : Z) : bool :=
  let l := lex fmt in
  e0f_ok l && names_sep l
  && (negb (existsb (libp is_LE4Y) l) || ((-999 <=? year) && (year <=? 9999)))
  && (existsb (libp is_Ls) l
      || (match last_tok (libp writes_subsec) l with Some t => libp full_subsec t | None => true end
          && match last_tok (libp is_offset) l with
             | Some t => libp full_offset t || (off mod 60 =? 0) | None => true end
          && match last_tok (libp date_writer) l with
             | Some (FLib LU) | Some (FLib LW) =>
                 match last_tok (wd_writer true) l with Some t => wd_setter true t | None => false end
             | _ => true end)).

(* ================================================================== *)
(* List facts                                                          *)

Lemma has_mono l (p q : libspec -> bool) : (forall k, p k = true -> q k = true) ->
  has l p = true -> existsb (libp q) l = true.
Proof.
  intros H. unfold has. rewrite !existsb_exists. intros (t & Hin & Ht). exists t. split; [exact Hin|].
  destruct t; try discriminate. cbn in *. auto.
Qed.

Lemma last_tok_some wr l : existsb wr l = true -> exists t, last_tok wr l = Some t.
Proof.
  induction l as [|t l IH]; [discriminate|]. unfold last_tok in *. rewrite lastw_cons. cbn [existsb].
  intros H. destruct (lastw _ l) as [t'|]; [eauto|].
  destruct (wr t) eqn:E; [eauto|]. cbn [orb] in H. destruct (IH H) as (x & Hx). discriminate.
Qed.

Lemma last_tok_in wr l t : last_tok wr l = Some t -> In t l /\ wr t = true.
Proof.
  induction l as [|a l IH]; [discriminate|]. unfold last_tok in *. rewrite lastw_cons.
  destruct (lastw _ l) as [t'|].
  - intros [= <-]. destruct (IH eq_refl). split; [right|]; assumption.
  - destruct (wr a) eqn:E; [|discriminate]. intros [= <-]. split; [left; reflexivity|exact E].
Qed.

Lemma last_tok_none wr l : last_tok wr l = None -> existsb wr l = false.
Proof.
  intros H. destruct (existsb wr l) eqn:E; [|reflexivity].
  destruct (last_tok_some wr l E) as (t & Ht). congruence.
Qed.

Lemma in_existsb {A} (p : A -> bool) l x : In x l -> p x = true -> existsb p l = true.
Proof. intros. apply existsb_exists. eauto. Qed.

Lemma wkp_none s : wkp s = None -> ps_week_num s = -1.
Proof. unfold wkp. destruct (Z.eqb_spec (ps_week_num s) (-1)); [auto|discriminate]. Qed.
Lemma wkp_some s a b : wkp s = Some (a, b) -> ps_week_num s = a /\ ps_week_start s = b.
Proof. unfold wkp. destruct (ps_week_num s =? -1); [discriminate|]. intros [= <- <-]. auto. Qed.

Lemma existsb_mono {A} (p q : A -> bool) l : (forall x, p x = true -> q x = true) ->
  existsb p l = true -> existsb q l = true.
Proof. intros H. rewrite !existsb_exists. intros (x & Hin & Hx). eauto. Qed.

(* FmtSpec's month-name test is FmtRTScanN's *)
Lemma month_tok_spec t : month_tok t = is_month_name t.
Proof.
  destruct t as [c| |k|raw|raw]; try reflexivity.
  unfold month_tok, name_char, is_month_name.
  destruct raw as [|a [|c [|x r]]]; [reflexivity| | |].
  - zwalk a.
  - destruct (Z.eqb_spec a 37) as [->|N].
    + cbn [andb]. change ((c =? 98) || (c =? 66) || (c =? 104)) with (month_c c).
      destruct (name_spec c) eqn:E; [reflexivity|].
      unfold name_spec, month_c in *. lia.
    + cbn [andb]. zwalk a.
  - zwalk a.
Qed.

Local Ltac hm := let k := fresh "k" in let E := fresh "E" in
  intros k; destruct k; cbn; intros E; try discriminate E; try reflexivity; try lia.

Section Names.
Variable so : list Z -> tmrec -> list Z.
Variable sp : list Z -> list Z -> tmrec -> option (list Z * tmrec).
Variable strp_tm : Z -> tmrec -> tmrec.

Lemma toks_ok_names (tm : tmrec) fmt cs off fs :
  -86400 < off < 86400 -> 0 <= fs < 10 ^ 15 ->
  clean_fmt fmt = true ->
  forallb (fun t => match t with FOther raw => locale_name_spec raw | FLib LZ => false | _ => true end)
          (lex fmt) = true ->
  negb (existsb (libp is_LE4Y) (lex fmt)) || ((-999 <=? fy cs) && (fy cs <=? 9999)) = true ->
  forallb (tok_ok cs true) (lex fmt) = true /\ forallb nzb fmt = true.
Proof.
  intros Ho Hfs Hclean Hrestr HE4.
  unfold clean_fmt in Hclean. apply andb_true_iff in Hclean. destruct Hclean as [Hnz Hq].
  pose proof (lex_lits_nz cs off fs Ho Hfs true (S (length fmt)) fmt (S (length fmt))
                ltac:(lia) ltac:(lia) Hnz) as Hlit.
  change (lex_fuel (S (length fmt)) fmt) with (lex fmt) in Hlit.
  set (l := lex fmt) in *. clearbody l.
  assert (Hnq : forallb FormatSpecFull.nq l = true).
  { rewrite forallb_forall in *. intros t Ht. specialize (Hq t Ht). destruct t; try reflexivity. discriminate Hq. }
  specialize (Hlit Hnq).
  split; [|exact Hnz].
  rewrite forallb_forall in *. intros t Ht.
  specialize (Hq t Ht). specialize (Hlit t Ht). specialize (Hrestr t Ht).
  destruct t as [c| |k|raw|raw]; try discriminate Hq; try reflexivity.
  - exact Hlit.
  - cbn [tok_ok]. destruct k; try discriminate Hrestr; try reflexivity.
    cbn [lib_ok]. apply orb_true_iff in HE4. destruct HE4 as [H|H]; [|exact H].
    apply negb_true_iff in H. rewrite (in_existsb (libp is_LE4Y) _ _ Ht eq_refl) in H. discriminate H.
  - cbn [tok_ok andb]. exact Hrestr.
Qed.

Theorem lossless_roundtrip_names : forall utc tz fmt al fs t,
  reset_to_builtin_utc 0 = OK utc ->
  (* what is assumed of strftime (C08's premises) and of strptime on the five name specifiers *)
  (forall ts tm, forallb FormatSpecFull.run_ok ts = true ->
     so (flat_map FormatSpecFull.tok_raw ts) tm = flat_map (FormatSpecFull.run_render so tm) ts) ->
  (forall ts tl tm, forallb FormatSpecFull.run_ok ts = true -> FormatSpecFull.dangling tl = true ->
     so (flat_map FormatSpecFull.tok_raw ts ++ tl) tm
     = flat_map (FormatSpecFull.run_render so tm) ts ++ so tl tm) ->
  oracle_names sp so (spec_tm (al_cs al) (al_dst al)) strp_tm ->
  (* the format *)
  lossless_fmt fmt (al_off al) (fy (al_cs al)) = true ->
  last_writer_ok_names fmt (al_off al) (fy (al_cs al)) = true ->
  (* the instant *)
  valid_fields (al_cs al) = true -> int64 (fy (al_cs al)) -> -86400 < al_off al < 86400 ->
  0 <= fs < 10 ^ 15 -> int64 t ->
  sec_of (al_cs al) = t + al_off al ->
  exists txt, format_impl so fmt al fs t = OK txt /\
              parse_impl sp tz utc fmt txt = OK (Some (t, if has_percent_s fmt then 0 else fs)).
Proof.
  intros utc tz fmt al fs t Hutc Hhom Htail Horacle HL HW V Iy Ho Hfs It Hsec.
  set (cs := al_cs al) in *. set (off := al_off al) in *. set (abbr := al_abbr al).
  set (tm := spec_tm cs (al_dst al)) in *.
  pose proof (FmtRoundTrip.finish_md tz utc cs off fs t Hutc V Iy Ho It Hsec) as FMD.
  pose proof (FmtRoundTrip.finish_week tz utc cs off fs t Hutc V Iy Ho It Hsec) as FWK.
  clear Hutc Hsec.
  assert (Hon : true = true -> names_hyp sp so tm cs strp_tm).
  { intros _. split; [unfold tm, spec_tm; cbn [tm_mon]; reflexivity|].
    split; [reflexivity|exact Horacle]. }
  unfold lossless_fmt in HL. cbv zeta in HL.
  apply andb_true_iff in HL. destruct HL as [HL Hbody].
  apply andb_true_iff in HL. destruct HL as [HL Hrestr].
  apply andb_true_iff in HL. destruct HL as [Hclean Hsep].
  unfold last_writer_ok_names in HW. cbv zeta in HW.
  apply andb_true_iff in HW. destruct HW as [HW Hlw].
  apply andb_true_iff in HW. destruct HW as [HW HE4].
  apply andb_true_iff in HW. destruct HW as [He0 Hns].
  destruct (toks_ok_names tm fmt cs off fs Ho Hfs Hclean Hrestr HE4) as (Hok & Hnz).
  (* format: FormatSpecFull.format_spec_full *)
  assert (Ho' : -93599 <= off <= 93599) by lia.
  assert (Hfit : FormatSpecFull.strftime_fits so fmt tm = true).
  { unfold FormatSpecFull.strftime_fits. rewrite forallb_forall in *. intros x Hx.
    specialize (Hrestr x Hx). destruct x as [c| |k|raw|raw]; try reflexivity.
    destruct (lns_inv cs true raw Hrestr) as (c & -> & Hc).
    destruct Horacle as (H1 & _). destruct (H1 c Hc) as (_ & _ & L).
    cbn [FormatSpecFull.other_fits length]. fold tm. lia. }
  pose proof (FormatSpecFull.format_spec_full so Hhom Htail fmt al fs t Hclean (conj V (conj Iy Ho')) Hfs It Hfit) as HF.
  set (l := lex fmt) in *.
  change (render_spec so fmt (al_cs al) (al_off al) (al_abbr al) fs t (spec_tm (al_cs al) (al_dst al)))
    with (render so tm cs off abbr fs t l) in HF.
  exists (render so tm cs off abbr fs t l). split; [exact HF|].
  (* parse: the scanning loop *)
  pose proof (render_nz sp so tm cs off abbr fs t V Iy Ho Hfs It true strp_tm Hon l Hok) as Hrnz.
  unfold parse_impl. rewrite (c_str_id _ Hrnz), (c_str_id fmt Hnz).
  rewrite (scan_lex sp so tm cs off abbr fs t V Iy Ho Hfs It true strp_tm Hon (S (length fmt)) fmt (S (length fmt)) ps0
             (skip_space (render so tm cs off abbr fs t l)) ltac:(lia) ltac:(lia) Hok Hsep He0 Hns (or_intror eq_refl)).
  cbn [bind]. change (lex_fuel (S (length fmt)) fmt) with l.
  unfold has_percent_s. fold l.
  clear HF Hrnz Hfit Hhom Htail. clearbody l.
  set (S := fold_left (upd cs off fs t true strp_tm) l ps0).
  destruct (existsb (libp is_Ls) l) eqn:Es.
  { assert (E1 : ps_saw_s S = true) by (unfold S; rewrite (fin_saw_s sp so tm cs off fs t Ho Hfs true strp_tm Hon), Es; reflexivity).
    assert (E2 : ps_percent_s S = t) by (unfold S; rewrite (fin_percent_s sp so tm cs off fs t Ho Hfs true strp_tm Hon), Es; reflexivity).
    unfold parse_finish. cbn [skip_space]. rewrite E1, E2. reflexivity. }
  cbn [orb] in Hlw.
  apply andb_true_iff in Hlw. destruct Hlw as [Hlw Hlw_date].
  apply andb_true_iff in Hlw. destruct Hlw as [Hlw_sub Hlw_off].
  change (has l (fun k => match k with Ls => true | _ => false end)) with (existsb (libp is_Ls) l) in Hbody.
  rewrite Es in Hbody. cbn [orb] in Hbody.
  apply andb_true_iff in Hbody. destruct Hbody as [Hbody Hoffs].
  apply andb_true_iff in Hbody. destruct Hbody as [Hbody Hsecs].
  apply andb_true_iff in Hbody. destruct Hbody as [Hbody HM].
  apply andb_true_iff in Hbody. destruct Hbody as [Hbody HH].
  apply andb_true_iff in Hbody. destruct Hbody as [Hyear Hdate].
  assert (Xyear : existsb (libp is_year) l = true).
  { apply orb_true_iff in Hyear. destruct Hyear as [H|H].
    - apply (has_mono l _ is_year) in H; [exact H|hm].
    - apply andb_true_iff in H. destruct H as [H _]. apply andb_true_iff in H. destruct H as [H _].
      apply (has_mono l _ is_year) in H; [exact H|hm]. }
  assert (XH : existsb (libp is_LH) l = true) by (apply (has_mono l _ is_LH) in HH; [exact HH|hm]).
  assert (XM : existsb (libp is_LM) l = true) by (apply (has_mono l _ is_LM) in HM; [exact HM|hm]).
  assert (Xsec : existsb (libp sets_sec) l = true /\ existsb (libp writes_subsec) l = true).
  { apply orb_true_iff in Hsecs. destruct Hsecs as [H|H].
    - split; [apply (has_mono l _ sets_sec) in H|apply (has_mono l _ writes_subsec) in H]; try exact H; hm.
    - apply andb_true_iff in H. destruct H as [H1 H2].
      split; [apply (has_mono l _ sets_sec) in H1|apply (has_mono l _ writes_subsec) in H2]; try assumption; hm. }
  destruct Xsec as [Xsec Xsub].
  assert (Xoff : existsb (libp is_offset) l = true).
  { apply orb_true_iff in Hoffs. destruct Hoffs as [H|H].
    - apply (has_mono l _ is_offset) in H; [exact H|hm].
    - apply andb_true_iff in H. destruct H as [H _]. apply (has_mono l _ is_offset) in H; [exact H|hm]. }
  assert (Esec : tm_sec (ps_tm S) = fss cs) by (unfold S; rewrite (fin_sec sp so tm cs off fs t Ho Hfs true strp_tm Hon), Xsec; reflexivity).
  assert (Emin : tm_min (ps_tm S) = fmm cs) by (unfold S; rewrite (fin_min sp so tm cs off fs t Ho Hfs true strp_tm Hon), XM; reflexivity).
  assert (Ehour : tm_hour (ps_tm S) = fhh cs) by (unfold S; rewrite (fin_hour sp so tm cs off fs t Ho Hfs true strp_tm Hon), XH; reflexivity).
  assert (Etmy : tm_year (ps_tm S) = 70) by (unfold S; rewrite (fin_tmyear sp so tm cs off fs t Ho Hfs true strp_tm Hon); reflexivity).
  assert (E12 : ps_twelve S = false) by (unfold S; rewrite (fin_twelve sp so tm cs off fs t Ho Hfs true strp_tm Hon), XH; reflexivity).
  assert (Eaft : ps_afternoon S = false) by (unfold S; rewrite (fin_afternoon sp so tm cs off fs t Ho Hfs true strp_tm Hon); reflexivity).
  assert (Esy : ps_saw_year S = true) by (unfold S; rewrite (fin_saw_year sp so tm cs off fs t Ho Hfs true strp_tm Hon), Xyear; reflexivity).
  assert (Ey : ps_year S = fy cs) by (unfold S; rewrite (fin_year sp so tm cs off fs t Ho Hfs true strp_tm Hon), Xyear; reflexivity).
  assert (Eso : ps_saw_offset S = true) by (unfold S; rewrite (fin_saw_offset sp so tm cs off fs t Ho Hfs true strp_tm Hon), Xoff; reflexivity).
  assert (Ess : ps_saw_s S = false) by (unfold S; rewrite (fin_saw_s sp so tm cs off fs t Ho Hfs true strp_tm Hon), Es; reflexivity).
  assert (Eoff : ps_offset S = off).
  { unfold S. apply (fin_offset sp so tm cs off fs t Ho Hfs true strp_tm Hon).
    destruct (last_tok_some _ _ Xoff) as (x & Hx). rewrite Hx in *. exact Hlw_off. }
  assert (Esub : ps_subsec S = fs).
  { unfold S. apply (fin_subsec sp so tm cs off fs t Ho Hfs true strp_tm Hon); [reflexivity|].
    destruct (last_tok_some _ _ Xsub) as (x & Hx). rewrite Hx in *. exact Hlw_sub. }
  (* the date: who wrote it last *)
  destruct (last_tok (libp date_writer) l) as [x|] eqn:Elast.
  2:{ exfalso. apply last_tok_none in Elast.
      apply orb_true_iff in Hdate. destruct Hdate as [H|H].
      - apply andb_true_iff in H. destruct H as [_ H].
        apply (has_mono l _ date_writer) in H; [rewrite Elast in H; discriminate H|hm].
      - rewrite !andb_true_iff in H. destruct H as (((H & _) & _) & _).
        apply (has_mono l _ date_writer) in H; [rewrite Elast in H; discriminate H|hm]. }
  destruct (last_tok_in _ _ _ Elast) as [Hin Hwr].
  destruct x as [c| |k|raw|raw]; try discriminate Hwr.
  assert (Hcases : (k = LU \/ k = LW) \/ (k = Lm \/ k = Ld \/ k = Le)).
  { destruct k; try discriminate Hwr; auto. }
  destruct Hcases as [Hk|Hk].
  - (* a week number decides: FromWeek *)
    assert (Ewd : tm_wday (ps_tm S) = wday_sun0 cs).
    { unfold S. apply (fin_wday sp so tm cs off fs t Ho Hfs true strp_tm Hon).
      destruct Hk as [->| ->]; exact Hlw_date. }
    assert (Ewk : (ps_week_num S = week_U cs /\ ps_week_start S = 6) \/
                  (ps_week_num S = week_W cs /\ ps_week_start S = 0)).
    { destruct Hk as [->| ->]; [left|right]; apply wkp_some; unfold S.
      - apply (fin_week_U sp so tm cs off fs t V Iy Ho Hfs true strp_tm Hon). rewrite Elast. reflexivity.
      - apply (fin_week_W sp so tm cs off fs t V Iy Ho Hfs true strp_tm Hon). rewrite Elast. reflexivity. }
    clearbody S. destruct S as [yr sy tmS sub sof of_ tw af wn ws ss pcs].
    destruct tmS as [sec mi hr md mo ty wd yd dst].
    cbn [ps_tm ps_year ps_saw_year ps_subsec ps_saw_offset ps_offset ps_twelve ps_afternoon ps_week_num
         ps_week_start ps_saw_s tm_sec tm_min tm_hour tm_year tm_wday] in *.
    subst sec mi hr ty wd yr sy sub sof of_ tw af ss.
    apply FWK. exact Ewk.
  - (* month (number or name) and day *)
    assert (Xmd : existsb (sets_mon true) l = true /\ existsb (libp is_Ld) l = true).
    { apply orb_true_iff in Hdate. destruct Hdate as [H|H].
      - apply andb_true_iff in H. destruct H as [H1 H2].
        split; [|apply (has_mono l _ is_Ld) in H2; [exact H2|hm]].
        apply orb_true_iff in H1. destruct H1 as [H1|H1].
        + apply (has_mono l _ is_Lm) in H1; [|hm].
          revert H1. apply existsb_mono. intros x Hx. unfold sets_mon. rewrite Hx. reflexivity.
        + revert H1. apply existsb_mono. intros x Hx. unfold sets_mon.
          rewrite <- month_tok_spec in Hx. destruct x; try discriminate Hx.
          cbn [libp on_month orb andb]. exact Hx.
      - exfalso. rewrite !andb_true_iff in H. destruct H as ((_ & H) & _). apply negb_true_iff in H.
        assert (X : has l (fun k => match k with Lm | Ld | Le => true | _ => false end) = true).
        { unfold has. apply (in_existsb _ _ _ Hin). destruct Hk as [->|[->| ->]]; reflexivity. }
        rewrite X in H. discriminate H. }
    destruct Xmd as [Xm Xd].
    assert (Emon : tm_mon (ps_tm S) = fm cs - 1) by (unfold S; rewrite (fin_mon sp so tm cs off fs t Ho Hfs true strp_tm Hon), Xm; reflexivity).
    assert (Emday : tm_mday (ps_tm S) = fd cs) by (unfold S; rewrite (fin_mday sp so tm cs off fs t Ho Hfs true strp_tm Hon), Xd; reflexivity).
    assert (Ewn : ps_week_num S = -1).
    { apply wkp_none. unfold S. apply (fin_week_md sp so tm cs off fs t Ho Hfs true strp_tm Hon).
      rewrite Elast. destruct Hk as [->|[->| ->]]; reflexivity. }
    clearbody S. destruct S as [yr sy tmS sub sof of_ tw af wn ws ss pcs].
    destruct tmS as [sec mi hr md mo ty wd yd dst].
    cbn [ps_tm ps_year ps_saw_year ps_subsec ps_saw_offset ps_offset ps_twelve ps_afternoon ps_week_num
         ps_week_start ps_saw_s tm_sec tm_min tm_hour tm_year tm_wday tm_mon tm_mday] in *.
    subst sec mi hr ty md mo yr sy sub sof of_ tw af ss wn.
    apply FMD.
Qed.
End Names.
Print Assumptions lossless_roundtrip_names.

(* ================================================================== *)
(* Illustrations with a computable stand-in for the C library           *)
(* (C-locale names; strptime tries full names first, as glibc does, and *)
(* a month name resets tm_wday, standing for glibc's recomputation).    *)
(* They are evaluations of the MODEL under that oracle, not uses of the *)
(* theorem; the same four formats were run against the real cctz +      *)
(* glibc with the same outcomes.                                        *)

Definition demo_months : list (list Z * list Z) :=  (* (full, abbreviated) *)
  [([74;97;110;117;97;114;121], [74;97;110]); ([70;101;98;114;117;97;114;121], [70;101;98]);
   ([77;97;114;99;104], [77;97;114]); ([65;112;114;105;108], [65;112;114]); ([77;97;121], [77;97;121]);
   ([74;117;110;101], [74;117;110]); ([74;117;108;121], [74;117;108]); ([65;117;103;117;115;116], [65;117;103]);
   ([83;101;112;116;101;109;98;101;114], [83;101;112]); ([79;99;116;111;98;101;114], [79;99;116]);
   ([78;111;118;101;109;98;101;114], [78;111;118]); ([68;101;99;101;109;98;101;114], [68;101;99])].
Definition demo_wdays : list (list Z * list Z) :=
  [([83;117;110;100;97;121], [83;117;110]); ([77;111;110;100;97;121], [77;111;110]);
   ([84;117;101;115;100;97;121], [84;117;101]); ([87;101;100;110;101;115;100;97;121], [87;101;100]);
   ([84;104;117;114;115;100;97;121], [84;104;117]); ([70;114;105;100;97;121], [70;114;105]);
   ([83;97;116;117;114;100;97;121], [83;97;116])].
Definition demo_name (c : Z) (tm : tmrec) : list Z :=
  let m := nth (Z.to_nat (tm_mon tm)) demo_months ([63], [63]) in
  let w := nth (Z.to_nat (tm_wday tm)) demo_wdays ([63], [63]) in
  if c =? 66 then fst m else if (c =? 98) || (c =? 104) then snd m
  else if c =? 65 then fst w else if c =? 97 then snd w else [37; c].
Fixpoint demo_so_fuel (n : nat) (s : list Z) (tm : tmrec) : list Z :=
  match n with
  | O => []
  | S n' =>
    match s with
    | 37 :: 37 :: r => 37 :: demo_so_fuel n' r tm
    | 37 :: c :: r => demo_name c tm ++ demo_so_fuel n' r tm
    | x :: r => x :: demo_so_fuel n' r tm
    | [] => []
    end
  end.
Definition demo_so (s : list Z) (tm : tmrec) : list Z := demo_so_fuel (S (length s)) s tm.
Fixpoint strip_prefix (p d : list Z) : option (list Z) :=
  match p, d with
  | [], _ => Some d
  | x :: p', y :: d' => if x =? y then strip_prefix p' d' else None
  | _ :: _, [] => None
  end.
Fixpoint find_name (names : list (list Z)) (i : Z) (d : list Z) : option (Z * list Z) :=
  match names with
  | [] => None
  | nm :: r => match strip_prefix nm d with Some rest => Some (i, rest) | None => find_name r (i + 1) d end
  end.
Definition demo_sp (d spec : list Z) (tm0 : tmrec) : option (list Z * tmrec) :=
  match spec with
  | [37; c] =>
      if (c =? 98) || (c =? 66) || (c =? 104) then
        match find_name (map fst demo_months) 0 d with
        | Some (i, rest) => Some (rest, tm_with (tm_with tm0 4 i) 6 0)
        | None => match find_name (map snd demo_months) 0 d with
                  | Some (i, rest) => Some (rest, tm_with (tm_with tm0 4 i) 6 0)
                  | None => None end
        end
      else if (c =? 97) || (c =? 65) then
        match find_name (map fst demo_wdays) 0 d with
        | Some (i, rest) => Some (rest, tm_with tm0 6 i)
        | None => match find_name (map snd demo_wdays) 0 d with
                  | Some (i, rest) => Some (rest, tm_with tm0 6 i)
                  | None => None end
        end
      else None
  | _ => None
  end.

Definition nm_utc : zone :=
  match reset_to_builtin_utc 0 with OK z => z | Err _ => mkZone [] [] 0 [] [] false 0 end.
Definition nm_al (t off : Z) : alookup := mkAL (civil_of_seconds (t + off)) off false [85; 84; 67].
Definition nm_rt (fmt : list Z) (t off fs : Z) : res (option (Z * Z)) :=
  do txt <- format_impl demo_so fmt (nm_al t off) fs t ;; parse_impl demo_sp nm_utc nm_utc fmt txt.
Definition nm_flags (fmt : list Z) (t off : Z) : bool * bool :=
  let y := fy (al_cs (nm_al t off)) in (lossless_fmt fmt off y, last_writer_ok_names fmt off y).

(* "%A %B %d %Y %H:%M:%E*S %E*z" *)
Definition fmt_nm1 : list Z :=
  [37;65;32;37;66;32;37;100;32;37;89;32;37;72;58;37;77;58;37;69;42;83;32;37;69;42;122].
Example names_roundtrip_demo :
  nm_flags fmt_nm1 1700000000 3601 = (true, true) /\
  nm_rt fmt_nm1 1700000000 3601 123 = OK (Some (1700000000, 123)).
Proof. vm_compute. split; reflexivity. Qed.

(* "%B %d %Y %U %A %H:%M:%E*S %E*z": the week number decides, the weekday name comes last *)
Definition fmt_nm2 : list Z :=
  [37;66;32;37;100;32;37;89;32;37;85;32;37;65;32;37;72;58;37;77;58;37;69;42;83;32;37;69;42;122].
Example names_week_roundtrip_demo :
  nm_flags fmt_nm2 1700000000 3601 = (true, true) /\
  nm_rt fmt_nm2 1700000000 3601 123 = OK (Some (1700000000, 123)).
Proof. vm_compute. split; reflexivity. Qed.

(* (7) "%A %B %d %Y %U %H:%M:%E*S %E*z": the month name after the weekday name clobbers tm_wday
       (real cctz + glibc: 1699827200 instead of 1700000000) *)
Definition fmt_nm_bad1 : list Z :=
  [37;65;32;37;66;32;37;100;32;37;89;32;37;85;32;37;72;58;37;77;58;37;69;42;83;32;37;69;42;122].
Example month_name_after_weekday_refuted :
  nm_flags fmt_nm_bad1 1700000000 3601 = (true, false) /\
  nm_rt fmt_nm_bad1 1700000000 3601 123 = OK (Some (1699827200, 123)).
Proof. vm_compute. split; reflexivity. Qed.

(* (8) "%Y %bch %d %H:%M:%E*S %E*z" in March: "Mar" ++ "ch" reads back as the full name
       (real cctz + glibc: parse fails) *)
Definition fmt_nm_bad2 : list Z :=
  [37;89;32;37;98;99;104;32;37;100;32;37;72;58;37;77;58;37;69;42;83;32;37;69;42;122].
Example letter_after_name_refuted :
  nm_flags fmt_nm_bad2 1678000000 3601 = (true, false) /\
  nm_rt fmt_nm_bad2 1678000000 3601 123 = OK None.
Proof. vm_compute. split; reflexivity. Qed.
