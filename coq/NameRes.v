(* NameRes.v — C19: how zone names are resolved (FileZoneInfoSource::Open,
   time_zone_info.cc:425-453; local_time_zone, time_zone_lookup.cc:193-331;
   TimeZoneIf::Make, time_zone_if.cc; LoadTimeZone's failure path).  The file
   system is a Section variable: [fs path] = Some bytes when fopen(path)
   succeeds (bytes = what fread delivers), None when it fails. *)
From CCTZ Require Import Base FixedImpl PosixImpl ZoneLoad.
Local Open Scope Z_scope.

Record env := mkEnv { e_tzdir : option (list Z); e_tz : option (list Z); e_localtime : option (list Z) }.

Definition str_file : list Z := [102; 105; 108; 101; 58].          (* "file:" *)
Definition str_libc : list Z := [108; 105; 98; 99; 58].            (* "libc:" *)
Definition default_tzdir : list Z :=                               (* "/usr/share/zoneinfo" *)
  [47;117;115;114;47;115;104;97;114;101;47;122;111;110;101;105;110;102;111].
Definition str_localtime : list Z := [108;111;99;97;108;116;105;109;101].       (* "localtime" *)
Definition etc_localtime : list Z := [47;101;116;99;47;108;111;99;97;108;116;105;109;101].  (* "/etc/localtime" *)
Definition colon_localtime : list Z := 58 :: str_localtime.

Fixpoint has_prefix (p s : list Z) : bool :=
  match p, s with
  | [], _ => true
  | x :: p', y :: s' => (x =? y) && has_prefix p' s'
  | _ :: _, [] => false
  end.

(* FileZoneInfoSource::Open: the path handed to fopen (as a C string) *)
Definition zone_path (e : env) (name : list Z) : list Z :=
  let pos := if has_prefix str_file name then 5%nat else 0%nat in
  let rest := skipn pos name in
  let path :=
    match rest with
    | 47 :: _ => rest                                             (* absolute: verbatim *)
    | _ =>
        let tzdir := match e_tzdir e with
                     | Some (c :: d) => c :: d                    (* set and non-empty *)
                     | _ => default_tzdir
                     end in
        tzdir ++ [47] ++ rest
    end in
  c_str path.

Inductive zkind := KUtc | KFixed (off : Z) | KLibc | KInfo (z : zone).

Section Resolve.
Variable fs : list Z -> option (list Z).

(* TimeZoneIf::Make(name): what kind of zone is constructed, None = nullptr *)
Definition make_zone (e : env) (name : list Z) : res (option zkind) :=
  if has_prefix str_libc name then OK (Some KLibc)                (* internal, test-only *)
  else
    match FixedOffsetFromName name with
    | Some off => OK (Some (KFixed off))
    | None =>
        match fs (zone_path e name) with
        | None => OK None
        | Some bytes =>
            do r <- load_bytes bytes ;;
            match r with Some z => OK (Some (KInfo z)) | None => OK None end
        end
    end.

(* load_time_zone(name) from an empty cache: (return value, name() of the result, zone) *)
Definition str_UTC' : list Z := [85; 84; 67].
Definition load_time_zone (e : env) (name : list Z) : res (bool * list Z * zkind) :=
  match FixedOffsetFromName name with
  | Some 0 => OK (true, str_UTC', KUtc)
  | _ =>
      do r <- make_zone e name ;;
      match r with
      | Some k => OK (true, name, k)
      | None => OK (false, str_UTC', KUtc)
      end
  end.

(* local_time_zone(): the name it loads *)
Definition local_zone_name (e : env) : list Z :=
  let zone0 := match e_tz e with Some v => v | None => colon_localtime end in
  let zone1 := match zone0 with 58 :: r => r | _ => zone0 end in
  if list_eqb zone1 str_localtime then
    match e_localtime e with Some v => v | None => etc_localtime end
  else zone1.

Definition local_time_zone (e : env) : res (bool * list Z * zkind) := load_time_zone e (local_zone_name e).

End Resolve.

(* ------------------------------------------------------------------ *)
(* the documented rules, as theorems over all names, environments and file systems *)

Lemma utc_names_internal : forall fs e, load_time_zone fs e str_UTC' = OK (true, str_UTC', KUtc)
  /\ load_time_zone fs e [85; 84; 67; 48] = OK (true, str_UTC', KUtc).
Proof. intros. split; reflexivity. Qed.

Lemma fixed_names_internal : forall fs e name off, FixedOffsetFromName name = Some off -> off <> 0 ->
  has_prefix str_libc name = false ->
  load_time_zone fs e name = OK (true, name, KFixed off).
Proof.
  intros fs e name off H Hn Hl. unfold load_time_zone, make_zone. rewrite H, Hl.
  destruct off; try congruence; reflexivity.
Qed.

Lemma absolute_verbatim : forall e rest, zone_path e (47 :: rest) = c_str (47 :: rest).
Proof. intros. unfold zone_path. cbn [has_prefix str_file]. reflexivity. Qed.

Lemma relative_under_tzdir : forall e c d name,
  e_tzdir e = Some (c :: d) -> has_prefix str_file name = false ->
  (match name with 47 :: _ => False | _ => True end) ->
  zone_path e name = c_str ((c :: d) ++ [47] ++ name).
Proof.
  intros e c d name Ht Hf Hn. unfold zone_path. rewrite Hf, Ht. cbn [skipn].
  destruct name as [|x r]; [reflexivity|].
  destruct (Z.eq_dec x 47) as [->|Hx]; [contradiction|].
  destruct x; try reflexivity. repeat (destruct p; try reflexivity). contradiction Hx. reflexivity.
Qed.

Lemma tzdir_unset_or_empty_is_default : forall e name,
  (e_tzdir e = None \/ e_tzdir e = Some []) -> has_prefix str_file name = false ->
  (match name with 47 :: _ => False | _ => True end) ->
  zone_path e name = c_str (default_tzdir ++ [47] ++ name).
Proof.
  intros e name Ht Hf Hn. unfold zone_path. rewrite Hf. cbn [skipn].
  assert (Hd : match e_tzdir e with Some (c :: d) => c :: d | _ => default_tzdir end = default_tzdir)
    by (destruct Ht as [-> | ->]; reflexivity).
  rewrite Hd.
  destruct name as [|x r]; [reflexivity|].
  destruct (Z.eq_dec x 47) as [->|Hx]; [contradiction|].
  destruct x; try reflexivity. repeat (destruct p; try reflexivity). contradiction Hx. reflexivity.
Qed.

Lemma file_prefix_stripped : forall e rest,
  zone_path e (str_file ++ rest) = zone_path (mkEnv (e_tzdir e) None None) rest
  \/ has_prefix str_file rest = true.
Proof.
  intros e rest. destruct (has_prefix str_file rest) eqn:E; [right; reflexivity|left].
  unfold zone_path. cbn [e_tzdir]. rewrite E.
  replace (has_prefix str_file (str_file ++ rest)) with true by reflexivity.
  reflexivity.
Qed.

Lemma unresolvable_is_utc_false : forall fs e name,
  FixedOffsetFromName name = None -> has_prefix str_libc name = false ->
  fs (zone_path e name) = None ->
  load_time_zone fs e name = OK (false, str_UTC', KUtc).
Proof. intros fs e name H Hl Hf. unfold load_time_zone, make_zone. rewrite H, Hl, Hf. reflexivity. Qed.

Lemma rejected_data_is_utc_false : forall fs e name bytes,
  FixedOffsetFromName name = None -> has_prefix str_libc name = false ->
  fs (zone_path e name) = Some bytes -> load_bytes bytes = OK None ->
  load_time_zone fs e name = OK (false, str_UTC', KUtc).
Proof. intros fs e name bytes H Hl Hf Hb. unfold load_time_zone, make_zone. rewrite H, Hl, Hf, Hb. reflexivity. Qed.

Lemma loaded_reports_requested_name : forall fs e name bytes z,
  FixedOffsetFromName name = None -> has_prefix str_libc name = false ->
  fs (zone_path e name) = Some bytes -> load_bytes bytes = OK (Some z) ->
  load_time_zone fs e name = OK (true, name, KInfo z).
Proof. intros fs e name bytes z H Hl Hf Hb. unfold load_time_zone, make_zone. rewrite H, Hl, Hf, Hb. reflexivity. Qed.

Lemma local_follows_tz : forall e v, e_tz e = Some v ->
  (match v with 58 :: _ => False | _ => True end) -> list_eqb v str_localtime = false ->
  local_zone_name e = v.
Proof.
  intros e v Ht Hc Hl. unfold local_zone_name. rewrite Ht.
  destruct v as [|x r]; [reflexivity|].
  destruct (Z.eq_dec x 58) as [->|Hx]; [contradiction|].
  assert (Hm : match x :: r with 58 :: r0 => r0 | _ => x :: r end = x :: r).
  { destruct x; try reflexivity. repeat (destruct p; try reflexivity). contradiction Hx. reflexivity. }
  rewrite Hm, Hl. reflexivity.
Qed.

Lemma local_colon_once : forall e r, e_tz e = Some (58 :: r) -> list_eqb r str_localtime = false ->
  local_zone_name e = r.
Proof. intros e r Ht Hl. unfold local_zone_name. rewrite Ht, Hl. reflexivity. Qed.

Lemma local_localtime_env : forall e,
  (e_tz e = None \/ e_tz e = Some str_localtime \/ e_tz e = Some colon_localtime) ->
  local_zone_name e = match e_localtime e with Some v => v | None => etc_localtime end.
Proof.
  intros e [H | [H | H]]; unfold local_zone_name; rewrite H; reflexivity.
Qed.

Lemma local_fallback_utc : forall fs e,
  FixedOffsetFromName (local_zone_name e) = None -> has_prefix str_libc (local_zone_name e) = false ->
  fs (zone_path e (local_zone_name e)) = None ->
  local_time_zone fs e = OK (false, str_UTC', KUtc).
Proof. intros. unfold local_time_zone. apply unresolvable_is_utc_false; assumption. Qed.
