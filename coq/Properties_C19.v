(* Properties_C19.v — C19: zone names resolve as documented; failures fall back
   to UTC.  The rules, for ALL names, environments and file systems (the file
   system is a universally quantified function path -> option bytes; what the
   kernel does enters only through it and is measured by the check). *)
From CCTZ Require Import Base FixedImpl PosixImpl ZoneLoad NameRes.
Local Open Scope Z_scope.

Theorem c19_utc_names_internal : forall fs e,
  load_time_zone fs e str_UTC' = OK (true, str_UTC', KUtc) /\
  load_time_zone fs e [85; 84; 67; 48] = OK (true, str_UTC', KUtc).
Proof. exact utc_names_internal. Qed.
Print Assumptions c19_utc_names_internal.

Theorem c19_fixed_names_internal : forall fs e name off, FixedOffsetFromName name = Some off -> off <> 0 ->
  has_prefix str_libc name = false -> load_time_zone fs e name = OK (true, name, KFixed off).
Proof. exact fixed_names_internal. Qed.
Print Assumptions c19_fixed_names_internal.

Theorem c19_absolute_verbatim : forall e rest, zone_path e (47 :: rest) = c_str (47 :: rest).
Proof. exact absolute_verbatim. Qed.
Print Assumptions c19_absolute_verbatim.

Theorem c19_relative_under_tzdir : forall e c d name,
  e_tzdir e = Some (c :: d) -> has_prefix str_file name = false ->
  (match name with 47 :: _ => False | _ => True end) ->
  zone_path e name = c_str ((c :: d) ++ [47] ++ name).
Proof. exact relative_under_tzdir. Qed.
Print Assumptions c19_relative_under_tzdir.

Theorem c19_tzdir_default : forall e name,
  (e_tzdir e = None \/ e_tzdir e = Some []) -> has_prefix str_file name = false ->
  (match name with 47 :: _ => False | _ => True end) ->
  zone_path e name = c_str (default_tzdir ++ [47] ++ name).
Proof. exact tzdir_unset_or_empty_is_default. Qed.
Print Assumptions c19_tzdir_default.

Theorem c19_unresolvable_is_utc_false : forall fs e name,
  FixedOffsetFromName name = None -> has_prefix str_libc name = false ->
  fs (zone_path e name) = None -> load_time_zone fs e name = OK (false, str_UTC', KUtc).
Proof. exact unresolvable_is_utc_false. Qed.
Print Assumptions c19_unresolvable_is_utc_false.

Theorem c19_rejected_data_is_utc_false : forall fs e name bytes,
  FixedOffsetFromName name = None -> has_prefix str_libc name = false ->
  fs (zone_path e name) = Some bytes -> load_bytes bytes = OK None ->
  load_time_zone fs e name = OK (false, str_UTC', KUtc).
Proof. exact rejected_data_is_utc_false. Qed.
Print Assumptions c19_rejected_data_is_utc_false.

Theorem c19_loaded_reports_requested_name : forall fs e name bytes z,
  FixedOffsetFromName name = None -> has_prefix str_libc name = false ->
  fs (zone_path e name) = Some bytes -> load_bytes bytes = OK (Some z) ->
  load_time_zone fs e name = OK (true, name, KInfo z).
Proof. exact loaded_reports_requested_name. Qed.
Print Assumptions c19_loaded_reports_requested_name.

Theorem c19_local_follows_tz : forall e v, e_tz e = Some v ->
  (match v with 58 :: _ => False | _ => True end) -> list_eqb v str_localtime = false ->
  local_zone_name e = v.
Proof. exact local_follows_tz. Qed.
Print Assumptions c19_local_follows_tz.

Theorem c19_local_colon_once : forall e r, e_tz e = Some (58 :: r) -> list_eqb r str_localtime = false ->
  local_zone_name e = r.
Proof. exact local_colon_once. Qed.
Print Assumptions c19_local_colon_once.

Theorem c19_local_localtime_env : forall e,
  (e_tz e = None \/ e_tz e = Some str_localtime \/ e_tz e = Some colon_localtime) ->
  local_zone_name e = match e_localtime e with Some v => v | None => etc_localtime end.
Proof. exact local_localtime_env. Qed.
Print Assumptions c19_local_localtime_env.

Theorem c19_local_fallback_utc : forall fs e,
  FixedOffsetFromName (local_zone_name e) = None -> has_prefix str_libc (local_zone_name e) = false ->
  fs (zone_path e (local_zone_name e)) = None ->
  local_time_zone fs e = OK (false, str_UTC', KUtc).
Proof. exact local_fallback_utc. Qed.
Print Assumptions c19_local_fallback_utc.

From CCTZ Require Import FixedImpl ZoneLoad SourceLoad SourceNames SourceNamesProofs NameRes.
(* NAME RESOLUTION AS CLANG READS IT NOW (SourceNames.v, regenerated every run from time_zone_info.cc and
   time_zone_lookup.cc; getenv, fopen, the zone_info_source_factory and load_time_zone are oracle parameters):
   FileZoneInfoSource::Open opens exactly zone_path of the model ("file:" prefix, absolute test, $TZDIR with its default,
   also when set but empty), local_time_zone() loads exactly local_zone_name ($TZ, one ':' stripped, "localtime" ->
   $LOCALTIME or /etc/localtime), Load(name) short-circuits fixed-offset names and otherwise decides as load_name does. *)
Theorem src_file_open_tie : forall (getenv fopen : list Z -> option (list Z)) name e,
  e_tzdir e = getenv [84; 90; 68; 73; 82] -> (forall v, e_tzdir e = Some v -> ~ In 0 v) ->
  Z.of_nat (length name) < 2 ^ 64 ->
  sn_FileOpen getenv fopen name = OK (option_map (fun b => (b, [])) (fopen (zone_path e name))).
Proof. exact SourceNamesProofs.sn_FileOpen_tie. Qed.
Print Assumptions src_file_open_tie.
Theorem src_local_time_zone_tie : forall (getenv : list Z -> option (list Z)) (TZ : Type) (d : TZ) (load : list Z -> TZ -> bool * TZ) e,
  e_tz e = getenv [84; 90] -> e_localtime e = getenv [76; 79; 67; 65; 76; 84; 73; 77; 69] ->
  sn_local_time_zone getenv TZ d load = OK (snd (load (local_zone_name e) d)).
Proof. exact SourceNamesProofs.sn_local_time_zone_tie. Qed.
Print Assumptions src_local_time_zone_tie.
Theorem src_load_name_tie : forall (factory : list Z -> option (list Z * list Z)) name ver d0 f0 e0 ly0 fuel,
  (forall bs v, factory name = Some (bs, v) ->
     SourceDecodeProofs.bytes_ok bs /\ Z.of_nat (length bs) < 2 ^ 62 /\ (length bs + 1300 <= fuel)%nat) ->
  match load_name (fun n => option_map fst (factory n)) name with
  | OK (Some z) => exists ver',
      sn_LoadName fuel (mkZone [] [] d0 [] f0 e0 ly0) ver factory name = OK (true, SourceLoadProofs.load_result ly0 z, ver')
  | OK None => exists z' ver', sn_LoadName fuel (mkZone [] [] d0 [] f0 e0 ly0) ver factory name = OK (false, z', ver')
  | Err _ => True
  end.
Proof. exact SourceNamesProofs.sn_LoadName_tie. Qed.
Print Assumptions src_load_name_tie.
