(* ParseProofs.v — proofs about ParseInt / ParseOffset / ParseSubSeconds and the
   scanning loop of parse() (C07 component inverses, C09 soundness/safety). *)
From CCTZ Require Import Base SrcConstants Cal CivilImpl PosixImpl ZoneLoad FormatImpl ParseImpl FmtSpec.
From Coq Require Import Lia ZifyBool.
Local Open Scope Z_scope.

Ltac Zify.zify_post_hook ::= Z.to_euclidean_division_equations.

(* ------------------------------------------------------------------ *)
(* local copies of the definitions of the Properties files             *)

Definition no_digit_head' (k : list Z) : Prop := match k with c :: _ => is_digit c = false | [] => True end.

Definition no_offset_cont' (sep : Z) (k : list Z) : Prop :=
  match k with c :: _ => is_digit c = false /\ (sep = 0 \/ c <> sep) | [] => True end.

Definition signed_value' (cs : list Z) : option Z :=
  match cs with
  | 45 :: ds => if forallb is_digit ds && negb (Nat.eqb (length ds) 0) then Some (- digits_val ds) else None
  | ds => if forallb is_digit ds && negb (Nat.eqb (length ds) 0) then Some (digits_val ds) else None
  end.

Definition fields_in_range' (s : pstate) : Prop :=
  let t := ps_tm s in
  0 <= tm_sec t <= 60 /\ 0 <= tm_min t <= 59 /\ 0 <= tm_hour t <= 23 /\
  1 <= tm_mday t <= 31 /\ 0 <= tm_mon t <= 11 /\ 0 <= tm_wday t <= 6 /\
  -1 <= ps_week_num s <= 53 /\ -86399 <= ps_offset s <= 86399 /\ 0 <= ps_subsec s < 10 ^ 15 /\
  int64 (ps_year s) /\ int64 (ps_percent_s s).

Definition no_strptime' (strptime_o : list Z -> list Z -> tmrec -> option (list Z * tmrec)) : Prop :=
  forall d f t, strptime_o d f t = None.

(* ------------------------------------------------------------------ *)
(* matching a byte against a literal: the compiled match is a tree on the
   binary representation; this tactic walks it *)

Ltac walk_pos :=
  repeat match goal with
  | |- context [match ?p with xI _ => _ | xO _ => _ | xH => _ end] => is_var p; destruct p
  end.
Ltac walk_Z c := destruct c; walk_pos.

(* ------------------------------------------------------------------ *)
(* digits_val                                                          *)

Lemma dv_fold ds : forall a, fold_left (fun a c => a * 10 + (c - 48)) ds a = a * 10 ^ Z.of_nat (length ds) + digits_val ds.
Proof.
  unfold digits_val. induction ds as [|c ds IH]; intros a.
  - cbn. lia.
  - cbn [fold_left length]. rewrite IH. rewrite (IH (0 * 10 + (c - 48))).
    rewrite Nat2Z.inj_succ, Z.pow_succ_r by lia. lia.
Qed.

Lemma dv_nil : digits_val [] = 0.
Proof. reflexivity. Qed.

Lemma dv_cons c ds : digits_val (c :: ds) = (c - 48) * 10 ^ Z.of_nat (length ds) + digits_val ds.
Proof. unfold digits_val at 1. cbn [fold_left]. rewrite dv_fold. lia. Qed.

Lemma dv_app a b : digits_val (a ++ b) = digits_val a * 10 ^ Z.of_nat (length b) + digits_val b.
Proof. unfold digits_val at 1. rewrite fold_left_app. fold (digits_val a). apply dv_fold. Qed.

Lemma dv_snoc a c : digits_val (a ++ [c]) = digits_val a * 10 + (c - 48).
Proof. rewrite dv_app. cbn. lia. Qed.

Lemma is_digit_range c : is_digit c = true <-> 48 <= c <= 57.
Proof. unfold is_digit. lia. Qed.

Lemma dv_nonneg ds : forallb is_digit ds = true -> 0 <= digits_val ds.
Proof.
  induction ds as [|c ds IH]; intros H.
  - cbn. lia.
  - cbn [forallb] in H. apply andb_true_iff in H. destruct H as [Hc Hd].
    rewrite dv_cons. apply is_digit_range in Hc. specialize (IH Hd).
    assert (0 < 10 ^ Z.of_nat (length ds)) by (apply Z.pow_pos_nonneg; lia). nia.
Qed.

(* ------------------------------------------------------------------ *)
(* ParseInt: the digit loop                                            *)

Lemma pil_cons kmin c r width value n :
  parse_int_loop kmin (c :: r) width value n =
  if is_digit c then
    if value <? Z.quot kmin 10 then (value, c :: r, n, true)
    else if value * 10 <? kmin + (c - 48) then (value * 10, c :: r, n, true)
    else if (0 <? width) && (width - 1 =? 0) then (value * 10 - (c - 48), r, S n, false)
    else parse_int_loop kmin r (if 0 <? width then width - 1 else width) (value * 10 - (c - 48)) (S n)
  else (value, c :: r, n, false).
Proof.
  cbn [parse_int_loop]. rewrite strchr_digits.
  destruct (is_digit c) eqn:E.
  - apply is_digit_range in E. replace (10 <=? c - 48) with false by lia. reflexivity.
  - destruct (c =? 0); reflexivity.
Qed.

Lemma pil_sound kmin : kmin < 0 -> forall p width value n value' rest n',
  kmin <= value <= 0 ->
  parse_int_loop kmin p width value n = (value', rest, n', false) ->
  exists ds, p = ds ++ rest /\ forallb is_digit ds = true /\ n' = (n + length ds)%nat /\
    value' = value * 10 ^ Z.of_nat (length ds) - digits_val ds /\ kmin <= value' <= 0 /\
    (0 < width -> Z.of_nat (length ds) <= width).
Proof.
  intros Hk. induction p as [|c r IH]; intros width value n value' rest n' Hv H.
  - cbn in H. inversion H; subst. exists []. cbn. repeat split; try lia.
  - rewrite pil_cons in H. destruct (is_digit c) eqn:Ec.
    + apply is_digit_range in Ec.
      destruct (value <? Z.quot kmin 10) eqn:E1; [discriminate|].
      destruct (value * 10 <? kmin + (c - 48)) eqn:E2; [discriminate|].
      destruct ((0 <? width) && (width - 1 =? 0)) eqn:E3.
      * inversion H; subst. exists [c]. cbn [app forallb length].
        rewrite dv_cons, dv_nil. cbn [length].
        replace (is_digit c) with true by (symmetry; apply is_digit_range; lia).
        repeat split; try lia.
      * apply IH in H; [|lia]. destruct H as (ds & -> & Hd & Hn & Hval & Hr & Hw).
        exists (c :: ds). cbn [app forallb length]. rewrite dv_cons.
        replace (is_digit c) with true by (symmetry; apply is_digit_range; lia).
        rewrite Nat2Z.inj_succ, Z.pow_succ_r by lia.
        repeat split; try lia; auto.
        intros Hw0. destruct (0 <? width) eqn:E4; [|lia].
        assert (0 < width - 1) by lia. specialize (Hw H). lia.
    + inversion H; subst. exists []. cbn. repeat split; try lia.
Qed.

Lemma pil_complete kmin : kmin < 0 -> forall ds k width value n,
  forallb is_digit ds = true -> no_digit_head' k -> width <= 0 -> value <= 0 ->
  kmin <= value * 10 ^ Z.of_nat (length ds) - digits_val ds ->
  parse_int_loop kmin (ds ++ k) width value n =
    (value * 10 ^ Z.of_nat (length ds) - digits_val ds, k, (n + length ds)%nat, false).
Proof.
  intros Hk. induction ds as [|c ds IH]; intros k width value n Hd Hkk Hw Hv Hlo.
  - cbn [app length]. rewrite dv_nil. replace (value * 10 ^ Z.of_nat 0 - 0) with value by (cbn; lia).
    rewrite Nat.add_0_r. destruct k as [|c k]; [reflexivity|].
    rewrite pil_cons. cbn in Hkk. rewrite Hkk. reflexivity.
  - cbn [forallb] in Hd. apply andb_true_iff in Hd. destruct Hd as [Hc Hd].
    cbn [app]. rewrite pil_cons, Hc. apply is_digit_range in Hc.
    cbn [length] in *. rewrite dv_cons in *. rewrite Nat2Z.inj_succ, Z.pow_succ_r in * by lia.
    pose proof (dv_nonneg ds Hd) as Hnn.
    assert (HP : 0 < 10 ^ Z.of_nat (length ds)) by (apply Z.pow_pos_nonneg; lia).
    set (P := 10 ^ Z.of_nat (length ds)) in *. clearbody P.
    assert (Hx : kmin <= value * 10 - (c - 48)) by nia.
    replace (value <? Z.quot kmin 10) with false by lia.
    replace (value * 10 <? kmin + (c - 48)) with false by lia.
    replace ((0 <? width) && (width - 1 =? 0)) with false by lia.
    replace (0 <? width) with false by lia.
    rewrite IH; auto; try lia.
    match goal with |- (?a, _, ?c, _) = (?a', _, ?c', _) => replace a with a' by lia; replace c with c' by lia; reflexivity end.
Qed.

(* ------------------------------------------------------------------ *)
(* ParseInt proper                                                     *)

Lemma parse_int_unf kmin dp width lo hi :
  parse_int kmin dp width lo hi =
  let '(neg, start, w1) :=
    match dp with
    | c :: r =>
        if c =? 45 then
          if (width <=? 0) || negb (width - 1 =? 0) then (true, Some r, if width <=? 0 then width else width - 1)
          else (true, None, width - 1)
        else (false, Some dp, width)
    | [] => (false, Some dp, width)
    end in
  match start with
  | None => None
  | Some bp =>
      let '(value, rest, n, erange) := parse_int_loop kmin bp w1 0 0 in
      if negb (Nat.eqb n 0) && negb erange && (neg || negb (value =? kmin)) then
        if negb neg || negb (value =? 0) then
          let v := if neg then value else - value in
          if (lo <=? v) && (v <=? hi) then Some (v, rest) else None
        else None
      else None
  end.
Proof.
  unfold parse_int. destruct dp as [|c r]; [reflexivity|].
  destruct (Z.eqb_spec c 45) as [->|Hn]; [reflexivity|].
  walk_Z c; try reflexivity. congruence.
Qed.

Lemma signed_value_unf cs :
  signed_value' cs =
  match cs with
  | c :: ds =>
      if c =? 45 then if forallb is_digit ds && negb (Nat.eqb (length ds) 0) then Some (- digits_val ds) else None
      else if forallb is_digit cs && negb (Nat.eqb (length cs) 0) then Some (digits_val cs) else None
  | [] => if forallb is_digit cs && negb (Nat.eqb (length cs) 0) then Some (digits_val cs) else None
  end.
Proof.
  unfold signed_value'. destruct cs as [|c r]; [reflexivity|].
  destruct (Z.eqb_spec c 45) as [->|Hn]; [reflexivity|].
  walk_Z c; try reflexivity. congruence.
Qed.

Theorem parse_int_sound_lemma : forall kmin dp width lo hi v rest,
  kmin < 0 -> parse_int kmin dp width lo hi = Some (v, rest) ->
  exists cs, dp = cs ++ rest /\ signed_value' cs = Some v /\ lo <= v <= hi /\
             kmin <= v <= - (kmin + 1) /\ (0 < width -> Z.of_nat (length cs) <= width).
Proof.
  intros kmin dp width lo hi v rest Hk H. rewrite parse_int_unf in H.
  assert (Hpos : forall bp, dp = bp -> (match bp with c :: _ => c <> 45 | [] => True end) ->
     (let '(value, rest, n, erange) := parse_int_loop kmin bp width 0 0 in
      if negb (Nat.eqb n 0) && negb erange && (false || negb (value =? kmin)) then
        if negb false || negb (value =? 0) then
          let v := if false then value else - value in
          if (lo <=? v) && (v <=? hi) then Some (v, rest) else None
        else None
      else None) = Some (v, rest) ->
     exists cs, dp = cs ++ rest /\ signed_value' cs = Some v /\ lo <= v <= hi /\
             kmin <= v <= - (kmin + 1) /\ (0 < width -> Z.of_nat (length cs) <= width)).
  { intros bp <- Hhd H1.
    destruct (parse_int_loop kmin dp width 0 0) as [[[value rest'] n] er] eqn:EL.
    destruct n as [|n]; [discriminate|]. destruct er; [discriminate|].
    cbn [Nat.eqb negb andb orb] in H1.
    destruct (value =? kmin) eqn:E1; [discriminate|]. cbn [negb] in H1.
    destruct ((lo <=? - value) && (- value <=? hi)) eqn:E2; [|discriminate].
    inversion H1; subst. clear H1.
    apply pil_sound in EL; [|lia|lia].
    destruct EL as (ds & -> & Hd & Hn & Hval & Hr & Hw).
    exists ds. split; [reflexivity|]. split.
    - rewrite signed_value_unf. destruct ds as [|c ds]; [cbn in Hn; lia|].
      cbn [app] in Hhd. replace (c =? 45) with false by lia.
      rewrite Hd. cbn [length Nat.eqb negb andb]. f_equal. lia.
    - repeat split; try lia; auto. }
  destruct dp as [|c r].
  - apply (Hpos []); auto.
  - destruct (Z.eqb_spec c 45) as [->|Hn].
    + clear Hpos.
      destruct ((width <=? 0) || negb (width - 1 =? 0)) eqn:Ew; [|discriminate].
      set (w1 := if width <=? 0 then width else width - 1) in *.
      destruct (parse_int_loop kmin r w1 0 0) as [[[value rest'] n] er] eqn:EL.
      destruct n as [|n]; [discriminate|]. destruct er; [discriminate|].
      cbn [Nat.eqb negb andb orb] in H.
      destruct (value =? 0) eqn:E1; [discriminate|]. cbn [negb] in H.
      destruct ((lo <=? value) && (value <=? hi)) eqn:E2; [|discriminate].
      inversion H; subst. clear H.
      apply pil_sound in EL; [|lia|lia].
      destruct EL as (ds & -> & Hd & Hnn & Hval & Hr & Hw).
      exists (45 :: ds). split; [reflexivity|]. split.
      * rewrite signed_value_unf. replace (45 =? 45) with true by reflexivity.
        rewrite Hd. destruct ds as [|c ds]; [cbn in Hnn; lia|].
        cbn [length Nat.eqb negb andb]. f_equal. lia.
      * repeat split; try lia. intros Hw0. cbn [length]. rewrite Nat2Z.inj_succ.
        subst w1. destruct (width <=? 0) eqn:E3; [lia|].
        assert (0 < width - 1) by lia. specialize (Hw H). lia.
    + apply (Hpos (c :: r)); auto.
Qed.

(* ------------------------------------------------------------------ *)
(* Format02d / Format64 followed by ParseInt                           *)

Lemma pp_digit_char d : 0 <= d <= 9 -> digit_char d = OK (48 + d).
Proof.
  intros H.
  assert (E : d = 0 \/ d = 1 \/ d = 2 \/ d = 3 \/ d = 4 \/ d = 5 \/ d = 6 \/ d = 7 \/ d = 8 \/ d = 9) by lia.
  repeat (destruct E as [->|E]; [reflexivity|]). subst; reflexivity.
Qed.

Lemma pp_format02d v : 0 <= v <= 99 -> format02d v = OK [48 + v / 10; 48 + v mod 10].
Proof.
  intros H. unfold format02d.
  replace (Z.rem (Z.quot v 10) 10) with (v / 10) by lia.
  replace (Z.rem v 10) with (v mod 10) by lia.
  rewrite !pp_digit_char by lia. reflexivity.
Qed.

Lemma is_digit_48 a : 0 <= a <= 9 -> is_digit (48 + a) = true.
Proof. intros. apply is_digit_range. lia. Qed.

Lemma pp_parse2 kmin a b k lo hi : kmin <= -100 -> 0 <= a <= 9 -> 0 <= b <= 9 -> lo <= 10 * a + b <= hi ->
  parse_int kmin ((48 + a) :: (48 + b) :: k) 2 lo hi = Some (10 * a + b, k).
Proof.
  intros Hk Ha Hb Hr. rewrite parse_int_unf. replace (48 + a =? 45) with false by lia.
  cbv beta iota zeta.
  rewrite pil_cons, is_digit_48 by lia.
  replace (0 <? Z.quot kmin 10) with false by lia.
  replace (0 * 10 <? kmin + (48 + a - 48)) with false by lia.
  change ((0 <? 2) && (2 - 1 =? 0)) with false. change (if 0 <? 2 then 2 - 1 else 2) with 1.
  cbv beta iota.
  rewrite pil_cons, is_digit_48 by lia.
  replace (0 * 10 - (48 + a - 48) <? Z.quot kmin 10) with false by lia.
  replace ((0 * 10 - (48 + a - 48)) * 10 <? kmin + (48 + b - 48)) with false by lia.
  change ((0 <? 1) && (1 - 1 =? 0)) with true. cbv beta iota.
  cbn [Nat.eqb negb andb orb].
  replace ((0 * 10 - (48 + a - 48)) * 10 - (48 + b - 48) =? kmin) with false by lia.
  cbn [negb].
  replace (- ((0 * 10 - (48 + a - 48)) * 10 - (48 + b - 48))) with (10 * a + b) by lia.
  replace ((lo <=? 10 * a + b) && (10 * a + b <=? hi)) with true by lia.
  reflexivity.
Qed.

Lemma pp_parse_fmt02 kmin v k lo hi : kmin <= -100 -> 0 <= v <= 99 -> lo <= v <= hi ->
  parse_int kmin ((48 + v / 10) :: (48 + v mod 10) :: k) 2 lo hi = Some (v, k).
Proof.
  intros. replace v with (10 * (v / 10) + v mod 10) at 3 by lia.
  apply pp_parse2; lia.
Qed.

Theorem parseint_format02d_lemma : forall v k bs lo hi, 0 <= v <= 99 -> lo <= v <= hi -> 0 <= lo ->
  format02d v = OK bs -> parse_int32 (bs ++ k) 2 lo hi = Some (v, k).
Proof.
  intros v k bs lo hi Hv Hr _ H. rewrite pp_format02d in H by lia. inversion H; subst.
  cbn [app]. unfold parse_int32. apply pp_parse_fmt02; unfold min32; lia.
Qed.

Lemma pp_fmt_digits fuel : forall v acc ds, 0 <= v -> fmt_digits fuel v acc = OK ds ->
  exists ds0, ds = ds0 ++ acc /\ forallb is_digit ds0 = true /\ ds0 <> [] /\ digits_val ds0 = v.
Proof.
  induction fuel as [|f IH]; intros v acc ds Hv H; [discriminate|].
  cbn [fmt_digits] in H.
  replace (Z.rem v 10) with (v mod 10) in H by lia.
  rewrite pp_digit_char in H by lia. cbn [bind] in H.
  destruct (Z.quot v 10 =? 0) eqn:E.
  - inversion H; subst. exists [48 + v mod 10]. cbn [app forallb]. rewrite is_digit_48 by lia.
    repeat split; [discriminate|]. rewrite dv_cons, dv_nil. cbn [length]. lia.
  - apply IH in H; [|lia]. destruct H as (ds1 & -> & Hd & Hne & Hdv).
    exists (ds1 ++ [48 + v mod 10]). rewrite <- app_assoc. cbn [app].
    rewrite forallb_app, Hd. cbn [forallb]. rewrite is_digit_48 by lia.
    repeat split.
    + destruct ds1; discriminate.
    + rewrite dv_snoc, Hdv. lia.
Qed.

Lemma pp_parse_neg kmin ds k lo hi v : kmin < 0 -> forallb is_digit ds = true -> ds <> [] -> no_digit_head' k ->
  v = - digits_val ds -> kmin <= v -> v <> 0 -> lo <= v <= hi ->
  parse_int kmin (45 :: ds ++ k) 0 lo hi = Some (v, k).
Proof.
  intros Hk Hd Hne Hkk Hv Hlo Hnz Hr. rewrite parse_int_unf.
  change (45 =? 45) with true. change ((0 <=? 0) || negb (0 - 1 =? 0)) with true.
  change (if 0 <=? 0 then 0 else 0 - 1) with 0. cbv beta iota zeta.
  rewrite (pil_complete kmin Hk ds k 0 0 0%nat) by (auto; lia).
  cbv beta iota. replace (0 * 10 ^ Z.of_nat (length ds) - digits_val ds) with v by lia.
  destruct ds as [|c ds]; [congruence|]. cbn [length Nat.add Nat.eqb negb andb orb].
  replace (v =? 0) with false by lia. cbn [negb].
  replace ((lo <=? v) && (v <=? hi)) with true by lia. reflexivity.
Qed.

Lemma pp_parse_pos kmin ds k lo hi v : kmin < 0 -> forallb is_digit ds = true -> ds <> [] -> no_digit_head' k ->
  v = digits_val ds -> kmin < - v -> lo <= v <= hi ->
  parse_int kmin (ds ++ k) 0 lo hi = Some (v, k).
Proof.
  intros Hk Hd Hne Hkk Hv Hlo Hr. rewrite parse_int_unf.
  destruct ds as [|c ds]; [congruence|].
  assert (Hc : 48 <= c <= 57).
  { cbn [forallb] in Hd. apply andb_true_iff in Hd. apply is_digit_range. tauto. }
  cbn [app]. replace (c =? 45) with false by lia. cbv beta iota zeta.
  change (c :: ds ++ k) with ((c :: ds) ++ k).
  rewrite (pil_complete kmin Hk (c :: ds) k 0 0 0%nat) by (auto; lia).
  cbv beta iota. replace (0 * 10 ^ Z.of_nat (length (c :: ds)) - digits_val (c :: ds)) with (- v) by lia.
  cbn [length Nat.add Nat.eqb negb andb orb].
  replace (- v =? kmin) with false by lia. cbn [negb]. rewrite Z.opp_involutive.
  replace ((lo <=? v) && (v <=? hi)) with true by lia. reflexivity.
Qed.

Theorem parseint_format64_lemma : forall v k bs, int64 v -> no_digit_head' k ->
  format64 0 v = OK bs -> parse_int64 (bs ++ k) 0 min64 max64 = Some (v, k).
Proof.
  intros v k bs Hv Hk H. unfold int64, parse_int64 in *.
  destruct (Z.eqb_spec v min64) as [->|Hne].
  - vm_compute in H. inversion H; subst. clear H. cbn [app].
    apply (pp_parse_neg min64 [57; 50; 50; 51; 51; 55; 50; 48; 51; 54; 56; 53; 52; 55; 55; 53; 56; 48; 56] k);
      auto; try reflexivity; try discriminate; unfold min64, max64; lia.
  - unfold format64 in H. destruct (v <? 0) eqn:Eneg.
    + replace (v =? min64) with false in H by lia.
      unfold neg64 in H. rewrite chk64_in in H by (unfold int64, min64, max64 in *; lia).
      cbn [bind] in H. apply bind_ok in H. destruct H as (ds & Hds & H).
      apply pp_fmt_digits in Hds; [|lia]. destruct Hds as (ds0 & -> & Hd & Hn0 & Hdv).
      rewrite app_nil_r in H. unfold fits in H.
      match type of H with context [repeat 48 ?n] => replace n with 0%nat in H by (cbn [length]; lia) end.
      cbn [repeat app] in H.
      destruct (Z.of_nat (length (45 :: ds0)) <=? scratch_size); [|discriminate].
      inversion H; subst. clear H. cbn [app].
      apply pp_parse_neg; auto; unfold min64, max64 in *; lia.
    + cbn [bind] in H. apply bind_ok in H. destruct H as (ds & Hds & H).
      apply pp_fmt_digits in Hds; [|lia]. destruct Hds as (ds0 & -> & Hd & Hn0 & Hdv).
      rewrite app_nil_r in H. unfold fits in H.
      match type of H with context [repeat 48 ?n] => replace n with 0%nat in H by (cbn [length]; lia) end.
      cbn [repeat app] in H.
      destruct (Z.of_nat (length ds0) <=? scratch_size); [|discriminate].
      inversion H; subst. clear H.
      apply pp_parse_pos; auto; unfold min64, max64 in *; lia.
Qed.

(* ------------------------------------------------------------------ *)
(* ranges of the pieces used by the scanner                            *)

Lemma pi_range kmin dp w lo hi v r : kmin < 0 -> parse_int kmin dp w lo hi = Some (v, r) ->
  lo <= v <= hi /\ kmin <= v <= - (kmin + 1) /\ (length r <= length dp)%nat.
Proof.
  intros Hk H. apply parse_int_sound_lemma in H; auto.
  destruct H as (cs & -> & _ & H1 & H2 & _). rewrite app_length. repeat split; lia.
Qed.

Lemma pi32_range dp w lo hi v r : parse_int32 dp w lo hi = Some (v, r) ->
  lo <= v <= hi /\ (length r <= length dp)%nat.
Proof. intros H. apply pi_range in H; [tauto|reflexivity]. Qed.

Lemma pi64_range dp w lo hi v r : parse_int64 dp w lo hi = Some (v, r) ->
  lo <= v <= hi /\ int64 v /\ (length r <= length dp)%nat.
Proof. intros H. apply pi_range in H; [|reflexivity]. unfold int64, min64, max64 in *. repeat split; lia. Qed.

Ltac rng_norm :=
  cbv [rng nthZ nth src_parse_off_hh src_parse_off_mm src_parse_range_m src_parse_range_d src_parse_range_H
       src_parse_range_M src_parse_range_S src_parse_range_UW src_parse_range_u src_parse_range_w
       src_parse_range_E4Y] in *.

Lemma fpo_range dp sep o r : fmt_parse_offset dp sep = Some (o, r) -> -86399 <= o <= 86399.
Proof.
  unfold fmt_parse_offset. destruct dp as [|first d1]; [discriminate|].
  destruct ((first =? 43) || (first =? 45)).
  - destruct (parse_int32 d1 2 _ _) as [[hours ap]|] eqn:Eh; [|discriminate].
    destruct (consumed2 d1 ap); [|discriminate].
    apply pi32_range in Eh. destruct Eh as [Eh _]. rng_norm.
    match goal with |- context [parse_int32 ?a 2 0 59] => destruct (parse_int32 a 2 0 59) as [[mi bp]|] eqn:Em end.
    + apply pi32_range in Em. destruct Em as [Em _].
      match goal with |- context [consumed2 ?a ?b] => destruct (consumed2 a b) end.
      * match goal with |- context [parse_int32 ?a 2 0 59] => destruct (parse_int32 a 2 0 59) as [[se cp]|] eqn:Es end.
        -- apply pi32_range in Es. destruct Es as [Es _].
           match goal with |- context [consumed2 ?a ?b] => destruct (consumed2 a b) end;
             intros H; inversion H; subst; destruct (first =? 45); lia.
        -- intros H; inversion H; subst; destruct (first =? 45); lia.
      * intros H; inversion H; subst; destruct (first =? 45); lia.
    + intros H; inversion H; subst; destruct (first =? 45); lia.
  - destruct ((first =? 90) || (first =? 122)); [|discriminate].
    intros H; inversion H; lia.
Qed.

Lemma pp_kExp10 i : 0 <= i <= 18 -> kExp10 i = OK (10 ^ i).
Proof.
  intros H.
  assert (F : forallb (fun i => match kExp10 i with OK v => v =? 10 ^ i | Err _ => false end) (zrange 0 19) = true)
    by (vm_compute; reflexivity).
  rewrite forallb_forall in F. specialize (F i). rewrite zrange_In in F.
  specialize (F ltac:(lia)). destruct (kExp10 i); [|discriminate]. f_equal. lia.
Qed.

Lemma subsec_loop_inv : forall dp v exp n v' exp' rest n',
  0 <= exp <= 15 -> 0 <= v < 10 ^ exp ->
  subsec_loop dp v exp n = (v', exp', rest, n') -> 0 <= exp' <= 15 /\ 0 <= v' < 10 ^ exp'.
Proof.
  induction dp as [|c r IH]; intros v exp n v' exp' rest n' He Hv H.
  - inversion H; subst. auto.
  - cbn [subsec_loop] in H. destruct (is_digit c) eqn:Ec.
    + apply is_digit_range in Ec. destruct (exp <? 15) eqn:E15.
      * apply IH in H; auto; [lia|]. rewrite Z.pow_add_r, Z.pow_1_r by lia. lia.
      * apply IH in H; auto.
    + inversion H; subst. auto.
Qed.

Lemma parse_subseconds_ok dp : exists r, parse_subseconds dp = OK r /\
  forall sub d, r = Some (sub, d) -> 0 <= sub < 10 ^ 15.
Proof.
  unfold parse_subseconds.
  destruct (subsec_loop dp 0 0 0) as [[[v exp] rest] n] eqn:E.
  apply subsec_loop_inv in E; [|lia|cbn; lia]. destruct E as [He Hv].
  destruct (Nat.eqb n 0).
  - eexists; split; [reflexivity|]. discriminate.
  - rewrite pp_kExp10 by lia. cbn [bind].
    assert (HE : 10 ^ exp * 10 ^ (15 - exp) = 10 ^ 15) by (rewrite <- Z.pow_add_r by lia; f_equal; lia).
    assert (HP : 0 < 10 ^ (15 - exp)) by (apply Z.pow_pos_nonneg; lia).
    change (10 ^ 15) with 1000000000000000 in *.
    set (A := 10 ^ exp) in *. set (B := 10 ^ (15 - exp)) in *. clearbody A B.
    assert (0 <= v * B < 1000000000000000) by nia.
    unfold mul64. rewrite chk64_in by (unfold int64, min64, max64; lia). cbn [bind].
    eexists; split; [reflexivity|]. intros sub d Hs. inversion Hs; subst. lia.
Qed.

(* ------------------------------------------------------------------ *)
(* the scanner state invariant                                         *)

Ltac fir_tac :=
  repeat match goal with s : pstate |- _ => destruct s end;
  repeat match goal with t : tmrec |- _ => destruct t end;
  unfold fields_in_range', set_tm, set_twelve, set_week, set_offset, set_year, set_subsec, set_percent_s,
         set_afternoon, tm_with, int64, min64, max64 in *;
  cbn [ps_year ps_saw_year ps_tm ps_subsec ps_saw_offset ps_offset ps_twelve ps_afternoon ps_week_num
       ps_week_start ps_saw_s ps_percent_s tm_sec tm_min tm_hour tm_mday tm_mon tm_year tm_wday tm_yday tm_isdst] in *;
  change (10 ^ 15) with 1000000000000000 in *;
  rng_norm;
  repeat match goal with H : _ /\ _ |- _ => destruct H end;
  repeat split; lia.

Lemma fir_ps0 : fields_in_range' ps0.
Proof. unfold ps0, tm0. fir_tac. Qed.

Lemma pes_unf data s :
  parse_ext_seconds data s =
  match parse_int32 data 2 (rng src_parse_range_S 0) (rng src_parse_range_S 1) with
  | None => OK None
  | Some (v, d1) =>
      match d1 with
      | x :: d2 =>
          if x =? 46 then
            do r <- parse_subseconds d2 ;;
            match r with
            | None => OK None
            | Some (sub, d3) => OK (Some (d3, set_subsec (set_tm s (tm_with (ps_tm s) 0 v)) sub))
            end
          else OK (Some (d1, set_tm s (tm_with (ps_tm s) 0 v)))
      | [] => OK (Some (d1, set_tm s (tm_with (ps_tm s) 0 v)))
      end
  end.
Proof.
  unfold parse_ext_seconds. destruct (parse_int32 _ _ _ _) as [[v d1]|]; [|reflexivity].
  destruct d1 as [|x d2]; [reflexivity|].
  destruct (Z.eqb_spec x 46) as [->|Hn]; [reflexivity|].
  walk_Z x; try reflexivity. congruence.
Qed.

Lemma pes_ok data s : exists r, parse_ext_seconds data s = OK r /\
  forall d' s', r = Some (d', s') -> fields_in_range' s -> fields_in_range' s'.
Proof.
  rewrite pes_unf.
  destruct (parse_int32 _ _ _ _) as [[v d1]|] eqn:E.
  2:{ eexists; split; [reflexivity|]. discriminate. }
  apply pi32_range in E. destruct E as [E _].
  assert (Hs1 : fields_in_range' s -> fields_in_range' (set_tm s (tm_with (ps_tm s) 0 v))).
  { intros Hf. fir_tac. }
  destruct d1 as [|x d2].
  { eexists; split; [reflexivity|]. intros d' s' H. inversion H; subst. auto. }
  destruct (x =? 46).
  - destruct (parse_subseconds_ok d2) as (r & -> & Hr). cbn [bind].
    destruct r as [[sub d3]|].
    + eexists; split; [reflexivity|]. intros d' s' H Hf. inversion H; subst.
      specialize (Hr _ _ eq_refl). specialize (Hs1 Hf). clear Hf E. fir_tac.
    + eexists; split; [reflexivity|]. discriminate.
  - eexists; split; [reflexivity|]. intros d' s' H. inversion H; subst. auto.
Qed.

Lemma pef_ok data s : exists r, parse_ext_frac data s = OK r /\
  forall d' s', r = Some (d', s') -> fields_in_range' s -> fields_in_range' s'.
Proof.
  unfold parse_ext_frac. destruct data as [|c d].
  { eexists; split; [reflexivity|]. intros d' s' H. inversion H; subst. auto. }
  destruct (is_digit c).
  - destruct (parse_subseconds_ok (c :: d)) as (r & -> & Hr). cbn [bind].
    destruct r as [[sub d3]|].
    + eexists; split; [reflexivity|]. intros d' s' H Hf. inversion H; subst.
      specialize (Hr _ _ eq_refl). fir_tac.
    + eexists; split; [reflexivity|]. discriminate.
  - eexists; split; [reflexivity|]. intros d' s' H. inversion H; subst. auto.
Qed.

Lemma skip_space_len l : (length (skip_space l) <= length l)%nat.
Proof.
  induction l as [|c r IH]; [cbn; lia|]. cbn [skip_space]. destruct (is_space c); cbn [length]; lia.
Qed.

(* ------------------------------------------------------------------ *)
(* one scanner step                                                    *)

Section Scan.
Variable so : list Z -> list Z -> tmrec -> option (list Z * tmrec).

Definition good (fmt : list Z) (s : pstate) (out : res (list Z * option (list Z * pstate))) : Prop :=
  exists fmt' r, out = OK (fmt', r) /\
    forall d' s', r = Some (d', s') ->
      (length fmt' < length fmt)%nat /\ (no_strptime' so -> fields_in_range' s -> fields_in_range' s').

Lemma good_none fmt s f : good fmt s (OK (f, None)).
Proof. exists f, None. split; [reflexivity|]. discriminate. Qed.

Lemma good_some fmt s f d s' : (length f < length fmt)%nat ->
  (fields_in_range' s -> fields_in_range' s') -> good fmt s (OK (f, Some (d, s'))).
Proof.
  intros Hl Hf. exists f, (Some (d, s')). split; [reflexivity|].
  intros d' s'' H. inversion H; subst. auto.
Qed.

Lemma good_strp fmt s fr spec data s1 : (length fr < length fmt)%nat ->
  good fmt s (OK (fr, parse_tm_spec so spec data s1)).
Proof.
  intros Hl. eexists _, _. split; [reflexivity|]. intros d' s' H. split; [auto|].
  intros Hno. unfold parse_tm_spec in H. rewrite Hno in H. discriminate.
Qed.

Lemma good_pes fmt s f data : (length f < length fmt)%nat ->
  good fmt s (do r <- parse_ext_seconds data s ;; OK (f, r)).
Proof.
  intros Hl. destruct (pes_ok data s) as (r & -> & Hr). cbn [bind].
  eexists _, _. split; [reflexivity|]. intros d' s' H. split; eauto.
Qed.

Lemma good_pef fmt s f data : (length f < length fmt)%nat ->
  good fmt s (do r <- parse_ext_frac data s ;; OK (f, r)).
Proof.
  intros Hl. destruct (pef_ok data s) as (r & -> & Hr). cbn [bind].
  eexists _, _. split; [reflexivity|]. intros d' s' H. split; eauto.
Qed.

Ltac len_tac := cbn [length] in *; lia.
Ltac fin := first
  [ apply good_none
  | apply good_strp; len_tac
  | apply good_pes; len_tac
  | apply good_pef; len_tac
  | apply good_some; [len_tac | solve [auto]] ].

(* a match on the result of ParseInt / ParseOffset *)
Ltac pi_tac :=
  match goal with
  | |- good _ _ (match ?e with Some _ => _ | None => _ end) =>
      let E := fresh "E" in
      destruct e as [[? ?]|] eqn:E; [|apply good_none];
      first [apply pi32_range in E | apply pi64_range in E | apply fpo_range in E]
  end.
Ltac pi_fin := pi_tac; apply good_some; [len_tac | intros Hf; fir_tac].

Ltac e4y := pi_tac; destruct (Nat.eqb _ _); [|fin]; apply good_some; [len_tac | intros Hf; fir_tac].

Lemma scan_step_good fmt data s : fmt <> [] -> good fmt s (scan_step so fmt data s).
Proof.
  destruct fmt as [|f0 f1]; [congruence|]. intros _. unfold scan_step.
  destruct (is_space f0).
  { apply good_some; [|auto]. pose proof (skip_space_len f1). len_tac. }
  destruct (negb (f0 =? 37)).
  { destruct data as [|c d1]; [fin|]. destruct (c =? f0); fin. }
  destruct f1 as [|c f2]; [fin|]. cbv zeta.
  match goal with |- context [if c =? 69 then ?X else _] => set (EB := X) end.
  destruct (c =? 89). { clear EB. pi_fin. }
  destruct (c =? 109). { clear EB. pi_fin. }
  destruct ((c =? 100) || (c =? 101)).
  { clear EB.
    match goal with |- context [if ?b then parse_int32 (tl data) 1 1 9 else _] => destruct b end; pi_fin. }
  destruct (c =? 85). { clear EB. pi_fin. }
  destruct (c =? 87). { clear EB. pi_fin. }
  destruct (c =? 117). { clear EB. pi_fin. }
  destruct (c =? 119). { clear EB. pi_fin. }
  destruct (c =? 72). { clear EB. pi_fin. }
  destruct (c =? 77). { clear EB. pi_fin. }
  destruct (c =? 83). { clear EB. pi_fin. }
  destruct ((c =? 73) || (c =? 108) || (c =? 114)). { clear EB. fin. }
  destruct ((c =? 82) || (c =? 84) || (c =? 99) || (c =? 88)). { clear EB. fin. }
  destruct (c =? 122). { clear EB. pi_fin. }
  destruct (c =? 90).
  { clear EB. destruct (span_while _ data) as [zn d1]. destruct zn; fin. }
  destruct (c =? 115). { clear EB. pi_fin. }
  destruct (c =? 58).
  { clear EB. match goal with |- good _ _ (match ?m with Some _ => _ | None => _ end) =>
      assert (Hm : forall fr, m = Some fr -> (length fr < length f2)%nat);
      [|destruct m as [fr|]; [specialize (Hm fr eq_refl)|]]
    end.
    - clear. intros fr. destruct f2 as [|x1 f3]; [discriminate|].
      walk_Z x1; try discriminate; [intros H; inversion H; len_tac|].
      destruct f3 as [|x2 f4]; [discriminate|].
      walk_Z x2; try discriminate; [intros H; inversion H; len_tac|].
      destruct f4 as [|x3 f5]; [discriminate|].
      walk_Z x3; try discriminate. intros H; inversion H; len_tac.
    - pi_fin.
    - fin. }
  destruct (c =? 37).
  { clear EB. destruct data as [|x d1]; [fin|]. walk_Z x; fin. }
  destruct (c =? 69).
  { subst EB. destruct f2 as [|d f3]; [fin|].
    match goal with |- good _ _ (match d with Z0 => ?D | Zpos _ => _ | Zneg _ => _ end) => remember D as DD eqn:HD end.
    assert (HG : good (f0 :: c :: d :: f3) s DD).
    { subst DD. destruct (is_digit d); [|fin].
      destruct (parse_int32 (d :: f3) 0 0 1024) as [[v l]|] eqn:E; [|fin].
      apply pi32_range in E. destruct E as [_ E].
      destruct l as [|z f5]; [fin|]. walk_Z z; fin. }
    clear HD.
    walk_Z d; try exact HG;
    first
    [ solve [pi_fin]
    | solve [destruct data as [|x d1]; [fin|]; destruct ((x =? 84) || (x =? 116)); fin]
    | destruct f3 as [|e f4]; [exact HG|]; walk_Z e; try exact HG; first [fin | solve [pi_fin] | e4y] ]. }
  clear EB. destruct (c =? 79).
  { apply good_strp. destruct f2; len_tac. }
  fin.
Qed.

Lemma scan_loop_good : forall fuel fmt data s, (length fmt < fuel)%nat ->
  exists r, scan_loop so fuel fmt data s = OK r /\
    (no_strptime' so -> fields_in_range' s -> forall rest s', r = Some (rest, s') -> fields_in_range' s').
Proof.
  induction fuel as [|f IH]; intros fmt data s Hl; [lia|].
  destruct fmt as [|f0 f1].
  - cbn [scan_loop]. eexists; split; [reflexivity|]. intros _ Hf rest s' H. inversion H; subst; auto.
  - destruct (scan_step_good (f0 :: f1) data s ltac:(discriminate)) as (fmt' & r & Hs & Hr).
    cbn [scan_loop]. rewrite Hs. cbn [bind]. destruct r as [[d' s']|].
    + destruct (Hr _ _ eq_refl) as [Hlen Hfir].
      destruct (IH fmt' d' s' ltac:(lia)) as (r' & -> & Hr').
      eexists; split; [reflexivity|]. intros Hno Hf. apply Hr'; auto.
    + eexists; split; [reflexivity|]. discriminate.
Qed.
End Scan.

Theorem scan_safe_lemma : forall strptime_o fmt data,
  exists r, scan_loop strptime_o (S (length fmt)) fmt data ps0 = OK r.
Proof.
  intros so fmt data. destruct (scan_loop_good so (S (length fmt)) fmt data ps0 ltac:(lia)) as (r & H & _).
  eauto.
Qed.

Theorem scan_range_lemma : forall strptime_o fmt data rest s,
  no_strptime' strptime_o ->
  scan_loop strptime_o (S (length fmt)) fmt data ps0 = OK (Some (rest, s)) -> fields_in_range' s.
Proof.
  intros so fmt data rest s Hno H.
  destruct (scan_loop_good so (S (length fmt)) fmt data ps0 ltac:(lia)) as (r & Hr & Hf).
  rewrite Hr in H. inversion H; subst. eapply Hf; eauto. apply fir_ps0.
Qed.

(* ------------------------------------------------------------------ *)
(* FormatOffset followed by ParseOffset                                *)

Lemma consumed2_cons a b r : consumed2 (a :: b :: r) r = true.
Proof. unfold consumed2. cbn [length]. apply Nat.eqb_eq. lia. Qed.

Lemma pp_parse_none kmin k w lo hi : kmin < 0 -> no_digit_head' k -> 0 <= lo ->
  parse_int kmin k w lo hi = None.
Proof.
  intros Hk Hkk Hlo. rewrite parse_int_unf. destruct k as [|c r]; [reflexivity|].
  destruct (c =? 45) eqn:E45.
  - destruct ((w <=? 0) || negb (w - 1 =? 0)); [|reflexivity].
    destruct (parse_int_loop kmin r _ 0 0) as [[[value rest] n] er] eqn:EL.
    destruct n as [|n]; [reflexivity|]. destruct er; [reflexivity|].
    apply pil_sound in EL; [|lia|lia]. destruct EL as (ds & _ & _ & _ & _ & Hr & _).
    cbn [Nat.eqb negb andb orb]. destruct (value =? 0) eqn:E0; [reflexivity|]. cbn [negb].
    replace ((lo <=? value) && (value <=? hi)) with false by lia. reflexivity.
  - cbv beta iota zeta. rewrite pil_cons. cbn in Hkk. rewrite Hkk. reflexivity.
Qed.

Lemma pp_OK_inj {A} (a b : A) : OK a = OK b -> a = b.
Proof. congruence. Qed.

Definition pp_d2 (v : Z) : list Z := [48 + v / 10; 48 + v mod 10].

(* the common part of FormatOffset *)
Lemma pp_format_offset off mode : -86400 < off < 86400 ->
  format_offset off mode =
  let a := Z.abs off in
  let seconds := a mod 60 in
  let minutes := (a / 60) mod 60 in
  let hours := a / 60 / 60 in
  let sign0 := if off <? 0 then 45 else 43 in
  let sep := nthZ mode 0 in
  let ext := negb (sep =? 0) && (nthZ mode 1 =? 42) in
  let ccc := ext && (nthZ mode 2 =? 58) in
  let with_sec := ext && (negb ccc || negb (seconds =? 0)) in
  let sign := if with_sec then sign0
              else if (hours =? 0) && (minutes =? 0) then 43 else sign0 in
  let tail_sec := if with_sec then sep :: pp_d2 seconds else [] in
  let tail_min := if negb ccc || negb (minutes =? 0) || negb (seconds =? 0)
                  then (if negb (sep =? 0) then sep :: pp_d2 minutes else pp_d2 minutes) else [] in
  fits (sign :: pp_d2 hours ++ tail_min ++ tail_sec).
Proof.
  intros H. unfold format_offset.
  assert (E : (if off <? 0 then (do o <- neg32 off ;; OK (o, 45)) else OK (off, 43)) =
              OK (Z.abs off, if off <? 0 then 45 else 43)).
  { destruct (off <? 0) eqn:E.
    - unfold neg32. rewrite chk32_in by (unfold int32, min32, max32; lia). cbn [bind].
      replace (- off) with (Z.abs off) by lia. reflexivity.
    - replace (Z.abs off) with off by lia. reflexivity. }
  rewrite E. cbn [bind]. clear E.
  assert (Ha : 0 <= Z.abs off < 86400) by lia. set (a := Z.abs off) in *. clearbody a.
  replace (Z.rem a 60) with (a mod 60) by lia.
  replace (Z.quot a 60) with (a / 60) by lia.
  replace (Z.rem (a / 60) 60) with ((a / 60) mod 60) by lia.
  replace (Z.quot (a / 60) 60) with (a / 60 / 60) by lia.
  rewrite !pp_format02d by lia. cbn [bind]. reflexivity.
Qed.

Lemma hms_sum a : 0 <= a -> (a / 60 / 60 * 60 + (a / 60) mod 60) * 60 + a mod 60 = a.
Proof. intros. lia. Qed.

Lemma hms_bounds a : 0 <= a < 86400 -> 0 <= a / 60 / 60 <= 23 /\ 0 <= (a / 60) mod 60 <= 59 /\ 0 <= a mod 60 <= 59.
Proof. intros. lia. Qed.

Theorem parseoffset_formatoffset_full_lemma : forall off k bs, -86400 < off < 86400 -> no_offset_cont' 58 k ->
  format_offset off [58; 42] = OK bs -> fmt_parse_offset (bs ++ k) 58 = Some (off, k).
Proof.
  intros off k bs Ho _ H. rewrite pp_format_offset in H by lia.
  assert (Ha : 0 <= Z.abs off < 86400) by lia.
  assert (Hoff : off = if off <? 0 then - Z.abs off else Z.abs off) by (destruct (off <? 0) eqn:E; lia).
  set (a := Z.abs off) in *. clearbody a.
  destruct (hms_bounds a Ha) as (Hh & Hm & Hs). pose proof (hms_sum a ltac:(lia)) as Hsum.
  cbv zeta in H. cbn [nthZ nth] in H.
  change (negb (58 =? 0) && (42 =? 42)) with true in H. cbn [andb orb negb] in H.
  change (0 =? 58) with false in H. cbn [andb orb negb] in H.
  change (negb (58 =? 0)) with true in H. cbv iota in H.
  set (hh := a / 60 / 60) in *. set (mm := (a / 60) mod 60) in *. set (ss := a mod 60) in *.
  clearbody hh mm ss. unfold fits, pp_d2 in H. cbn [app length] in H.
  change (Z.of_nat 9 <=? scratch_size) with true in H. cbv iota in H. apply pp_OK_inj in H; subst bs.
  rewrite <- !app_comm_cons, app_nil_l. unfold fmt_parse_offset.
  assert (Es : ((if off <? 0 then 45 else 43) =? 43) || ((if off <? 0 then 45 else 43) =? 45) = true)
    by (destruct (off <? 0); reflexivity).
  rewrite Es. unfold parse_int32.
  change (rng src_parse_off_hh 0) with 0. change (rng src_parse_off_hh 1) with 23.
  change (rng src_parse_off_mm 0) with 0. change (rng src_parse_off_mm 1) with 59.
  rewrite pp_parse_fmt02 by (unfold min32; lia). rewrite consumed2_cons.
  change (negb (58 =? 0) && (58 =? 58)) with true. cbv iota.
  rewrite pp_parse_fmt02 by (unfold min32; lia). rewrite consumed2_cons.
  change (negb (58 =? 0) && (58 =? 58)) with true. cbv iota.
  rewrite pp_parse_fmt02 by (unfold min32; lia). rewrite consumed2_cons.
  f_equal. f_equal. rewrite Hsum. destruct (off <? 0); cbn [Z.eqb Pos.eqb]; lia.
Qed.

Theorem parseoffset_formatoffset_minutes_lemma : forall off k bs mode sep, -86400 < off < 86400 ->
  (mode = [] /\ sep = 0) \/ (mode = [58] /\ sep = 58) -> no_offset_cont' sep k ->
  format_offset off mode = OK bs ->
  exists off', fmt_parse_offset (bs ++ k) sep = Some (off', k) /\
               off' = Z.quot off 60 * 60 /\ (off' = off <-> Z.rem off 60 = 0).
Proof.
  intros off k bs mode sep Ho Hmode Hk H. rewrite pp_format_offset in H by lia.
  exists (Z.quot off 60 * 60). split; [|split; [reflexivity|lia]].
  assert (Ha : 0 <= Z.abs off < 86400) by lia.
  assert (Hq : Z.quot off 60 * 60 = if off <? 0 then - (Z.abs off / 60 * 60) else Z.abs off / 60 * 60)
    by (destruct (off <? 0) eqn:E; lia).
  rewrite Hq. clear Hq.
  set (a := Z.abs off) in *. clearbody a.
  destruct (hms_bounds a Ha) as (Hh & Hm & Hs).
  assert (Hsum : (a / 60 / 60 * 60 + (a / 60) mod 60) * 60 + 0 = a / 60 * 60) by lia.
  assert (Hz : (a / 60 / 60 =? 0) && ((a / 60) mod 60 =? 0) = true -> a / 60 * 60 = 0) by lia.
  cbv zeta in H.
  set (hh := a / 60 / 60) in *. set (mm := (a / 60) mod 60) in *. set (ss := a mod 60) in *.
  set (q := a / 60 * 60) in *.
  clearbody hh mm ss q.
  assert (Hnone : forall bp', bp' = k -> parse_int min32 bp' 2 0 59 = None).
  { intros bp' ->. apply pp_parse_none; [reflexivity| |lia].
    destruct k; cbn in *; tauto. }
  set (sg := if (hh =? 0) && (mm =? 0) then 43 else if off <? 0 then 45 else 43) in *.
  assert (Es : (sg =? 43) || (sg =? 45) = true)
    by (subst sg; destruct ((hh =? 0) && (mm =? 0)); [|destruct (off <? 0)]; reflexivity).
  assert (Eres : (if sg =? 45 then - q else q) = if off <? 0 then - q else q).
  { subst sg. destruct ((hh =? 0) && (mm =? 0)) eqn:E0.
    - rewrite (Hz eq_refl). destruct (off <? 0); reflexivity.
    - destruct (off <? 0); reflexivity. }
  destruct Hmode as [[-> ->]|[-> ->]].
  - cbn [nthZ nth] in H. change (negb (0 =? 0) && (0 =? 42)) with false in H. cbn [andb orb negb] in H.
    change (negb (0 =? 0)) with false in H. cbv iota in H.
    unfold fits, pp_d2 in H. cbn [app length] in H.
    change (Z.of_nat 5 <=? scratch_size) with true in H. cbv iota in H. apply pp_OK_inj in H; subst bs.
    rewrite <- !app_comm_cons, app_nil_l. unfold fmt_parse_offset. rewrite Es. unfold parse_int32.
    change (rng src_parse_off_hh 0) with 0. change (rng src_parse_off_hh 1) with 23.
    change (rng src_parse_off_mm 0) with 0. change (rng src_parse_off_mm 1) with 59.
    rewrite pp_parse_fmt02 by (unfold min32; lia). rewrite consumed2_cons.
    change (negb (0 =? 0)) with false. cbn [andb]. cbv iota.
    rewrite pp_parse_fmt02 by (unfold min32; lia). rewrite consumed2_cons.
    rewrite Hnone by (destruct k; reflexivity).
    rewrite Hsum, Eres. reflexivity.
  - cbn [nthZ nth] in H. change (negb (58 =? 0) && (0 =? 42)) with false in H. cbn [andb orb negb] in H.
    change (negb (58 =? 0)) with true in H. cbv iota in H.
    unfold fits, pp_d2 in H. cbn [app length] in H.
    change (Z.of_nat 6 <=? scratch_size) with true in H. cbv iota in H. apply pp_OK_inj in H; subst bs.
    rewrite <- !app_comm_cons, app_nil_l. unfold fmt_parse_offset. rewrite Es. unfold parse_int32.
    change (rng src_parse_off_hh 0) with 0. change (rng src_parse_off_hh 1) with 23.
    change (rng src_parse_off_mm 0) with 0. change (rng src_parse_off_mm 1) with 59.
    rewrite pp_parse_fmt02 by (unfold min32; lia). rewrite consumed2_cons.
    change (negb (58 =? 0) && (58 =? 58)) with true. cbv iota.
    rewrite pp_parse_fmt02 by (unfold min32; lia). rewrite consumed2_cons.
    rewrite Hnone.
    + rewrite Hsum, Eres. reflexivity.
    + destruct k as [|c r]; [reflexivity|]. cbn in Hk. destruct Hk as [_ [Hk|Hk]]; [discriminate|].
      replace (c =? 58) with false by lia. reflexivity.
Qed.

(* ------------------------------------------------------------------ *)
(* sub-seconds                                                         *)

Lemma pp_dec_digits_fuel fuel : forall v acc, 0 <= v < 10 ^ Z.of_nat fuel ->
  exists ds0, dec_digits_fuel fuel v acc = ds0 ++ acc /\ forallb is_digit ds0 = true /\ digits_val ds0 = v /\
    (forall n, 1 <= n -> v < 10 ^ n -> Z.of_nat (length ds0) <= n).
Proof.
  induction fuel as [|f IH]; intros v acc Hv.
  - change (10 ^ Z.of_nat 0) with 1 in Hv. exists []. cbn. repeat split; lia.
  - rewrite Nat2Z.inj_succ, Z.pow_succ_r in Hv by lia.
    cbn [dec_digits_fuel]. destruct (v / 10 =? 0) eqn:E.
    + exists [48 + v mod 10]. cbn [app forallb length]. rewrite is_digit_48 by lia.
      rewrite dv_cons, dv_nil. cbn [length]. repeat split; try lia.
    + destruct (IH (v / 10) ((48 + v mod 10) :: acc) ltac:(lia)) as (ds1 & -> & Hd & Hdv & Hlen).
      exists (ds1 ++ [48 + v mod 10]). rewrite <- app_assoc. split; [reflexivity|].
      rewrite forallb_app, Hd. cbn [forallb]. rewrite is_digit_48 by lia.
      split; [reflexivity|]. split; [rewrite dv_snoc, Hdv; lia|].
      intros n Hn Hvn. rewrite app_length. cbn [length].
      assert (n <> 1) by (intros ->; change (10 ^ 1) with 10 in Hvn; lia).
      replace n with (Z.succ (n - 1)) in Hvn by lia. rewrite Z.pow_succ_r in Hvn by lia.
      specialize (Hlen (n - 1) ltac:(lia) ltac:(lia)). lia.
Qed.

Lemma pp_forallb_repeat n : forallb is_digit (repeat 48 n) = true.
Proof. induction n; cbn [repeat forallb]; [reflexivity|]. rewrite IHn. reflexivity. Qed.

Lemma pp_dv_repeat n : digits_val (repeat 48 n) = 0.
Proof. induction n; cbn [repeat]; [reflexivity|]. rewrite dv_cons, IHn. lia. Qed.

Lemma pp_pad15 fs : 0 <= fs < 10 ^ 15 ->
  length (pad_left 15 48 (dec_digits fs)) = 15%nat /\
  forallb is_digit (pad_left 15 48 (dec_digits fs)) = true /\
  digits_val (pad_left 15 48 (dec_digits fs)) = fs.
Proof.
  intros H. unfold dec_digits.
  assert (H40 : 10 ^ 15 < 10 ^ Z.of_nat 40) by (vm_compute; reflexivity).
  destruct (pp_dec_digits_fuel 40 fs [] ltac:(lia)) as (ds & -> & Hd & Hdv & Hlen).
  rewrite app_nil_r. specialize (Hlen 15 ltac:(lia) ltac:(lia)).
  unfold pad_left. rewrite app_length, repeat_length, forallb_app, pp_forallb_repeat, Hd, dv_app, pp_dv_repeat.
  repeat split; lia.
Qed.

Lemma pp_subsec_loop : forall ds k v exp n, forallb is_digit ds = true -> no_digit_head' k ->
  exp + Z.of_nat (length ds) <= 15 ->
  subsec_loop (ds ++ k) v exp n =
    (v * 10 ^ Z.of_nat (length ds) + digits_val ds, exp + Z.of_nat (length ds), k, (n + length ds)%nat).
Proof.
  induction ds as [|c ds IH]; intros k v exp n Hd Hk He.
  - cbn [app length]. rewrite dv_nil, Nat.add_0_r.
    replace (v * 10 ^ Z.of_nat 0 + 0) with v by (cbn; lia). replace (exp + Z.of_nat 0) with exp by lia.
    destruct k as [|c k]; [reflexivity|]. cbn [subsec_loop]. cbn in Hk. rewrite Hk. reflexivity.
  - cbn [forallb] in Hd. apply andb_true_iff in Hd. destruct Hd as [Hc Hd].
    cbn [app subsec_loop]. rewrite Hc. cbn [length] in *. rewrite Nat2Z.inj_succ in *.
    replace (exp <? 15) with true by lia. rewrite IH by (auto; lia).
    rewrite dv_cons, Z.pow_succ_r by lia.
    match goal with |- (?a, ?b, _, ?c) = (?a', ?b', _, ?c') =>
      replace a with a' by lia; replace b with b' by lia; replace c with c' by lia; reflexivity end.
Qed.

Lemma strip_unf c t : strip_zeros_r (c :: t) = if c =? 48 then strip_zeros_r t else c :: t.
Proof.
  destruct (Z.eqb_spec c 48) as [->|Hn]; [reflexivity|].
  cbn [strip_zeros_r]. walk_Z c; try reflexivity. congruence.
Qed.

Lemma pp_strip_r r : exists j, r = repeat 48 j ++ strip_zeros_r r.
Proof.
  induction r as [|c t IH]; [exists 0%nat; reflexivity|].
  rewrite strip_unf. destruct (Z.eqb_spec c 48) as [->|Hn].
  - destruct IH as [j Hj]. exists (S j). cbn [repeat app]. f_equal. exact Hj.
  - exists 0%nat. reflexivity.
Qed.

Lemma pp_rev_repeat (x : Z) n : rev (repeat x n) = repeat x n.
Proof.
  induction n; [reflexivity|]. cbn [repeat rev]. rewrite IHn. symmetry. apply repeat_cons.
Qed.

Lemma pp_strip l : exists j, l = rev (strip_zeros_r (rev l)) ++ repeat 48 j.
Proof.
  destruct (pp_strip_r (rev l)) as [j Hj]. exists j.
  rewrite <- (rev_involutive l) at 1. rewrite Hj at 1. rewrite rev_app_distr, pp_rev_repeat. reflexivity.
Qed.

Theorem subsec_roundtrip_lemma : forall fs k, 0 <= fs < 10 ^ 15 -> no_digit_head' k ->
  parse_subseconds (frac_digits fs 15 ++ k) = OK (Some (fs, k)) /\
  (fs <> 0 -> parse_subseconds (frac_min fs ++ k) = OK (Some (fs, k))).
Proof.
  intros fs k Hfs Hk. destruct (pp_pad15 fs Hfs) as (Hlen & Hd & Hdv).
  assert (Hfs' : 0 <= fs < 1000000000000000) by (change (10 ^ 15) with 1000000000000000 in Hfs; exact Hfs).
  split.
  - unfold frac_digits. change (18 <? 15) with false. cbv iota. change (15 <=? 15) with true. cbv iota.
    change (Z.to_nat 15) with 15%nat. change (10 ^ (15 - 15)) with 1. rewrite Z.div_1_r.
    set (P := pad_left 15 48 (dec_digits fs)) in *. clearbody P.
    unfold parse_subseconds. rewrite pp_subsec_loop by (auto; lia).
    rewrite Hlen, Hdv. change (Nat.eqb (0 + 15) 0) with false. cbv iota.
    change (15 - (0 + Z.of_nat 15)) with 0. rewrite pp_kExp10 by lia. cbn [bind].
    unfold mul64. rewrite chk64_in by (unfold int64, min64, max64; lia). cbn [bind].
    do 3 f_equal. lia.
  - intros Hnz. unfold frac_min.
    set (P := pad_left 15 48 (dec_digits fs)) in *. clearbody P.
    destruct (pp_strip P) as [j Hj].
    set (Q := rev (strip_zeros_r (rev P))) in *. clearbody Q. subst P.
    rewrite app_length, repeat_length in Hlen.
    rewrite forallb_app, pp_forallb_repeat, andb_true_r in Hd.
    rewrite dv_app, pp_dv_repeat, repeat_length in Hdv.
    assert (HQ : Q <> []).
    { intros ->. rewrite dv_nil in Hdv. lia. }
    unfold parse_subseconds. rewrite pp_subsec_loop by (auto; lia).
    destruct Q as [|c Q]; [congruence|]. cbn [length Nat.add Nat.eqb] in *.
    replace (15 - (0 + Z.of_nat (S (length Q)))) with (Z.of_nat j) by lia.
    rewrite pp_kExp10 by lia. cbn [bind].
    unfold mul64. rewrite chk64_in by (unfold int64, min64, max64; lia). cbn [bind].
    do 3 f_equal. lia.
Qed.

(* Status: every requested lemma is proved (no Admitted / admit / Axiom):
   C07: parseint_format64_lemma, parseint_format02d_lemma,
        parseoffset_formatoffset_full_lemma, parseoffset_formatoffset_minutes_lemma,
        subsec_roundtrip_lemma.
   C09: parse_int_sound_lemma, scan_range_lemma, scan_safe_lemma.
   Unproved items: none. *)
