(* ParseProofs.v — proofs about ParseInt / ParseOffset / ParseSubSeconds and the
   scanning loop of parse() (C07 component inverses, C09 soundness/safety). *)
From CCTZ Require Import Base SrcConstants Cal CivilImpl PosixImpl ZoneLoad FormatImpl ParseImpl FmtSpec.
From Coq Require Import Lia ZifyBool.
Local Open Scope Z_scope.

Ltac Zify.zify_post_hook ::= Z.to_euclidean_division_equations.

(* ------------------------------------------------------------------ *)
(* local copies of the definitions of the Properties files             *)

Definition no_digit_head' (k : list Z) : Prop := match k with c :: _ => is_digit c = false | [] => True end.

Definition no_offset_cont' (sep : Z) (k : list Z) : Prop :=
  match k with c :: _ => is_digit c = false /\ (sep = 0 \/ c <> sep) | [] => True end.

Definition signed_value' (cs : list Z) : option Z :=
  match cs with
  | 45 :: ds => if forallb is_digit ds && negb (Nat.eqb (length ds) 0) then Some (- digits_val ds) else None
  | ds => if forallb is_digit ds && negb (Nat.eqb (length ds) 0) then Some (digits_val ds) else None
  end.

Definition fields_in_range' (s : pstate) : Prop :=
  let t := ps_tm s in
  0 <= tm_sec t <= 60 /\ 0 <= tm_min t <= 59 /\ 0 <= tm_hour t <= 23 /\
  1 <= tm_mday t <= 31 /\ 0 <= tm_mon t <= 11 /\ 0 <= tm_wday t <= 6 /\
  -1 <= ps_week_num s <= 53 /\ -86399 <= ps_offset s <= 86399 /\ 0 <= ps_subsec s < 10 ^ 15 /\
  int64 (ps_year s) /\ int64 (ps_percent_s s).

Definition no_strptime' (strptime_o : list Z -> list Z -> tmrec -> option (list Z * tmrec)) : Prop :=
  forall d f t, strptime_o d f t = None.

(* ------------------------------------------------------------------ *)
(* matching a byte against a literal: the compiled match is a tree on the
   binary representation; this tactic walks it *)

Ltac walk_pos :=
  repeat match goal with
  | |- context [match ?p with xI _ => _ | xO _ => _ | xH => _ end] => is_var p; destruct p
  end.
Ltac walk_Z c := destruct c; walk_pos.

(* ------------------------------------------------------------------ *)
(* digits_val                                                          *)

Lemma dv_fold ds : forall a, fold_left (fun a c => a * 10 + (c - 48)) ds a = a * 10 ^ Z.of_nat (length ds) + digits_val ds.
Proof.
  unfold digits_val. induction ds as [|c ds IH]; intros a.
  - cbn. lia.
  - cbn [fold_left length]. rewrite IH. rewrite (IH (0 * 10 + (c - 48))).
    rewrite Nat2Z.inj_succ, Z.pow_succ_r by lia. lia.
Qed.

Lemma dv_nil : digits_val [] = 0.
Proof. reflexivity. Qed.

Lemma dv_cons c ds : digits_val (c :: ds) = (c - 48) * 10 ^ Z.of_nat (length ds) + digits_val ds.
Proof. unfold digits_val at 1. cbn [fold_left]. rewrite dv_fold. lia. Qed.

Lemma dv_app a b : digits_val (a ++ b) = digits_val a * 10 ^ Z.of_nat (length b) + digits_val b.
Proof. unfold digits_val at 1. rewrite fold_left_app. fold (digits_val a). apply dv_fold. Qed.

Lemma dv_snoc a c : digits_val (a ++ [c]) = digits_val a * 10 + (c - 48).
Proof. rewrite dv_app. cbn. lia. Qed.

Lemma is_digit_range c : is_digit c = true <-> 48 <= c <= 57.
Proof. unfold is_digit. lia. Qed.

Lemma dv_nonneg ds : forallb is_digit ds = true -> 0 <= digits_val ds.
Proof.
  induction ds as [|c ds IH]; intros H.
  - cbn. lia.
  - cbn [forallb] in H. apply andb_true_iff in H. destruct H as [Hc Hd].
    rewrite dv_cons. apply is_digit_range in Hc. specialize (IH Hd).
    assert (0 < 10 ^ Z.of_nat (length ds)) by (apply Z.pow_pos_nonneg; lia). nia.
Qed.

(* ------------------------------------------------------------------ *)
(* ParseInt: the digit loop                                            *)

Lemma pil_cons kmin c r width value n :
  parse_int_loop kmin (c :: r) width value n =
  if is_digit c then
    if value <? Z.quot kmin 10 then (value, c :: r, n, true)
    else if value * 10 <? kmin + (c - 48) then (value * 10, c :: r, n, true)
    else if (0 <? width) && (width - 1 =? 0) then (value * 10 - (c - 48), r, S n, false)
    else parse_int_loop kmin r (if 0 <? width then width - 1 else width) (value * 10 - (c - 48)) (S n)
  else (value, c :: r, n, false).
Proof.
  cbn [parse_int_loop]. rewrite strchr_digits.
  destruct (is_digit c) eqn:E.
  - apply is_digit_range in E. replace (10 <=? c - 48) with false by lia. reflexivity.
  - destruct (c =? 0); reflexivity.
Qed.

Lemma pil_sound kmin : kmin < 0 -> forall p width value n value' rest n',
  kmin <= value <= 0 ->
  parse_int_loop kmin p width value n = (value', rest, n', false) ->
  exists ds, p = ds ++ rest /\ forallb is_digit ds = true /\ n' = (n + length ds)%nat /\
    value' = value * 10 ^ Z.of_nat (length ds) - digits_val ds /\ kmin <= value' <= 0 /\
    (0 < width -> Z.of_nat (length ds) <= width).
Proof.
  intros Hk. induction p as [|c r IH]; intros width value n value' rest n' Hv H.
  - cbn in H. inversion H; subst. exists []. cbn. repeat split; try lia.
  - rewrite pil_cons in H. destruct (is_digit c) eqn:Ec.
    + apply is_digit_range in Ec.
      destruct (value <? Z.quot kmin 10) eqn:E1; [discriminate|].
      destruct (value * 10 <? kmin + (c - 48)) eqn:E2; [discriminate|].
      destruct ((0 <? width) && (width - 1 =? 0)) eqn:E3.
      * inversion H; subst. exists [c]. cbn [app forallb length].
        rewrite dv_cons, dv_nil. cbn [length].
        replace (is_digit c) with true by (symmetry; apply is_digit_range; lia).
        repeat split; try lia.
      * apply IH in H; [|lia]. destruct H as (ds & -> & Hd & Hn & Hval & Hr & Hw).
        exists (c :: ds). cbn [app forallb length]. rewrite dv_cons.
        replace (is_digit c) with true by (symmetry; apply is_digit_range; lia).
        rewrite Nat2Z.inj_succ, Z.pow_succ_r by lia.
        repeat split; try lia; auto.
        intros Hw0. destruct (0 <? width) eqn:E4; [|lia].
        assert (0 < width - 1) by lia. specialize (Hw H). lia.
    + inversion H; subst. exists []. cbn. repeat split; try lia.
Qed.

Lemma pil_complete kmin : kmin < 0 -> forall ds k width value n,
  forallb is_digit ds = true -> no_digit_head' k -> width <= 0 -> value <= 0 ->
  kmin <= value * 10 ^ Z.of_nat (length ds) - digits_val ds ->
  parse_int_loop kmin (ds ++ k) width value n =
    (value * 10 ^ Z.of_nat (length ds) - digits_val ds, k, (n + length ds)%nat, false).
Proof.
  intros Hk. induction ds as [|c ds IH]; intros k width value n Hd Hkk Hw Hv Hlo.
  - cbn [app length]. rewrite dv_nil. replace (value * 10 ^ Z.of_nat 0 - 0) with value by (cbn; lia).
    rewrite Nat.add_0_r. destruct k as [|c k]; [reflexivity|].
    rewrite pil_cons. cbn in Hkk. rewrite Hkk. reflexivity.
  - cbn [forallb] in Hd. apply andb_true_iff in Hd. destruct Hd as [Hc Hd].
    cbn [app]. rewrite pil_cons, Hc. apply is_digit_range in Hc.
    cbn [length] in *. rewrite dv_cons in *. rewrite Nat2Z.inj_succ, Z.pow_succ_r in * by lia.
    pose proof (dv_nonneg ds Hd) as Hnn.
    assert (HP : 0 < 10 ^ Z.of_nat (length ds)) by (apply Z.pow_pos_nonneg; lia).
    set (P := 10 ^ Z.of_nat (length ds)) in *. clearbody P.
    assert (Hx : kmin <= value * 10 - (c - 48)) by nia.
    replace (value <? Z.quot kmin 10) with false by lia.
    replace (value * 10 <? kmin + (c - 48)) with false by lia.
    replace ((0 <? width) && (width - 1 =? 0)) with false by lia.
    replace (0 <? width) with false by lia.
    rewrite IH; auto; try lia.
    match goal with |- (?a, _, ?c, _) = (?a', _, ?c', _) => replace a with a' by lia; replace c with c' by lia; reflexivity end.
Qed.

(* ------------------------------------------------------------------ *)
(* ParseInt proper                                                     *)

Lemma parse_int_unf kmin dp width lo hi :
  parse_int kmin dp width lo hi =
  let '(neg, start, w1) :=
    match dp with
    | c :: r =>
        if c =? 45 then
          if (width <=? 0) || negb (width - 1 =? 0) then (true, Some r, if width <=? 0 then width else width - 1)
          else (true, None, width - 1)
        else (false, Some dp, width)
    | [] => (false, Some dp, width)
    end in
  match start with
  | None => None
  | Some bp =>
      let '(value, rest, n, erange) := parse_int_loop kmin bp w1 0 0 in
      if negb (Nat.eqb n 0) && negb erange && (neg || negb (value =? kmin)) then
        if negb neg || negb (value =? 0) then
          let v := if neg then value else - value in
          if (lo <=? v) && (v <=? hi) then Some (v, rest) else None
        else None
      else None
  end.
Proof.
  unfold parse_int. destruct dp as [|c r]; [reflexivity|].
  destruct (Z.eqb_spec c 45) as [->|Hn]; [reflexivity|].
  walk_Z c; try reflexivity. congruence.
Qed.

Lemma signed_value_unf cs :
  signed_value' cs =
  match cs with
  | c :: ds =>
      if c =? 45 then if forallb is_digit ds && negb (Nat.eqb (length ds) 0) then Some (- digits_val ds) else None
      else if forallb is_digit cs && negb (Nat.eqb (length cs) 0) then Some (digits_val cs) else None
  | [] => if forallb is_digit cs && negb (Nat.eqb (length cs) 0) then Some (digits_val cs) else None
  end.
Proof.
  unfold signed_value'. destruct cs as [|c r]; [reflexivity|].
  destruct (Z.eqb_spec c 45) as [->|Hn]; [reflexivity|].
  walk_Z c; try reflexivity. congruence.
Qed.

Theorem parse_int_sound_lemma : forall kmin dp width lo hi v rest,
  kmin < 0 -> parse_int kmin dp width lo hi = Some (v, rest) ->
  exists cs, dp = cs ++ rest /\ signed_value' cs = Some v /\ lo <= v <= hi /\
             kmin <= v <= - (kmin + 1) /\ (0 < width -> Z.of_nat (length cs) <= width).
Proof.
  intros kmin dp width lo hi v rest Hk H. rewrite parse_int_unf in H.
  assert (Hpos : forall bp, dp = bp -> (match bp with c :: _ => c <> 45 | [] => True end) ->
     (let '(value, rest, n, erange) := parse_int_loop kmin bp width 0 0 in
      if negb (Nat.eqb n 0) && negb erange && (false || negb (value =? kmin)) then
        if negb false || negb (value =? 0) then
          let v := if false then value else - value in
          if (lo <=? v) && (v <=? hi) then Some (v, rest) else None
        else None
      else None) = Some (v, rest) ->
     exists cs, dp = cs ++ rest /\ signed_value' cs = Some v /\ lo <= v <= hi /\
             kmin <= v <= - (kmin + 1) /\ (0 < width -> Z.of_nat (length cs) <= width)).
  { intros bp <- Hhd H1.
    destruct (parse_int_loop kmin dp width 0 0) as [[[value rest'] n] er] eqn:EL.
    destruct n as [|n]; [discriminate|]. destruct er; [discriminate|].
    cbn [Nat.eqb negb andb orb] in H1.
    destruct (value =? kmin) eqn:E1; [discriminate|]. cbn [negb] in H1.
    destruct ((lo <=? - value) && (- value <=? hi)) eqn:E2; [|discriminate].
    inversion H1; subst. clear H1.
    apply pil_sound in EL; [|lia|lia].
    destruct EL as (ds & -> & Hd & Hn & Hval & Hr & Hw).
    exists ds. split; [reflexivity|]. split.
    - rewrite signed_value_unf. destruct ds as [|c ds]; [cbn in Hn; lia|].
      cbn [app] in Hhd. replace (c =? 45) with false by lia.
      rewrite Hd. cbn [length Nat.eqb negb andb]. f_equal. lia.
    - repeat split; try lia; auto. }
  destruct dp as [|c r].
  - apply (Hpos []); auto.
  - destruct (Z.eqb_spec c 45) as [->|Hn].
    + clear Hpos.
      destruct ((width <=? 0) || negb (width - 1 =? 0)) eqn:Ew; [|discriminate].
      set (w1 := if width <=? 0 then width else width - 1) in *.
      destruct (parse_int_loop kmin r w1 0 0) as [[[value rest'] n] er] eqn:EL.
      destruct n as [|n]; [discriminate|]. destruct er; [discriminate|].
      cbn [Nat.eqb negb andb orb] in H.
      destruct (value =? 0) eqn:E1; [discriminate|]. cbn [negb] in H.
      destruct ((lo <=? value) && (value <=? hi)) eqn:E2; [|discriminate].
      inversion H; subst. clear H.
      apply pil_sound in EL; [|lia|lia].
      destruct EL as (ds & -> & Hd & Hnn & Hval & Hr & Hw).
      exists (45 :: ds). split; [reflexivity|]. split.
      * rewrite signed_value_unf. replace (45 =? 45) with true by reflexivity.
        rewrite Hd. destruct ds as [|c ds]; [cbn in Hnn; lia|].
        cbn [length Nat.eqb negb andb]. f_equal. lia.
      * repeat split; try lia. intros Hw0. cbn [length]. rewrite Nat2Z.inj_succ.
        subst w1. destruct (width <=? 0) eqn:E3; [lia|].
        assert (0 < width - 1) by lia. specialize (Hw H). lia.
    + apply (Hpos (c :: r)); auto.
Qed.

(* ------------------------------------------------------------------ *)
(* Format02d / Format64 followed by ParseInt                           *)

Lemma pp_digit_char d : 0 <= d <= 9 -> digit_char d = OK (48 + d).
Proof.
  intros H.
  assert (E : d = 0 \/ d = 1 \/ d = 2 \/ d = 3 \/ d = 4 \/ d = 5 \/ d = 6 \/ d = 7 \/ d = 8 \/ d = 9) by lia.
  repeat (destruct E as [->|E]; [reflexivity|]). subst; reflexivity.
Qed.

Lemma pp_format02d v : 0 <= v <= 99 -> format02d v = OK [48 + v / 10; 48 + v mod 10].
Proof.
  intros H. unfold format02d.
  replace (Z.rem (Z.quot v 10) 10) with (v / 10) by lia.
  replace (Z.rem v 10) with (v mod 10) by lia.
  rewrite !pp_digit_char by lia. reflexivity.
Qed.

Lemma is_digit_48 a : 0 <= a <= 9 -> is_digit (48 + a) = true.
Proof. intros. apply is_digit_range. lia. Qed.

Lemma pp_parse2 kmin a b k lo hi : kmin <= -100 -> 0 <= a <= 9 -> 0 <= b <= 9 -> lo <= 10 * a + b <= hi ->
  parse_int kmin ((48 + a) :: (48 + b) :: k) 2 lo hi = Some (10 * a + b, k).
Proof.
  intros Hk Ha Hb Hr. rewrite parse_int_unf. replace (48 + a =? 45) with false by lia.
  cbv beta iota zeta.
  rewrite pil_cons, is_digit_48 by lia.
  replace (0 <? Z.quot kmin 10) with false by lia.
  replace (0 * 10 <? kmin + (48 + a - 48)) with false by lia.
  change ((0 <? 2) && (2 - 1 =? 0)) with false. change (if 0 <? 2 then 2 - 1 else 2) with 1.
  cbv beta iota.
  rewrite pil_cons, is_digit_48 by lia.
  replace (0 * 10 - (48 + a - 48) <? Z.quot kmin 10) with false by lia.
  replace ((0 * 10 - (48 + a - 48)) * 10 <? kmin + (48 + b - 48)) with false by lia.
  change ((0 <? 1) && (1 - 1 =? 0)) with true. cbv beta iota.
  cbn [Nat.eqb negb andb orb].
  replace ((0 * 10 - (48 + a - 48)) * 10 - (48 + b - 48) =? kmin) with false by lia.
  cbn [negb].
  replace (- ((0 * 10 - (48 + a - 48)) * 10 - (48 + b - 48))) with (10 * a + b) by lia.
  replace ((lo <=? 10 * a + b) && (10 * a + b <=? hi)) with true by lia.
  reflexivity.
Qed.

Lemma pp_parse_fmt02 kmin v k lo hi : kmin <= -100 -> 0 <= v <= 99 -> lo <= v <= hi ->
  parse_int kmin ((48 + v / 10) :: (48 + v mod 10) :: k) 2 lo hi = Some (v, k).
Proof.
  intros. replace v with (10 * (v / 10) + v mod 10) at 3 by lia.
  apply pp_parse2; lia.
Qed.

Theorem parseint_format02d_lemma : forall v k bs lo hi, 0 <= v <= 99 -> lo <= v <= hi -> 0 <= lo ->
  format02d v = OK bs -> parse_int32 (bs ++ k) 2 lo hi = Some (v, k).
Proof.
  intros v k bs lo hi Hv Hr _ H. rewrite pp_format02d in H by lia. inversion H; subst.
  cbn [app]. unfold parse_int32. apply pp_parse_fmt02; unfold min32; lia.
Qed.

Lemma pp_fmt_digits fuel : forall v acc ds, 0 <= v -> fmt_digits fuel v acc = OK ds ->
  exists ds0, ds = ds0 ++ acc /\ forallb is_digit ds0 = true /\ ds0 <> [] /\ digits_val ds0 = v.
Proof.
  induction fuel as [|f IH]; intros v acc ds Hv H; [discriminate|].
  cbn [fmt_digits] in H.
  replace (Z.rem v 10) with (v mod 10) in H by lia.
  rewrite pp_digit_char in H by lia. cbn [bind] in H.
  destruct (Z.quot v 10 =? 0) eqn:E.
  - inversion H; subst. exists [48 + v mod 10]. cbn [app forallb]. rewrite is_digit_48 by lia.
    repeat split; [discriminate|]. rewrite dv_cons, dv_nil. cbn [length]. lia.
  - apply IH in H; [|lia]. destruct H as (ds1 & -> & Hd & Hne & Hdv).
    exists (ds1 ++ [48 + v mod 10]). rewrite <- app_assoc. cbn [app].
    rewrite forallb_app, Hd. cbn [forallb]. rewrite is_digit_48 by lia.
    repeat split.
    + destruct ds1; discriminate.
    + rewrite dv_snoc, Hdv. lia.
Qed.

Lemma pp_parse_neg kmin ds k lo hi v : kmin < 0 -> forallb is_digit ds = true -> ds <> [] -> no_digit_head' k ->
  v = - digits_val ds -> kmin <= v -> v <> 0 -> lo <= v <= hi ->
  parse_int kmin (45 :: ds ++ k) 0 lo hi = Some (v, k).
Proof.
  intros Hk Hd Hne Hkk Hv Hlo Hnz Hr. rewrite parse_int_unf.
  change (45 =? 45) with true. change ((0 <=? 0) || negb (0 - 1 =? 0)) with true.
  change (if 0 <=? 0 then 0 else 0 - 1) with 0. cbv beta iota zeta.
  rewrite (pil_complete kmin Hk ds k 0 0 0%nat) by (auto; lia).
  cbv beta iota. replace (0 * 10 ^ Z.of_nat (length ds) - digits_val ds) with v by lia.
  destruct ds as [|c ds]; [congruence|]. cbn [length Nat.add Nat.eqb negb andb orb].
  replace (v =? 0) with false by lia. cbn [negb].
  replace ((lo <=? v) && (v <=? hi)) with true by lia. reflexivity.
Qed.

Lemma pp_parse_pos kmin ds k lo hi v : kmin < 0 -> forallb is_digit ds = true -> ds <> [] -> no_digit_head' k ->
  v = digits_val ds -> kmin < - v -> lo <= v <= hi ->
  parse_int kmin (ds ++ k) 0 lo hi = Some (v, k).
Proof.
  intros Hk Hd Hne Hkk Hv Hlo Hr. rewrite parse_int_unf.
  destruct ds as [|c ds]; [congruence|].
  assert (Hc : 48 <= c <= 57).
  { cbn [forallb] in Hd. apply andb_true_iff in Hd. apply is_digit_range. tauto. }
  cbn [app]. replace (c =? 45) with false by lia. cbv beta iota zeta.
  change (c :: ds ++ k) with ((c :: ds) ++ k).
  rewrite (pil_complete kmin Hk (c :: ds) k 0 0 0%nat) by (auto; lia).
  cbv beta iota. replace (0 * 10 ^ Z.of_nat (length (c :: ds)) - digits_val (c :: ds)) with (- v) by lia.
  cbn [length Nat.add Nat.eqb negb andb orb].
  replace (- v =? kmin) with false by lia. cbn [negb]. rewrite Z.opp_involutive.
  replace ((lo <=? v) && (v <=? hi)) with true by lia. reflexivity.
Qed.

Theorem parseint_format64_lemma : forall v k bs, int64 v -> no_digit_head' k ->
  format64 0 v = OK bs -> parse_int64 (bs ++ k) 0 min64 max64 = Some (v, k).
Proof.
  intros v k bs Hv Hk H. unfold int64, parse_int64 in *.
  destruct (Z.eqb_spec v min64) as [->|Hne].
  - vm_compute in H. inversion H; subst. clear H. cbn [app].
    apply (pp_parse_neg min64 [57; 50; 50; 51; 51; 55; 50; 48; 51; 54; 56; 53; 52; 55; 55; 53; 56; 48; 56] k);
      auto; try reflexivity; try discriminate; unfold min64, max64; lia.
  - unfold format64 in H. destruct (v <? 0) eqn:Eneg.
    + replace (v =? min64) with false in H by lia.
      unfold neg64 in H. rewrite chk64_in in H by (unfold int64, min64, max64 in *; lia).
      cbn [bind] in H. apply bind_ok in H. destruct H as (ds & Hds & H).
      apply pp_fmt_digits in Hds; [|lia]. destruct Hds as (ds0 & -> & Hd & Hn0 & Hdv).
      rewrite app_nil_r in H. unfold fits in H.
      match type of H with context [repeat 48 ?n] => replace n with 0%nat in H by (cbn [length]; lia) end.
      cbn [repeat app] in H.
      destruct (Z.of_nat (length (45 :: ds0)) <=? scratch_size); [|discriminate].
      inversion H; subst. clear H. cbn [app].
      apply pp_parse_neg; auto; unfold min64, max64 in *; lia.
    + cbn [bind] in H. apply bind_ok in H. destruct H as (ds & Hds & H).
      apply pp_fmt_digits in Hds; [|lia]. destruct Hds as (ds0 & -> & Hd & Hn0 & Hdv).
      rewrite app_nil_r in H. unfold fits in H.
      match type of H with context [repeat 48 ?n] => replace n with 0%nat in H by (cbn [length]; lia) end.
      cbn [repeat app] in H.
      destruct (Z.of_nat (length ds0) <=? scratch_size); [|discriminate].
      inversion H; subst. clear H.
      apply pp_parse_pos; auto; unfold min64, max64 in *; lia.
Qed.
