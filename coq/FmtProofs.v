(* FmtProofs.v — proofs for C08: format() (FormatImpl.v) against the documented
   renderings (FmtSpec.v).  No axioms; strftime stays a universally
   quantified oracle. *)
From Coq Require Import Lia ZifyBool.
From CCTZ Require Import Base SrcConstants Cal CivilImpl PosixImpl ZoneLoad FormatImpl FmtSpec
  CalProofs WeekdayProofs CivilNorm CivilDiff.
Local Open Scope Z_scope.
Ltac Zify.zify_post_hook ::= Z.to_euclidean_division_equations.
Local Strategy 100 [civil_of_seconds civil_of_days days_from_civil].

Ltac f_i64 := unfold int64, min64, max64 in *; lia.

(* ================================================================== *)
(* Part 1: decimal digits, Format64                                    *)

Lemma digit_char_ok d : 0 <= d <= 9 -> digit_char d = OK (48 + d).
Proof.
  intros H.
  assert (d = 0 \/ d = 1 \/ d = 2 \/ d = 3 \/ d = 4 \/ d = 5 \/ d = 6 \/ d = 7 \/ d = 8 \/ d = 9) as C by lia.
  repeat (destruct C as [C|C]; [subst d; reflexivity|]). subst d; reflexivity.
Qed.

Lemma pow10_S k : 10 ^ Z.of_nat (S k) = 10 * 10 ^ Z.of_nat k.
Proof. rewrite Nat2Z.inj_succ, Z.pow_succ_r by lia. reflexivity. Qed.

Lemma pow10_pos k : 0 < 10 ^ Z.of_nat k.
Proof. apply Z.pow_pos_nonneg; lia. Qed.

Lemma fmt_digits_ok : forall fuel v acc, 0 <= v < 10 ^ Z.of_nat (S fuel) ->
  fmt_digits (S fuel) v acc = OK (dec_digits_fuel (S fuel) v acc).
Proof.
  induction fuel as [|f IH]; intros v acc H.
  - change (10 ^ Z.of_nat 1) with 10 in H.
    cbn [fmt_digits dec_digits_fuel].
    rewrite Z.rem_mod_nonneg, Z.quot_div_nonneg by lia.
    rewrite digit_char_ok by lia. cbn [bind].
    replace (v / 10 =? 0) with true by lia. reflexivity.
  - rewrite pow10_S in H. pose proof (pow10_pos (S f)) as P.
    set (Q := 10 ^ Z.of_nat (S f)) in *.
    remember (S f) as f1 eqn:Ef.
    cbn [fmt_digits dec_digits_fuel].
    rewrite Z.rem_mod_nonneg, Z.quot_div_nonneg by lia.
    rewrite digit_char_ok by lia. cbn [bind].
    destruct (v / 10 =? 0) eqn:E; [reflexivity|].
    subst f1. apply IH. fold Q. clearbody Q. lia.
Qed.

Lemma ddf_fuel_irrel : forall f1 f2 v acc, 0 <= v < 10 ^ Z.of_nat (S f1) -> (f1 <= f2)%nat ->
  dec_digits_fuel (S f1) v acc = dec_digits_fuel (S f2) v acc.
Proof.
  induction f1 as [|f IH]; intros f2 v acc H L.
  - change (10 ^ Z.of_nat 1) with 10 in H.
    cbn [dec_digits_fuel]. replace (v / 10 =? 0) with true by lia. reflexivity.
  - destruct f2 as [|f2]; [lia|].
    rewrite pow10_S in H. pose proof (pow10_pos (S f)) as P.
    set (Q := 10 ^ Z.of_nat (S f)) in *.
    remember (S f) as a eqn:Ea. remember (S f2) as b eqn:Eb.
    cbn [dec_digits_fuel].
    destruct (v / 10 =? 0) eqn:E; [reflexivity|].
    subst a b. apply IH; [|lia]. fold Q. clearbody Q. lia.
Qed.

Lemma ddf_app : forall f v acc, dec_digits_fuel f v acc = dec_digits_fuel f v [] ++ acc.
Proof.
  induction f as [|f IH]; intros v acc; cbn [dec_digits_fuel]; [reflexivity|].
  destruct (v / 10 =? 0); [reflexivity|].
  rewrite IH. rewrite (IH _ [_]). rewrite <- app_assoc. reflexivity.
Qed.

Lemma ddf_length : forall f v acc k, 0 <= v < 10 ^ Z.of_nat (S k) ->
  (length (dec_digits_fuel f v acc) <= S k + length acc)%nat.
Proof.
  induction f as [|f IH]; intros v acc k H; cbn [dec_digits_fuel]; [lia|].
  destruct (v / 10 =? 0) eqn:E; [cbn [length]; lia|].
  destruct k as [|k].
  - change (10 ^ Z.of_nat 1) with 10 in H. lia.
  - rewrite pow10_S in H. pose proof (pow10_pos (S k)) as P.
    set (Q := 10 ^ Z.of_nat (S k)) in *.
    assert (0 <= v / 10 < Q) as H' by (clearbody Q; lia).
    specialize (IH (v / 10) ((48 + v mod 10) :: acc) k H').
    cbn [length] in IH. lia.
Qed.

Lemma ddf_nonempty : forall f v acc, (1 + length acc <= length (dec_digits_fuel (S f) v acc))%nat.
Proof.
  induction f as [|f IH]; intros v acc.
  - cbn [dec_digits_fuel]. destruct (v / 10 =? 0); cbn [length]; lia.
  - remember (S f) as a. cbn [dec_digits_fuel]. destruct (v / 10 =? 0); [cbn [length]; lia|].
    subst a. specialize (IH (v / 10) ((48 + v mod 10) :: acc)). cbn [length] in IH. lia.
Qed.

Definition P25 : Z := 10000000000000000000000000.
Lemma P25_eq : 10 ^ Z.of_nat 25 = P25.
Proof. reflexivity. Qed.

Lemma fmt_digits_dec v acc : 0 <= v < P25 ->
  fmt_digits 25 v acc = OK (dec_digits v ++ acc).
Proof.
  intros H. rewrite fmt_digits_ok by (rewrite P25_eq; exact H).
  rewrite ddf_app. unfold dec_digits.
  rewrite (ddf_fuel_irrel 24 39) by (try rewrite P25_eq; lia). reflexivity.
Qed.

Lemma dec_digits_length v k : 0 <= v < 10 ^ Z.of_nat (S k) -> (1 <= length (dec_digits v) <= S k)%nat.
Proof.
  intros H. unfold dec_digits. pose proof (ddf_length 40 v [] k H) as L.
  pose proof (ddf_nonempty 39 v []) as N. cbn [length] in *. lia.
Qed.

Lemma dec_digits_len19 v : 0 <= v <= 9223372036854775808 -> (1 <= length (dec_digits v) <= 19)%nat.
Proof.
  intros H. apply dec_digits_length.
  change (10 ^ Z.of_nat 19) with 10000000000000000000. lia.
Qed.

Lemma fits_ok bs : Z.of_nat (length bs) <= scratch_size -> fits bs = OK bs.
Proof. intros H. unfold fits. replace (_ <=? _) with true by lia. reflexivity. Qed.

Lemma scratch_size_eq : scratch_size = 21.
Proof. reflexivity. Qed.

Lemma pad_left_length w c s : length (pad_left w c s) = Nat.max w (length s).
Proof. unfold pad_left. rewrite app_length, repeat_length. lia. Qed.

Lemma dec_width_length w v : int64 v -> (w <= 18)%nat ->
  Z.of_nat (length (dec_width w v)) <= 20.
Proof.
  intros Hv Hw. unfold dec_width.
  destruct (v <? 0) eqn:E.
  - pose proof (dec_digits_len19 (- v) ltac:(f_i64)) as L.
    cbn [length]. rewrite pad_left_length. lia.
  - pose proof (dec_digits_len19 v ltac:(f_i64)) as L.
    rewrite pad_left_length. lia.
Qed.

Lemma format64_spec w v : int64 v -> 0 <= w <= 18 ->
  format64 w v = OK (dec_width (Z.to_nat w) v).
Proof.
  intros Hv Hw.
  pose proof (dec_width_length (Z.to_nat w) v Hv ltac:(lia)) as HL.
  unfold format64, dec_width in *.
  destruct (v <? 0) eqn:Hneg.
  - destruct (v =? min64) eqn:Hmin.
    + assert (v = min64) by lia. subst v.
      remember (w - 2) as x eqn:Ex.
      match goal with |- bind ?e _ = _ =>
        let e' := eval vm_compute in e in change e with e' end.
      cbn [bind].
      rewrite fmt_digits_dec by (unfold P25; lia). cbn [bind].
      change (dec_digits 922337203685477580 ++ [56]) with (dec_digits (- min64)) in *.
      set (ds := dec_digits (- min64)) in *.
      assert (length ds = 19%nat) as Hl by reflexivity.
      clearbody ds. unfold pad_left in *.
      replace (Z.to_nat (x - (Z.of_nat (length ds) - Z.of_nat (length [56]))))
        with (Z.to_nat w - 1 - length ds)%nat by (cbn [length]; lia).
      apply fits_ok. rewrite scratch_size_eq. lia.
    + unfold neg64. rewrite chk64_in by f_i64. cbn [bind].
      rewrite fmt_digits_dec by (unfold P25; f_i64). cbn [bind].
      rewrite app_nil_r in *.
      set (ds := dec_digits (- v)) in *. clearbody ds. unfold pad_left in *.
      replace (Z.to_nat (w - 1 - (Z.of_nat (length ds) - Z.of_nat (length (@nil Z)))))
        with (Z.to_nat w - 1 - length ds)%nat by (cbn [length]; lia).
      apply fits_ok. rewrite scratch_size_eq. lia.
  - cbn [bind].
    rewrite fmt_digits_dec by (unfold P25; f_i64). cbn [bind].
    rewrite app_nil_r in *.
    set (ds := dec_digits v) in *. clearbody ds. unfold pad_left in *.
    replace (Z.to_nat (w - (Z.of_nat (length ds) - Z.of_nat (length (@nil Z)))))
      with (Z.to_nat w - length ds)%nat by (cbn [length]; lia).
    apply fits_ok. rewrite scratch_size_eq. lia.
Qed.

Lemma scratch_bound_lemma : forall w v, int64 v -> 0 <= w <= 18 ->
  exists bs, format64 w v = OK bs /\ Z.of_nat (length bs) <= scratch_size.
Proof.
  intros w v Hv Hw. eexists. split; [apply format64_spec; assumption|].
  pose proof (dec_width_length (Z.to_nat w) v Hv ltac:(lia)). rewrite scratch_size_eq. lia.
Qed.

Lemma dec_width_0 v : dec_width 0 v = dec v.
Proof. reflexivity. Qed.

Lemma format64_0 v : int64 v -> format64 0 v = OK (dec v).
Proof. intros H. rewrite format64_spec by (auto; lia). reflexivity. Qed.

(* ================================================================== *)
(* Part 2: ToTM                                                        *)

Definition al_ok' (al : alookup) : Prop :=
  valid_fields (al_cs al) = true /\ int64 (fy (al_cs al)) /\ -86400 <= al_off al <= 86400.

Lemma to_tm_wday_spec z : to_tm_wday (weekday_of_days z) = (weekday_of_days z + 1) mod 7.
Proof. unfold to_tm_wday, weekday_of_days. destruct (_ =? 6) eqn:E; lia. Qed.

Lemma to_tm_spec_lemma : forall al,
  (valid_fields (al_cs al) = true /\ int64 (fy (al_cs al)) /\ -86400 <= al_off al <= 86400) ->
  to_tm al = OK (spec_tm (al_cs al) (al_dst al)).
Proof.
  intros al (V & I & _). unfold to_tm, spec_tm.
  rewrite weekday_spec_lemma by assumption. cbn [bind].
  destruct (yearday_spec_lemma _ V I) as [-> _]. cbn [bind].
  rewrite to_tm_wday_spec. unfold wday_sun0, yday0.
  f_equal. f_equal; [|lia].
  destruct (fy (al_cs al) <? min32 + 1900) eqn:E1; [reflexivity|].
  unfold max32, min32 in *.
  destruct (2147483647 <? fy (al_cs al) - 1900) eqn:E2;
  destruct (2147483647 + 1900 <? fy (al_cs al)) eqn:E3; try reflexivity; lia.
Qed.

(* ================================================================== *)
(* Part 3a: per-specifier lemmas                                       *)

Definition res_eqb (r : res (list Z)) (l : list Z) : bool :=
  match r with OK x => list_eqb x l | Err _ => false end.
Lemma res_eqb_eq r l : res_eqb r l = true -> r = OK l.
Proof. destruct r as [x|e]; cbn; [|discriminate]. intros H. apply list_eqb_eq in H. congruence. Qed.

Definition f02_check (v : Z) : bool :=
  res_eqb (format02d v) (dec2 v) && Nat.eqb (length (dec2 v)) 2 &&
  res_eqb (do b <- format02d v ;; OK (match b with 48 :: r => 32 :: r | _ => b end))
          (pad_left 2 32 (dec_digits v)).
Lemma f02_sweep : forallb f02_check (zrange 0 100) = true.
Proof. vm_compute. reflexivity. Qed.

Lemma f02_all v : 0 <= v <= 99 -> f02_check v = true.
Proof.
  intros H. pose proof f02_sweep as S. rewrite forallb_forall in S. apply S.
  apply zrange_In. lia.
Qed.

Lemma format02d_ok v : 0 <= v <= 99 -> format02d v = OK (dec2 v).
Proof.
  intros H. apply f02_all in H. unfold f02_check in H.
  rewrite !andb_true_iff in H. apply res_eqb_eq. tauto.
Qed.
Lemma dec2_length v : 0 <= v <= 99 -> length (dec2 v) = 2%nat.
Proof.
  intros H. apply f02_all in H. unfold f02_check in H.
  rewrite !andb_true_iff in H. apply Nat.eqb_eq. tauto.
Qed.
Lemma format02d_e_ok v : 0 <= v <= 99 ->
  (do b <- format02d v ;; OK (match b with 48 :: r => 32 :: r | _ => b end))
  = OK (pad_left 2 32 (dec_digits v)).
Proof.
  intros H. apply f02_all in H. unfold f02_check in H.
  rewrite !andb_true_iff in H. apply res_eqb_eq. tauto.
Qed.

Definition off_check (off : Z) : bool :=
  res_eqb (format_offset off []) (render_offset off [] false false) &&
  res_eqb (format_offset off [58]) (render_offset off [58] false false) &&
  res_eqb (format_offset off [58; 42]) (render_offset off [58] true false) &&
  res_eqb (format_offset off [58; 42; 58]) (render_offset off [58] true true).
Lemma off_sweep : forallb off_check (zrange (-86400) (Z.to_nat 172801)) = true.
Proof. vm_compute. reflexivity. Qed.

Lemma off_all off : -86400 <= off <= 86400 -> off_check off = true.
Proof.
  intros H. pose proof off_sweep as S. rewrite forallb_forall in S. apply S.
  apply zrange_In. lia.
Qed.

Lemma format_offset_z off : -86400 <= off <= 86400 ->
  format_offset off [] = OK (render_offset off [] false false).
Proof. intros H. apply off_all in H. unfold off_check in H. rewrite !andb_true_iff in H. apply res_eqb_eq. tauto. Qed.
Lemma format_offset_cz off : -86400 <= off <= 86400 ->
  format_offset off [58] = OK (render_offset off [58] false false).
Proof. intros H. apply off_all in H. unfold off_check in H. rewrite !andb_true_iff in H. apply res_eqb_eq. tauto. Qed.
Lemma format_offset_ccz off : -86400 <= off <= 86400 ->
  format_offset off [58; 42] = OK (render_offset off [58] true false).
Proof. intros H. apply off_all in H. unfold off_check in H. rewrite !andb_true_iff in H. apply res_eqb_eq. tauto. Qed.
Lemma format_offset_cccz off : -86400 <= off <= 86400 ->
  format_offset off [58; 42; 58] = OK (render_offset off [58] true true).
Proof. intros H. apply off_all in H. unfold off_check in H. rewrite !andb_true_iff in H. apply res_eqb_eq. tauto. Qed.
