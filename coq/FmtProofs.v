(* FmtProofs.v — proofs for C08: format() (FormatImpl.v) against the documented
   renderings (FmtSpec.v).  No axioms; strftime stays a universally
   quantified oracle. *)
From Coq Require Import Lia ZifyBool.
From CCTZ Require Import Base SrcConstants Cal CivilImpl PosixImpl ZoneLoad FormatImpl FmtSpec
  CalProofs WeekdayProofs CivilNorm CivilDiff.
Local Open Scope Z_scope.
Ltac Zify.zify_post_hook ::= Z.to_euclidean_division_equations.
Local Strategy 100 [civil_of_seconds civil_of_days days_from_civil].
(* lex_fuel / fmt_loop have very large bodies (compiled literal patterns): the
   kernel must unfold them last. *)
Local Strategy 200 [lex_fuel fmt_loop].

Ltac f_i64 := unfold int64, min64, max64 in *; lia.

(* ================================================================== *)
(* Part 1: decimal digits, Format64                                    *)

Lemma digit_char_ok d : 0 <= d <= 9 -> digit_char d = OK (48 + d).
Proof.
  intros H.
  assert (d = 0 \/ d = 1 \/ d = 2 \/ d = 3 \/ d = 4 \/ d = 5 \/ d = 6 \/ d = 7 \/ d = 8 \/ d = 9) as C by lia.
  repeat (destruct C as [C|C]; [subst d; reflexivity|]). subst d; reflexivity.
Qed.

Lemma pow10_S k : 10 ^ Z.of_nat (S k) = 10 * 10 ^ Z.of_nat k.
Proof. rewrite Nat2Z.inj_succ, Z.pow_succ_r by lia. reflexivity. Qed.

Lemma pow10_pos k : 0 < 10 ^ Z.of_nat k.
Proof. apply Z.pow_pos_nonneg; lia. Qed.

Lemma fmt_digits_ok : forall fuel v acc, 0 <= v < 10 ^ Z.of_nat (S fuel) ->
  fmt_digits (S fuel) v acc = OK (dec_digits_fuel (S fuel) v acc).
Proof.
  induction fuel as [|f IH]; intros v acc H.
  - change (10 ^ Z.of_nat 1) with 10 in H.
    cbn [fmt_digits dec_digits_fuel].
    rewrite Z.rem_mod_nonneg, Z.quot_div_nonneg by lia.
    rewrite digit_char_ok by lia. cbn [bind].
    replace (v / 10 =? 0) with true by lia. reflexivity.
  - rewrite pow10_S in H. pose proof (pow10_pos (S f)) as P.
    set (Q := 10 ^ Z.of_nat (S f)) in *.
    remember (S f) as f1 eqn:Ef.
    cbn [fmt_digits dec_digits_fuel].
    rewrite Z.rem_mod_nonneg, Z.quot_div_nonneg by lia.
    rewrite digit_char_ok by lia. cbn [bind].
    destruct (v / 10 =? 0) eqn:E; [reflexivity|].
    subst f1. apply IH. fold Q. clearbody Q. lia.
Qed.

Lemma ddf_fuel_irrel : forall f1 f2 v acc, 0 <= v < 10 ^ Z.of_nat (S f1) -> (f1 <= f2)%nat ->
  dec_digits_fuel (S f1) v acc = dec_digits_fuel (S f2) v acc.
Proof.
  induction f1 as [|f IH]; intros f2 v acc H L.
  - change (10 ^ Z.of_nat 1) with 10 in H.
    cbn [dec_digits_fuel]. replace (v / 10 =? 0) with true by lia. reflexivity.
  - destruct f2 as [|f2]; [lia|].
    rewrite pow10_S in H. pose proof (pow10_pos (S f)) as P.
    set (Q := 10 ^ Z.of_nat (S f)) in *.
    remember (S f) as a eqn:Ea. remember (S f2) as b eqn:Eb.
    cbn [dec_digits_fuel].
    destruct (v / 10 =? 0) eqn:E; [reflexivity|].
    subst a b. apply IH; [|lia]. fold Q. clearbody Q. lia.
Qed.

Lemma ddf_app : forall f v acc, dec_digits_fuel f v acc = dec_digits_fuel f v [] ++ acc.
Proof.
  induction f as [|f IH]; intros v acc; cbn [dec_digits_fuel]; [reflexivity|].
  destruct (v / 10 =? 0); [reflexivity|].
  rewrite IH. rewrite (IH _ [_]). rewrite <- app_assoc. reflexivity.
Qed.

Lemma ddf_length : forall f v acc k, 0 <= v < 10 ^ Z.of_nat (S k) ->
  (length (dec_digits_fuel f v acc) <= S k + length acc)%nat.
Proof.
  induction f as [|f IH]; intros v acc k H; cbn [dec_digits_fuel]; [lia|].
  destruct (v / 10 =? 0) eqn:E; [cbn [length]; lia|].
  destruct k as [|k].
  - change (10 ^ Z.of_nat 1) with 10 in H. lia.
  - rewrite pow10_S in H. pose proof (pow10_pos (S k)) as P.
    set (Q := 10 ^ Z.of_nat (S k)) in *.
    assert (0 <= v / 10 < Q) as H' by (clearbody Q; lia).
    specialize (IH (v / 10) ((48 + v mod 10) :: acc) k H').
    cbn [length] in IH. lia.
Qed.

Lemma ddf_nonempty : forall f v acc, (1 + length acc <= length (dec_digits_fuel (S f) v acc))%nat.
Proof.
  induction f as [|f IH]; intros v acc.
  - cbn [dec_digits_fuel]. destruct (v / 10 =? 0); cbn [length]; lia.
  - remember (S f) as a. cbn [dec_digits_fuel]. destruct (v / 10 =? 0); [cbn [length]; lia|].
    subst a. specialize (IH (v / 10) ((48 + v mod 10) :: acc)). cbn [length] in IH. lia.
Qed.

Definition P25 : Z := 10000000000000000000000000.
Lemma P25_eq : 10 ^ Z.of_nat 25 = P25.
Proof. reflexivity. Qed.

Lemma fmt_digits_dec v acc : 0 <= v < P25 ->
  fmt_digits 25 v acc = OK (dec_digits v ++ acc).
Proof.
  intros H. rewrite fmt_digits_ok by (rewrite P25_eq; exact H).
  rewrite ddf_app. unfold dec_digits.
  rewrite (ddf_fuel_irrel 24 39) by (try rewrite P25_eq; lia). reflexivity.
Qed.

Lemma dec_digits_length v k : 0 <= v < 10 ^ Z.of_nat (S k) -> (1 <= length (dec_digits v) <= S k)%nat.
Proof.
  intros H. unfold dec_digits. pose proof (ddf_length 40 v [] k H) as L.
  pose proof (ddf_nonempty 39 v []) as N. cbn [length] in *. lia.
Qed.

Lemma dec_digits_len19 v : 0 <= v <= 9223372036854775808 -> (1 <= length (dec_digits v) <= 19)%nat.
Proof.
  intros H. apply dec_digits_length.
  change (10 ^ Z.of_nat 19) with 10000000000000000000. lia.
Qed.

Lemma fits_ok bs : Z.of_nat (length bs) <= scratch_size -> fits bs = OK bs.
Proof. intros H. unfold fits. replace (_ <=? _) with true by lia. reflexivity. Qed.

Lemma scratch_size_eq : scratch_size = 21.
Proof. reflexivity. Qed.

Lemma pad_left_length w c s : length (pad_left w c s) = Nat.max w (length s).
Proof. unfold pad_left. rewrite app_length, repeat_length. lia. Qed.

Lemma dec_width_length w v : int64 v -> (w <= 18)%nat ->
  Z.of_nat (length (dec_width w v)) <= 20.
Proof.
  intros Hv Hw. unfold dec_width.
  destruct (v <? 0) eqn:E.
  - pose proof (dec_digits_len19 (- v) ltac:(f_i64)) as L.
    cbn [length]. rewrite pad_left_length. lia.
  - pose proof (dec_digits_len19 v ltac:(f_i64)) as L.
    rewrite pad_left_length. lia.
Qed.

Lemma format64_spec w v : int64 v -> 0 <= w <= 18 ->
  format64 w v = OK (dec_width (Z.to_nat w) v).
Proof.
  intros Hv Hw.
  pose proof (dec_width_length (Z.to_nat w) v Hv ltac:(lia)) as HL.
  unfold format64, dec_width in *.
  destruct (v <? 0) eqn:Hneg.
  - destruct (v =? min64) eqn:Hmin.
    + assert (v = min64) by lia. subst v.
      remember (w - 2) as x eqn:Ex.
      match goal with |- bind ?e _ = _ =>
        let e' := eval vm_compute in e in change e with e' end.
      cbn [bind].
      rewrite fmt_digits_dec by (unfold P25; lia). cbn [bind].
      change (dec_digits 922337203685477580 ++ [56]) with (dec_digits (- min64)) in *.
      set (ds := dec_digits (- min64)) in *.
      assert (length ds = 19%nat) as Hl by reflexivity.
      clearbody ds. unfold pad_left in *.
      replace (Z.to_nat (x - (Z.of_nat (length ds) - Z.of_nat (length [56]))))
        with (Z.to_nat w - 1 - length ds)%nat by (cbn [length]; lia).
      apply fits_ok. rewrite scratch_size_eq. lia.
    + unfold neg64. rewrite chk64_in by f_i64. cbn [bind].
      rewrite fmt_digits_dec by (unfold P25; f_i64). cbn [bind].
      rewrite app_nil_r in *.
      set (ds := dec_digits (- v)) in *. clearbody ds. unfold pad_left in *.
      replace (Z.to_nat (w - 1 - (Z.of_nat (length ds) - Z.of_nat (length (@nil Z)))))
        with (Z.to_nat w - 1 - length ds)%nat by (cbn [length]; lia).
      apply fits_ok. rewrite scratch_size_eq. lia.
  - cbn [bind].
    rewrite fmt_digits_dec by (unfold P25; f_i64). cbn [bind].
    rewrite app_nil_r in *.
    set (ds := dec_digits v) in *. clearbody ds. unfold pad_left in *.
    replace (Z.to_nat (w - (Z.of_nat (length ds) - Z.of_nat (length (@nil Z)))))
      with (Z.to_nat w - length ds)%nat by (cbn [length]; lia).
    apply fits_ok. rewrite scratch_size_eq. lia.
Qed.

Lemma scratch_bound_lemma : forall w v, int64 v -> 0 <= w <= 18 ->
  exists bs, format64 w v = OK bs /\ Z.of_nat (length bs) <= scratch_size.
Proof.
  intros w v Hv Hw. eexists. split; [apply format64_spec; assumption|].
  pose proof (dec_width_length (Z.to_nat w) v Hv ltac:(lia)). rewrite scratch_size_eq. lia.
Qed.

Lemma dec_width_0 v : dec_width 0 v = dec v.
Proof. reflexivity. Qed.

Lemma format64_0 v : int64 v -> format64 0 v = OK (dec v).
Proof. intros H. rewrite format64_spec by (auto; lia). reflexivity. Qed.

(* ================================================================== *)
(* Part 2: ToTM                                                        *)

Definition al_ok' (al : alookup) : Prop :=
  valid_fields (al_cs al) = true /\ int64 (fy (al_cs al)) /\ -93599 <= al_off al <= 93599.

Lemma to_tm_wday_spec z : to_tm_wday (weekday_of_days z) = (weekday_of_days z + 1) mod 7.
Proof. unfold to_tm_wday, weekday_of_days. destruct (_ =? 6) eqn:E; lia. Qed.

Lemma to_tm_spec_lemma : forall al,
  (valid_fields (al_cs al) = true /\ int64 (fy (al_cs al)) /\ -93599 <= al_off al <= 93599) ->
  to_tm al = OK (spec_tm (al_cs al) (al_dst al)).
Proof.
  intros al (V & I & _). unfold to_tm, spec_tm.
  rewrite weekday_spec_lemma by assumption. cbn [bind].
  destruct (yearday_spec_lemma _ V I) as [-> _]. cbn [bind].
  rewrite to_tm_wday_spec. unfold wday_sun0, yday0.
  f_equal. f_equal; [|lia].
  destruct (fy (al_cs al) <? min32 + 1900) eqn:E1; [reflexivity|].
  unfold max32, min32 in *.
  destruct (2147483647 <? fy (al_cs al) - 1900) eqn:E2;
  destruct (2147483647 + 1900 <? fy (al_cs al)) eqn:E3; try reflexivity; lia.
Qed.

(* ================================================================== *)
(* Part 3a: per-specifier lemmas                                       *)

Definition res_eqb (r : res (list Z)) (l : list Z) : bool :=
  match r with OK x => list_eqb x l | Err _ => false end.
Lemma res_eqb_eq r l : res_eqb r l = true -> r = OK l.
Proof. destruct r as [x|e]; cbn; [|discriminate]. intros H. apply list_eqb_eq in H. congruence. Qed.

Definition f02_check (v : Z) : bool :=
  res_eqb (format02d v) (dec2 v) && Nat.eqb (length (dec2 v)) 2 &&
  res_eqb (do b <- format02d v ;; OK (match b with 48 :: r => 32 :: r | _ => b end))
          (pad_left 2 32 (dec_digits v)).
Lemma f02_sweep : forallb f02_check (zrange 0 100) = true.
Proof. vm_compute. reflexivity. Qed.

Lemma f02_all v : 0 <= v <= 99 -> f02_check v = true.
Proof.
  intros H. pose proof f02_sweep as S. rewrite forallb_forall in S. apply S.
  apply zrange_In. lia.
Qed.

Lemma format02d_ok v : 0 <= v <= 99 -> format02d v = OK (dec2 v).
Proof.
  intros H. apply f02_all in H. unfold f02_check in H.
  rewrite !andb_true_iff in H. apply res_eqb_eq. tauto.
Qed.
Lemma dec2_length v : 0 <= v <= 99 -> length (dec2 v) = 2%nat.
Proof.
  intros H. apply f02_all in H. unfold f02_check in H.
  rewrite !andb_true_iff in H. apply Nat.eqb_eq. tauto.
Qed.
Lemma format02d_e_ok v : 0 <= v <= 99 ->
  (do b <- format02d v ;; OK (match b with 48 :: r => 32 :: r | _ => b end))
  = OK (pad_left 2 32 (dec_digits v)).
Proof.
  intros H. apply f02_all in H. unfold f02_check in H.
  rewrite !andb_true_iff in H. apply res_eqb_eq. tauto.
Qed.

Definition off_check (off : Z) : bool :=
  res_eqb (format_offset off []) (render_offset off [] false false) &&
  res_eqb (format_offset off [58]) (render_offset off [58] false false) &&
  res_eqb (format_offset off [58; 42]) (render_offset off [58] true false) &&
  res_eqb (format_offset off [58; 42; 58]) (render_offset off [58] true true).
Lemma off_sweep : forallb off_check (zrange (-93599) (Z.to_nat 187199)) = true.
Proof. vm_compute. reflexivity. Qed.

Lemma off_all off : -93599 <= off <= 93599 -> off_check off = true.
Proof.
  intros H. pose proof off_sweep as S. rewrite forallb_forall in S. apply S.
  apply zrange_In. lia.
Qed.

Lemma format_offset_z off : -93599 <= off <= 93599 ->
  format_offset off [] = OK (render_offset off [] false false).
Proof. intros H. apply off_all in H. unfold off_check in H. rewrite !andb_true_iff in H. apply res_eqb_eq. tauto. Qed.
Lemma format_offset_cz off : -93599 <= off <= 93599 ->
  format_offset off [58] = OK (render_offset off [58] false false).
Proof. intros H. apply off_all in H. unfold off_check in H. rewrite !andb_true_iff in H. apply res_eqb_eq. tauto. Qed.
Lemma format_offset_ccz off : -93599 <= off <= 93599 ->
  format_offset off [58; 42] = OK (render_offset off [58] true false).
Proof. intros H. apply off_all in H. unfold off_check in H. rewrite !andb_true_iff in H. apply res_eqb_eq. tauto. Qed.
Lemma format_offset_cccz off : -93599 <= off <= 93599 ->
  format_offset off [58; 42; 58] = OK (render_offset off [58] true true).
Proof. intros H. apply off_all in H. unfold off_check in H. rewrite !andb_true_iff in H. apply res_eqb_eq. tauto. Qed.

(* ---- kExp10 ---- *)
Lemma kExp10_ok i : 0 <= i <= 18 -> kExp10 i = OK (10 ^ i).
Proof.
  intros H.
  assert (In i (zrange 0 19)) as Hin by (apply zrange_In; lia).
  cbn [zrange Z.add] in Hin. cbn [In] in Hin.
  repeat (destruct Hin as [Hin|Hin]; [subst i; reflexivity|]). contradiction.
Qed.

(* ---- the fraction ---- *)
Lemma strip_same l : strip_trailing_zeros_rev l = strip_zeros_r l.
Proof. reflexivity. Qed.

Lemma strip_length l : (length (strip_zeros_r l) <= length l)%nat.
Proof.
  induction l as [|c l IH]; [cbn; lia|].
  assert (c = 48 \/ c <> 48) as [->|N] by lia.
  - cbn [strip_zeros_r length]. lia.
  - assert (strip_zeros_r (c :: l) = c :: l) as ->; [|lia].
    destruct c as [|p|p]; try reflexivity.
    do 6 (destruct p as [p|p|]; try reflexivity). congruence.
Qed.

Definition P15 : Z := 1000000000000000.
Lemma P15_eq : 10 ^ 15 = P15. Proof. reflexivity. Qed.

Lemma pad15_length fs : 0 <= fs < P15 -> length (pad_left 15 48 (dec_digits fs)) = 15%nat.
Proof.
  intros H. rewrite pad_left_length.
  pose proof (dec_digits_length fs 14 ltac:(change (10 ^ Z.of_nat 15) with P15; lia)). lia.
Qed.

Lemma format64_pad n v : 0 <= n <= 18 -> 0 <= v -> int64 v ->
  format64 n v = OK (pad_left (Z.to_nat n) 48 (dec_digits v)).
Proof.
  intros Hn Hv Iv. rewrite format64_spec by assumption. unfold dec_width.
  replace (v <? 0) with false by lia. reflexivity.
Qed.

Lemma frac_min_length fs : 0 <= fs < P15 -> (length (frac_min fs) <= 15)%nat.
Proof.
  intros H. unfold frac_min. rewrite rev_length.
  pose proof (strip_length (rev (pad_left 15 48 (dec_digits fs)))) as L.
  rewrite rev_length, pad15_length in L by assumption. exact L.
Qed.

Lemma dec_digits_lenZ v n : 1 <= n -> 0 <= v < 10 ^ n ->
  (1 <= length (dec_digits v) <= Z.to_nat n)%nat.
Proof.
  intros Hn Hv.
  pose proof (dec_digits_length v (Z.to_nat n - 1)) as L.
  replace (Z.of_nat (S (Z.to_nat n - 1))) with n in L by lia.
  specialize (L Hv). lia.
Qed.

Lemma dec_digits_x10 v : 0 < v < 10 ^ 30 -> dec_digits (10 * v) = dec_digits v ++ [48].
Proof.
  intros H. change (10 ^ 30) with 1000000000000000000000000000000 in H.
  unfold dec_digits.
  change (dec_digits_fuel 40 (10 * v) []) with
    (let acc' := (48 + (10 * v) mod 10) :: [] in
     if (10 * v) / 10 =? 0 then acc' else dec_digits_fuel 39 ((10 * v) / 10) acc').
  cbv zeta.
  replace ((10 * v) / 10) with v by lia. replace ((10 * v) mod 10) with 0 by lia.
  replace (v =? 0) with false by lia.
  rewrite ddf_app. change (48 + 0) with 48.
  rewrite (ddf_fuel_irrel 38 39); [reflexivity| |lia].
  change (10 ^ Z.of_nat 39) with 1000000000000000000000000000000000000000. lia.
Qed.

Lemma padded_x10 m v : (1 <= m)%nat -> 0 <= v < 10 ^ 30 ->
  pad_left (S m) 48 (dec_digits (10 * v)) = pad_left m 48 (dec_digits v) ++ [48].
Proof.
  intros Hm Hv.
  assert (v = 0 \/ 0 < v) as [->|P] by lia.
  - change (dec_digits (10 * 0)) with [48]. change (dec_digits 0) with [48].
    unfold pad_left. cbn [length].
    destruct m as [|m']; [lia|].
    replace (S (S m') - 1)%nat with (S m') by lia. replace (S m' - 1)%nat with m' by lia.
    f_equal. cbn [repeat]. apply repeat_cons.
  - rewrite dec_digits_x10 by lia. unfold pad_left. rewrite app_length. cbn [length].
    replace (S m - (length (dec_digits v) + 1))%nat with (m - length (dec_digits v))%nat by lia.
    rewrite app_assoc. reflexivity.
Qed.

Definition FD (fs n : Z) : list Z :=
  if n <=? 15 then pad_left (Z.to_nat n) 48 (dec_digits (fs / 10 ^ (15 - n)))
  else pad_left 15 48 (dec_digits fs) ++ repeat 48 (Z.to_nat (n - 15)).

Lemma frac_digits_FD fs n0 : frac_digits fs n0 = FD fs (if 18 <? n0 then 18 else n0).
Proof. reflexivity. Qed.

Lemma frac_core fs n : 0 <= fs < P15 -> 1 <= n <= 18 ->
  (do v <- (if 15 <? n then (do e <- kExp10 (n - 15) ;; mul64 fs e)
            else (do e <- kExp10 (15 - n) ;; OK (Z.quot fs e))) ;;
   format64 n v) = OK (FD fs n) /\ length (FD fs n) = Z.to_nat n.
Proof.
  intros Hfs Hn. unfold FD, P15 in *.
  destruct (15 <? n) eqn:E.
  - replace (n <=? 15) with false by lia.
    rewrite kExp10_ok by lia. cbn [bind].
    split.
    2:{ rewrite app_length, repeat_length, pad15_length by (unfold P15; lia). lia. }
    assert (n = 16 \/ n = 17 \/ n = 18) as [ -> | [ -> | -> ] ] by lia.
    + change (10 ^ (16 - 15)) with 10. unfold mul64. rewrite chk64_in by f_i64. cbn [bind].
      rewrite format64_pad by (try f_i64; lia).
      change (Z.to_nat 16) with 16%nat. change (Z.to_nat (16 - 15)) with 1%nat.
      replace (fs * 10) with (10 * fs) by lia.
      rewrite padded_x10 by (try change (10 ^ 30) with 1000000000000000000000000000000; lia).
      reflexivity.
    + change (10 ^ (17 - 15)) with 100. unfold mul64. rewrite chk64_in by f_i64. cbn [bind].
      rewrite format64_pad by (try f_i64; lia).
      change (Z.to_nat 17) with 17%nat. change (Z.to_nat (17 - 15)) with 2%nat.
      replace (fs * 100) with (10 * (10 * fs)) by lia.
      rewrite !padded_x10 by (try change (10 ^ 30) with 1000000000000000000000000000000; lia).
      rewrite <- app_assoc. reflexivity.
    + change (10 ^ (18 - 15)) with 1000. unfold mul64. rewrite chk64_in by f_i64. cbn [bind].
      rewrite format64_pad by (try f_i64; lia).
      change (Z.to_nat 18) with 18%nat. change (Z.to_nat (18 - 15)) with 3%nat.
      replace (fs * 1000) with (10 * (10 * (10 * fs))) by lia.
      rewrite !padded_x10 by (try change (10 ^ 30) with 1000000000000000000000000000000; lia).
      rewrite <- !app_assoc. reflexivity.
  - replace (n <=? 15) with true by lia.
    rewrite kExp10_ok by lia. cbn [bind].
    assert (0 < 10 ^ (15 - n)) as Ppos by (apply Z.pow_pos_nonneg; lia).
    assert (0 < 10 ^ n) as Npos by (apply Z.pow_pos_nonneg; lia).
    assert (10 ^ (15 - n) * 10 ^ n = 1000000000000000) as Hmul.
    { rewrite <- Z.pow_add_r by lia. replace (15 - n + n) with 15 by lia. reflexivity. }
    rewrite Z.quot_div_nonneg by lia.
    assert (0 <= fs / 10 ^ (15 - n) < 10 ^ n) as Hv.
    { split; [apply Z.div_pos; lia|]. apply Z.div_lt_upper_bound; lia. }
    assert (fs / 10 ^ (15 - n) <= fs) as Hle.
    { apply Z.div_le_upper_bound; [lia|]. nia. }
    set (v := fs / 10 ^ (15 - n)) in *. clearbody v.
    rewrite format64_pad by (try f_i64; lia).
    split; [reflexivity|].
    rewrite pad_left_length. pose proof (dec_digits_lenZ v n ltac:(lia) Hv). lia.
Qed.

Definition cx_ok (cx : fctx) : Prop :=
  al_ok' (fc_al cx) /\ 0 <= fc_fs cx < 10 ^ 15 /\ int64 (fc_unix cx) /\
  tm_wday (fc_tm cx) = wday_sun0 (al_cs (fc_al cx)).

Lemma cx_fields cx : cx_ok cx ->
  let cs := al_cs (fc_al cx) in
  1 <= fm cs <= 12 /\ 1 <= fd cs <= 31 /\ 0 <= fhh cs <= 23 /\ 0 <= fmm cs <= 59 /\ 0 <= fss cs <= 59.
Proof.
  intros ((V & _) & _). cbv zeta.
  apply valid_fields_inv in V. destruct V as (V & ? & ? & ?).
  pose proof (valid_date_inv _ _ _ V) as [? ?].
  pose proof (dim_range (fy (al_cs (fc_al cx))) (fm (al_cs (fc_al cx)))). lia.
Qed.

Lemma ext_star_S cx : cx_ok cx ->
  ext_star cx 83 = OK (render_lib LEsS (al_cs (fc_al cx)) (al_off (fc_al cx)) (al_abbr (fc_al cx)) (fc_fs cx) (fc_unix cx)).
Proof.
  intros H. pose proof (cx_fields cx H) as (_ & _ & _ & _ & Hs). destruct H as (_ & Hfs & _).
  rewrite P15_eq in Hfs. unfold ext_star, render_lib.
  rewrite format64_pad by (unfold P15 in *; try f_i64; lia). cbn [bind].
  change (Z.to_nat 15) with 15%nat. rewrite strip_same. fold (frac_min (fc_fs cx)).
  change (83 =? 83) with true. cbv iota.
  rewrite format02d_ok by lia. cbn [bind].
  pose proof (frac_min_length _ Hfs) as L.
  pose proof (dec2_length (fss (al_cs (fc_al cx))) ltac:(lia)) as L2.
  destruct (frac_min (fc_fs cx)) as [|a s] eqn:E.
  - apply fits_ok. rewrite scratch_size_eq, app_length, L2. cbn [length]. lia.
  - apply fits_ok. rewrite scratch_size_eq, app_length, L2. cbn [length] in *. lia.
Qed.

Lemma ext_star_f cx : cx_ok cx ->
  ext_star cx 102 = OK (render_lib LEsf (al_cs (fc_al cx)) (al_off (fc_al cx)) (al_abbr (fc_al cx)) (fc_fs cx) (fc_unix cx)).
Proof.
  intros H. destruct H as (_ & Hfs & _).
  rewrite P15_eq in Hfs. unfold ext_star, render_lib.
  rewrite format64_pad by (unfold P15 in *; try f_i64; lia). cbn [bind].
  change (Z.to_nat 15) with 15%nat. rewrite strip_same. fold (frac_min (fc_fs cx)).
  change (102 =? 83) with false. cbv iota.
  destruct (frac_min (fc_fs cx)); reflexivity.
Qed.

Lemma ext_num_S cx n : cx_ok cx -> 0 <= n <= 1024 ->
  ext_num cx n 83 = OK (render_lib (LEnS n) (al_cs (fc_al cx)) (al_off (fc_al cx)) (al_abbr (fc_al cx)) (fc_fs cx) (fc_unix cx)).
Proof.
  intros H Hn. pose proof (cx_fields cx H) as (_ & _ & _ & _ & Hs). destruct H as (_ & Hfs & _).
  rewrite P15_eq in Hfs. unfold ext_num, render_lib.
  pose proof (dec2_length (fss (al_cs (fc_al cx))) ltac:(lia)) as L2.
  change (83 =? 83) with true. cbv iota.
  destruct (0 <? n) eqn:E.
  - change src_kDigits10_64 with 18.
    set (n' := if 18 <? n then 18 else n).
    assert (1 <= n' <= 18) as Hn' by (unfold n'; destruct (18 <? n) eqn:?; lia).
    destruct (frac_core (fc_fs cx) n' Hfs Hn') as [Ec El].
    rewrite frac_digits_FD. fold n'.
    apply bind_ok in Ec. destruct Ec as (v0 & Ev & Ef). rewrite Ev. cbn [bind]. rewrite Ef. cbn [bind].
    rewrite format02d_ok by lia. cbn [bind].
    apply fits_ok. rewrite scratch_size_eq, app_length, L2. cbn [length]. rewrite El. lia.
  - cbn [bind]. rewrite format02d_ok by lia. cbn [bind].
    apply fits_ok. rewrite scratch_size_eq, app_length, L2. cbn [length]. lia.
Qed.

Lemma ext_num_f cx n : cx_ok cx -> 0 <= n <= 1024 ->
  ext_num cx n 102 = OK (render_lib (LEnf n) (al_cs (fc_al cx)) (al_off (fc_al cx)) (al_abbr (fc_al cx)) (fc_fs cx) (fc_unix cx)).
Proof.
  intros H Hn. destruct H as (_ & Hfs & _).
  rewrite P15_eq in Hfs. unfold ext_num, render_lib.
  change (102 =? 83) with false. cbv iota.
  destruct (0 <? n) eqn:E.
  - change src_kDigits10_64 with 18.
    set (n' := if 18 <? n then 18 else n).
    assert (1 <= n' <= 18) as Hn' by (unfold n'; destruct (18 <? n) eqn:?; lia).
    destruct (frac_core (fc_fs cx) n' Hfs Hn') as [Ec El].
    rewrite frac_digits_FD. fold n'.
    apply bind_ok in Ec. destruct Ec as (v0 & Ev & Ef). rewrite Ev. cbn [bind]. rewrite Ef. cbn [bind].
    apply fits_ok. rewrite scratch_size_eq, El. lia.
  - cbn [bind]. reflexivity.
Qed.

(* ---- ToWeek ---- *)
Lemma norm_spec_valid y m d hh mm ss : valid_fields (mkF y m d hh mm ss) = true ->
  norm_spec y m d hh mm ss = mkF y m d hh mm ss.
Proof.
  intros V. pose proof (valid_fields_inv _ V) as (Vd & _). cbn [fy fm fd] in Vd.
  pose proof (valid_date_inv _ _ _ Vd) as [Hm _].
  unfold norm_spec, norm_sec. destruct (carry_id y m Hm) as [-> ->].
  rewrite <- dfc_day. apply cos_sec_of in V. exact V.
Qed.

Lemma to_week_core y m d ws : valid_date y m d = true -> int64 y -> 0 <= ws <= 6 ->
  let yd := days_from_civil y m d - days_from_civil y 1 1 in
  exists J q k, 1 <= k <= 7 /\ (J - k + 3) mod 7 = ws /\
    to_week (mkF y m d 0 0 0) ws = OK ((yd + k) / 7) /\ 0 <= yd <= 365 /\
    days_from_civil y m d = J + yd + 146097 * q.
Proof.
  intros V Iy Hws yd.
  assert (Hy : y = Z.rem y 400 + 400 * Z.quot y 400) by lia.
  assert (Hr : -399 <= Z.rem y 400 <= 399) by lia.
  unfold to_week. cbn [fy fm fd].
  set (r := Z.rem y 400) in *. set (q := Z.quot y 400) in *. clearbody r q.
  exists (days_from_civil r 1 1), q.
  set (J := days_from_civil r 1 1).
  assert (Vr : valid_date r m d = true) by (rewrite <- (valid_date_period r m d q), <- Hy; exact V).
  pose proof (valid_date_inv _ _ _ Vr) as [Hm Hd].
  pose proof (dim_range r m) as Hdim.
  assert (Vf0 : valid_fields (mkF r m d 0 0 0) = true)
    by (apply valid_fields_intro; cbn [fy fm fd fhh fmm fss]; auto; lia).
  assert (Vf1 : valid_fields (mkF r 1 1 0 0 0) = true)
    by (apply valid_fields_intro; cbn [fy fm fd fhh fmm fss]; try lia; apply valid_first; lia).
  (* yd facts *)
  assert (Eyd : yd = days_from_civil r m d - J).
  { unfold yd, J. rewrite Hy, !dfc_period. lia. }
  assert (Byd : 0 <= yd <= 365).
  { rewrite Eyd. pose proof (dfc_jan1_le _ _ _ Vr).
    destruct (yearday_spec_lemma (mkF r m d 0 0 0) Vf0 ltac:(cbn [fy]; f_i64)) as [_ B].
    cbn [fy fm fd] in B. unfold days_in_year in B. fold J in B. destruct (is_leap r); lia. }
  (* construct *)
  rewrite construct_refines_lemma; try f_i64.
  2:{ destruct (carry_id r m Hm) as [-> _]. f_i64. }
  2:{ rewrite norm_spec_valid by assumption. cbn [fy]. f_i64. }
  rewrite norm_spec_valid by assumption. cbn [bind align_spec align64 fy fm fd fhh fmm fss].
  (* prev_weekday *)
  destruct (prev_weekday_spec_lemma (mkF r 1 1 0 0 0) ws Vf1 ltac:(cbn; auto) ltac:(cbn [fy]; f_i64) Hws)
    as (k & Hk & Hwd & _ & Hprev).
  cbn [fy fm fd] in Hwd, Hprev. fold J in Hwd, Hprev.
  exists k. split; [exact Hk|]. split; [exact Hwd|].
  assert (Hyr : r - 1 <= fy (civil_of_seconds ((J - k) * 86400)) <= r).
  { assert (Vfm : valid_fields (mkF (r - 1) 1 1 0 0 0) = true)
      by (apply valid_fields_intro; cbn [fy fm fd fhh fmm fss]; try lia; apply valid_first; lia).
    pose proof (dfc_year_step (r - 1)) as St. replace (r - 1 + 1) with r in St by lia. fold J in St.
    pose proof (diy_ge (r - 1)) as Dy.
    pose proof (cos_year_mono (sec_of (mkF (r - 1) 1 1 0 0 0)) ((J - k) * 86400)) as M1.
    pose proof (cos_year_mono ((J - k) * 86400) (sec_of (mkF r 1 1 0 0 0))) as M2.
    rewrite cos_sec_of in M1, M2 by assumption. cbn [fy] in M1, M2.
    unfold sec_of in M1, M2. cbn [fy fm fd fhh fmm fss] in M1, M2. fold J in M2.
    split; [apply M1|apply M2]; lia. }
  rewrite Hprev by f_i64. cbn [bind].
  (* difference *)
  set (p := civil_of_seconds ((J - k) * 86400)) in *.
  rewrite (difference_refines_lemma 3 (mkF r m d 0 0 0) p); try assumption; try lia.
  - cbn [bind ord_spec fy fm fd].
    change p with (of_ord_spec 3 (J - k)).
    pose proof (ord_of_ord 3 (J - k)) as Eo. cbn [ord_spec] in Eo. rewrite Eo.
    rewrite Z.quot_div_nonneg by lia.
    split; [|split; [exact Byd|]].
    + f_equal. f_equal. lia.
    + unfold yd. rewrite Hy, !dfc_period. fold J. lia.
  - apply valid_cos.
  - reflexivity.
  - change p with (of_ord_spec 3 (J - k)). apply align_of_ord.
  - cbn [fy]. f_i64.
  - f_i64.
  - cbn [ord_spec fy fm fd].
    change p with (of_ord_spec 3 (J - k)).
    pose proof (ord_of_ord 3 (J - k)) as Eo. cbn [ord_spec] in Eo. rewrite Eo. f_i64.
Qed.

Lemma align64_3 cs : align64 3 cs = mkF (fy cs) (fm cs) (fd cs) 0 0 0.
Proof. reflexivity. Qed.

Lemma to_week_U cs : valid_fields cs = true -> int64 (fy cs) ->
  to_week (align64 3 cs) 6 = OK ((yday0 cs + 7 - wday_sun0 cs) / 7) /\
  0 <= (yday0 cs + 7 - wday_sun0 cs) / 7 <= 53.
Proof.
  intros V I. pose proof (valid_fields_inv _ V) as (Vd & _).
  destruct (to_week_core _ _ _ 6 Vd I ltac:(lia)) as (J & q & k & Hk & Hw & Ew & Byd & ED).
  rewrite align64_3, Ew. unfold yday0, wday_sun0, weekday_of_days in *.
  set (yd := days_from_civil (fy cs) (fm cs) (fd cs) - days_from_civil (fy cs) 1 1) in *.
  rewrite ED. clearbody yd. clear ED Ew.
  assert ((yd + k) / 7 = (yd + 7 - ((J + yd + 146097 * q + 3) mod 7 + 1) mod 7) / 7) as <- by lia.
  split; [reflexivity|lia].
Qed.

Lemma to_week_W cs : valid_fields cs = true -> int64 (fy cs) ->
  to_week (align64 3 cs) 0 = OK ((yday0 cs + 7 - (wday_sun0 cs + 6) mod 7) / 7) /\
  0 <= (yday0 cs + 7 - (wday_sun0 cs + 6) mod 7) / 7 <= 53.
Proof.
  intros V I. pose proof (valid_fields_inv _ V) as (Vd & _).
  destruct (to_week_core _ _ _ 0 Vd I ltac:(lia)) as (J & q & k & Hk & Hw & Ew & Byd & ED).
  rewrite align64_3, Ew. unfold yday0, wday_sun0, weekday_of_days in *.
  set (yd := days_from_civil (fy cs) (fm cs) (fd cs) - days_from_civil (fy cs) 1 1) in *.
  rewrite ED. clearbody yd. clear ED Ew.
  assert ((yd + k) / 7 = (yd + 7 - (((J + yd + 146097 * q + 3) mod 7 + 1) mod 7 + 6) mod 7) / 7) as <- by lia.
  split; [reflexivity|lia].
Qed.

(* ---- the simple specifiers ---- *)
Definition simple_lib (c : Z) : option libspec :=
  if c =? 89 then Some LY else if c =? 109 then Some Lm else if c =? 100 then Some Ld
  else if c =? 101 then Some Le else if c =? 85 then Some LU else if c =? 117 then Some Lu
  else if c =? 87 then Some LW else if c =? 119 then Some Lw else if c =? 72 then Some LH
  else if c =? 77 then Some LM else if c =? 83 then Some LS else if c =? 122 then Some Lz
  else if c =? 90 then Some LZ else if c =? 115 then Some Ls else None.

Definition rl (cx : fctx) (k : libspec) : list Z :=
  render_lib k (al_cs (fc_al cx)) (al_off (fc_al cx)) (al_abbr (fc_al cx)) (fc_fs cx) (fc_unix cx).

Lemma wday_sun0_range cs : 0 <= wday_sun0 cs <= 6.
Proof. unfold wday_sun0. lia. Qed.

Lemma simple_spec_lib cx c k : cx_ok cx -> simple_lib c = Some k ->
  simple_spec cx c = OK (rl cx k).
Proof.
  intros H E. pose proof (cx_fields cx H) as (Hm & Hd & Hh & Hmi & Hs). cbv zeta in *.
  destruct H as ((V & Iy & Hoff) & Hfs & Iu & Hwd).
  pose proof (wday_sun0_range (al_cs (fc_al cx))) as Wr.
  unfold simple_lib in E. unfold simple_spec, rl.
  destruct (c =? 89). { inversion E; subst k; cbn [render_lib]. apply format64_0; assumption. }
  destruct (c =? 109). { inversion E; subst k; cbn [render_lib]. apply format02d_ok; lia. }
  destruct (c =? 100). { inversion E; subst k; cbn [render_lib]. apply format02d_ok; lia. }
  destruct (c =? 101). { inversion E; subst k; cbn [render_lib]. apply format02d_e_ok; lia. }
  destruct (c =? 85).
  { inversion E; subst k; cbn [render_lib].
    destruct (to_week_U _ V Iy) as [-> B]. cbn [bind]. apply format02d_ok; lia. }
  destruct (c =? 117).
  { inversion E; subst k; cbn [render_lib]. rewrite Hwd.
    destruct (wday_sun0 (al_cs (fc_al cx)) =? 0) eqn:E0; cbn [negb]; apply format64_0; f_i64. }
  destruct (c =? 87).
  { inversion E; subst k; cbn [render_lib].
    destruct (to_week_W _ V Iy) as [-> B]. cbn [bind]. apply format02d_ok; lia. }
  destruct (c =? 119). { inversion E; subst k; cbn [render_lib]. rewrite Hwd. apply format64_0; f_i64. }
  destruct (c =? 72). { inversion E; subst k; cbn [render_lib]. apply format02d_ok; lia. }
  destruct (c =? 77). { inversion E; subst k; cbn [render_lib]. apply format02d_ok; lia. }
  destruct (c =? 83). { inversion E; subst k; cbn [render_lib]. apply format02d_ok; lia. }
  destruct (c =? 122). { inversion E; subst k; cbn [render_lib]. apply format_offset_z; lia. }
  destruct (c =? 90). { inversion E; subst k; cbn [render_lib]. reflexivity. }
  destruct (c =? 115). { inversion E; subst k; cbn [render_lib]. apply format64_0; assumption. }
  discriminate.
Qed.

Lemma simple_spec_total cx c : cx_ok cx -> exists s, simple_spec cx c = OK s.
Proof.
  intros H. destruct (simple_lib c) as [k|] eqn:E.
  - eexists. apply simple_spec_lib; eassumption.
  - unfold simple_lib in E. unfold simple_spec.
    repeat match type of E with (if ?b then _ else _) = None => destruct b; [discriminate|] end.
    destruct (c =? 37); eexists; reflexivity.
Qed.

Lemma format_E4Y cx : cx_ok cx ->
  format64 4 (fy (al_cs (fc_al cx))) = OK (rl cx LE4Y).
Proof.
  intros ((V & Iy & Hoff) & _). rewrite format64_spec by (auto; lia). reflexivity.
Qed.

(* ================================================================== *)
(* Literal pattern matches of lex_fuel / fmt_loop as named selectors   *)

Definition lx_top {A} (l : list Z) (knil : A) (kpct : list Z -> A) (klit : Z -> list Z -> A) : A :=
  match l with [] => knil | 37 :: r => kpct r | c :: r => klit c r end.

Definition lx_after {A} (r : list Z) (knil : A) (kpct kcz kccz kcccz kE : list Z -> A)
    (kO : Z -> list Z -> A) (kc : Z -> list Z -> A) : A :=
  match r with
  | [] => knil
  | 37 :: r' => kpct r'
  | 58 :: 122 :: r' => kcz r'
  | 58 :: 58 :: 122 :: r' => kccz r'
  | 58 :: 58 :: 58 :: 122 :: r' => kcccz r'
  | 69 :: r' => kE r'
  | 79 :: d :: r2 => kO d r2
  | c :: r' => kc c r'
  end.

Definition lx_E {A} (r' : list Z) (knil : A) (kT kz ksz ksS ksf k4Y : list Z -> A)
    (kd : Z -> list Z -> A) : A :=
  match r' with
  | [] => knil
  | 84 :: r2 => kT r2
  | 122 :: r2 => kz r2
  | 42 :: 122 :: r2 => ksz r2
  | 42 :: 83 :: r2 => ksS r2
  | 42 :: 102 :: r2 => ksf r2
  | 52 :: 89 :: r2 => k4Y r2
  | d :: r2 => kd d r2
  end.

Definition lx_Sf {A} (r3 : list Z) (kS kf : list Z -> A) (dflt : A) : A :=
  match r3 with 83 :: r4 => kS r4 | 102 :: r4 => kf r4 | _ => dflt end.

Definition lx_glibc {A} (r2 : list Z) (kEO : Z -> list Z -> A) (kx : Z -> list Z -> A) (knil : A) : A :=
  match r2 with
  | 69 :: x :: r3 | 79 :: x :: r3 => kEO x r3
  | x :: r3 => kx x r3
  | [] => knil
  end.

Section LexBody.
Variable rec : list Z -> list ftok.

(* after "%E": [r'] is the text after the E, [d :: r2 = r'] *)
Definition lex_kd (r' : list Z) (d : Z) (r2 : list Z) : list ftok :=
  if is_digit d then
    let '(ds, r3) := take_digits_f r' in
    lx_Sf r3
      (fun r4 => if digits_val ds <=? 1024 then FLib (LEnS (digits_val ds)) :: rec r4
                  else FQuirk (37 :: 69 :: ds) :: rec r3)
      (fun r4 => if digits_val ds <=? 1024 then FLib (LEnf (digits_val ds)) :: rec r4
                   else FQuirk (37 :: 69 :: ds) :: rec r3)
      (FQuirk (37 :: 69 :: ds) :: rec r3)
  else if negb (is_alpha d) then FQuirk [37; 69] :: rec r'
  else FOther [37; 69; d] :: rec r2.

Definition lex_kO (d : Z) (r2 : list Z) : list ftok :=
  if negb (is_alpha d) then FQuirk [37; 79] :: rec (d :: r2) else FOther [37; 79; d] :: rec r2.

(* the general case after '%': [r] is the text after the '%', [c :: r' = r] *)
Definition lex_kc (r : list Z) (c : Z) (r' : list Z) : list ftok :=
  if c =? 89 then FLib LY :: rec r'
  else if c =? 109 then FLib Lm :: rec r'
  else if c =? 100 then FLib Ld :: rec r'
  else if c =? 101 then FLib Le :: rec r'
  else if c =? 85 then FLib LU :: rec r'
  else if c =? 117 then FLib Lu :: rec r'
  else if c =? 87 then FLib LW :: rec r'
  else if c =? 119 then FLib Lw :: rec r'
  else if c =? 72 then FLib LH :: rec r'
  else if c =? 77 then FLib LM :: rec r'
  else if c =? 83 then FLib LS :: rec r'
  else if c =? 122 then FLib Lz :: rec r'
  else if c =? 90 then FLib LZ :: rec r'
  else if c =? 115 then FLib Ls :: rec r'
  else if (c =? 0) || (c =? 58) || (c =? 79) then FQuirk [37; c] :: rec r'
  else if is_flag c || is_digit c then
    let '(fl, r1) := take_while_f is_flag r in
    let '(wd, r2) := take_digits_f r1 in
    lx_glibc r2
      (fun x r3 =>
        if negb (is_alpha x) then FQuirk (37 :: fl ++ wd) :: rec r2
        else FOther (37 :: fl ++ wd ++ [nthZ r2 0; x]) :: rec r3)
      (fun x r3 =>
        if negb (is_alpha x) then FQuirk (37 :: fl ++ wd) :: rec r2
        else FOther (37 :: fl ++ wd ++ [x]) :: rec r3)
      [FQuirk (37 :: fl ++ wd)]
  else if negb (is_alpha c) then FQuirk [37; c] :: rec r'
  else FOther [37; c] :: rec r'.

Definition lex_kE (r' : list Z) : list ftok :=
  lx_E r' [FQuirk [37; 69]]
    (fun r2 => FLib LET :: rec r2)
    (fun r2 => FLib LEz :: rec r2)
    (fun r2 => FLib LEsz :: rec r2)
    (fun r2 => FLib LEsS :: rec r2)
    (fun r2 => FLib LEsf :: rec r2)
    (fun r2 => FLib LE4Y :: rec r2)
    (lex_kd r').

Definition lex_pct (r : list Z) : list ftok :=
  lx_after r [FQuirk [37]]
    (fun r' => FPct :: rec r')
    (fun r' => FLib Lcz :: rec r')
    (fun r' => FLib Lccz :: rec r')
    (fun r' => FLib Lcccz :: rec r')
    lex_kE lex_kO (lex_kc r).

Definition lex_body (l : list Z) : list ftok :=
  lx_top l [] lex_pct (fun c r => FLit c :: rec r).
End LexBody.

Fixpoint lex_fuel2 (fuel : nat) (l : list Z) : list ftok :=
  match fuel with O => [] | S f => lex_body (lex_fuel2 f) l end.

Lemma lex_fuel_eq : lex_fuel = lex_fuel2.
Proof. exact_no_check (@eq_refl _ lex_fuel). Qed.

Lemma lex_fuel_S f l : lex_fuel (S f) l = lex_body (lex_fuel f) l.
Proof. rewrite lex_fuel_eq. exact eq_refl. Qed.

(* ---- fmt_loop ---- *)
Definition colon_sel (r3 : list Z) : option (list Z * list Z) :=
  match r3 with
  | 122 :: r4 => Some ([58], r4)
  | 58 :: 122 :: r4 => Some ([58; 42], r4)
  | 58 :: 58 :: 122 :: r4 => Some ([58; 42; 58], r4)
  | _ => None
  end.

Definition e_sel {A} (d : Z) (r4 : list Z) (ksz ksS ksf k4Y : list Z -> A) (dflt : A) : A :=
  match d, r4 with
  | 42, 122 :: r5 => ksz r5
  | 42, 83 :: r5 => ksS r5
  | 42, 102 :: r5 => ksf r5
  | 52, 89 :: r5 => k4Y r5
  | _, _ => dflt
  end.

Definition pi_sel {A} (o : option (Z * list Z)) (kS kf : Z -> list Z -> A) (dflt : A) : A :=
  match o with
  | Some (n, 83 :: r5) => kS n r5
  | Some (n, 102 :: r5) => kf n r5
  | _ => dflt
  end.

Definition lit_upd (lit pend result : list Z) : list Z * list Z :=
  match lit, pend with
  | _ :: _, [] => (result ++ lit, [])
  | _, _ => (result, pend ++ lit)
  end.

Definition pct_upd (pcs pend1 result1 : list Z) (at_end : bool) : list Z * list Z :=
  let p := Z.of_nat (length pcs) in
  match pcs, pend1 with
  | _ :: _, [] =>
      let escaped := Z.to_nat (Z.quot p 2) in
      let odd := negb (Z.rem p 2 =? 0) in
      if odd && at_end then (result1 ++ repeat 37 escaped ++ [37], [])
      else (result1 ++ repeat 37 escaped, if odd then [37] else [])
  | _, _ => (result1, pend1 ++ pcs)
  end.

Section Body.
Variable o : list Z -> tmrec -> list Z.
Variable rec : list Z -> list Z -> list Z -> res (list Z).
Variable cx : fctx.

Definition odd_tail (c : Z) (r3 r2 pend2 result2 : list Z) : res (list Z) :=
  let pre := removelast pend2 in
  match strchr simple_set c with
  | Some _ =>
      do s <- simple_spec cx c ;;
      rec r3 [] (result2 ++ flush o pre (fc_tm cx) ++ s)
  | None =>
    match (if c =? 58 then colon_sel r3 else None) with
    | Some (mode, r4) =>
        do s <- format_offset (al_off (fc_al cx)) mode ;;
        rec r4 [] (result2 ++ flush o pre (fc_tm cx) ++ s)
    | None =>
      if negb (c =? 69) then rec r2 pend2 result2
      else
        match r3 with
        | [] => rec [] (pend2 ++ [69]) result2
        | d :: r4 =>
          let pendE := pend2 ++ [69] in
          let done (s : list Z) (rr : list Z) :=
            rec rr [] (result2 ++ flush o pre (fc_tm cx) ++ s) in
          if d =? 84 then done [84] r4
          else if d =? 122 then
            (do s <- format_offset (al_off (fc_al cx)) [58] ;; done s r4)
          else
            e_sel d r4
              (fun r5 => do s <- format_offset (al_off (fc_al cx)) [58; 42] ;; done s r5)
              (fun r5 => do s <- ext_star cx 83 ;; done s r5)
              (fun r5 => do s <- ext_star cx 102 ;; done s r5)
              (fun r5 => do s <- format64 4 (fy (al_cs (fc_al cx))) ;; done s r5)
              (if is_digit d then
                 pi_sel (parse_int32 r3 0 0 1024)
                   (fun n r5 => do s <- ext_num cx n 83 ;; done s r5)
                   (fun n r5 => do s <- ext_num cx n 102 ;; done s r5)
                   (rec r3 pendE result2)
               else rec r3 pendE result2)
        end
    end
  end.

Definition fmt_body (rest pend result : list Z) : res (list Z) :=
  match rest with
  | [] => OK (result ++ flush o pend (fc_tm cx))
  | _ =>
    let '(lit, r1) := span_while (fun c => negb (is_pct c)) rest in
    let '(result1, pend1) := lit_upd lit pend result in
    let '(pcs, r2) := span_while is_pct r1 in
    let p := Z.of_nat (length pcs) in
    let at_end := match r2 with [] => true | _ => false end in
    let '(result2, pend2) := pct_upd pcs pend1 result1 at_end in
    match r2 with
    | [] => OK (result2 ++ flush o pend2 (fc_tm cx))
    | c :: r3 =>
      if Z.rem p 2 =? 0 then rec r2 pend2 result2
      else odd_tail c r3 r2 pend2 result2
    end
  end.
End Body.

Section Loop2.
Variable o : list Z -> tmrec -> list Z.
Fixpoint fmt_loop2 (fuel : nat) (cx : fctx) (rest pend result : list Z) : res (list Z) :=
  match fuel with
  | O => Err Fuel
  | S f => fmt_body o (fmt_loop2 f cx) cx rest pend result
  end.
End Loop2.

Lemma fmt_loop_eq : fmt_loop = fmt_loop2.
Proof. exact_no_check (@eq_refl _ fmt_loop). Qed.

Lemma fmt_loop_S o f cx rest pend result :
  fmt_loop o (S f) cx rest pend result = fmt_body o (fmt_loop o f cx) cx rest pend result.
Proof. rewrite fmt_loop_eq. exact eq_refl. Qed.

(* ---- characterisations of the selectors by equality tests ---- *)
Ltac zwalk x :=
  destruct x as [|?p|?p]; try reflexivity;
  repeat (match goal with p : positive |- _ => destruct p as [p|p|] end; try reflexivity);
  try congruence.

Lemma lx_top_spec {A} c r (knil : A) kpct klit :
  lx_top (c :: r) knil kpct klit = if c =? 37 then kpct r else klit c r.
Proof.
  destruct (Z.eqb_spec c 37) as [->|N]; [reflexivity|]. zwalk c.
Qed.

Lemma lx_Sf_spec {A} r (kS kf : list Z -> A) dflt :
  lx_Sf r kS kf dflt =
  match r with
  | x :: r4 => if x =? 83 then kS r4 else if x =? 102 then kf r4 else dflt
  | [] => dflt
  end.
Proof.
  destruct r as [|x r4]; [reflexivity|].
  destruct (Z.eqb_spec x 83) as [->|N1]; [reflexivity|].
  destruct (Z.eqb_spec x 102) as [->|N2]; [reflexivity|]. zwalk x.
Qed.

Section LxAfter.
Context {A : Type} (knil : A) (kpct kcz kccz kcccz kE : list Z -> A) (kO kc : Z -> list Z -> A).

Lemma lx_after_other c r' : c <> 37 -> c <> 58 -> c <> 69 -> c <> 79 ->
  lx_after (c :: r') knil kpct kcz kccz kcccz kE kO kc = kc c r'.
Proof. intros N1 N2 N3 N4. zwalk c. Qed.

Lemma lx_after_79 r3 :
  lx_after (79 :: r3) knil kpct kcz kccz kcccz kE kO kc =
  match r3 with d :: r2 => kO d r2 | [] => kc 79 [] end.
Proof. destruct r3; reflexivity. Qed.

Lemma lx_after_58 r3 :
  lx_after (58 :: r3) knil kpct kcz kccz kcccz kE kO kc =
  match r3 with
  | x :: r4 =>
      if x =? 122 then kcz r4
      else if x =? 58 then
        match r4 with
        | y :: r5 =>
            if y =? 122 then kccz r5
            else if y =? 58 then
              match r5 with
              | z :: r6 => if z =? 122 then kcccz r6 else kc 58 r3
              | [] => kc 58 r3
              end
            else kc 58 r3
        | [] => kc 58 r3
        end
      else kc 58 r3
  | [] => kc 58 r3
  end.
Proof.
  destruct r3 as [|x r4]; [reflexivity|].
  destruct (Z.eqb_spec x 122) as [->|N1]; [reflexivity|].
  destruct (Z.eqb_spec x 58) as [->|N2]; [|zwalk x].
  destruct r4 as [|y r5]; [reflexivity|].
  destruct (Z.eqb_spec y 122) as [->|M1]; [reflexivity|].
  destruct (Z.eqb_spec y 58) as [->|M2]; [|zwalk y].
  destruct r5 as [|z r6]; [reflexivity|].
  destruct (Z.eqb_spec z 122) as [->|K1]; [reflexivity|]. zwalk z.
Qed.
End LxAfter.

Section LxE.
Context {A : Type} (knil : A) (kT kz ksz ksS ksf k4Y : list Z -> A) (kd : Z -> list Z -> A).

Lemma lx_E_other d r2 : d <> 84 -> d <> 122 -> d <> 42 -> d <> 52 ->
  lx_E (d :: r2) knil kT kz ksz ksS ksf k4Y kd = kd d r2.
Proof. intros N1 N2 N3 N4. zwalk d. Qed.

Lemma lx_E_42 r4 :
  lx_E (42 :: r4) knil kT kz ksz ksS ksf k4Y kd =
  match r4 with
  | x :: r5 => if x =? 122 then ksz r5 else if x =? 83 then ksS r5 else if x =? 102 then ksf r5
               else kd 42 r4
  | [] => kd 42 r4
  end.
Proof.
  destruct r4 as [|x r5]; [reflexivity|].
  destruct (Z.eqb_spec x 122) as [->|N1]; [reflexivity|].
  destruct (Z.eqb_spec x 83) as [->|N2]; [reflexivity|].
  destruct (Z.eqb_spec x 102) as [->|N3]; [reflexivity|]. zwalk x.
Qed.

Lemma lx_E_52 r4 :
  lx_E (52 :: r4) knil kT kz ksz ksS ksf k4Y kd =
  match r4 with
  | x :: r5 => if x =? 89 then k4Y r5 else kd 52 r4
  | [] => kd 52 r4
  end.
Proof.
  destruct r4 as [|x r5]; [reflexivity|].
  destruct (Z.eqb_spec x 89) as [->|N1]; [reflexivity|]. zwalk x.
Qed.
End LxE.

Lemma lx_glibc_P {A} (P : A -> Prop) r2 (kEO kx : Z -> list Z -> A) knil :
  (forall x r3, P (kEO x r3)) -> (forall x r3, P (kx x r3)) -> P knil ->
  P (lx_glibc r2 kEO kx knil).
Proof.
  intros H1 H2 H3.
  destruct r2 as [|x r3]; [exact H3|].
  destruct x as [|p|p]; try apply H2.
  repeat (match goal with p : positive |- _ => destruct p as [p|p|] end; try apply H2);
  destruct r3; try apply H1; apply H2.
Qed.

Definition colon_cl (r3 : list Z) : option (list Z * list Z) :=
  match r3 with
  | x :: r4 =>
      if x =? 122 then Some ([58], r4)
      else if x =? 58 then
        match r4 with
        | y :: r5 =>
            if y =? 122 then Some ([58; 42], r5)
            else if y =? 58 then
              match r5 with
              | z :: r6 => if z =? 122 then Some ([58; 42; 58], r6) else None
              | [] => None
              end
            else None
        | [] => None
        end
      else None
  | [] => None
  end.

Lemma colon_sel_spec r3 : colon_sel r3 = colon_cl r3.
Proof.
  destruct r3 as [|x r4]; [reflexivity|]. unfold colon_cl.
  destruct (Z.eqb_spec x 122) as [->|N1]; [reflexivity|].
  destruct (Z.eqb_spec x 58) as [->|N2]; [|zwalk x].
  destruct r4 as [|y r5]; [reflexivity|].
  destruct (Z.eqb_spec y 122) as [->|M1]; [reflexivity|].
  destruct (Z.eqb_spec y 58) as [->|M2]; [|zwalk y].
  destruct r5 as [|z r6]; [reflexivity|].
  destruct (Z.eqb_spec z 122) as [->|K1]; [reflexivity|]. zwalk z.
Qed.

Lemma e_sel_spec {A} d r4 (k1 k2 k3 k4 : list Z -> A) dflt :
  e_sel d r4 k1 k2 k3 k4 dflt =
  if d =? 42 then
    match r4 with
    | x :: r5 => if x =? 122 then k1 r5 else if x =? 83 then k2 r5 else if x =? 102 then k3 r5 else dflt
    | [] => dflt
    end
  else if d =? 52 then
    match r4 with
    | x :: r5 => if x =? 89 then k4 r5 else dflt
    | [] => dflt
    end
  else dflt.
Proof.
  destruct (Z.eqb_spec d 42) as [->|N1].
  - destruct r4 as [|x r5]; [reflexivity|].
    destruct (Z.eqb_spec x 122) as [->|M1]; [reflexivity|].
    destruct (Z.eqb_spec x 83) as [->|M2]; [reflexivity|].
    destruct (Z.eqb_spec x 102) as [->|M3]; [reflexivity|]. zwalk x.
  - destruct (Z.eqb_spec d 52) as [->|N2].
    + destruct r4 as [|x r5]; [reflexivity|].
      destruct (Z.eqb_spec x 89) as [->|M1]; [reflexivity|]. zwalk x.
    + zwalk d.
Qed.

Lemma pi_sel_spec {A} o (kS kf : Z -> list Z -> A) dflt :
  pi_sel o kS kf dflt =
  match o with
  | Some (n, x :: r5) => if x =? 83 then kS n r5 else if x =? 102 then kf n r5 else dflt
  | _ => dflt
  end.
Proof.
  destruct o as [[n [|x r5]]|]; try reflexivity.
  destruct (Z.eqb_spec x 83) as [->|M2]; [reflexivity|].
  destruct (Z.eqb_spec x 102) as [->|M3]; [reflexivity|]. zwalk x.
Qed.

(* ================================================================== *)
(* A common classification of what follows an unescaped '%'            *)

Inductive cres := C_lib (k : libspec) (r' : list Z) | C_other.

Definition cls_digits (d : Z) (r4 : list Z) : cres :=
  if is_digit d then
    let '(ds, r5) := take_digits_f (d :: r4) in
    match r5 with
    | x :: r6 =>
        if x =? 83 then (if digits_val ds <=? 1024 then C_lib (LEnS (digits_val ds)) r6 else C_other)
        else if x =? 102 then (if digits_val ds <=? 1024 then C_lib (LEnf (digits_val ds)) r6 else C_other)
        else C_other
    | [] => C_other
    end
  else C_other.

Definition cls_colon (r3 : list Z) : cres :=
  match r3 with
  | x :: r4 =>
      if x =? 122 then C_lib Lcz r4
      else if x =? 58 then
        match r4 with
        | y :: r5 =>
            if y =? 122 then C_lib Lccz r5
            else if y =? 58 then
              match r5 with
              | z :: r6 => if z =? 122 then C_lib Lcccz r6 else C_other
              | [] => C_other
              end
            else C_other
        | [] => C_other
        end
      else C_other
  | [] => C_other
  end.

Definition cls_E (r3 : list Z) : cres :=
  match r3 with
  | [] => C_other
  | d :: r4 =>
      if d =? 84 then C_lib LET r4
      else if d =? 122 then C_lib LEz r4
      else if d =? 42 then
        match r4 with
        | x :: r5 => if x =? 122 then C_lib LEsz r5 else if x =? 83 then C_lib LEsS r5
                     else if x =? 102 then C_lib LEsf r5 else C_other
        | [] => C_other
        end
      else if d =? 52 then
        match r4 with
        | x :: r5 => if x =? 89 then C_lib LE4Y r5 else cls_digits d r4
        | [] => cls_digits d r4
        end
      else cls_digits d r4
  end.

Definition cls (c : Z) (r3 : list Z) : cres :=
  match simple_lib c with
  | Some k => C_lib k r3
  | None => if c =? 58 then cls_colon r3 else if c =? 69 then cls_E r3 else C_other
  end.

Definition good (t : ftok) : bool := match t with FLit _ | FPct | FLib _ => true | _ => false end.
Definition hd_bad (l : list ftok) : bool := match l with t :: _ => negb (good t) | [] => false end.

Lemma simple_lib_none c : simple_lib c = None ->
  c <> 89 /\ c <> 109 /\ c <> 100 /\ c <> 101 /\ c <> 85 /\ c <> 117 /\ c <> 87 /\ c <> 119 /\
  c <> 72 /\ c <> 77 /\ c <> 83 /\ c <> 122 /\ c <> 90 /\ c <> 115.
Proof.
  unfold simple_lib. intros E.
  repeat match type of E with (if ?x =? ?n then _ else _) = None =>
    destruct (Z.eqb_spec x n); [discriminate|] end.
  repeat split; assumption.
Qed.

Section LexCls.
Variable rec : list Z -> list ftok.

Lemma lex_kc_none r c r' : simple_lib c = None ->
  hd_bad (lex_kc rec r c r') = true.
Proof.
  intros E. apply simple_lib_none in E.
  destruct E as (N1 & N2 & N3 & N4 & N5 & N6 & N7 & N8 & N9 & N10 & N11 & N12 & N13 & N14).
  unfold lex_kc.
  repeat match goal with |- context [if ?x =? ?n then FLib _ :: _ else _] =>
    destruct (Z.eqb_spec x n); [congruence|] end.
  destruct ((c =? 0) || (c =? 58) || (c =? 79)); [reflexivity|].
  destruct (is_flag c || is_digit c).
  - destruct (take_while_f is_flag r) as [fl r1]. destruct (take_digits_f r1) as [wd r2].
    apply (lx_glibc_P (fun l => hd_bad l = true)).
    + intros x r3. destruct (negb (is_alpha x)); reflexivity.
    + intros x r3. destruct (negb (is_alpha x)); reflexivity.
    + reflexivity.
  - destruct (negb (is_alpha c)); reflexivity.
Qed.

Lemma lex_kd_cls d r4 :
  match cls_digits d r4 with
  | C_lib k r' => lex_kd rec (d :: r4) d r4 = FLib k :: rec r'
  | C_other => hd_bad (lex_kd rec (d :: r4) d r4) = true
  end.
Proof.
  unfold cls_digits, lex_kd.
  destruct (is_digit d).
  - destruct (take_digits_f (d :: r4)) as [ds r5]. rewrite lx_Sf_spec.
    destruct r5 as [|x r6]; [reflexivity|].
    destruct (x =? 83); [destruct (digits_val ds <=? 1024); reflexivity|].
    destruct (x =? 102); [destruct (digits_val ds <=? 1024); reflexivity|]. reflexivity.
  - destruct (negb (is_alpha d)); reflexivity.
Qed.

Lemma lex_kE_cls r3 :
  match cls_E r3 with
  | C_lib k r' => lex_kE rec r3 = FLib k :: rec r'
  | C_other => hd_bad (lex_kE rec r3) = true
  end.
Proof.
  unfold cls_E, lex_kE.
  destruct r3 as [|d r4]; [reflexivity|].
  destruct (Z.eqb_spec d 84) as [->|N1]; [reflexivity|].
  destruct (Z.eqb_spec d 122) as [->|N2]; [reflexivity|].
  destruct (Z.eqb_spec d 42) as [->|N3].
  { rewrite lx_E_42. destruct r4 as [|x r5]; [reflexivity|].
    destruct (x =? 122); [reflexivity|]. destruct (x =? 83); [reflexivity|].
    destruct (x =? 102); reflexivity. }
  destruct (Z.eqb_spec d 52) as [->|N4].
  { rewrite lx_E_52. destruct r4 as [|x r5]; [apply lex_kd_cls|].
    destruct (x =? 89); [reflexivity|]. apply lex_kd_cls. }
  rewrite lx_E_other by assumption. apply lex_kd_cls.
Qed.

Lemma lex_pct_cls c r3 : c <> 37 ->
  match cls c r3 with
  | C_lib k r' => lex_pct rec (c :: r3) = FLib k :: rec r'
  | C_other => hd_bad (lex_pct rec (c :: r3)) = true
  end.
Proof.
  intros N37. unfold cls.
  destruct (simple_lib c) as [k|] eqn:Es.
  - unfold simple_lib in Es.
    repeat match type of Es with (if ?x =? ?n then _ else _) = Some _ =>
      destruct (Z.eqb_spec x n); [subst c; inversion Es; subst k; reflexivity|] end.
    discriminate.
  - unfold lex_pct.
    destruct (Z.eqb_spec c 58) as [->|N58].
    { rewrite lx_after_58. unfold cls_colon.
      pose proof (lex_kc_none (58 :: r3) 58 r3 Es) as B.
      destruct r3 as [|x r4]; [exact B|].
      destruct (x =? 122); [reflexivity|]. destruct (x =? 58); [|exact B].
      destruct r4 as [|y r5]; [exact B|].
      destruct (y =? 122); [reflexivity|]. destruct (y =? 58); [|exact B].
      destruct r5 as [|z r6]; [exact B|].
      destruct (z =? 122); [reflexivity|exact B]. }
    destruct (Z.eqb_spec c 69) as [->|N69].
    { change (lx_after (69 :: r3) _ _ _ _ _ _ _ _) with (lex_kE rec r3). apply lex_kE_cls. }
    destruct (Z.eqb_spec c 79) as [->|N79].
    { rewrite lx_after_79. destruct r3 as [|d r2].
      - apply (lex_kc_none [79] 79 [] Es).
      - unfold lex_kO. destruct (negb (is_alpha d)); reflexivity. }
    rewrite lx_after_other by assumption. apply lex_kc_none; assumption.
Qed.
End LexCls.

Lemma lex_fuel_lit f c r : c <> 37 -> lex_fuel (S f) (c :: r) = FLit c :: lex_fuel f r.
Proof.
  intros N. rewrite lex_fuel_S. unfold lex_body. rewrite lx_top_spec.
  destruct (Z.eqb_spec c 37); [contradiction|reflexivity].
Qed.

Lemma lex_fuel_pct f r : lex_fuel (S f) (37 :: r) = lex_pct (lex_fuel f) r.
Proof. rewrite lex_fuel_S. reflexivity. Qed.

Lemma lex_fuel_pctpct f r : lex_fuel (S f) (37 :: 37 :: r) = FPct :: lex_fuel f r.
Proof. rewrite lex_fuel_pct. reflexivity. Qed.

Lemma lex_fuel_pct_end f : lex_fuel (S f) [37] = [FQuirk [37]].
Proof. rewrite lex_fuel_pct. reflexivity. Qed.

(* ================================================================== *)
(* ParseInt on the "%E<digits>" count                                  *)

Definition pi_start (dp : list Z) (width : Z) : bool * option (list Z) * Z :=
  match dp with
  | 45 :: r =>
      if (width <=? 0) || negb (width - 1 =? 0) then (true, Some r, if width <=? 0 then width else width - 1)
      else (true, None, width - 1)
  | _ => (false, Some dp, width)
  end.

Lemma parse_int_unfold kmin dp width lo hi :
  parse_int kmin dp width lo hi =
  let '(neg, start, w1) := pi_start dp width in
  match start with
  | None => None
  | Some bp =>
      let '(value, rest, n, erange) := parse_int_loop kmin bp w1 0 0 in
      if negb (Nat.eqb n 0) && negb erange && (neg || negb (value =? kmin)) then
        if negb neg || negb (value =? 0) then
          let v := if neg then value else - value in
          if (lo <=? v) && (v <=? hi) then Some (v, rest) else None
        else None
      else None
  end.
Proof. reflexivity. Qed.

Lemma pi_start_len dp width neg bp w1 : pi_start dp width = (neg, Some bp, w1) ->
  (length bp <= length dp)%nat.
Proof.
  destruct dp as [|c r]; [intros [= _ <- _]; lia|].
  destruct (Z.eqb_spec c 45) as [->|N].
  - cbn [pi_start]. destruct ((width <=? 0) || negb (width - 1 =? 0)); intros [= _ <- _]. cbn [length]. lia.
  - assert (pi_start (c :: r) width = (false, Some (c :: r), width)) as -> by (zwalk c).
    intros [= _ <- _]. lia.
Qed.

Lemma pi_start_other c r width : c <> 45 -> pi_start (c :: r) width = (false, Some (c :: r), width).
Proof. intros N. zwalk c. Qed.

Lemma parse_int_loop_len kmin : forall p w v n,
  let '(v', rest, n', er) := parse_int_loop kmin p w v n in (length rest <= length p)%nat.
Proof.
  induction p as [|c r IH]; intros w v n; cbn [parse_int_loop]; [lia|].
  destruct (strchr kDigits c) as [d|]; [|lia].
  destruct (10 <=? d); [lia|].
  destruct (v <? kmin ÷ 10); [lia|].
  destruct (v * 10 <? kmin + d); [lia|].
  destruct ((0 <? w) && (w - 1 =? 0)); [cbn [length]; lia|].
  specialize (IH (if 0 <? w then w - 1 else w) (v * 10 - d) (S n)).
  destruct (parse_int_loop kmin r _ _ _) as [[[v' rest] n'] er]. cbn [length]. lia.
Qed.

Lemma parse_int_res kmin dp width lo hi v rest :
  parse_int kmin dp width lo hi = Some (v, rest) -> lo <= v <= hi /\ (length rest <= length dp)%nat.
Proof.
  rewrite parse_int_unfold.
  destruct (pi_start dp width) as [[neg start] w1] eqn:Es.
  destruct start as [bp|]; [|discriminate].
  apply pi_start_len in Es.
  pose proof (parse_int_loop_len kmin bp w1 0 0) as L.
  destruct (parse_int_loop kmin bp w1 0 0) as [[[value rest'] n] er].
  destruct (negb (Nat.eqb n 0) && negb er && (neg || negb (value =? kmin))); [|discriminate].
  destruct (negb neg || negb (value =? 0)); [|discriminate].
  cbv zeta.
  destruct ((lo <=? (if neg then value else - value)) && ((if neg then value else - value) <=? hi)) eqn:E;
    [|discriminate].
  intros [= <- <-]. split; lia.
Qed.

Definition dstep (a c : Z) : Z := a * 10 + (c - 48).

Lemma fold_dstep_ge : forall ds a, forallb is_digit ds = true -> 0 <= a -> a <= fold_left dstep ds a.
Proof.
  induction ds as [|c ds IH]; intros a Hd Ha; cbn [fold_left]; [lia|].
  cbn [forallb] in Hd. apply andb_true_iff in Hd. destruct Hd as [Hc Hd].
  unfold is_digit in Hc.
  specialize (IH (dstep a c) Hd). unfold dstep in *. lia.
Qed.

Lemma parse_loop_digits : forall ds r a n,
  forallb is_digit ds = true ->
  match r with [] => True | x :: _ => is_digit x = false /\ x <> 0 end ->
  0 <= a -> fold_left dstep ds a <= 1024 ->
  parse_int_loop min32 (ds ++ r) 0 (- a) n = (- fold_left dstep ds a, r, (n + length ds)%nat, false).
Proof.
  induction ds as [|c ds IH]; intros r a n Hd Hr Ha Hb.
  - cbn [app fold_left length]. rewrite Nat.add_0_r.
    destruct r as [|x r']; [reflexivity|]. destruct Hr as [Hx Hx0].
    cbn [parse_int_loop]. rewrite strchr_digits, Hx.
    destruct (Z.eqb_spec x 0); [contradiction|reflexivity].
  - cbn [forallb] in Hd. apply andb_true_iff in Hd. destruct Hd as [Hc Hd].
    cbn [app fold_left length] in *.
    pose proof (fold_dstep_ge ds (dstep a c) Hd) as G.
    assert (48 <= c <= 57) as Hc' by (unfold is_digit in Hc; lia).
    assert (0 <= dstep a c) as Hs by (unfold dstep; lia).
    specialize (G Hs).
    cbn [parse_int_loop]. rewrite strchr_digits, Hc.
    replace (10 <=? c - 48) with false by lia.
    change (min32 ÷ 10) with (-214748364).
    replace (- a <? -214748364) with false by (unfold dstep in *; lia).
    replace (- a * 10 <? min32 + (c - 48)) with false by (unfold min32, dstep in *; lia).
    change ((0 <? 0) && (0 - 1 =? 0)) with false. cbv iota.
    change (if 0 <? 0 then 0 - 1 else 0) with 0.
    replace (- a * 10 - (c - 48)) with (- dstep a c) by (unfold dstep; lia).
    rewrite IH by assumption.
    replace (n + S (length ds))%nat with (S n + length ds)%nat by lia. reflexivity.
Qed.

Lemma take_digits_spec : forall l ds r, take_digits_f l = (ds, r) ->
  l = ds ++ r /\ forallb is_digit ds = true /\
  match r with [] => True | x :: _ => is_digit x = false end.
Proof.
  induction l as [|c l IH]; intros ds r E; cbn [take_digits_f] in E.
  - inversion E; subst. auto.
  - destruct (is_digit c) eqn:Ec.
    + destruct (take_digits_f l) as [a b]. inversion E; subst.
      destruct (IH a r eq_refl) as (E1 & E2 & E3). subst l.
      split; [reflexivity|]. split; [cbn [forallb]; rewrite Ec, E2; reflexivity|exact E3].
    + inversion E; subst. split; [reflexivity|]. split; [reflexivity|exact Ec].
Qed.

Lemma digits_val_fold ds : digits_val ds = fold_left dstep ds 0.
Proof. reflexivity. Qed.

Lemma parse_count d r4 ds x r6 : is_digit d = true ->
  take_digits_f (d :: r4) = (ds, x :: r6) -> x <> 0 -> digits_val ds <= 1024 ->
  parse_int32 (d :: r4) 0 0 1024 = Some (digits_val ds, x :: r6).
Proof.
  intros Hd Et Hx Hv.
  pose proof (take_digits_spec _ _ _ Et) as (El & Hds & Hxd).
  assert (1 <= length ds)%nat as Hlen.
  { cbn [take_digits_f] in Et. rewrite Hd in Et. destruct (take_digits_f r4). inversion Et. cbn [length]. lia. }
  unfold parse_int32. rewrite parse_int_unfold.
  rewrite pi_start_other by (unfold is_digit in Hd; lia).
  rewrite El. rewrite digits_val_fold in *.
  pose proof (parse_loop_digits ds (x :: r6) 0 0 Hds (conj Hxd Hx) ltac:(lia) Hv) as P.
  change (- 0) with 0 in P. rewrite P.
  pose proof (fold_dstep_ge ds 0 Hds ltac:(lia)) as G.
  replace (Nat.eqb (0 + length ds) 0) with false by (symmetry; apply Nat.eqb_neq; lia).
  cbn [negb andb orb].
  replace (- fold_left dstep ds 0 =? min32) with false by (unfold min32; lia).
  cbn [negb]. cbv zeta.
  rewrite Z.opp_involutive.
  replace ((0 <=? fold_left dstep ds 0) && (fold_left dstep ds 0 <=? 1024)) with true by lia.
  reflexivity.
Qed.

(* ---- strchr on the simple-specifier set ---- *)
Lemma strchr_simple_some c k : simple_lib c = Some k -> exists i, strchr simple_set c = Some i.
Proof.
  intros E. unfold strchr, simple_set. cbn [index_of].
  repeat match goal with |- context [?n =? c] =>
    destruct (Z.eqb_spec n c); [eexists; reflexivity|] end.
  exfalso. unfold simple_lib in E.
  repeat match type of E with (if ?x =? ?n then _ else _) = Some _ =>
    destruct (Z.eqb_spec x n); [congruence|] end.
  discriminate.
Qed.

Lemma strchr_simple_none c : simple_lib c = None -> c <> 37 -> c <> 0 -> strchr simple_set c = None.
Proof.
  intros E N37 N0. apply simple_lib_none in E.
  destruct E as (N1 & N2 & N3 & N4 & N5 & N6 & N7 & N8 & N9 & N10 & N11 & N12 & N13 & N14).
  unfold strchr, simple_set. cbn [index_of].
  repeat match goal with |- context [?n =? c] =>
    destruct (Z.eqb_spec n c); [congruence|] end.
  destruct (Z.eqb_spec c 0); [contradiction|reflexivity].
Qed.

(* ================================================================== *)
(* The specifier dispatch of format(): functional and safety lemmas    *)

Section OddTail.
Variable o : list Z -> tmrec -> list Z.
Variable rec : list Z -> list Z -> list Z -> res (list Z).
Variable cx : fctx.
Hypothesis Hcx : cx_ok cx.

Lemma cx_off : -93599 <= al_off (fc_al cx) <= 93599.
Proof. destruct Hcx as ((_ & _ & H) & _). exact H. Qed.

Lemma impl_digits (K : list Z -> list Z -> res (list Z)) (D : res (list Z)) d r4 k r' :
  cls_digits d r4 = C_lib k r' ->
  (if is_digit d then
     pi_sel (parse_int32 (d :: r4) 0 0 1024)
       (fun n r5 => do s <- ext_num cx n 83 ;; K s r5)
       (fun n r5 => do s <- ext_num cx n 102 ;; K s r5) D
   else D) = K (rl cx k) r'.
Proof.
  unfold cls_digits. destruct (is_digit d) eqn:Ed; [|discriminate].
  destruct (take_digits_f (d :: r4)) as [ds r5] eqn:Et.
  destruct r5 as [|x r6]; [discriminate|].
  pose proof (take_digits_spec _ _ _ Et) as (_ & Hds & _).
  pose proof (fold_dstep_ge ds 0 Hds ltac:(lia)) as G. rewrite <- digits_val_fold in G.
  destruct (Z.eqb_spec x 83) as [->|N1].
  { destruct (Z.leb_spec (digits_val ds) 1024) as [L|L]; [|discriminate].
    intros [= <- <-].
    rewrite (parse_count d r4 ds 83 r6 Ed Et ltac:(lia) L). rewrite pi_sel_spec.
    change (83 =? 83) with true. cbv iota.
    rewrite ext_num_S by (auto; lia). reflexivity. }
  destruct (Z.eqb_spec x 102) as [->|N2]; [|discriminate].
  destruct (Z.leb_spec (digits_val ds) 1024) as [L|L]; [|discriminate].
  intros [= <- <-].
  rewrite (parse_count d r4 ds 102 r6 Ed Et ltac:(lia) L). rewrite pi_sel_spec.
  change (102 =? 83) with false. change (102 =? 102) with true. cbv iota.
  rewrite ext_num_f by (auto; lia). reflexivity.
Qed.

Lemma impl_cls c r3 r2 pend2 result2 k r' : c <> 37 -> cls c r3 = C_lib k r' ->
  odd_tail o rec cx c r3 r2 pend2 result2
  = rec r' [] (result2 ++ flush o (removelast pend2) (fc_tm cx) ++ rl cx k).
Proof.
  intros N37 E. pose proof cx_off as Hoff. unfold cls in E.
  destruct (simple_lib c) as [k0|] eqn:Es.
  - inversion E; subst k0 r'. unfold odd_tail.
    destruct (strchr_simple_some c k Es) as [i ->].
    rewrite (simple_spec_lib cx c k Hcx Es). reflexivity.
  - destruct (Z.eqb_spec c 58) as [->|N58].
    { unfold odd_tail. change (strchr simple_set 58) with (@None Z). cbv iota.
      change (58 =? 58) with true. cbv iota. rewrite colon_sel_spec.
      unfold colon_cl, cls_colon in *.
      destruct r3 as [|x r4]; [discriminate|].
      destruct (x =? 122).
      { inversion E; subst. rewrite format_offset_cz by assumption. reflexivity. }
      destruct (x =? 58); [|discriminate].
      destruct r4 as [|y r5]; [discriminate|].
      destruct (y =? 122).
      { inversion E; subst. rewrite format_offset_ccz by assumption. reflexivity. }
      destruct (y =? 58); [|discriminate].
      destruct r5 as [|z r6]; [discriminate|].
      destruct (z =? 122); [|discriminate].
      inversion E; subst. rewrite format_offset_cccz by assumption. reflexivity. }
    destruct (Z.eqb_spec c 69) as [->|N69]; [|discriminate].
    unfold odd_tail. change (strchr simple_set 69) with (@None Z). cbv iota.
    change (69 =? 58) with false. cbv iota. change (negb (69 =? 69)) with false. cbv iota.
    unfold cls_E in E.
    destruct r3 as [|d r4]; [discriminate|]. cbv zeta.
    destruct (d =? 84). { inversion E; subst. reflexivity. }
    destruct (d =? 122). { inversion E; subst. rewrite format_offset_cz by assumption. reflexivity. }
    rewrite e_sel_spec.
    destruct (d =? 42) eqn:E42.
    { destruct r4 as [|x r5]; [discriminate|].
      destruct (x =? 122). { inversion E; subst. rewrite format_offset_ccz by assumption. reflexivity. }
      destruct (x =? 83). { inversion E; subst. rewrite ext_star_S by assumption. reflexivity. }
      destruct (x =? 102). { inversion E; subst. rewrite ext_star_f by assumption. reflexivity. }
      discriminate. }
    destruct (d =? 52) eqn:E52.
    { destruct r4 as [|x r5].
      - apply (impl_digits (fun s rr => rec rr [] (result2 ++ flush o (removelast pend2) (fc_tm cx) ++ s))).
        exact E.
      - destruct (x =? 89).
        { inversion E; subst. rewrite format_E4Y by assumption. reflexivity. }
        apply (impl_digits (fun s rr => rec rr [] (result2 ++ flush o (removelast pend2) (fc_tm cx) ++ s))).
        exact E. }
    apply (impl_digits (fun s rr => rec rr [] (result2 ++ flush o (removelast pend2) (fc_tm cx) ++ s))).
    exact E.
Qed.

(* ---- safety of the dispatch ---- *)
Lemma colon_cl_cases r3 :
  colon_cl r3 = None \/
  exists mode r4, colon_cl r3 = Some (mode, r4) /\ (length r4 <= length r3)%nat /\
                  (mode = [58] \/ mode = [58; 42] \/ mode = [58; 42; 58]).
Proof.
  unfold colon_cl.
  destruct r3 as [|x r4]; [auto|].
  destruct (x =? 122). { right. eexists _, _. split; [reflexivity|]. cbn [length]. split; [lia|auto]. }
  destruct (x =? 58); [|auto].
  destruct r4 as [|y r5]; [auto|].
  destruct (y =? 122). { right. eexists _, _. split; [reflexivity|]. cbn [length]. split; [lia|auto]. }
  destruct (y =? 58); [|auto].
  destruct r5 as [|z r6]; [auto|].
  destruct (z =? 122); [|auto].
  right. eexists _, _. split; [reflexivity|]. cbn [length]. split; [lia|auto].
Qed.

Lemma odd_tail_safe c r3 r2 pend2 result2 :
  (forall rr p res, (length rr <= length r3)%nat -> exists x, rec rr p res = OK x) ->
  (forall p res, exists x, rec r2 p res = OK x) ->
  exists x, odd_tail o rec cx c r3 r2 pend2 result2 = OK x.
Proof.
  intros Hrec Hr2. pose proof cx_off as Hoff. unfold odd_tail.
  destruct (strchr simple_set c).
  { destruct (simple_spec_total cx c Hcx) as [s ->]. cbn [bind]. apply Hrec. lia. }
  destruct (if c =? 58 then colon_sel r3 else None) as [[mode r4]|] eqn:Ecol.
  { destruct (c =? 58); [|discriminate]. rewrite colon_sel_spec in Ecol.
    destruct (colon_cl_cases r3) as [En|(m' & r4' & Es & Hl & Hm)]; [congruence|].
    rewrite Es in Ecol. inversion Ecol; subst m' r4'.
    destruct Hm as [ -> | [ -> | -> ] ];
      [rewrite format_offset_cz by assumption | rewrite format_offset_ccz by assumption
      | rewrite format_offset_cccz by assumption]; cbn [bind]; apply Hrec; assumption. }
  destruct (negb (c =? 69)); [apply Hr2|].
  destruct r3 as [|d r4]; [apply Hrec; lia|]. cbv zeta.
  assert (forall rr p res, (length rr <= length r4)%nat -> exists x, rec rr p res = OK x) as Hrec4.
  { intros rr p res L. apply Hrec. cbn [length]. lia. }
  destruct (d =? 84); [apply Hrec4; lia|].
  destruct (d =? 122). { rewrite format_offset_cz by assumption. cbn [bind]. apply Hrec4; lia. }
  assert (exists x,
    (if is_digit d
     then pi_sel (parse_int32 (d :: r4) 0 0 1024)
       (fun n r5 => do s <- ext_num cx n 83;; rec r5 [] (result2 ++ flush o (removelast pend2) (fc_tm cx) ++ s))
       (fun n r5 => do s <- ext_num cx n 102;; rec r5 [] (result2 ++ flush o (removelast pend2) (fc_tm cx) ++ s))
       (rec (d :: r4) (pend2 ++ [69]) result2)
     else rec (d :: r4) (pend2 ++ [69]) result2) = OK x) as Hdflt.
  { destruct (is_digit d); [|apply Hrec; lia].
    rewrite pi_sel_spec.
    destruct (parse_int32 (d :: r4) 0 0 1024) as [[n [|x r5]]|] eqn:Ep; try (apply Hrec; lia).
    apply parse_int_res in Ep. destruct Ep as [Hn Hl]. cbn [length] in Hl.
    destruct (x =? 83). { rewrite ext_num_S by assumption. cbn [bind]. apply Hrec. cbn [length]. lia. }
    destruct (x =? 102). { rewrite ext_num_f by assumption. cbn [bind]. apply Hrec. cbn [length]. lia. }
    apply Hrec; lia. }
  rewrite e_sel_spec.
  destruct (d =? 42).
  { destruct r4 as [|x r5]; [exact Hdflt|].
    assert (forall rr p res, (length rr <= length r5)%nat -> exists x, rec rr p res = OK x) as Hrec5.
    { intros rr p res L. apply Hrec4. cbn [length]. lia. }
    destruct (x =? 122). { rewrite format_offset_ccz by assumption. cbn [bind]. apply Hrec5; lia. }
    destruct (x =? 83). { rewrite ext_star_S by assumption. cbn [bind]. apply Hrec5; lia. }
    destruct (x =? 102). { rewrite ext_star_f by assumption. cbn [bind]. apply Hrec5; lia. }
    exact Hdflt. }
  destruct (d =? 52); [|exact Hdflt].
  destruct r4 as [|x r5]; [exact Hdflt|].
  destruct (x =? 89); [|exact Hdflt].
  rewrite format_E4Y by assumption. cbn [bind]. apply Hrec4. cbn [length]. lia.
Qed.
End OddTail.

(* ================================================================== *)
(* Part 4: no format string makes format() fail                        *)

Lemma span_spec f : forall l a b, span_while f l = (a, b) ->
  l = a ++ b /\ forallb f a = true /\ match b with [] => True | x :: _ => f x = false end.
Proof.
  induction l as [|c l IH]; intros a b E; cbn [span_while] in E.
  - inversion E; subst. auto.
  - destruct (f c) eqn:Ec.
    + destruct (span_while f l) as [a' b']. inversion E; subst.
      destruct (IH a' b eq_refl) as (E1 & E2 & E3). subst l.
      split; [reflexivity|]. split; [cbn [forallb]; rewrite Ec, E2; reflexivity|exact E3].
    + inversion E; subst. split; [reflexivity|]. split; [reflexivity|exact Ec].
Qed.

Lemma span_two l lit r1 pcs r2 : l <> [] ->
  span_while (fun c => negb (is_pct c)) l = (lit, r1) -> span_while is_pct r1 = (pcs, r2) ->
  l = lit ++ pcs ++ r2 /\ (1 <= length lit + length pcs)%nat.
Proof.
  intros Hne E1 E2.
  pose proof (span_spec _ _ _ _ E1) as (H1 & _ & H1').
  pose proof (span_spec _ _ _ _ E2) as (H2 & _ & _).
  split; [rewrite H1, H2; reflexivity|].
  destruct lit as [|a lit]; [|cbn [length]; lia].
  cbn [app] in H1. subst r1. destruct l as [|c l]; [contradiction|].
  cbn beta in H1'. cbn [span_while] in E2.
  destruct (is_pct c); [|discriminate].
  destruct (span_while is_pct l). inversion E2. cbn [length]. lia.
Qed.

Section Safe.
Variable o : list Z -> tmrec -> list Z.
Variable cx : fctx.
Hypothesis Hcx : cx_ok cx.

Lemma body_safe rec rest pend result :
  (forall rr p res, (length rr < length rest)%nat -> exists x, rec rr p res = OK x) ->
  exists x, fmt_body o rec cx rest pend result = OK x.
Proof.
  intros Hrec. unfold fmt_body.
  destruct rest as [|c0 rest0]; [eauto|].
  destruct (span_while (fun c => negb (is_pct c)) (c0 :: rest0)) as [lit r1] eqn:E1.
  destruct (lit_upd lit pend result) as [result1 pend1].
  destruct (span_while is_pct r1) as [pcs r2] eqn:E2.
  cbv zeta.
  destruct (pct_upd pcs pend1 result1 _) as [result2 pend2].
  assert (c0 :: rest0 <> []) as Hne by discriminate.
  destruct (span_two _ _ _ _ _ Hne E1 E2) as [Hl Hn].
  assert (length r2 < length (c0 :: rest0))%nat as Hlt.
  { rewrite Hl, !app_length. lia. }
  destruct r2 as [|c r3]; [eauto|].
  destruct (Z.rem (Z.of_nat (length pcs)) 2 =? 0); [apply Hrec; exact Hlt|].
  apply odd_tail_safe; [assumption| |].
  - intros rr p res L. apply Hrec. cbn [length] in *. lia.
  - intros p res. apply Hrec. exact Hlt.
Qed.

Lemma loop_safe : forall fuel rest pend result, (length rest < fuel)%nat ->
  exists x, fmt_loop o fuel cx rest pend result = OK x.
Proof.
  induction fuel as [|f IH]; intros rest pend result L; [lia|].
  rewrite fmt_loop_S. apply body_safe. intros rr p res L'. apply IH. lia.
Qed.
End Safe.

Lemma cx_ok_mk al fs unix : al_ok' al -> 0 <= fs < 10 ^ 15 -> int64 unix ->
  cx_ok (mkFC al (spec_tm (al_cs al) (al_dst al)) fs unix).
Proof. intros H1 H2 H3. repeat split; try apply H1; try apply H2; try apply H3. Qed.

Lemma format_safe_lemma : forall strftime_o fmt al fs unix,
  (valid_fields (al_cs al) = true /\ int64 (fy (al_cs al)) /\ -93599 <= al_off al <= 93599) ->
  0 <= fs < 10 ^ 15 -> int64 unix ->
  exists r, format_impl strftime_o fmt al fs unix = OK r.
Proof.
  intros o fmt al fs unix Hal Hfs Hu. unfold format_impl.
  rewrite to_tm_spec_lemma by exact Hal. cbn [bind].
  apply loop_safe; [apply cx_ok_mk; assumption|lia].
Qed.

(* ================================================================== *)
(* Part 3b: the loop on literal / %% / library-specifier formats       *)

Lemma lex_fuel_nil f : lex_fuel f [] = [].
Proof. destruct f; reflexivity. Qed.

Lemma lex_lits : forall lit r f, forallb (fun c => negb (is_pct c)) lit = true ->
  lex_fuel (length lit + f) (lit ++ r) = map FLit lit ++ lex_fuel f r.
Proof.
  induction lit as [|c lit IH]; intros r f H; [reflexivity|].
  cbn [forallb] in H. apply andb_true_iff in H. destruct H as [Hc H].
  cbn [length app map Nat.add]. rewrite lex_fuel_lit by (unfold is_pct in Hc; lia).
  rewrite IH by assumption. reflexivity.
Qed.

Lemma lex_pcts : forall k r f,
  lex_fuel (k + f) (repeat 37 (2 * k) ++ r) = repeat FPct k ++ lex_fuel f r.
Proof.
  induction k as [|k IH]; intros r f; [reflexivity|].
  replace (2 * S k)%nat with (S (S (2 * k))) by lia.
  cbn [repeat app Nat.add]. rewrite lex_fuel_pctpct, IH. reflexivity.
Qed.

Lemma all_pct_repeat : forall pcs, forallb is_pct pcs = true -> pcs = repeat 37 (length pcs).
Proof.
  induction pcs as [|c pcs IH]; intros H; [reflexivity|].
  cbn [forallb] in H. apply andb_true_iff in H. destruct H as [Hc H].
  cbn [length repeat]. rewrite <- IH by assumption. unfold is_pct in Hc. f_equal. lia.
Qed.

Lemma pct_upd_even pcs k res at_end : length pcs = (2 * k)%nat ->
  pct_upd pcs [] res at_end = (res ++ repeat 37 k, []).
Proof.
  intros Hl. unfold pct_upd.
  destruct pcs as [|a pcs'].
  - cbn [length] in Hl. assert (k = 0)%nat as -> by lia. cbn [repeat app]. rewrite app_nil_r. reflexivity.
  - rewrite Hl. cbv zeta.
    replace (Z.rem (Z.of_nat (2 * k)) 2 =? 0) with true by lia.
    replace (Z.to_nat (Z.of_nat (2 * k) ÷ 2)) with k by lia.
    reflexivity.
Qed.

Lemma pct_upd_odd pcs k res at_end : length pcs = (2 * k + 1)%nat ->
  pct_upd pcs [] res at_end =
  if at_end then (res ++ repeat 37 k ++ [37], []) else (res ++ repeat 37 k, [37]).
Proof.
  intros Hl. unfold pct_upd.
  destruct pcs as [|a pcs']; [cbn [length] in Hl; lia|].
  rewrite Hl. cbv zeta.
  replace (Z.rem (Z.of_nat (2 * k + 1)) 2 =? 0) with false by lia.
  replace (Z.to_nat (Z.of_nat (2 * k + 1) ÷ 2)) with k by lia.
  destruct at_end; reflexivity.
Qed.

Lemma cls_digits_len d r4 k r' : cls_digits d r4 = C_lib k r' -> (length r' <= length r4)%nat.
Proof.
  unfold cls_digits. destruct (is_digit d) eqn:Ed; [|discriminate].
  destruct (take_digits_f (d :: r4)) as [ds r5] eqn:Et.
  pose proof (take_digits_spec _ _ _ Et) as (El & _ & _).
  assert (length (d :: r4) = length ds + length r5)%nat as L by (rewrite El, app_length; reflexivity).
  destruct r5 as [|x r6]; [discriminate|]. cbn [length] in L.
  assert (1 <= length ds)%nat as Hlen.
  { cbn [take_digits_f] in Et. rewrite Ed in Et. destruct (take_digits_f r4). inversion Et. cbn [length]. lia. }
  destruct (x =? 83); [destruct (digits_val ds <=? 1024); [|discriminate]; intros [= _ <-]; lia|].
  destruct (x =? 102); [destruct (digits_val ds <=? 1024); [|discriminate]; intros [= _ <-]; lia|].
  discriminate.
Qed.

Lemma cls_len c r3 k r' : cls c r3 = C_lib k r' -> (length r' <= length r3)%nat.
Proof.
  unfold cls. destruct (simple_lib c); [intros [= _ <-]; lia|].
  destruct (c =? 58).
  { unfold cls_colon.
    destruct r3 as [|x r4]; [discriminate|]. cbn [length].
    destruct (x =? 122); [intros [= _ <-]; lia|]. destruct (x =? 58); [|discriminate].
    destruct r4 as [|y r5]; [discriminate|]. cbn [length].
    destruct (y =? 122); [intros [= _ <-]; lia|]. destruct (y =? 58); [|discriminate].
    destruct r5 as [|z r6]; [discriminate|]. cbn [length].
    destruct (z =? 122); [intros [= _ <-]; lia|discriminate]. }
  destruct (c =? 69); [|discriminate].
  unfold cls_E. destruct r3 as [|d r4]; [discriminate|]. cbn [length].
  destruct (d =? 84); [intros [= _ <-]; lia|].
  destruct (d =? 122); [intros [= _ <-]; lia|].
  destruct (d =? 42).
  { destruct r4 as [|x r5]; [discriminate|]. cbn [length].
    destruct (x =? 122); [intros [= _ <-]; lia|].
    destruct (x =? 83); [intros [= _ <-]; lia|].
    destruct (x =? 102); [intros [= _ <-]; lia|discriminate]. }
  destruct (d =? 52).
  { destruct r4 as [|x r5]; [intros H; apply cls_digits_len in H; lia|].
    destruct (x =? 89); [intros [= _ <-]; cbn [length]; lia|].
    intros H; apply cls_digits_len in H; lia. }
  intros H; apply cls_digits_len in H; lia.
Qed.

Lemma hd_bad_not_good l : hd_bad l = true -> forallb good l = false.
Proof.
  destruct l as [|t l]; [discriminate|]. cbn [hd_bad forallb].
  destruct (good t); [discriminate|reflexivity].
Qed.

Section LibOnly.
Variable o : list Z -> tmrec -> list Z.
Variable cx : fctx.
Variable tm : tmrec.
Hypothesis Hcx : cx_ok cx.

Definition RT (t : ftok) : list Z :=
  render_tok o t (al_cs (fc_al cx)) (al_off (fc_al cx)) (al_abbr (fc_al cx)) (fc_fs cx) (fc_unix cx) tm.

Lemma RT_lits lit : flat_map RT (map FLit lit) = lit.
Proof. induction lit as [|c l IH]; [reflexivity|]. cbn [map flat_map]. rewrite IH. reflexivity. Qed.

Lemma RT_pcts k : flat_map RT (repeat FPct k) = repeat 37 k.
Proof. induction k as [|k IH]; [reflexivity|]. cbn [repeat flat_map]. rewrite IH. reflexivity. Qed.

Lemma body_lib rec rest result fl :
  rest <> [] -> (length rest < fl)%nat -> forallb good (lex_fuel fl rest) = true ->
  (forall rr res fl', (length rr < length rest)%nat -> (length rr < fl')%nat ->
     forallb good (lex_fuel fl' rr) = true ->
     rec rr [] res = OK (res ++ flat_map RT (lex_fuel fl' rr))) ->
  fmt_body o rec cx rest [] result = OK (result ++ flat_map RT (lex_fuel fl rest)).
Proof.
  intros Hne Hfl Hgood Hrec. unfold fmt_body.
  destruct rest as [|c0 rest0]; [contradiction|].
  set (rest := c0 :: rest0) in *.
  destruct (span_while (fun c => negb (is_pct c)) rest) as [lit r1] eqn:E1.
  destruct (span_while is_pct r1) as [pcs r2] eqn:E2.
  destruct (span_two _ _ _ _ _ Hne E1 E2) as [Hl Hn].
  pose proof (span_spec _ _ _ _ E1) as (_ & Hlit & _).
  pose proof (span_spec _ _ _ _ E2) as (_ & Hpcs & Hr2).
  apply all_pct_repeat in Hpcs.
  assert (lit_upd lit [] result = (result ++ lit, [])) as ->.
  { destruct lit; [cbn; rewrite app_nil_r; reflexivity|reflexivity]. }
  cbv zeta.
  assert (length rest = length lit + length pcs + length r2)%nat as Hlen
    by (rewrite Hl, !app_length; lia).
  destruct (Nat.Even_or_Odd (length pcs)) as [[k Hk]|[k Hk]].
  - (* an even run of percents *)
    rewrite (pct_upd_even pcs k) by exact Hk.
    replace (Z.rem (Z.of_nat (length pcs)) 2 =? 0) with true by lia.
    assert (lex_fuel fl rest =
            map FLit lit ++ repeat FPct k ++ lex_fuel (fl - length lit - k) r2) as EL.
    { replace fl with (length lit + (k + (fl - length lit - k)))%nat at 1 by lia.
      rewrite Hl, Hpcs, Hk, lex_lits, lex_pcts by assumption. reflexivity. }
    rewrite EL in *. rewrite !forallb_app in Hgood.
    apply andb_true_iff in Hgood. destruct Hgood as [_ Hgood].
    apply andb_true_iff in Hgood. destruct Hgood as [_ Hgood].
    rewrite !flat_map_app, RT_lits, RT_pcts.
    destruct r2 as [|c r3].
    + rewrite lex_fuel_nil. cbn [flush flat_map]. rewrite <- !app_assoc. reflexivity.
    + rewrite (Hrec (c :: r3) _ (fl - length lit - k)%nat); [|lia|lia|exact Hgood].
      rewrite <- !app_assoc. reflexivity.
  - (* an odd run: the last percent introduces a specifier *)
    rewrite (pct_upd_odd pcs k) by exact Hk.
    replace (Z.rem (Z.of_nat (length pcs)) 2 =? 0) with false by lia.
    assert (exists f3, fl = (length lit + (k + S f3))%nat /\ (k + length r2 < f3)%nat) as (f3 & Efl & Hf3).
    { exists (fl - length lit - k - 1)%nat. lia. }
    assert (lex_fuel fl rest =
            map FLit lit ++ repeat FPct k ++ lex_fuel (S f3) (37 :: r2)) as EL.
    { rewrite Efl, Hl, Hpcs, Hk.
      replace (2 * k + 1)%nat with (2 * k + 1)%nat by lia. rewrite repeat_app.
      cbn [repeat]. rewrite <- (app_assoc (repeat 37 (2 * k)) [37] r2). cbn [app].
      rewrite lex_lits, lex_pcts by assumption. reflexivity. }
    rewrite EL in *. rewrite !forallb_app in Hgood.
    apply andb_true_iff in Hgood. destruct Hgood as [_ Hgood].
    apply andb_true_iff in Hgood. destruct Hgood as [_ Hgood].
    destruct r2 as [|c r3].
    { rewrite lex_fuel_pct_end in Hgood. discriminate. }
    assert (c <> 37) as N37 by (unfold is_pct in Hr2; lia).
    rewrite lex_fuel_pct in Hgood |- *.
    pose proof (lex_pct_cls (lex_fuel f3) c r3 N37) as Hc.
    destruct (cls c r3) as [k' r'|] eqn:Ecls.
    2:{ apply hd_bad_not_good in Hc. congruence. }
    rewrite Hc in *. cbn [forallb] in Hgood.
    pose proof (cls_len _ _ _ _ Ecls) as Hlen'. cbn [length] in *.
    rewrite (impl_cls o rec cx Hcx c r3 (c :: r3) [37] _ k' r' N37 Ecls).
    cbn [removelast flush app].
    rewrite (Hrec r' _ f3); [|lia|lia|exact Hgood].
    rewrite !flat_map_app, RT_lits, RT_pcts. cbn [flat_map].
    rewrite <- !app_assoc. reflexivity.
Qed.

Lemma loop_lib : forall fuel rest result fl,
  (length rest < fuel)%nat -> (length rest < fl)%nat ->
  forallb good (lex_fuel fl rest) = true ->
  fmt_loop o fuel cx rest [] result = OK (result ++ flat_map RT (lex_fuel fl rest)).
Proof.
  induction fuel as [|f IH]; intros rest result fl L1 L2 G; [lia|].
  rewrite fmt_loop_S.
  destruct rest as [|c0 rest0].
  - rewrite lex_fuel_nil. reflexivity.
  - apply body_lib; [discriminate|assumption|assumption|].
    intros rr res fl' La Lb Gr. apply IH; [lia|assumption|assumption].
Qed.
End LibOnly.

Lemma format_lib_only_lemma : forall strftime_o fmt al fs unix tm,
  forallb (fun c => negb (c =? 0)) fmt &&
  forallb (fun t => match t with FLit _ | FPct | FLib _ => true | _ => false end) (lex fmt) = true ->
  (valid_fields (al_cs al) = true /\ int64 (fy (al_cs al)) /\ -93599 <= al_off al <= 93599) ->
  0 <= fs < 10 ^ 15 -> int64 unix ->
  format_impl strftime_o fmt al fs unix
  = OK (render_spec strftime_o fmt (al_cs al) (al_off al) (al_abbr al) fs unix tm).
Proof.
  intros o fmt al fs unix tm Hlib Hal Hfs Hu.
  apply andb_true_iff in Hlib. destruct Hlib as [_ Hlex].
  unfold format_impl. rewrite to_tm_spec_lemma by exact Hal. cbn [bind].
  pose proof (cx_ok_mk al fs unix Hal Hfs Hu) as Hcx.
  unfold render_spec. unfold lex in *.
  change (forallb good (lex_fuel (S (length fmt)) fmt) = true) in Hlex.
  assert (length fmt < 2 * length fmt + 2)%nat as L1 by lia.
  assert (length fmt < S (length fmt))%nat as L2 by lia.
  pose proof (loop_lib o _ tm Hcx (2 * length fmt + 2) fmt [] (S (length fmt)) L1 L2 Hlex) as E.
  set (L := lex_fuel (S (length fmt)) fmt) in *. clearbody L.
  rewrite E. reflexivity.
Qed.

Definition lib_only' (fmt : list Z) : bool :=
  forallb (fun c => negb (c =? 0)) fmt &&
  forallb (fun t => match t with FLit _ | FPct | FLib _ => true | _ => false end) (lex fmt).

(* Everything requested is proved; nothing is left unproved in this file:
   scratch_bound_lemma (+ format64_spec), to_tm_spec_lemma, the per-specifier
   lemmas (format02d_ok, format_offset_z/cz/ccz/cccz, ext_star_S/f,
   ext_num_S/f, format_E4Y, to_week_U/W, simple_spec_lib), format_safe_lemma
   and format_lib_only_lemma (including %U / %W). *)
