(* Properties_C02.v — C02: civil -> instant: UNIQUE / SKIPPED / REPEATED and
   pre / trans / post.  Stated at the integer level (ZoneZ.v: a civil second is
   L = t + offset) for EVERY zone value satisfying the boolean certificate wfz
   (strictly increasing times; offset changes farther apart than the sum of
   their sizes - the property's own side condition) and EVERY civil second. *)
From CCTZ Require Import Base ZoneZ ZoneZProofs.
Local Open Scope Z_scope.

Theorem zmake_spec : forall z L, wfz z = true ->
  let c := zmake z L in
  match zk c with
  | ZU => zpre c = ztrans c /\ ztrans c = zpost c /\ displays z (zpre c) L /\
          (forall t, displays z t L -> t = zpre c)
  | ZS => (forall t, ~ displays z t L) /\
          zoff z (ztrans c - 1) <> zoff z (ztrans c) /\
          zpre c = L - zoff z (ztrans c - 1) /\ zpost c = L - zoff z (ztrans c) /\
          zpre c >= ztrans c /\ ztrans c > zpost c
  | ZR => displays z (zpre c) L /\ displays z (zpost c) L /\ zpre c <> zpost c /\
          (forall t, displays z t L -> t = zpre c \/ t = zpost c) /\
          zoff z (ztrans c - 1) <> zoff z (ztrans c) /\
          zpre c = L - zoff z (ztrans c - 1) /\ zpost c = L - zoff z (ztrans c) /\
          zpre c < ztrans c /\ ztrans c <= zpost c
  end.
Proof. exact zmake_spec_lemma. Qed.
Print Assumptions zmake_spec.

(* the kinds are exhaustive and exclusive in terms of the number of preimages *)
Theorem zmake_kind_iff : forall z L, wfz z = true ->
  (zk (zmake z L) = ZS <-> forall t, ~ displays z t L) /\
  (zk (zmake z L) = ZU <-> exists t, displays z t L /\ forall t', displays z t' L -> t' = t) /\
  (zk (zmake z L) = ZR <-> exists t1 t2, t1 <> t2 /\ displays z t1 L /\ displays z t2 L).
Proof. exact zmake_kind_iff_lemma. Qed.
Print Assumptions zmake_kind_iff.

From CCTZ Require Import Base Cal CivilImpl PosixImpl FixedImpl ZoneLoad ZoneImpl ZoneZ ZoneHist ZoneRefineDefs ZoneRefine.

(* the implementation-level MakeTime (six-field civil seconds, checked int64)
   computes exactly zmake of the abstracted zone, clamped *)
(* civil -> instant: the integer-level answer, clamped to the time_point range *)
Definition clamp (v : Z) : Z := Z.max min64 (Z.min max64 v).
Definition kind_of (k : zkind) : ckind := match k with ZU => UNIQUE | ZS => SKIPPED | ZR => REPEATED end.

Theorem c02_make_refines : forall z h cs, zone_ok z = true -> valid_fields cs = true -> int64 (fy cs) ->
  (z_extended z = false \/ fy cs <= z_last_year z) ->
  exists h',
    let c := zmake (abs_zone z) (sec_of cs) in
    make_time z h cs = OK (mkCL (kind_of (zk c)) (clamp (zpre c)) (clamp (ztrans c)) (clamp (zpost c)), h').
Proof. exact make_refines_lemma. Qed.
Print Assumptions c02_make_refines.

Example c02_nonvacuous :
  let z := mkZZ [mkZT 0 3600 1; mkZT 10000000 7200 2; mkZT 20000000 3600 1] 0 0 in
  wfz z = true /\ zk (zmake z 10003700) = ZS /\ zk (zmake z 20005000) = ZR /\ zk (zmake z 5000) = ZU.
Proof. vm_compute. repeat split; reflexivity. Qed.

From CCTZ Require Import FutureDefs FutureProofs.

(* civil -> instant, years beyond the table of an extended zone *)
Theorem c02_future_lookup : forall z h cs,
  zone_ok z = true -> z_extended z = true -> valid_fields cs = true -> int64 (fy cs) ->
  z_last_year z < fy cs ->
  (* the table's last transition is local year last_year (what ExtendTransitions guarantees) *)
  (forall l, last_opt (z_trans z) = Some l -> fy (tr_cs l) = z_last_year z /\ P400 <= tr_time l) ->
  (* ... and the civil second just before it is not in a later year (ADDED: see the remark below) *)
  (forall l, last_opt (z_trans z) = Some l -> fy (tr_pcs l) <= z_last_year z) ->
  let k := (fy cs - z_last_year z - 1) / 400 + 1 in
  let cs' := mkF (fy cs - 400 * k) (fm cs) (fd cs) (fhh cs) (fmm cs) (fss cs) in
  exists h', let c := zmake (abs_zone z) (sec_of cs') in
    make_time z h cs = OK (mkCL (match zk c with ZU => UNIQUE | ZS => SKIPPED | ZR => REPEATED end)
                                (Z.min max64 (zpre c + k * P400)) (Z.min max64 (ztrans c + k * P400))
                                (Z.min max64 (zpost c + k * P400)), h').
Proof. exact make_future_lemma. Qed.
Print Assumptions c02_future_lookup.


From CCTZ Require Import LoadCert.

(* end to end: for EVERY accepted byte string whose data satisfies the side condition *)
Theorem c02_every_accepted_file : forall bs z h cs, load_bytes bs = OK (Some z) ->
  gaps_wide (zz_doff (abs_zone z)) (zz_tr (abs_zone z)) = true ->
  valid_fields cs = true -> int64 (fy cs) ->
  (z_extended z = false \/ fy cs <= z_last_year z) ->
  exists h', let c := zmake (abs_zone z) (sec_of cs) in
    make_time z h cs = OK (mkCL (kind_of' (zk c)) (clamp' (zpre c)) (clamp' (ztrans c)) (clamp' (zpost c)), h').
Proof. exact accepted_make_refines_lemma. Qed.
Print Assumptions c02_every_accepted_file.


From CCTZ Require Import ZoneSpec WholeDomain C01Whole.
From CCTZ Require C02Whole.
(* END TO END against the TZif specification (C02Whole.v).  spec_displays a t cs: the file's data, read by the
   independent reader ZoneSpec (default type / latest transition / POSIX footer rule evaluated on the calendar,
   arbitrarily far into the future), designates civil second cs for instant t - t ranges over ALL of Z, so that
   "clamped to min()/max()" is meaningful.  For every byte string that parses into a well-formed file of the C01
   domain whose footer offsets are below 24 h and whose (recorded + generated) offset changes are farther apart
   than their sizes - every hypothesis a boolean on the parsed file - the loader accepts it and MakeTime answers,
   for EVERY valid civil second with an int64 year and every hint: *)
Definition c02_outcome (a : ast) (cs : fields) (cl : clookup) : Prop :=
  match cl_kind cl with
  | UNIQUE =>
      (* exactly one instant displays cs; all three fields are that instant *)
      exists t, C02Whole.spec_displays a t cs /\ (forall t', C02Whole.spec_displays a t' cs -> t' = t) /\
        cl_pre cl = clamp64z t /\ cl_trans cl = clamp64z t /\ cl_post cl = clamp64z t
  | SKIPPED =>
      (* no instant displays cs; T is an offset change (o1 before, o2 from T on) whose gap contains cs:
         T + o1 <= cs < T + o2, i.e. pre >= trans > post; pre / post = cs read with o1 / o2 *)
      (forall t, ~ C02Whole.spec_displays a t cs) /\
      exists T o1 o2,
        off_at (szone_of a) (T - 1) = Some o1 /\ off_at (szone_of a) T = Some o2 /\ o1 <> o2 /\
        sec_of cs - o1 >= T /\ T > sec_of cs - o2 /\
        cl_pre cl = clamp64z (sec_of cs - o1) /\ cl_trans cl = clamp64z T /\
        cl_post cl = clamp64z (sec_of cs - o2)
  | REPEATED =>
      (* exactly two instants display cs: cs read with o1 (before the change T) and with o2 (after it) *)
      exists T o1 o2,
        off_at (szone_of a) (T - 1) = Some o1 /\ off_at (szone_of a) T = Some o2 /\ o1 <> o2 /\
        C02Whole.spec_displays a (sec_of cs - o1) cs /\ C02Whole.spec_displays a (sec_of cs - o2) cs /\
        sec_of cs - o1 < T /\ T <= sec_of cs - o2 /\
        (forall t, C02Whole.spec_displays a t cs -> t = sec_of cs - o1 \/ t = sec_of cs - o2) /\
        cl_pre cl = clamp64z (sec_of cs - o1) /\ cl_trans cl = clamp64z T /\
        cl_post cl = clamp64z (sec_of cs - o2)
  end.

Theorem c02_whole : forall bs h a,
  parse_ast bs = Some (h, a) -> wf_ast h a = true -> c01_domain h a = true ->
  footer_below_day a = true -> table_gaps_ok a = true ->
  exists z, load_bytes bs = OK (Some z) /\
    forall hint cs, valid_fields cs = true -> int64 (fy cs) ->
      exists cl hint', make_time z hint cs = OK (cl, hint') /\ c02_outcome a cs cl.
Proof. exact C02Whole.c02_whole_ast. Qed.
Print Assumptions c02_whole.
(* the hypotheses are satisfiable: the New York file of C01Whole.v, with UNIQUE / SKIPPED / REPEATED civil seconds
   inside the table, beyond last_year_ and clamped at max() evaluated in C02Whole.c02_whole_nonvacuous *)

From CCTZ Require Import SourceZone SourceZoneProofs.
(* SOURCE-DERIVED zone queries (SourceZone.v, regenerated by gen/ast_translate_zone.py from clang's AST of the CURRENT
   src/time_zone_info.cc on every run: control flow, comparisons, the relaxed-atomic hint logic, std::upper_bound with its
   partition precondition as Err Precond, pointer-as-index arithmetic with Err OOB, the 400-year shift in checked 64-bit
   arithmetic, assert as Err Precond).  An edit of the C++ changes SourceZone.v and breaks these obligations; the
   hypotheses are only the C++ types (size_t: 0 <= x < 2^64).  fuel counts the recursive self-calls. *)
Theorem src_make_time_tie : forall z hint cs r,
  size_t (vec_size (z_trans z)) -> size_t hint ->
  valid_fields cs = true -> int64 (z_last_year z - 400) ->
  make_time z hint cs = OK r ->
  forall fuel, (3 <= fuel)%nat -> sz_MakeTime fuel z hint cs = OK r.
Proof. exact sz_MakeTime_tie. Qed.
Print Assumptions src_make_time_tie.
Theorem src_make_skipped_tie : forall tr cs r, make_skipped tr cs = OK r -> sz_MakeSkipped tr cs = OK r.
Proof. exact sz_MakeSkipped_tie. Qed.
Print Assumptions src_make_skipped_tie.
Theorem src_make_repeated_tie : forall tr cs r, make_repeated tr cs = OK r -> sz_MakeRepeated tr cs = OK r.
Proof. exact sz_MakeRepeated_tie. Qed.
Print Assumptions src_make_repeated_tie.
