(* Properties_C02.v — C02: civil -> instant: UNIQUE / SKIPPED / REPEATED and
   pre / trans / post.  Stated at the integer level (ZoneZ.v: a civil second is
   L = t + offset) for EVERY zone value satisfying the boolean certificate wfz
   (strictly increasing times; offset changes farther apart than the sum of
   their sizes - the property's own side condition) and EVERY civil second. *)
From CCTZ Require Import Base ZoneZ ZoneZProofs.
Local Open Scope Z_scope.

Theorem zmake_spec : forall z L, wfz z = true ->
  let c := zmake z L in
  match zk c with
  | ZU => zpre c = ztrans c /\ ztrans c = zpost c /\ displays z (zpre c) L /\
          (forall t, displays z t L -> t = zpre c)
  | ZS => (forall t, ~ displays z t L) /\
          zoff z (ztrans c - 1) <> zoff z (ztrans c) /\
          zpre c = L - zoff z (ztrans c - 1) /\ zpost c = L - zoff z (ztrans c) /\
          zpre c >= ztrans c /\ ztrans c > zpost c
  | ZR => displays z (zpre c) L /\ displays z (zpost c) L /\ zpre c <> zpost c /\
          (forall t, displays z t L -> t = zpre c \/ t = zpost c) /\
          zoff z (ztrans c - 1) <> zoff z (ztrans c) /\
          zpre c = L - zoff z (ztrans c - 1) /\ zpost c = L - zoff z (ztrans c) /\
          zpre c < ztrans c /\ ztrans c <= zpost c
  end.
Proof. exact zmake_spec_lemma. Qed.
Print Assumptions zmake_spec.

(* the kinds are exhaustive and exclusive in terms of the number of preimages *)
Theorem zmake_kind_iff : forall z L, wfz z = true ->
  (zk (zmake z L) = ZS <-> forall t, ~ displays z t L) /\
  (zk (zmake z L) = ZU <-> exists t, displays z t L /\ forall t', displays z t' L -> t' = t) /\
  (zk (zmake z L) = ZR <-> exists t1 t2, t1 <> t2 /\ displays z t1 L /\ displays z t2 L).
Proof. exact zmake_kind_iff_lemma. Qed.
Print Assumptions zmake_kind_iff.

From CCTZ Require Import Base Cal CivilImpl PosixImpl FixedImpl ZoneLoad ZoneImpl ZoneZ ZoneHist ZoneRefineDefs ZoneRefine.

(* the implementation-level MakeTime (six-field civil seconds, checked int64)
   computes exactly zmake of the abstracted zone, clamped *)
(* civil -> instant: the integer-level answer, clamped to the time_point range *)
Definition clamp (v : Z) : Z := Z.max min64 (Z.min max64 v).
Definition kind_of (k : zkind) : ckind := match k with ZU => UNIQUE | ZS => SKIPPED | ZR => REPEATED end.

Theorem c02_make_refines : forall z h cs, zone_ok z = true -> valid_fields cs = true -> int64 (fy cs) ->
  (z_extended z = false \/ fy cs <= z_last_year z) ->
  exists h',
    let c := zmake (abs_zone z) (sec_of cs) in
    make_time z h cs = OK (mkCL (kind_of (zk c)) (clamp (zpre c)) (clamp (ztrans c)) (clamp (zpost c)), h').
Proof. exact make_refines_lemma. Qed.
Print Assumptions c02_make_refines.

Example c02_nonvacuous :
  let z := mkZZ [mkZT 0 3600 1; mkZT 10000000 7200 2; mkZT 20000000 3600 1] 0 0 in
  wfz z = true /\ zk (zmake z 10003700) = ZS /\ zk (zmake z 20005000) = ZR /\ zk (zmake z 5000) = ZU.
Proof. vm_compute. repeat split; reflexivity. Qed.

From CCTZ Require Import FutureDefs FutureProofs.

(* civil -> instant, years beyond the table of an extended zone *)
Theorem c02_future_lookup : forall z h cs,
  zone_ok z = true -> z_extended z = true -> valid_fields cs = true -> int64 (fy cs) ->
  z_last_year z < fy cs ->
  (* the table's last transition is local year last_year (what ExtendTransitions guarantees) *)
  (forall l, last_opt (z_trans z) = Some l -> fy (tr_cs l) = z_last_year z /\ P400 <= tr_time l) ->
  (* ... and the civil second just before it is not in a later year (ADDED: see the remark below) *)
  (forall l, last_opt (z_trans z) = Some l -> fy (tr_pcs l) <= z_last_year z) ->
  let k := (fy cs - z_last_year z - 1) / 400 + 1 in
  let cs' := mkF (fy cs - 400 * k) (fm cs) (fd cs) (fhh cs) (fmm cs) (fss cs) in
  exists h', let c := zmake (abs_zone z) (sec_of cs') in
    make_time z h cs = OK (mkCL (match zk c with ZU => UNIQUE | ZS => SKIPPED | ZR => REPEATED end)
                                (Z.min max64 (zpre c + k * P400)) (Z.min max64 (ztrans c + k * P400))
                                (Z.min max64 (zpost c + k * P400)), h').
Proof. exact make_future_lemma. Qed.
Print Assumptions c02_future_lookup.


From CCTZ Require Import LoadCert.

(* end to end: for EVERY accepted byte string whose data satisfies the side condition *)
Theorem c02_every_accepted_file : forall bs z h cs, load_bytes bs = OK (Some z) ->
  gaps_wide (zz_doff (abs_zone z)) (zz_tr (abs_zone z)) = true ->
  valid_fields cs = true -> int64 (fy cs) ->
  (z_extended z = false \/ fy cs <= z_last_year z) ->
  exists h', let c := zmake (abs_zone z) (sec_of cs) in
    make_time z h cs = OK (mkCL (kind_of' (zk c)) (clamp' (zpre c)) (clamp' (ztrans c)) (clamp' (zpost c)), h').
Proof. exact accepted_make_refines_lemma. Qed.
Print Assumptions c02_every_accepted_file.

