(* Properties_C02.v — C02: civil -> instant: UNIQUE / SKIPPED / REPEATED and
   pre / trans / post.  Stated at the integer level (ZoneZ.v: a civil second is
   L = t + offset) for EVERY zone value satisfying the boolean certificate wfz
   (strictly increasing times; offset changes farther apart than the sum of
   their sizes - the property's own side condition) and EVERY civil second. *)
From CCTZ Require Import Base ZoneZ ZoneZProofs.
Local Open Scope Z_scope.

Theorem zmake_spec : forall z L, wfz z = true ->
  let c := zmake z L in
  match zk c with
  | ZU => zpre c = ztrans c /\ ztrans c = zpost c /\ displays z (zpre c) L /\
          (forall t, displays z t L -> t = zpre c)
  | ZS => (forall t, ~ displays z t L) /\
          zoff z (ztrans c - 1) <> zoff z (ztrans c) /\
          zpre c = L - zoff z (ztrans c - 1) /\ zpost c = L - zoff z (ztrans c) /\
          zpre c >= ztrans c /\ ztrans c > zpost c
  | ZR => displays z (zpre c) L /\ displays z (zpost c) L /\ zpre c <> zpost c /\
          (forall t, displays z t L -> t = zpre c \/ t = zpost c) /\
          zoff z (ztrans c - 1) <> zoff z (ztrans c) /\
          zpre c = L - zoff z (ztrans c - 1) /\ zpost c = L - zoff z (ztrans c) /\
          zpre c < ztrans c /\ ztrans c <= zpost c
  end.
Proof. exact zmake_spec_lemma. Qed.
Print Assumptions zmake_spec.

(* the kinds are exhaustive and exclusive in terms of the number of preimages *)
Theorem zmake_kind_iff : forall z L, wfz z = true ->
  (zk (zmake z L) = ZS <-> forall t, ~ displays z t L) /\
  (zk (zmake z L) = ZU <-> exists t, displays z t L /\ forall t', displays z t' L -> t' = t) /\
  (zk (zmake z L) = ZR <-> exists t1 t2, t1 <> t2 /\ displays z t1 L /\ displays z t2 L).
Proof. exact zmake_kind_iff_lemma. Qed.
Print Assumptions zmake_kind_iff.

From CCTZ Require Import Base Cal CivilImpl PosixImpl FixedImpl ZoneLoad ZoneImpl ZoneZ ZoneHist ZoneRefineDefs ZoneRefine.

(* the implementation-level MakeTime (six-field civil seconds, checked int64)
   computes exactly zmake of the abstracted zone, clamped *)
(* civil -> instant: the integer-level answer, clamped to the time_point range *)
Definition clamp (v : Z) : Z := Z.max min64 (Z.min max64 v).
Definition kind_of (k : zkind) : ckind := match k with ZU => UNIQUE | ZS => SKIPPED | ZR => REPEATED end.

Theorem c02_make_refines : forall z h cs, zone_ok z = true -> valid_fields cs = true -> int64 (fy cs) ->
  (z_extended z = false \/ fy cs <= z_last_year z) ->
  exists h',
    let c := zmake (abs_zone z) (sec_of cs) in
    make_time z h cs = OK (mkCL (kind_of (zk c)) (clamp (zpre c)) (clamp (ztrans c)) (clamp (zpost c)), h').
Proof. exact make_refines_lemma. Qed.
Print Assumptions c02_make_refines.

Example c02_nonvacuous :
  let z := mkZZ [mkZT 0 3600 1; mkZT 10000000 7200 2; mkZT 20000000 3600 1] 0 0 in
  wfz z = true /\ zk (zmake z 10003700) = ZS /\ zk (zmake z 20005000) = ZR /\ zk (zmake z 5000) = ZU.
Proof. vm_compute. repeat split; reflexivity. Qed.
