(* SourceDecodeProofs.v - ties the clang-AST-derived Decode8 / Decode32 / Decode64 of
   src/time_zone_info.cc (SourceDecode.v, generated) to the hand-written model
   decode_be / decode32 / decode64 of ZoneLoad.v, for every buffer of bytes and every
   in-bounds position. *)
From Coq Require Import ZArith List Lia Bool.
From CCTZ Require Import Base ZoneLoad SourceDecode.
Import ListNotations.
Local Open Scope Z_scope.

Definition bytes_ok (s : list Z) : Prop := Forall (fun c => 0 <= c <= 255) s.

(* ---------- bit-level facts ---------- *)

Lemma lor_shift8 a b : 0 <= a -> 0 <= b < 256 -> Z.lor (Z.shiftl a 8) b = a * 256 + b.
Proof.
  intros Ha Hb.
  assert (HL : Z.land (Z.shiftl a 8) b = 0).
  { apply Z.bits_inj'. intros n Hn. rewrite Z.land_spec, Z.bits_0.
    destruct (Z.ltb_spec n 8) as [L|L].
    - rewrite Z.shiftl_spec_low by lia. reflexivity.
    - assert (Z.testbit b n = false) as ->; [|apply andb_false_r].
      apply Z.testbit_false; [lia|].
      rewrite Z.div_small; [reflexivity|].
      split; [lia|]. apply Z.lt_le_trans with (2 ^ 8); [simpl; lia|].
      apply Z.pow_le_mono_r; lia. }
  rewrite <- Z.lxor_lor by exact HL.
  rewrite <- Z.add_nocarry_lxor by exact HL.
  rewrite Z.shiftl_mul_pow2 by lia. change (2 ^ 8) with 256. reflexivity.
Qed.

Lemma byte_mask c : 0 <= c <= 255 -> Z.modulo (Z.land (Z.modulo c (2 ^ 8)) 255) (2 ^ 8) = c.
Proof.
  intros H. change 255 with (Z.ones 8). rewrite Z.land_ones by lia.
  change (2 ^ 8) with 256.
  rewrite (Z.mod_small c 256) by lia. rewrite (Z.mod_small c 256) by lia.
  apply Z.mod_small. lia.
Qed.

(* ---------- list facts ---------- *)

Lemma skipn_nth_cons (l : list Z) : forall n, (n < length l)%nat ->
  skipn n l = nth n l 0 :: skipn (S n) l.
Proof.
  induction l as [|x l IH]; intros n H; simpl in H; [lia|].
  destruct n as [|n]; [reflexivity|].
  change (skipn (S n) (x :: l)) with (skipn n l).
  change (skipn (S (S n)) (x :: l)) with (skipn (S n) l).
  change (nth (S n) (x :: l) 0) with (nth n l 0).
  apply IH. lia.
Qed.

Lemma bytes_nth buf n : bytes_ok buf -> (n < length buf)%nat -> 0 <= nth n buf 0 <= 255.
Proof.
  intros HB Hn. unfold bytes_ok in HB. rewrite Forall_forall in HB.
  apply HB. apply nth_In. exact Hn.
Qed.

(* ---------- Decode8 ---------- *)

Lemma sd_Decode8_tie : forall fuel buf cp, bytes_ok buf -> 0 <= cp < blen buf ->
  sd_Decode8 fuel buf cp = OK (nth (Z.to_nat cp) buf 0).
Proof.
  intros fuel buf cp HB Hcp. unfold sd_Decode8, rd.
  destruct (Z.ltb_spec cp 0); [lia|].
  destruct (Z.ltb_spec cp (blen buf)); [|lia].
  cbn [bind]. rewrite byte_mask; [reflexivity|].
  apply bytes_nth; [exact HB|]. unfold blen in Hcp. lia.
Qed.

(* ---------- the accumulation step ---------- *)

Definition be_step (a b : Z) : Z := a * 256 + b.

Lemma acc_step v b P : 0 <= v < P -> P * 256 <= 2 ^ 64 -> 0 <= b <= 255 ->
  Z.lor (Z.modulo (Z.shiftl v 8) (2 ^ 64)) b = be_step v b /\ 0 <= be_step v b < P * 256.
Proof.
  intros Hv HP Hb. unfold be_step. split; [|lia].
  assert (E : Z.shiftl v 8 = v * 256).
  { rewrite Z.shiftl_mul_pow2 by lia. reflexivity. }
  rewrite Z.mod_small by (rewrite E; lia).
  apply lor_shift8; lia.
Qed.

Lemma padd1 buf cp : 0 <= cp < blen buf -> padd buf cp 1 = OK (cp + 1).
Proof.
  intros H. unfold padd. destruct (Z.ltb_spec cp 0); [lia|].
  destruct (Z.leb_spec 0 (cp + 1)); [|lia].
  destruct (Z.leb_spec (cp + 1) (blen buf + 1)); [|lia]. reflexivity.
Qed.

Lemma add32_small i : 0 <= i <= 100 -> add32 i 1 = OK (i + 1).
Proof. intros H. unfold add32. apply chk32_in. unfold int32, min32, max32. lia. Qed.

(* ---------- Decode32 loop ---------- *)

Lemma loop32_unfold fuel buf cp v i :
  sd_Decode32_loop1 (S fuel) buf cp v i =
  if (negb (i =? (Z.quot 32 8))) then (
    do t3 <- padd buf cp 1 ;;
    do t5 <- sd_Decode8 fuel buf cp ;;
    do t1 <- add32 i 1 ;;
    sd_Decode32_loop1 fuel buf t3 (Z.lor (Z.modulo (Z.shiftl v 8) (2 ^ 64)) t5) t1)
  else OK (None, (cp, v, i)).
Proof. reflexivity. Qed.

Lemma loop64_unfold fuel buf cp v i :
  sd_Decode64_loop1 (S fuel) buf cp v i =
  if (negb (i =? (Z.quot 64 8))) then (
    do t3 <- padd buf cp 1 ;;
    do t5 <- sd_Decode8 fuel buf cp ;;
    do t1 <- add32 i 1 ;;
    sd_Decode64_loop1 fuel buf t3 (Z.lor (Z.modulo (Z.shiftl v 8) (2 ^ 64)) t5) t1)
  else OK (None, (cp, v, i)).
Proof. reflexivity. Qed.

Lemma pow256_step i : 0 <= i -> 2 ^ (8 * (i + 1)) = 2 ^ (8 * i) * 256.
Proof.
  intros H. replace (8 * (i + 1)) with (8 * i + 8) by lia.
  rewrite Z.pow_add_r by lia. reflexivity.
Qed.

Lemma loop32_run : forall (k : nat) fuel buf cp v i,
  bytes_ok buf -> 0 <= cp -> cp + Z.of_nat k <= blen buf ->
  0 <= i -> i + Z.of_nat k = 4 -> 0 <= v < 2 ^ (8 * i) -> (k + 1 <= fuel)%nat ->
  exists w, sd_Decode32_loop1 fuel buf cp v i = OK (None, (cp + Z.of_nat k, w, 4))
    /\ w = fold_left be_step (firstn k (skipn (Z.to_nat cp) buf)) v
    /\ 0 <= w < 2 ^ 32.
Proof.
  induction k as [|k IH]; intros fuel buf cp v i HB Hcp Hlen Hi Hik Hv Hf.
  - destruct fuel as [|fuel]; [lia|]. rewrite loop32_unfold.
    assert (i = 4) by lia. subst i. change (Z.quot 32 8) with 4.
    rewrite Z.eqb_refl. cbn [negb]. exists v. split; [|split].
    + replace (cp + Z.of_nat 0) with cp by lia. reflexivity.
    + reflexivity.
    + exact Hv.
  - destruct fuel as [|fuel]; [lia|]. rewrite loop32_unfold.
    change (Z.quot 32 8) with 4.
    destruct (Z.eqb_spec i 4) as [E|E]; [lia|]. cbn [negb].
    assert (Hcp' : 0 <= cp < blen buf) by lia.
    rewrite padd1 by exact Hcp'. cbn [bind].
    rewrite sd_Decode8_tie by assumption. cbn [bind].
    rewrite add32_small by lia. cbn [bind].
    assert (Hn : (Z.to_nat cp < length buf)%nat) by (unfold blen in Hcp'; lia).
    pose proof (bytes_nth buf _ HB Hn) as Hb.
    assert (HP : 2 ^ (8 * i) * 256 <= 2 ^ 64).
    { rewrite <- pow256_step by lia. apply Z.pow_le_mono_r; lia. }
    destruct (acc_step v (nth (Z.to_nat cp) buf 0) (2 ^ (8 * i)) Hv HP Hb) as [Es Hs].
    rewrite Es. rewrite <- pow256_step in Hs by lia.
    destruct (IH fuel buf (cp + 1) (be_step v (nth (Z.to_nat cp) buf 0)) (i + 1))
      as [w [Hw1 [Hw2 Hw3]]]; try assumption; try lia.
    exists w. split; [|split].
    + rewrite Hw1. replace (cp + 1 + Z.of_nat k) with (cp + Z.of_nat (S k)) by lia. reflexivity.
    + rewrite Hw2. rewrite (skipn_nth_cons buf (Z.to_nat cp)) by exact Hn.
      replace (Z.to_nat (cp + 1)) with (S (Z.to_nat cp)) by lia. reflexivity.
    + exact Hw3.
Qed.

Lemma loop64_run : forall (k : nat) fuel buf cp v i,
  bytes_ok buf -> 0 <= cp -> cp + Z.of_nat k <= blen buf ->
  0 <= i -> i + Z.of_nat k = 8 -> 0 <= v < 2 ^ (8 * i) -> (k + 1 <= fuel)%nat ->
  exists w, sd_Decode64_loop1 fuel buf cp v i = OK (None, (cp + Z.of_nat k, w, 8))
    /\ w = fold_left be_step (firstn k (skipn (Z.to_nat cp) buf)) v
    /\ 0 <= w < 2 ^ 64.
Proof.
  induction k as [|k IH]; intros fuel buf cp v i HB Hcp Hlen Hi Hik Hv Hf.
  - destruct fuel as [|fuel]; [lia|]. rewrite loop64_unfold.
    assert (i = 8) by lia. subst i. change (Z.quot 64 8) with 8.
    rewrite Z.eqb_refl. cbn [negb]. exists v. split; [|split].
    + replace (cp + Z.of_nat 0) with cp by lia. reflexivity.
    + reflexivity.
    + exact Hv.
  - destruct fuel as [|fuel]; [lia|]. rewrite loop64_unfold.
    change (Z.quot 64 8) with 8.
    destruct (Z.eqb_spec i 8) as [E|E]; [lia|]. cbn [negb].
    assert (Hcp' : 0 <= cp < blen buf) by lia.
    rewrite padd1 by exact Hcp'. cbn [bind].
    rewrite sd_Decode8_tie by assumption. cbn [bind].
    rewrite add32_small by lia. cbn [bind].
    assert (Hn : (Z.to_nat cp < length buf)%nat) by (unfold blen in Hcp'; lia).
    pose proof (bytes_nth buf _ HB Hn) as Hb.
    assert (HP : 2 ^ (8 * i) * 256 <= 2 ^ 64).
    { rewrite <- pow256_step by lia. apply Z.pow_le_mono_r; lia. }
    destruct (acc_step v (nth (Z.to_nat cp) buf 0) (2 ^ (8 * i)) Hv HP Hb) as [Es Hs].
    rewrite Es. rewrite <- pow256_step in Hs by lia.
    destruct (IH fuel buf (cp + 1) (be_step v (nth (Z.to_nat cp) buf 0)) (i + 1))
      as [w [Hw1 [Hw2 Hw3]]]; try assumption; try lia.
    exists w. split; [|split].
    + rewrite Hw1. replace (cp + 1 + Z.of_nat k) with (cp + Z.of_nat (S k)) by lia. reflexivity.
    + rewrite Hw2. rewrite (skipn_nth_cons buf (Z.to_nat cp)) by exact Hn.
      replace (Z.to_nat (cp + 1)) with (S (Z.to_nat cp)) by lia. reflexivity.
    + exact Hw3.
Qed.

Lemma decode_be_fold bs : decode_be bs = fold_left be_step bs 0.
Proof. reflexivity. Qed.

(* ---------- Decode32 / Decode64 ---------- *)

Lemma sd_Decode32_tie : forall fuel buf cp, bytes_ok buf -> 0 <= cp -> cp + 4 <= blen buf -> (5 <= fuel)%nat ->
  sd_Decode32 fuel buf cp = OK (decode32 (firstn 4 (skipn (Z.to_nat cp) buf))).
Proof.
  intros fuel buf cp HB Hcp Hlen Hf.
  destruct (loop32_run 4 fuel buf cp 0 0) as [w [Hw1 [Hw2 Hw3]]];
    try assumption; try (simpl; lia).
  unfold sd_Decode32. rewrite Hw1. cbn [bind].
  unfold decode32. rewrite decode_be_fold, <- Hw2.
  change (2 ^ 32) with 4294967296 in Hw3.
  change (Z.modulo 2147483647 (2 ^ 64)) with 2147483647.
  change (2 ^ 64) with 18446744073709551616.
  unfold narrow64, sub64.
  destruct (Z.leb_spec w 2147483647) as [L|L].
  - rewrite chk64_in by (unfold int64, min64, max64; lia). reflexivity.
  - rewrite (Z.mod_small (w - 2147483647)) by lia.
    rewrite (Z.mod_small (w - 2147483647 - 1)) by lia.
    rewrite chk64_in by (unfold int64, min64, max64; lia). cbn [bind].
    rewrite chk64_in by (unfold int64, min64, max64; lia). cbn [bind].
    rewrite chk64_in by (unfold int64, min64, max64; lia). cbn [bind].
    f_equal. lia.
Qed.

Lemma sd_Decode64_tie : forall fuel buf cp, bytes_ok buf -> 0 <= cp -> cp + 8 <= blen buf -> (9 <= fuel)%nat ->
  sd_Decode64 fuel buf cp = OK (decode64 (firstn 8 (skipn (Z.to_nat cp) buf))).
Proof.
  intros fuel buf cp HB Hcp Hlen Hf.
  destruct (loop64_run 8 fuel buf cp 0 0) as [w [Hw1 [Hw2 Hw3]]];
    try assumption; try (simpl; lia).
  unfold sd_Decode64. rewrite Hw1. cbn [bind].
  unfold decode64. rewrite decode_be_fold, <- Hw2.
  change (2 ^ 64) with 18446744073709551616 in Hw3.
  change (Z.modulo 9223372036854775807 (2 ^ 64)) with 9223372036854775807.
  change (2 ^ 64) with 18446744073709551616.
  unfold narrow64, sub64. unfold max64 at 1.
  destruct (Z.leb_spec w 9223372036854775807) as [L|L].
  - rewrite chk64_in by (unfold int64, min64, max64; lia). reflexivity.
  - rewrite (Z.mod_small (w - 9223372036854775807)) by lia.
    rewrite (Z.mod_small (w - 9223372036854775807 - 1)) by lia.
    rewrite chk64_in by (unfold int64, min64, max64; lia). cbn [bind].
    rewrite chk64_in by (unfold int64, min64, max64; lia). cbn [bind].
    rewrite chk64_in by (unfold int64, min64, max64; lia). cbn [bind].
    f_equal. lia.
Qed.

(* the fuel bounds are tight: with one unit less the loop runs out *)
Example sd_Decode32_fuel4 : sd_Decode32 4 [255;255;255;254] 0 = Err Fuel.
Proof. vm_compute. reflexivity. Qed.
Example sd_Decode32_ex : sd_Decode32 5 [255;255;255;254] 0 = OK (-2).
Proof. vm_compute. reflexivity. Qed.
Example sd_Decode64_ex : sd_Decode64 9 [128;0;0;0;0;0;0;0] 0 = OK (-9223372036854775808).
Proof. vm_compute. reflexivity. Qed.

Print Assumptions sd_Decode8_tie.
Print Assumptions sd_Decode32_tie.
Print Assumptions sd_Decode64_tie.
