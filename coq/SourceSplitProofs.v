(* SourceSplitProofs.v - ties for SourceSplit.v (the instantiations of the templates of include/cctz/time_zone.h
   that C18 rests on, regenerated from clang's AST on every run by gen/ast_translate_chrono.py): for each
   instantiation of the panel, whenever the hand-written model (SplitJoin.v, SubSecondDefs.v, with the num/den/bits
   of the instantiation) returns OK r, the source-derived function returns OK r (equalities where the function is
   total); then the floor theorems of SplitJoinProofs.v carried over to the code as clang reads it now. *)
From CCTZ Require Import Base Cal CivilImpl ZoneLoad ZoneImpl SplitJoin SplitJoinProofs SubSecondDefs SubSecond SourceSplit.
Require Import Lia ZifyBool.
Local Open Scope Z_scope.
Ltac Zify.zify_post_hook ::= Z.to_euclidean_division_equations.

Lemma ss_narrow_chk bits v : ss_narrow bits v = chk_rep bits v.
Proof. reflexivity. Qed.

Lemma ss_narrow_in bits v : - 2 ^ (bits - 1) <= v <= 2 ^ (bits - 1) - 1 -> ss_narrow bits v = OK v.
Proof. intros H. unfold ss_narrow. replace ((- 2 ^ (bits - 1) <=? v) && (v <=? 2 ^ (bits - 1) - 1)) with true by lia. reflexivity. Qed.

(* forward inversion of "model = OK r" *)
Ltac sinv1 :=
  match goal with
  | H : bind _ _ = OK _ |- _ =>
      apply bind_ok in H;
      let a := fresh "v" in let Ha := fresh "Hv" in destruct H as [a [Ha H]]; cbv beta in H
  | H : add64 _ _ = OK _ |- _ => unfold add64 in H
  | H : sub64 _ _ = OK _ |- _ => unfold sub64 in H
  | H : mul64 _ _ = OK _ |- _ => unfold mul64 in H
  | H : chk64 _ = OK _ |- _ => apply chk64_ok in H; destruct H as [? ?]; subst
  | H : OK _ = OK _ |- _ => inversion H; clear H; subst
  | H : Err _ = OK _ |- _ => discriminate H
  | H : (if ?b then _ else _) = OK _ |- _ => destruct b eqn:?
  | H : match ?v with pair _ _ => _ end = OK _ |- _ => destruct v
  end.
Ltac sinv := repeat sinv1.
Ltac srng := first [ assumption | unfold int64, int32, min64, max64, min32, max32 in *; cbn [fst snd] in *; lia ].
Ltac shead t := match t with bind ?r _ => shead r | _ => t end.
Ltac sgo1 :=
  match goal with
  | |- ?lhs = _ =>
      let h := shead lhs in
      match h with
      | OK _ => first [ reflexivity | progress cbn [bind] ]
      | chk64 ?z => rewrite (chk64_in z) by srng; cbn [bind]
      | chk32 ?z => rewrite (chk32_in z) by srng; cbn [bind]
      | ss_narrow ?b ?z => rewrite (ss_narrow_in b z) by (change (2 ^ (b - 1)) with ltac:(let v := eval vm_compute in (2 ^ (b - 1)) in exact v); srng); cbn [bind]
      | add64 _ _ => unfold add64
      | sub64 _ _ => unfold sub64
      | mul64 _ _ => unfold mul64
      | add32 _ _ => unfold add32
      | sub32 _ _ => unfold sub32
      | (if ?b then _ else _) =>
          first [ match goal with
                  | E : b = true |- _ => rewrite E
                  | E : b = false |- _ => rewrite E
                  end; cbn [bind]
                | let E := fresh "E" in destruct b eqn:E; cbn [bind] ]
      | match ?v with pair _ _ => _ end => destruct v; cbn [bind]
      end
  end.
Ltac sgo := repeat sgo1.
Lemma ok_pair_eq (a b a' b' : Z) : a = a' -> b = b' -> @OK (Z * Z) (a, b) = OK (a', b').
Proof. intros -> ->. reflexivity. Qed.
Lemma ok_some_eq (a a' : Z) : a = a' -> @OK (option Z) (Some a) = OK (Some a').
Proof. intros ->. reflexivity. Qed.
Ltac fin := rewrite ?Z.quot_1_r, ?Z.mul_1_l, ?Z.mul_1_r;
  first [ reflexivity | apply ok_pair_eq; srng | apply ok_some_eq; srng | exfalso; srng ].

(* ------------------------------------------------------------------ *)
(* split_seconds<D>                                                     *)

Ltac split_tie :=
  let H := fresh "H" in
  intros H; unfold split_seconds in H; cbv zeta in H;
  rewrite ?Z.mul_1_r, ?Z.quot_1_r in H; unfold mul64 in H; rewrite ?Z.mul_1_r, ?Z.quot_1_r in H;
  sinv; cbv zeta; sgo; fin.

Lemma ss_split_seconds_ns_tie c r : split_seconds 1 1000000000 c = OK r -> ss_split_seconds_ns c = OK r.
Proof. unfold ss_split_seconds_ns. split_tie. Qed.
Lemma ss_split_seconds_us_tie c r : split_seconds 1 1000000 c = OK r -> ss_split_seconds_us c = OK r.
Proof. unfold ss_split_seconds_us. split_tie. Qed.
Lemma ss_split_seconds_ms_tie c r : split_seconds 1 1000 c = OK r -> ss_split_seconds_ms c = OK r.
Proof. unfold ss_split_seconds_ms. split_tie. Qed.
Lemma ss_split_seconds_third_tie c r : split_seconds 1 3 c = OK r -> ss_split_seconds_third c = OK r.
Proof. unfold ss_split_seconds_third. split_tie. Qed.
(* Rep = int32: the sub-second part is narrowed to int; it is 0 for a period that is a whole number of seconds *)
Lemma ss_split_seconds_min32_tie c r : split_seconds 60 1 c = OK r -> ss_split_seconds_min32 c = OK r.
Proof. unfold ss_split_seconds_min32. split_tie. Qed.
Lemma ss_split_seconds_hour32_tie c r : split_seconds 3600 1 c = OK r -> ss_split_seconds_hour32 c = OK r.
Proof. unfold ss_split_seconds_hour32. split_tie. Qed.
(* the non-template overload for time_point<seconds> *)
Lemma ss_split_seconds_s64_tie c : ss_split_seconds_s64 c = OK (c, 0).
Proof. reflexivity. Qed.

(* ------------------------------------------------------------------ *)
(* join_seconds overloads                                               *)

Lemma chk_rep_ok bits v r : chk_rep bits v = OK r -> r = v /\ rep_min bits <= v <= rep_max bits.
Proof. unfold chk_rep. destruct ((rep_min bits <=? v) && (v <=? rep_max bits)) eqn:E; [|discriminate]. intros H; inversion H. lia. Qed.

(* the model with the gcd of the instantiation computed *)
Lemma join_subsecond_unfold bits denom sec fs p q :
  denom / Z.gcd denom (10 ^ 15) = p -> 10 ^ 15 / Z.gcd denom (10 ^ 15) = q ->
  join_subsecond bits denom sec fs =
  (do a <- mul64 sec denom ;; do m <- mul64 fs p ;; do s <- add64 a (Z.quot m q) ;; do r <- chk_rep bits s ;; OK (Some r)).
Proof. intros <- <-. reflexivity. Qed.

Ltac join_sub_tie p q :=
  let H := fresh "H" in
  intros H; rewrite (join_subsecond_unfold _ _ _ _ p q) in H by (vm_compute; reflexivity);
  sinv;
  match goal with Hc : chk_rep _ _ = OK _ |- _ => apply chk_rep_ok in Hc; destruct Hc as [-> _] end;
  sinv; cbv zeta; rewrite ?Z.mul_1_r in *; sgo; fin.
(* ratio<1, 1000000000>: *tpp = time_point_cast<D>(sec); *tpp += duration_cast<D>(fs) *)
Lemma ss_join_seconds_ns_tie sec fs r : join_subsecond 64 1000000000 sec fs = OK (Some r) -> ss_join_seconds_ns sec fs = OK (Some r).
Proof. unfold ss_join_seconds_ns. join_sub_tie 1 1000000. Qed.
(* ratio<1, 1000000>: *tpp = time_point_cast<D>(sec); *tpp += duration_cast<D>(fs) *)
Lemma ss_join_seconds_us_tie sec fs r : join_subsecond 64 1000000 sec fs = OK (Some r) -> ss_join_seconds_us sec fs = OK (Some r).
Proof. unfold ss_join_seconds_us. join_sub_tie 1 1000000000. Qed.
(* ratio<1, 1000>: *tpp = time_point_cast<D>(sec); *tpp += duration_cast<D>(fs) *)
Lemma ss_join_seconds_ms_tie sec fs r : join_subsecond 64 1000 sec fs = OK (Some r) -> ss_join_seconds_ms sec fs = OK (Some r).
Proof. unfold ss_join_seconds_ms. join_sub_tie 1 1000000000000. Qed.
(* ratio<1, 3>: *tpp = time_point_cast<D>(sec); *tpp += duration_cast<D>(fs) *)
Lemma ss_join_seconds_third_tie sec fs r : join_subsecond 64 3 sec fs = OK (Some r) -> ss_join_seconds_third sec fs = OK (Some r).
Proof. unfold ss_join_seconds_third. join_sub_tie 3 1000000000000000. Qed.

Ltac cases := repeat (match goal with |- context [if ?b then _ else _] => let E := fresh "E" in destruct b eqn:E end; cbn [bind]).
Ltac join_eq := intros I; cbv zeta; cases; sgo; try reflexivity; try (exfalso; srng); try (apply ok_some_eq; srng).

(* ratio<Num, 1>, Num > 1: floor, range check, full equality for every int64 second count *)
Lemma ss_join_seconds_min32_tie sec : int64 sec -> ss_join_seconds_min32 sec = OK (join_coarse 32 60 sec).
Proof. unfold ss_join_seconds_min32, join_coarse. change (rep_max 32) with 2147483647. change (rep_min 32) with (-2147483648). join_eq. Qed.
Lemma ss_join_seconds_hour32_tie sec : int64 sec -> ss_join_seconds_hour32 sec = OK (join_coarse 32 3600 sec).
Proof. unfold ss_join_seconds_hour32, join_coarse. change (rep_max 32) with 2147483647. change (rep_min 32) with (-2147483648). join_eq. Qed.
(* ratio<1, 1> in another Rep *)
Lemma ss_join_seconds_s8_tie sec : int64 sec -> ss_join_seconds_s8 sec = OK (join_seconds_rep 8 sec).
Proof. unfold ss_join_seconds_s8, join_seconds_rep. change (rep_max 8) with 127. change (rep_min 8) with (-128). join_eq. Qed.
Lemma ss_join_seconds_s16_tie sec : int64 sec -> ss_join_seconds_s16 sec = OK (join_seconds_rep 16 sec).
Proof. unfold ss_join_seconds_s16, join_seconds_rep. change (rep_max 16) with 32767. change (rep_min 16) with (-32768). join_eq. Qed.
(* the non-template overload for time_point<seconds> *)
Lemma ss_join_seconds_s64_tie sec : ss_join_seconds_s64 sec = OK (Some sec).
Proof. reflexivity. Qed.

(* ------------------------------------------------------------------ *)
(* The thin wrappers: lookup, next_transition, prev_transition, convert, format, parse.
   k : the function of the same name defined outside the header (time_zone::lookup(time_point<seconds>), ...,
   detail::format, detail::parse), ANY function; for the model ties it is the whole-second query of ZoneImpl.v. *)

Lemma split_sec_int64 num den c sp : 1 <= den -> split_seconds num den c = OK sp -> int64 (fst sp).
Proof.
  intros Hd H. unfold split_seconds in H. cbv zeta in H. sinv; cbn [fst]; [assumption|].
  unfold int64, min64, max64 in *. lia.
Qed.

Lemma to_femto_unfold num den ticks p q :
  num * 10 ^ 15 / Z.gcd (num * 10 ^ 15) den = p -> den / Z.gcd (num * 10 ^ 15) den = q ->
  to_femto num den ticks = (do m <- mul64 ticks p ;; OK (Z.quot m q)).
Proof. intros <- <-. reflexivity. Qed.

Lemma bind_ret {A} (x : res A) : (do t <- x ;; OK t) = x.
Proof. destruct x; reflexivity. Qed.

Ltac prev_tie tie n d :=
  let H := fresh "H" in let Hs := fresh "Hs" in let sp := fresh "sp" in
  unfold prev_transition_sub; intros H;
  apply bind_ok in H; destruct H as [sp [Hs H]]; cbv beta in H;
  pose proof (split_sec_int64 n d _ sp ltac:(lia) Hs);
  rewrite (tie _ sp Hs); cbn [bind]; cbv zeta;
  sinv; rewrite ?Z.mul_1_r in *; change max64 with 9223372036854775807 in *;
  sgo;
  first [ assumption
        | match goal with Hp : context [if ?b then _ else _] |- _ => destruct b eqn:? end;
          first [ assumption | exfalso; srng ] ].

(* ---- D = duration<int64, ratio<1, 1000000000>> ---- *)
Lemma ss_lookup_ns_is A (k : Z -> res A) c sp : split_seconds 1 1000000000 c = OK sp -> ss_lookup_ns A k c = k (fst sp).
Proof. intros H. unfold ss_lookup_ns. rewrite (ss_split_seconds_ns_tie c sp H). reflexivity. Qed.
Lemma ss_convert_ns_is A B (k : Z -> res A) (p : A -> B) c sp : split_seconds 1 1000000000 c = OK sp ->
  ss_convert_ns A B k p c = (do r <- k (fst sp) ;; OK (p r)).
Proof. intros H. unfold ss_convert_ns. rewrite bind_ret, (ss_lookup_ns_is A k c sp H). reflexivity. Qed.
Lemma ss_next_transition_ns_is A (k : Z -> res A) c sp : split_seconds 1 1000000000 c = OK sp -> ss_next_transition_ns A k c = k (fst sp).
Proof. intros H. unfold ss_next_transition_ns. rewrite (ss_split_seconds_ns_tie c sp H). reflexivity. Qed.
Lemma ss_next_transition_ns_tie z c r : next_transition_sub z 1 1000000000 c = OK r -> ss_next_transition_ns _ (next_transition z) c = OK r.
Proof.
  unfold next_transition_sub. intros H. apply bind_ok in H. destruct H as [sp [Hs H]].
  rewrite (ss_next_transition_ns_is _ _ c sp Hs). exact H.
Qed.
Lemma ss_prev_transition_ns_tie z c r : prev_transition_sub z 1 1000000000 c = OK r -> ss_prev_transition_ns _ (prev_transition z) c = OK r.
Proof. unfold ss_prev_transition_ns. prev_tie ss_split_seconds_ns_tie 1 1000000000. Qed.
Lemma ss_format_ns_is A (k : Z -> Z -> res A) c sp f : split_seconds 1 1000000000 c = OK sp -> to_femto 1 1000000000 (snd sp) = OK f ->
  ss_format_ns A k c = k (fst sp) f.
Proof.
  intros H Hf. unfold ss_format_ns. rewrite (ss_split_seconds_ns_tie c sp H). cbn [bind]. cbv zeta.
  rewrite (to_femto_unfold _ _ _ 1000000 1) in Hf by (vm_compute; reflexivity). sinv. sgo. rewrite ?Z.quot_1_r. reflexivity.
Qed.
Lemma ss_parse_ns_is (k : res (option (Z * Z))) :
  ss_parse_ns k = (do o <- k ;; match o with None => OK None | Some (sec, fs) => ss_join_seconds_ns sec fs end).
Proof. unfold ss_parse_ns. destruct k as [[[sec fs]|]|]; cbn [bind]; [apply bind_ret| |]; reflexivity. Qed.

(* ---- D = duration<int64, ratio<1, 1000000>> ---- *)
Lemma ss_lookup_us_is A (k : Z -> res A) c sp : split_seconds 1 1000000 c = OK sp -> ss_lookup_us A k c = k (fst sp).
Proof. intros H. unfold ss_lookup_us. rewrite (ss_split_seconds_us_tie c sp H). reflexivity. Qed.
Lemma ss_convert_us_is A B (k : Z -> res A) (p : A -> B) c sp : split_seconds 1 1000000 c = OK sp ->
  ss_convert_us A B k p c = (do r <- k (fst sp) ;; OK (p r)).
Proof. intros H. unfold ss_convert_us. rewrite bind_ret, (ss_lookup_us_is A k c sp H). reflexivity. Qed.
Lemma ss_next_transition_us_is A (k : Z -> res A) c sp : split_seconds 1 1000000 c = OK sp -> ss_next_transition_us A k c = k (fst sp).
Proof. intros H. unfold ss_next_transition_us. rewrite (ss_split_seconds_us_tie c sp H). reflexivity. Qed.
Lemma ss_next_transition_us_tie z c r : next_transition_sub z 1 1000000 c = OK r -> ss_next_transition_us _ (next_transition z) c = OK r.
Proof.
  unfold next_transition_sub. intros H. apply bind_ok in H. destruct H as [sp [Hs H]].
  rewrite (ss_next_transition_us_is _ _ c sp Hs). exact H.
Qed.
Lemma ss_prev_transition_us_tie z c r : prev_transition_sub z 1 1000000 c = OK r -> ss_prev_transition_us _ (prev_transition z) c = OK r.
Proof. unfold ss_prev_transition_us. prev_tie ss_split_seconds_us_tie 1 1000000. Qed.
Lemma ss_format_us_is A (k : Z -> Z -> res A) c sp f : split_seconds 1 1000000 c = OK sp -> to_femto 1 1000000 (snd sp) = OK f ->
  ss_format_us A k c = k (fst sp) f.
Proof.
  intros H Hf. unfold ss_format_us. rewrite (ss_split_seconds_us_tie c sp H). cbn [bind]. cbv zeta.
  rewrite (to_femto_unfold _ _ _ 1000000000 1) in Hf by (vm_compute; reflexivity). sinv. sgo. rewrite ?Z.quot_1_r. reflexivity.
Qed.
Lemma ss_parse_us_is (k : res (option (Z * Z))) :
  ss_parse_us k = (do o <- k ;; match o with None => OK None | Some (sec, fs) => ss_join_seconds_us sec fs end).
Proof. unfold ss_parse_us. destruct k as [[[sec fs]|]|]; cbn [bind]; [apply bind_ret| |]; reflexivity. Qed.

(* ---- D = duration<int64, ratio<1, 1000>> ---- *)
Lemma ss_lookup_ms_is A (k : Z -> res A) c sp : split_seconds 1 1000 c = OK sp -> ss_lookup_ms A k c = k (fst sp).
Proof. intros H. unfold ss_lookup_ms. rewrite (ss_split_seconds_ms_tie c sp H). reflexivity. Qed.
Lemma ss_convert_ms_is A B (k : Z -> res A) (p : A -> B) c sp : split_seconds 1 1000 c = OK sp ->
  ss_convert_ms A B k p c = (do r <- k (fst sp) ;; OK (p r)).
Proof. intros H. unfold ss_convert_ms. rewrite bind_ret, (ss_lookup_ms_is A k c sp H). reflexivity. Qed.
Lemma ss_next_transition_ms_is A (k : Z -> res A) c sp : split_seconds 1 1000 c = OK sp -> ss_next_transition_ms A k c = k (fst sp).
Proof. intros H. unfold ss_next_transition_ms. rewrite (ss_split_seconds_ms_tie c sp H). reflexivity. Qed.
Lemma ss_next_transition_ms_tie z c r : next_transition_sub z 1 1000 c = OK r -> ss_next_transition_ms _ (next_transition z) c = OK r.
Proof.
  unfold next_transition_sub. intros H. apply bind_ok in H. destruct H as [sp [Hs H]].
  rewrite (ss_next_transition_ms_is _ _ c sp Hs). exact H.
Qed.
Lemma ss_prev_transition_ms_tie z c r : prev_transition_sub z 1 1000 c = OK r -> ss_prev_transition_ms _ (prev_transition z) c = OK r.
Proof. unfold ss_prev_transition_ms. prev_tie ss_split_seconds_ms_tie 1 1000. Qed.
Lemma ss_format_ms_is A (k : Z -> Z -> res A) c sp f : split_seconds 1 1000 c = OK sp -> to_femto 1 1000 (snd sp) = OK f ->
  ss_format_ms A k c = k (fst sp) f.
Proof.
  intros H Hf. unfold ss_format_ms. rewrite (ss_split_seconds_ms_tie c sp H). cbn [bind]. cbv zeta.
  rewrite (to_femto_unfold _ _ _ 1000000000000 1) in Hf by (vm_compute; reflexivity). sinv. sgo. rewrite ?Z.quot_1_r. reflexivity.
Qed.
Lemma ss_parse_ms_is (k : res (option (Z * Z))) :
  ss_parse_ms k = (do o <- k ;; match o with None => OK None | Some (sec, fs) => ss_join_seconds_ms sec fs end).
Proof. unfold ss_parse_ms. destruct k as [[[sec fs]|]|]; cbn [bind]; [apply bind_ret| |]; reflexivity. Qed.

(* ---- D = duration<int64, ratio<1, 3>> ---- *)
Lemma ss_lookup_third_is A (k : Z -> res A) c sp : split_seconds 1 3 c = OK sp -> ss_lookup_third A k c = k (fst sp).
Proof. intros H. unfold ss_lookup_third. rewrite (ss_split_seconds_third_tie c sp H). reflexivity. Qed.
Lemma ss_convert_third_is A B (k : Z -> res A) (p : A -> B) c sp : split_seconds 1 3 c = OK sp ->
  ss_convert_third A B k p c = (do r <- k (fst sp) ;; OK (p r)).
Proof. intros H. unfold ss_convert_third. rewrite bind_ret, (ss_lookup_third_is A k c sp H). reflexivity. Qed.
Lemma ss_next_transition_third_is A (k : Z -> res A) c sp : split_seconds 1 3 c = OK sp -> ss_next_transition_third A k c = k (fst sp).
Proof. intros H. unfold ss_next_transition_third. rewrite (ss_split_seconds_third_tie c sp H). reflexivity. Qed.
Lemma ss_next_transition_third_tie z c r : next_transition_sub z 1 3 c = OK r -> ss_next_transition_third _ (next_transition z) c = OK r.
Proof.
  unfold next_transition_sub. intros H. apply bind_ok in H. destruct H as [sp [Hs H]].
  rewrite (ss_next_transition_third_is _ _ c sp Hs). exact H.
Qed.
Lemma ss_prev_transition_third_tie z c r : prev_transition_sub z 1 3 c = OK r -> ss_prev_transition_third _ (prev_transition z) c = OK r.
Proof. unfold ss_prev_transition_third. prev_tie ss_split_seconds_third_tie 1 3. Qed.
Lemma ss_format_third_is A (k : Z -> Z -> res A) c sp f : split_seconds 1 3 c = OK sp -> to_femto 1 3 (snd sp) = OK f ->
  ss_format_third A k c = k (fst sp) f.
Proof.
  intros H Hf. unfold ss_format_third. rewrite (ss_split_seconds_third_tie c sp H). cbn [bind]. cbv zeta.
  rewrite (to_femto_unfold _ _ _ 1000000000000000 3) in Hf by (vm_compute; reflexivity). sinv. sgo. rewrite ?Z.quot_1_r. reflexivity.
Qed.
Lemma ss_parse_third_is (k : res (option (Z * Z))) :
  ss_parse_third k = (do o <- k ;; match o with None => OK None | Some (sec, fs) => ss_join_seconds_third sec fs end).
Proof. unfold ss_parse_third. destruct k as [[[sec fs]|]|]; cbn [bind]; [apply bind_ret| |]; reflexivity. Qed.

(* ---- D = duration<int32, ratio<60, 1>> ---- *)
Lemma ss_lookup_min32_is A (k : Z -> res A) c sp : split_seconds 60 1 c = OK sp -> ss_lookup_min32 A k c = k (fst sp).
Proof. intros H. unfold ss_lookup_min32. rewrite (ss_split_seconds_min32_tie c sp H). reflexivity. Qed.
Lemma ss_convert_min32_is A B (k : Z -> res A) (p : A -> B) c sp : split_seconds 60 1 c = OK sp ->
  ss_convert_min32 A B k p c = (do r <- k (fst sp) ;; OK (p r)).
Proof. intros H. unfold ss_convert_min32. rewrite bind_ret, (ss_lookup_min32_is A k c sp H). reflexivity. Qed.
Lemma ss_next_transition_min32_is A (k : Z -> res A) c sp : split_seconds 60 1 c = OK sp -> ss_next_transition_min32 A k c = k (fst sp).
Proof. intros H. unfold ss_next_transition_min32. rewrite (ss_split_seconds_min32_tie c sp H). reflexivity. Qed.
Lemma ss_next_transition_min32_tie z c r : next_transition_sub z 60 1 c = OK r -> ss_next_transition_min32 _ (next_transition z) c = OK r.
Proof.
  unfold next_transition_sub. intros H. apply bind_ok in H. destruct H as [sp [Hs H]].
  rewrite (ss_next_transition_min32_is _ _ c sp Hs). exact H.
Qed.
Lemma ss_prev_transition_min32_tie z c r : prev_transition_sub z 60 1 c = OK r -> ss_prev_transition_min32 _ (prev_transition z) c = OK r.
Proof. unfold ss_prev_transition_min32. prev_tie ss_split_seconds_min32_tie 60 1. Qed.
Lemma ss_format_min32_is A (k : Z -> Z -> res A) c sp f : split_seconds 60 1 c = OK sp -> to_femto 60 1 (snd sp) = OK f ->
  ss_format_min32 A k c = k (fst sp) f.
Proof.
  intros H Hf. unfold ss_format_min32. rewrite (ss_split_seconds_min32_tie c sp H). cbn [bind]. cbv zeta.
  rewrite (to_femto_unfold _ _ _ 60000000000000000 1) in Hf by (vm_compute; reflexivity). sinv. sgo. rewrite ?Z.quot_1_r. reflexivity.
Qed.
Lemma ss_parse_min32_is (k : res (option (Z * Z))) :
  ss_parse_min32 k = (do o <- k ;; match o with None => OK None | Some (sec, fs) => ss_join_seconds_min32 sec end).
Proof. unfold ss_parse_min32. destruct k as [[[sec fs]|]|]; cbn [bind]; [apply bind_ret| |]; reflexivity. Qed.

(* ---- D = duration<int32, ratio<3600, 1>> ---- *)
Lemma ss_lookup_hour32_is A (k : Z -> res A) c sp : split_seconds 3600 1 c = OK sp -> ss_lookup_hour32 A k c = k (fst sp).
Proof. intros H. unfold ss_lookup_hour32. rewrite (ss_split_seconds_hour32_tie c sp H). reflexivity. Qed.
Lemma ss_convert_hour32_is A B (k : Z -> res A) (p : A -> B) c sp : split_seconds 3600 1 c = OK sp ->
  ss_convert_hour32 A B k p c = (do r <- k (fst sp) ;; OK (p r)).
Proof. intros H. unfold ss_convert_hour32. rewrite bind_ret, (ss_lookup_hour32_is A k c sp H). reflexivity. Qed.
Lemma ss_next_transition_hour32_is A (k : Z -> res A) c sp : split_seconds 3600 1 c = OK sp -> ss_next_transition_hour32 A k c = k (fst sp).
Proof. intros H. unfold ss_next_transition_hour32. rewrite (ss_split_seconds_hour32_tie c sp H). reflexivity. Qed.
Lemma ss_next_transition_hour32_tie z c r : next_transition_sub z 3600 1 c = OK r -> ss_next_transition_hour32 _ (next_transition z) c = OK r.
Proof.
  unfold next_transition_sub. intros H. apply bind_ok in H. destruct H as [sp [Hs H]].
  rewrite (ss_next_transition_hour32_is _ _ c sp Hs). exact H.
Qed.
Lemma ss_prev_transition_hour32_tie z c r : prev_transition_sub z 3600 1 c = OK r -> ss_prev_transition_hour32 _ (prev_transition z) c = OK r.
Proof. unfold ss_prev_transition_hour32. prev_tie ss_split_seconds_hour32_tie 3600 1. Qed.
Lemma ss_format_hour32_is A (k : Z -> Z -> res A) c sp f : split_seconds 3600 1 c = OK sp -> to_femto 3600 1 (snd sp) = OK f ->
  ss_format_hour32 A k c = k (fst sp) f.
Proof.
  intros H Hf. unfold ss_format_hour32. rewrite (ss_split_seconds_hour32_tie c sp H). cbn [bind]. cbv zeta.
  rewrite (to_femto_unfold _ _ _ 3600000000000000000 1) in Hf by (vm_compute; reflexivity). sinv. sgo. rewrite ?Z.quot_1_r. reflexivity.
Qed.
Lemma ss_parse_hour32_is (k : res (option (Z * Z))) :
  ss_parse_hour32 k = (do o <- k ;; match o with None => OK None | Some (sec, fs) => ss_join_seconds_hour32 sec end).
Proof. unfold ss_parse_hour32. destruct k as [[[sec fs]|]|]; cbn [bind]; [apply bind_ret| |]; reflexivity. Qed.

(* ================================================================== *)
(* C18 carried over to the code as clang reads it now: sub-second time points floor toward the past *)

(* ---- D = duration<int64, ratio<1, 1000000000>> ---- *)
(* split_seconds: the whole seconds are the FLOOR of the instant, the remainder is non-negative and below one second *)
Theorem src_split_floors_ns : forall c,
  int64 (c * 1) -> int64 ((c * 1) / 1000000000 * 1000000000) -> int64 ((c * 1) / 1000000000 - 1) ->
  ss_split_seconds_ns c = OK (split_spec 1 1000000000 c) /\ 0 <= c * 1 - ((c * 1) / 1000000000) * 1000000000 < 1000000000.
Proof.
  intros c I1 I2 I3. destruct (split_floor_lemma 1 1000000000 c ltac:(lia) ltac:(lia) I1 I2 I3) as [E R].
  split; [apply ss_split_seconds_ns_tie; exact E | exact R].
Qed.
(* lookup / convert / next_transition hand exactly that floor to the whole-second function, whatever it is *)
Theorem src_wrappers_floor_ns : forall A B (k : Z -> res A) (p : A -> B) c,
  int64 (c * 1) -> int64 ((c * 1) / 1000000000 * 1000000000) -> int64 ((c * 1) / 1000000000 - 1) ->
  ss_lookup_ns A k c = k ((c * 1) / 1000000000) /\
  ss_next_transition_ns A k c = k ((c * 1) / 1000000000) /\
  ss_convert_ns A B k p c = (do r <- k ((c * 1) / 1000000000) ;; OK (p r)).
Proof.
  intros A B k p c I1 I2 I3. destruct (split_floor_lemma 1 1000000000 c ltac:(lia) ltac:(lia) I1 I2 I3) as [E _].
  rewrite (ss_lookup_ns_is A k c _ E), (ss_next_transition_ns_is A k c _ E), (ss_convert_ns_is A B k p c _ E).
  repeat split; reflexivity.
Qed.
(* next_transition<D>: the whole-second query at the floor, which is "strictly after the sub-second instant" (SubSecond.v) *)
Theorem src_next_transition_ns : forall z c r,
  int64 (c * 1) -> int64 ((c * 1) / 1000000000 * 1000000000) -> int64 ((c * 1) / 1000000000 - 1) ->
  next_transition z ((c * 1) / 1000000000) = OK r -> ss_next_transition_ns _ (next_transition z) c = OK r.
Proof.
  intros z c r I1 I2 I3 H. apply ss_next_transition_ns_tie.
  destruct (next_sub_spec z 1 1000000000 c ltac:(lia) ltac:(lia) I1 I2 I3) as [E _]. rewrite E. exact H.
Qed.
(* prev_transition<D> (after the fix): the whole-second query at the CEILING, which is "strictly before the instant" *)
Theorem src_prev_transition_ns : forall z c r,
  int64 (c * 1) -> int64 ((c * 1) / 1000000000 * 1000000000) -> int64 ((c * 1) / 1000000000 - 1) -> (c * 1) / 1000000000 < max64 ->
  prev_transition z (if (c * 1) mod 1000000000 =? 0 then (c * 1) / 1000000000 else (c * 1) / 1000000000 + 1) = OK r ->
  ss_prev_transition_ns _ (prev_transition z) c = OK r.
Proof.
  intros z c r I1 I2 I3 Hm H. apply ss_prev_transition_ns_tie.
  destruct (prev_sub_spec z 1 1000000000 c ltac:(lia) ltac:(lia) I1 I2 I3 Hm) as [E _]. rewrite E. exact H.
Qed.
(* format<D>: detail::format receives the floor and the sub-second part in femtoseconds (truncated; it is non-negative) *)
Theorem src_format_ns : forall A (k : Z -> Z -> res A) c,
  int64 (c * 1) -> int64 ((c * 1) / 1000000000 * 1000000000) -> int64 ((c * 1) / 1000000000 - 1) ->
  int64 (snd (split_spec 1 1000000000 c) * (1 * 10 ^ 15 / Z.gcd (1 * 10 ^ 15) 1000000000)) ->
  ss_format_ns A k c = k ((c * 1) / 1000000000) ((snd (split_spec 1 1000000000 c) * 1 * 10 ^ 15) / 1000000000).
Proof.
  intros A k c I1 I2 I3 I4. destruct (split_floor_lemma 1 1000000000 c ltac:(lia) ltac:(lia) I1 I2 I3) as [E R].
  apply (ss_format_ns_is A k c _ _ E). apply femto_truncates_lemma; try lia; [|exact I4].
  unfold split_spec. cbn [snd]. apply Z.div_pos; lia.
Qed.

(* ---- D = duration<int64, ratio<1, 1000000>> ---- *)
(* split_seconds: the whole seconds are the FLOOR of the instant, the remainder is non-negative and below one second *)
Theorem src_split_floors_us : forall c,
  int64 (c * 1) -> int64 ((c * 1) / 1000000 * 1000000) -> int64 ((c * 1) / 1000000 - 1) ->
  ss_split_seconds_us c = OK (split_spec 1 1000000 c) /\ 0 <= c * 1 - ((c * 1) / 1000000) * 1000000 < 1000000.
Proof.
  intros c I1 I2 I3. destruct (split_floor_lemma 1 1000000 c ltac:(lia) ltac:(lia) I1 I2 I3) as [E R].
  split; [apply ss_split_seconds_us_tie; exact E | exact R].
Qed.
(* lookup / convert / next_transition hand exactly that floor to the whole-second function, whatever it is *)
Theorem src_wrappers_floor_us : forall A B (k : Z -> res A) (p : A -> B) c,
  int64 (c * 1) -> int64 ((c * 1) / 1000000 * 1000000) -> int64 ((c * 1) / 1000000 - 1) ->
  ss_lookup_us A k c = k ((c * 1) / 1000000) /\
  ss_next_transition_us A k c = k ((c * 1) / 1000000) /\
  ss_convert_us A B k p c = (do r <- k ((c * 1) / 1000000) ;; OK (p r)).
Proof.
  intros A B k p c I1 I2 I3. destruct (split_floor_lemma 1 1000000 c ltac:(lia) ltac:(lia) I1 I2 I3) as [E _].
  rewrite (ss_lookup_us_is A k c _ E), (ss_next_transition_us_is A k c _ E), (ss_convert_us_is A B k p c _ E).
  repeat split; reflexivity.
Qed.
(* next_transition<D>: the whole-second query at the floor, which is "strictly after the sub-second instant" (SubSecond.v) *)
Theorem src_next_transition_us : forall z c r,
  int64 (c * 1) -> int64 ((c * 1) / 1000000 * 1000000) -> int64 ((c * 1) / 1000000 - 1) ->
  next_transition z ((c * 1) / 1000000) = OK r -> ss_next_transition_us _ (next_transition z) c = OK r.
Proof.
  intros z c r I1 I2 I3 H. apply ss_next_transition_us_tie.
  destruct (next_sub_spec z 1 1000000 c ltac:(lia) ltac:(lia) I1 I2 I3) as [E _]. rewrite E. exact H.
Qed.
(* prev_transition<D> (after the fix): the whole-second query at the CEILING, which is "strictly before the instant" *)
Theorem src_prev_transition_us : forall z c r,
  int64 (c * 1) -> int64 ((c * 1) / 1000000 * 1000000) -> int64 ((c * 1) / 1000000 - 1) -> (c * 1) / 1000000 < max64 ->
  prev_transition z (if (c * 1) mod 1000000 =? 0 then (c * 1) / 1000000 else (c * 1) / 1000000 + 1) = OK r ->
  ss_prev_transition_us _ (prev_transition z) c = OK r.
Proof.
  intros z c r I1 I2 I3 Hm H. apply ss_prev_transition_us_tie.
  destruct (prev_sub_spec z 1 1000000 c ltac:(lia) ltac:(lia) I1 I2 I3 Hm) as [E _]. rewrite E. exact H.
Qed.
(* format<D>: detail::format receives the floor and the sub-second part in femtoseconds (truncated; it is non-negative) *)
Theorem src_format_us : forall A (k : Z -> Z -> res A) c,
  int64 (c * 1) -> int64 ((c * 1) / 1000000 * 1000000) -> int64 ((c * 1) / 1000000 - 1) ->
  int64 (snd (split_spec 1 1000000 c) * (1 * 10 ^ 15 / Z.gcd (1 * 10 ^ 15) 1000000)) ->
  ss_format_us A k c = k ((c * 1) / 1000000) ((snd (split_spec 1 1000000 c) * 1 * 10 ^ 15) / 1000000).
Proof.
  intros A k c I1 I2 I3 I4. destruct (split_floor_lemma 1 1000000 c ltac:(lia) ltac:(lia) I1 I2 I3) as [E R].
  apply (ss_format_us_is A k c _ _ E). apply femto_truncates_lemma; try lia; [|exact I4].
  unfold split_spec. cbn [snd]. apply Z.div_pos; lia.
Qed.

(* ---- D = duration<int64, ratio<1, 1000>> ---- *)
(* split_seconds: the whole seconds are the FLOOR of the instant, the remainder is non-negative and below one second *)
Theorem src_split_floors_ms : forall c,
  int64 (c * 1) -> int64 ((c * 1) / 1000 * 1000) -> int64 ((c * 1) / 1000 - 1) ->
  ss_split_seconds_ms c = OK (split_spec 1 1000 c) /\ 0 <= c * 1 - ((c * 1) / 1000) * 1000 < 1000.
Proof.
  intros c I1 I2 I3. destruct (split_floor_lemma 1 1000 c ltac:(lia) ltac:(lia) I1 I2 I3) as [E R].
  split; [apply ss_split_seconds_ms_tie; exact E | exact R].
Qed.
(* lookup / convert / next_transition hand exactly that floor to the whole-second function, whatever it is *)
Theorem src_wrappers_floor_ms : forall A B (k : Z -> res A) (p : A -> B) c,
  int64 (c * 1) -> int64 ((c * 1) / 1000 * 1000) -> int64 ((c * 1) / 1000 - 1) ->
  ss_lookup_ms A k c = k ((c * 1) / 1000) /\
  ss_next_transition_ms A k c = k ((c * 1) / 1000) /\
  ss_convert_ms A B k p c = (do r <- k ((c * 1) / 1000) ;; OK (p r)).
Proof.
  intros A B k p c I1 I2 I3. destruct (split_floor_lemma 1 1000 c ltac:(lia) ltac:(lia) I1 I2 I3) as [E _].
  rewrite (ss_lookup_ms_is A k c _ E), (ss_next_transition_ms_is A k c _ E), (ss_convert_ms_is A B k p c _ E).
  repeat split; reflexivity.
Qed.
(* next_transition<D>: the whole-second query at the floor, which is "strictly after the sub-second instant" (SubSecond.v) *)
Theorem src_next_transition_ms : forall z c r,
  int64 (c * 1) -> int64 ((c * 1) / 1000 * 1000) -> int64 ((c * 1) / 1000 - 1) ->
  next_transition z ((c * 1) / 1000) = OK r -> ss_next_transition_ms _ (next_transition z) c = OK r.
Proof.
  intros z c r I1 I2 I3 H. apply ss_next_transition_ms_tie.
  destruct (next_sub_spec z 1 1000 c ltac:(lia) ltac:(lia) I1 I2 I3) as [E _]. rewrite E. exact H.
Qed.
(* prev_transition<D> (after the fix): the whole-second query at the CEILING, which is "strictly before the instant" *)
Theorem src_prev_transition_ms : forall z c r,
  int64 (c * 1) -> int64 ((c * 1) / 1000 * 1000) -> int64 ((c * 1) / 1000 - 1) -> (c * 1) / 1000 < max64 ->
  prev_transition z (if (c * 1) mod 1000 =? 0 then (c * 1) / 1000 else (c * 1) / 1000 + 1) = OK r ->
  ss_prev_transition_ms _ (prev_transition z) c = OK r.
Proof.
  intros z c r I1 I2 I3 Hm H. apply ss_prev_transition_ms_tie.
  destruct (prev_sub_spec z 1 1000 c ltac:(lia) ltac:(lia) I1 I2 I3 Hm) as [E _]. rewrite E. exact H.
Qed.
(* format<D>: detail::format receives the floor and the sub-second part in femtoseconds (truncated; it is non-negative) *)
Theorem src_format_ms : forall A (k : Z -> Z -> res A) c,
  int64 (c * 1) -> int64 ((c * 1) / 1000 * 1000) -> int64 ((c * 1) / 1000 - 1) ->
  int64 (snd (split_spec 1 1000 c) * (1 * 10 ^ 15 / Z.gcd (1 * 10 ^ 15) 1000)) ->
  ss_format_ms A k c = k ((c * 1) / 1000) ((snd (split_spec 1 1000 c) * 1 * 10 ^ 15) / 1000).
Proof.
  intros A k c I1 I2 I3 I4. destruct (split_floor_lemma 1 1000 c ltac:(lia) ltac:(lia) I1 I2 I3) as [E R].
  apply (ss_format_ms_is A k c _ _ E). apply femto_truncates_lemma; try lia; [|exact I4].
  unfold split_spec. cbn [snd]. apply Z.div_pos; lia.
Qed.

(* ---- D = duration<int64, ratio<1, 3>> ---- *)
(* split_seconds: the whole seconds are the FLOOR of the instant, the remainder is non-negative and below one second *)
Theorem src_split_floors_third : forall c,
  int64 (c * 1) -> int64 ((c * 1) / 3 * 3) -> int64 ((c * 1) / 3 - 1) ->
  ss_split_seconds_third c = OK (split_spec 1 3 c) /\ 0 <= c * 1 - ((c * 1) / 3) * 3 < 3.
Proof.
  intros c I1 I2 I3. destruct (split_floor_lemma 1 3 c ltac:(lia) ltac:(lia) I1 I2 I3) as [E R].
  split; [apply ss_split_seconds_third_tie; exact E | exact R].
Qed.
(* lookup / convert / next_transition hand exactly that floor to the whole-second function, whatever it is *)
Theorem src_wrappers_floor_third : forall A B (k : Z -> res A) (p : A -> B) c,
  int64 (c * 1) -> int64 ((c * 1) / 3 * 3) -> int64 ((c * 1) / 3 - 1) ->
  ss_lookup_third A k c = k ((c * 1) / 3) /\
  ss_next_transition_third A k c = k ((c * 1) / 3) /\
  ss_convert_third A B k p c = (do r <- k ((c * 1) / 3) ;; OK (p r)).
Proof.
  intros A B k p c I1 I2 I3. destruct (split_floor_lemma 1 3 c ltac:(lia) ltac:(lia) I1 I2 I3) as [E _].
  rewrite (ss_lookup_third_is A k c _ E), (ss_next_transition_third_is A k c _ E), (ss_convert_third_is A B k p c _ E).
  repeat split; reflexivity.
Qed.
(* next_transition<D>: the whole-second query at the floor, which is "strictly after the sub-second instant" (SubSecond.v) *)
Theorem src_next_transition_third : forall z c r,
  int64 (c * 1) -> int64 ((c * 1) / 3 * 3) -> int64 ((c * 1) / 3 - 1) ->
  next_transition z ((c * 1) / 3) = OK r -> ss_next_transition_third _ (next_transition z) c = OK r.
Proof.
  intros z c r I1 I2 I3 H. apply ss_next_transition_third_tie.
  destruct (next_sub_spec z 1 3 c ltac:(lia) ltac:(lia) I1 I2 I3) as [E _]. rewrite E. exact H.
Qed.
(* prev_transition<D> (after the fix): the whole-second query at the CEILING, which is "strictly before the instant" *)
Theorem src_prev_transition_third : forall z c r,
  int64 (c * 1) -> int64 ((c * 1) / 3 * 3) -> int64 ((c * 1) / 3 - 1) -> (c * 1) / 3 < max64 ->
  prev_transition z (if (c * 1) mod 3 =? 0 then (c * 1) / 3 else (c * 1) / 3 + 1) = OK r ->
  ss_prev_transition_third _ (prev_transition z) c = OK r.
Proof.
  intros z c r I1 I2 I3 Hm H. apply ss_prev_transition_third_tie.
  destruct (prev_sub_spec z 1 3 c ltac:(lia) ltac:(lia) I1 I2 I3 Hm) as [E _]. rewrite E. exact H.
Qed.
(* format<D>: detail::format receives the floor and the sub-second part in femtoseconds (truncated; it is non-negative) *)
Theorem src_format_third : forall A (k : Z -> Z -> res A) c,
  int64 (c * 1) -> int64 ((c * 1) / 3 * 3) -> int64 ((c * 1) / 3 - 1) ->
  int64 (snd (split_spec 1 3 c) * (1 * 10 ^ 15 / Z.gcd (1 * 10 ^ 15) 3)) ->
  ss_format_third A k c = k ((c * 1) / 3) ((snd (split_spec 1 3 c) * 1 * 10 ^ 15) / 3).
Proof.
  intros A k c I1 I2 I3 I4. destruct (split_floor_lemma 1 3 c ltac:(lia) ltac:(lia) I1 I2 I3) as [E R].
  apply (ss_format_third_is A k c _ _ E). apply femto_truncates_lemma; try lia; [|exact I4].
  unfold split_spec. cbn [snd]. apply Z.div_pos; lia.
Qed.

(* ---- D = duration<int32, ratio<60, 1>> ---- *)
(* split_seconds: the whole seconds are the FLOOR of the instant, the remainder is non-negative and below one second *)
Theorem src_split_floors_min32 : forall c,
  int64 (c * 60) -> int64 ((c * 60) / 1 * 1) -> int64 ((c * 60) / 1 - 1) ->
  ss_split_seconds_min32 c = OK (split_spec 60 1 c) /\ 0 <= c * 60 - ((c * 60) / 1) * 1 < 1.
Proof.
  intros c I1 I2 I3. destruct (split_floor_lemma 60 1 c ltac:(lia) ltac:(lia) I1 I2 I3) as [E R].
  split; [apply ss_split_seconds_min32_tie; exact E | exact R].
Qed.
(* lookup / convert / next_transition hand exactly that floor to the whole-second function, whatever it is *)
Theorem src_wrappers_floor_min32 : forall A B (k : Z -> res A) (p : A -> B) c,
  int64 (c * 60) -> int64 ((c * 60) / 1 * 1) -> int64 ((c * 60) / 1 - 1) ->
  ss_lookup_min32 A k c = k ((c * 60) / 1) /\
  ss_next_transition_min32 A k c = k ((c * 60) / 1) /\
  ss_convert_min32 A B k p c = (do r <- k ((c * 60) / 1) ;; OK (p r)).
Proof.
  intros A B k p c I1 I2 I3. destruct (split_floor_lemma 60 1 c ltac:(lia) ltac:(lia) I1 I2 I3) as [E _].
  rewrite (ss_lookup_min32_is A k c _ E), (ss_next_transition_min32_is A k c _ E), (ss_convert_min32_is A B k p c _ E).
  repeat split; reflexivity.
Qed.
(* next_transition<D>: the whole-second query at the floor, which is "strictly after the sub-second instant" (SubSecond.v) *)
Theorem src_next_transition_min32 : forall z c r,
  int64 (c * 60) -> int64 ((c * 60) / 1 * 1) -> int64 ((c * 60) / 1 - 1) ->
  next_transition z ((c * 60) / 1) = OK r -> ss_next_transition_min32 _ (next_transition z) c = OK r.
Proof.
  intros z c r I1 I2 I3 H. apply ss_next_transition_min32_tie.
  destruct (next_sub_spec z 60 1 c ltac:(lia) ltac:(lia) I1 I2 I3) as [E _]. rewrite E. exact H.
Qed.
(* prev_transition<D> (after the fix): the whole-second query at the CEILING, which is "strictly before the instant" *)
Theorem src_prev_transition_min32 : forall z c r,
  int64 (c * 60) -> int64 ((c * 60) / 1 * 1) -> int64 ((c * 60) / 1 - 1) -> (c * 60) / 1 < max64 ->
  prev_transition z (if (c * 60) mod 1 =? 0 then (c * 60) / 1 else (c * 60) / 1 + 1) = OK r ->
  ss_prev_transition_min32 _ (prev_transition z) c = OK r.
Proof.
  intros z c r I1 I2 I3 Hm H. apply ss_prev_transition_min32_tie.
  destruct (prev_sub_spec z 60 1 c ltac:(lia) ltac:(lia) I1 I2 I3 Hm) as [E _]. rewrite E. exact H.
Qed.
(* format<D>: detail::format receives the floor and the sub-second part in femtoseconds (truncated; it is non-negative) *)
Theorem src_format_min32 : forall A (k : Z -> Z -> res A) c,
  int64 (c * 60) -> int64 ((c * 60) / 1 * 1) -> int64 ((c * 60) / 1 - 1) ->
  int64 (snd (split_spec 60 1 c) * (60 * 10 ^ 15 / Z.gcd (60 * 10 ^ 15) 1)) ->
  ss_format_min32 A k c = k ((c * 60) / 1) ((snd (split_spec 60 1 c) * 60 * 10 ^ 15) / 1).
Proof.
  intros A k c I1 I2 I3 I4. destruct (split_floor_lemma 60 1 c ltac:(lia) ltac:(lia) I1 I2 I3) as [E R].
  apply (ss_format_min32_is A k c _ _ E). apply femto_truncates_lemma; try lia; [|exact I4].
  unfold split_spec. cbn [snd]. apply Z.div_pos; lia.
Qed.

(* ---- D = duration<int32, ratio<3600, 1>> ---- *)
(* split_seconds: the whole seconds are the FLOOR of the instant, the remainder is non-negative and below one second *)
Theorem src_split_floors_hour32 : forall c,
  int64 (c * 3600) -> int64 ((c * 3600) / 1 * 1) -> int64 ((c * 3600) / 1 - 1) ->
  ss_split_seconds_hour32 c = OK (split_spec 3600 1 c) /\ 0 <= c * 3600 - ((c * 3600) / 1) * 1 < 1.
Proof.
  intros c I1 I2 I3. destruct (split_floor_lemma 3600 1 c ltac:(lia) ltac:(lia) I1 I2 I3) as [E R].
  split; [apply ss_split_seconds_hour32_tie; exact E | exact R].
Qed.
(* lookup / convert / next_transition hand exactly that floor to the whole-second function, whatever it is *)
Theorem src_wrappers_floor_hour32 : forall A B (k : Z -> res A) (p : A -> B) c,
  int64 (c * 3600) -> int64 ((c * 3600) / 1 * 1) -> int64 ((c * 3600) / 1 - 1) ->
  ss_lookup_hour32 A k c = k ((c * 3600) / 1) /\
  ss_next_transition_hour32 A k c = k ((c * 3600) / 1) /\
  ss_convert_hour32 A B k p c = (do r <- k ((c * 3600) / 1) ;; OK (p r)).
Proof.
  intros A B k p c I1 I2 I3. destruct (split_floor_lemma 3600 1 c ltac:(lia) ltac:(lia) I1 I2 I3) as [E _].
  rewrite (ss_lookup_hour32_is A k c _ E), (ss_next_transition_hour32_is A k c _ E), (ss_convert_hour32_is A B k p c _ E).
  repeat split; reflexivity.
Qed.
(* next_transition<D>: the whole-second query at the floor, which is "strictly after the sub-second instant" (SubSecond.v) *)
Theorem src_next_transition_hour32 : forall z c r,
  int64 (c * 3600) -> int64 ((c * 3600) / 1 * 1) -> int64 ((c * 3600) / 1 - 1) ->
  next_transition z ((c * 3600) / 1) = OK r -> ss_next_transition_hour32 _ (next_transition z) c = OK r.
Proof.
  intros z c r I1 I2 I3 H. apply ss_next_transition_hour32_tie.
  destruct (next_sub_spec z 3600 1 c ltac:(lia) ltac:(lia) I1 I2 I3) as [E _]. rewrite E. exact H.
Qed.
(* prev_transition<D> (after the fix): the whole-second query at the CEILING, which is "strictly before the instant" *)
Theorem src_prev_transition_hour32 : forall z c r,
  int64 (c * 3600) -> int64 ((c * 3600) / 1 * 1) -> int64 ((c * 3600) / 1 - 1) -> (c * 3600) / 1 < max64 ->
  prev_transition z (if (c * 3600) mod 1 =? 0 then (c * 3600) / 1 else (c * 3600) / 1 + 1) = OK r ->
  ss_prev_transition_hour32 _ (prev_transition z) c = OK r.
Proof.
  intros z c r I1 I2 I3 Hm H. apply ss_prev_transition_hour32_tie.
  destruct (prev_sub_spec z 3600 1 c ltac:(lia) ltac:(lia) I1 I2 I3 Hm) as [E _]. rewrite E. exact H.
Qed.
(* format<D>: detail::format receives the floor and the sub-second part in femtoseconds (truncated; it is non-negative) *)
Theorem src_format_hour32 : forall A (k : Z -> Z -> res A) c,
  int64 (c * 3600) -> int64 ((c * 3600) / 1 * 1) -> int64 ((c * 3600) / 1 - 1) ->
  int64 (snd (split_spec 3600 1 c) * (3600 * 10 ^ 15 / Z.gcd (3600 * 10 ^ 15) 1)) ->
  ss_format_hour32 A k c = k ((c * 3600) / 1) ((snd (split_spec 3600 1 c) * 3600 * 10 ^ 15) / 1).
Proof.
  intros A k c I1 I2 I3 I4. destruct (split_floor_lemma 3600 1 c ltac:(lia) ltac:(lia) I1 I2 I3) as [E R].
  apply (ss_format_hour32_is A k c _ _ E). apply femto_truncates_lemma; try lia; [|exact I4].
  unfold split_spec. cbn [snd]. apply Z.div_pos; lia.
Qed.

(* ---- join_seconds ---- *)
(* coarser than seconds: the FLOOR of sec / Num, or false when it does not fit Rep *)
Theorem src_join_floors_min32 : forall sec, int64 sec ->
  ss_join_seconds_min32 sec = OK (if (rep_min 32 <=? sec / 60) && (sec / 60 <=? rep_max 32) then Some (sec / 60) else None).
Proof. intros sec I. rewrite (ss_join_seconds_min32_tie sec I), join_floor_lemma by lia. reflexivity. Qed.
Theorem src_join_floors_hour32 : forall sec, int64 sec ->
  ss_join_seconds_hour32 sec = OK (if (rep_min 32 <=? sec / 3600) && (sec / 3600 <=? rep_max 32) then Some (sec / 3600) else None).
Proof. intros sec I. rewrite (ss_join_seconds_hour32_tie sec I), join_floor_lemma by lia. reflexivity. Qed.
(* whole seconds in a narrower Rep: exact, or false *)
Theorem src_join_exact_s8 : forall sec, int64 sec ->
  ss_join_seconds_s8 sec = OK (if (rep_min 8 <=? sec) && (sec <=? rep_max 8) then Some sec else None).
Proof. intros sec I. rewrite (ss_join_seconds_s8_tie sec I), join_seconds_exact_lemma. reflexivity. Qed.
Theorem src_join_exact_s16 : forall sec, int64 sec ->
  ss_join_seconds_s16 sec = OK (if (rep_min 16 <=? sec) && (sec <=? rep_max 16) then Some sec else None).
Proof. intros sec I. rewrite (ss_join_seconds_s16_tie sec I), join_seconds_exact_lemma. reflexivity. Qed.
(* finer than seconds, for a non-negative femtosecond part (what detail::parse produces): sec ticks plus the FLOOR of the
   sub-second part, no range check in the source (TODO #199): the hypotheses say the result fits *)
Theorem src_join_floors_ns : forall sec fs, 0 <= fs -> int64 fs -> int64 (sec * 1000000000) -> int64 (sec * 1000000000 + fs / 1000000) ->
  ss_join_seconds_ns sec fs = OK (Some (sec * 1000000000 + fs / 1000000)).
Proof. intros sec fs H0 I1 I2 I3. unfold ss_join_seconds_ns. cbv zeta. sgo. apply ok_some_eq. srng. Qed.
Theorem src_join_floors_us : forall sec fs, 0 <= fs -> int64 fs -> int64 (sec * 1000000) -> int64 (sec * 1000000 + fs / 1000000000) ->
  ss_join_seconds_us sec fs = OK (Some (sec * 1000000 + fs / 1000000000)).
Proof. intros sec fs H0 I1 I2 I3. unfold ss_join_seconds_us. cbv zeta. sgo. apply ok_some_eq. srng. Qed.
Theorem src_join_floors_ms : forall sec fs, 0 <= fs -> int64 fs -> int64 (sec * 1000) -> int64 (sec * 1000 + fs / 1000000000000) ->
  ss_join_seconds_ms sec fs = OK (Some (sec * 1000 + fs / 1000000000000)).
Proof. intros sec fs H0 I1 I2 I3. unfold ss_join_seconds_ms. cbv zeta. sgo. apply ok_some_eq. srng. Qed.
Theorem src_join_floors_third : forall sec fs, 0 <= fs -> int64 (fs * 3) -> int64 (sec * 3) -> int64 (sec * 3 + fs * 3 / 1000000000000000) ->
  ss_join_seconds_third sec fs = OK (Some (sec * 3 + fs * 3 / 1000000000000000)).
Proof. intros sec fs H0 I1 I2 I3. unfold ss_join_seconds_third. cbv zeta. sgo. apply ok_some_eq. srng. Qed.

(* ------------------------------------------------------------------ *)
(* Non-vacuity *)
Example split_nonvacuous :
  split_seconds 1 1000 (-1500) = OK (-2, 500) /\ ss_split_seconds_ms (-1500) = OK (-2, 500) /\
  ss_split_seconds_third (-1) = OK (-1, 2) /\ ss_split_seconds_min32 (-2) = OK (-120, 0) /\
  ss_split_seconds_ns (-1) = OK (-1, 999999999).
Proof. vm_compute. repeat split; reflexivity. Qed.
Example wrappers_nonvacuous :
  ss_next_transition_ms Z (fun s => OK s) 1500 = OK 1 /\ ss_prev_transition_ms Z (fun s => OK s) 1500 = OK 2 /\
  ss_prev_transition_ms Z (fun s => OK s) 2000 = OK 2 /\ ss_prev_transition_ms Z (fun s => OK s) (-1500) = OK (-1) /\
  ss_lookup_third Z (fun s => OK s) (-1) = OK (-1) /\
  ss_format_third (Z * Z) (fun a b => OK (a, b)) 4 = OK (1, 333333333333333) /\
  ss_parse_ms (OK (Some (1, 500000000000000))) = OK (Some 1500) /\ ss_parse_ms (OK None) = OK None.
Proof. vm_compute. repeat split; reflexivity. Qed.
Example join_nonvacuous :
  ss_join_seconds_min32 (-61) = OK (Some (-2)) /\ join_coarse 32 60 (-61) = Some (-2) /\
  ss_join_seconds_s8 200 = OK None /\ ss_join_seconds_s16 200 = OK (Some 200) /\
  join_subsecond 64 1000 1 500000000000000 = OK (Some 1500) /\ ss_join_seconds_ms 1 500000000000000 = OK (Some 1500).
Proof. vm_compute. repeat split; reflexivity. Qed.

Print Assumptions src_split_floors_ns.
Print Assumptions src_wrappers_floor_ns.
Print Assumptions src_next_transition_ns.
Print Assumptions src_prev_transition_ns.
Print Assumptions src_format_ns.
Print Assumptions ss_parse_ns_is.
Print Assumptions src_split_floors_us.
Print Assumptions src_wrappers_floor_us.
Print Assumptions src_next_transition_us.
Print Assumptions src_prev_transition_us.
Print Assumptions src_format_us.
Print Assumptions ss_parse_us_is.
Print Assumptions src_split_floors_ms.
Print Assumptions src_wrappers_floor_ms.
Print Assumptions src_next_transition_ms.
Print Assumptions src_prev_transition_ms.
Print Assumptions src_format_ms.
Print Assumptions ss_parse_ms_is.
Print Assumptions src_split_floors_third.
Print Assumptions src_wrappers_floor_third.
Print Assumptions src_next_transition_third.
Print Assumptions src_prev_transition_third.
Print Assumptions src_format_third.
Print Assumptions ss_parse_third_is.
Print Assumptions src_split_floors_min32.
Print Assumptions src_wrappers_floor_min32.
Print Assumptions src_next_transition_min32.
Print Assumptions src_prev_transition_min32.
Print Assumptions src_format_min32.
Print Assumptions ss_parse_min32_is.
Print Assumptions src_split_floors_hour32.
Print Assumptions src_wrappers_floor_hour32.
Print Assumptions src_next_transition_hour32.
Print Assumptions src_prev_transition_hour32.
Print Assumptions src_format_hour32.
Print Assumptions ss_parse_hour32_is.
Print Assumptions src_join_floors_min32.
Print Assumptions src_join_floors_hour32.
Print Assumptions src_join_exact_s8.
Print Assumptions src_join_exact_s16.
Print Assumptions src_join_floors_ns.
Print Assumptions src_join_floors_us.
Print Assumptions src_join_floors_ms.
Print Assumptions src_join_floors_third.
Print Assumptions ss_join_seconds_ns_tie.
Print Assumptions ss_join_seconds_us_tie.
Print Assumptions ss_join_seconds_ms_tie.
Print Assumptions ss_join_seconds_third_tie.
Print Assumptions ss_join_seconds_s64_tie.
Print Assumptions ss_split_seconds_s64_tie.
Print Assumptions ss_split_seconds_ns_tie.
Print Assumptions ss_next_transition_ns_tie.
Print Assumptions ss_prev_transition_ns_tie.
Print Assumptions ss_split_seconds_us_tie.
Print Assumptions ss_next_transition_us_tie.
Print Assumptions ss_prev_transition_us_tie.
Print Assumptions ss_split_seconds_ms_tie.
Print Assumptions ss_next_transition_ms_tie.
Print Assumptions ss_prev_transition_ms_tie.
Print Assumptions ss_split_seconds_third_tie.
Print Assumptions ss_next_transition_third_tie.
Print Assumptions ss_prev_transition_third_tie.
Print Assumptions ss_split_seconds_min32_tie.
Print Assumptions ss_next_transition_min32_tie.
Print Assumptions ss_prev_transition_min32_tie.
Print Assumptions ss_split_seconds_hour32_tie.
Print Assumptions ss_next_transition_hour32_tie.
Print Assumptions ss_prev_transition_hour32_tie.
