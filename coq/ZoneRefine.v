(* ZoneRefine.v — the implementation-level zone functions (ZoneImpl.v: six-field
   civil seconds, checked int64 arithmetic) compute exactly the integer-level
   functions of ZoneZ.v on every zone satisfying the certificate zone_ok
   (ZoneRefineDefs.v); every built-in fixed-offset zone satisfies it. *)
From CCTZ Require Import Base Cal CivilImpl PosixImpl FixedImpl ZoneLoad ZoneImpl ZoneZ ZoneHist ZoneRefineDefs.
From CCTZ Require Import CalProofs CivilNorm CivilDiff ZoneSelect ZoneZProofs FixedProofs.
Require Import Lia ZifyBool.
Local Open Scope Z_scope.

Ltac Zify.zify_post_hook ::= idtac.

Local Notation cos := civil_of_seconds.

(* ================================================================== *)
(* Arithmetic bridge: civil-time operators on six fields vs + and - on Z *)

(* 2^63 + 2^18: every civil second this close to the int64 range has an int64 year *)
Definition SB : Z := 9223372036854775808 + 262144.

Lemma year_ok s : - SB <= s <= SB -> int64 (fy (cos s)).
Proof.
  intros H.
  pose proof (cos_year_mono (- SB) s ltac:(lia)) as L1.
  pose proof (cos_year_mono s SB ltac:(lia)) as L2.
  assert (min64 <= fy (cos (- SB))) as B1 by (apply Z.leb_le; vm_compute; reflexivity).
  assert (fy (cos SB) <= max64) as B2 by (apply Z.leb_le; vm_compute; reflexivity).
  unfold int64. lia.
Qed.

Lemma ord0 f : ord_spec 0 f = sec_of f.
Proof. reflexivity. Qed.
Lemma oford0 n : of_ord_spec 0 n = cos n.
Proof. reflexivity. Qed.
Lemma align0 f : align_spec 0 f = f.
Proof. reflexivity. Qed.

Lemma int64_SB t : int64 t -> - SB <= t <= SB.
Proof. unfold int64, min64, max64, SB. lia. Qed.

Lemma plus_cos a n : - SB <= a <= SB -> int64 n -> - SB <= a + n <= SB ->
  plus64 0 (cos a) n = OK (cos (a + n)).
Proof.
  intros Ha Hn Hr.
  pose proof (plus_refines_lemma 0 (cos a) n ltac:(lia) (valid_cos a) (align0 _)
                (year_ok a Ha) Hn) as P.
  rewrite ord0, oford0, sec_of_cos in P.
  apply P. apply year_ok; exact Hr.
Qed.

Lemma minus_cos a n : - SB <= a <= SB -> int64 n -> - SB <= a - n <= SB ->
  minus64 0 (cos a) n = OK (cos (a - n)).
Proof.
  intros Ha Hn Hr.
  pose proof (minus_refines_lemma 0 (cos a) n ltac:(lia) (valid_cos a) (align0 _)
                (year_ok a Ha) Hn) as P.
  rewrite ord0, oford0, sec_of_cos in P.
  apply P. apply year_ok; exact Hr.
Qed.

Lemma epoch_cos : epoch = cos 0.
Proof. vm_compute. reflexivity. Qed.

Lemma diff_l cs b : valid_fields cs = true -> int64 (fy cs) -> - SB <= b <= SB ->
  int64 (sec_of cs - b) -> difference64 0 cs (cos b) = OK (sec_of cs - b).
Proof.
  intros V I Hb Hd.
  pose proof (difference_refines_lemma 0 cs (cos b) ltac:(lia) V (valid_cos b) (align0 _) (align0 _)
                I (year_ok b Hb)) as P.
  rewrite !ord0, sec_of_cos in P. apply P. exact Hd.
Qed.

Lemma diff_r cs b : valid_fields cs = true -> int64 (fy cs) -> - SB <= b <= SB ->
  int64 (b - sec_of cs) -> difference64 0 (cos b) cs = OK (b - sec_of cs).
Proof.
  intros V I Hb Hd.
  pose proof (difference_refines_lemma 0 (cos b) cs ltac:(lia) (valid_cos b) V (align0 _) (align0 _)
                (year_ok b Hb) I) as P.
  rewrite !ord0, sec_of_cos in P. apply P. exact Hd.
Qed.

Lemma lt_l cs b : valid_fields cs = true -> lt64 cs (cos b) = (sec_of cs <? b).
Proof.
  intros V. destruct (order_agrees_lemma cs (cos b) V (valid_cos b)) as [E _].
  rewrite E, sec_of_cos. reflexivity.
Qed.

Lemma lt_r cs b : valid_fields cs = true -> lt64 (cos b) cs = (b <? sec_of cs).
Proof.
  intros V. destruct (order_agrees_lemma (cos b) cs (valid_cos b) V) as [E _].
  rewrite E, sec_of_cos. reflexivity.
Qed.

Lemma lt_cc a b : lt64 (cos a) (cos b) = (a <? b).
Proof. rewrite lt_l by apply valid_cos. rewrite sec_of_cos. reflexivity. Qed.

Lemma cstr_from_ok s i : 0 <= i <= Z.of_nat (length s) ->
  cstr_from s i = OK (c_str (skipn (Z.to_nat i) s)).
Proof.
  intros H. unfold cstr_from.
  destruct (Z.ltb_spec i 0); [lia|]. destruct (Z.ltb_spec (Z.of_nat (length s)) i); [lia|].
  reflexivity.
Qed.

Lemma local_time_tt_ok abbrs t ty : int64 t -> -86400 <= tt_off ty <= 86400 ->
  0 <= tt_abbr ty <= Z.of_nat (length abbrs) ->
  local_time_tt abbrs t ty =
  OK (mkAL (cos (t + tt_off ty)) (tt_off ty) (tt_isdst ty)
           (c_str (skipn (Z.to_nat (tt_abbr ty)) abbrs))).
Proof.
  intros Ht Ho Ha. unfold local_time_tt.
  pose proof (int64_SB t Ht) as Hs.
  rewrite epoch_cos.
  rewrite (plus_cos 0 t) by (unfold SB in *; try exact Ht; lia).
  cbn [bind]. change (0 + t) with t.
  rewrite (plus_cos t (tt_off ty)) by (unfold SB, int64, min64, max64 in *; lia).
  cbn [bind]. rewrite cstr_from_ok by exact Ha. reflexivity.
Qed.
