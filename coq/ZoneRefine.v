(* ZoneRefine.v — the implementation-level zone functions (ZoneImpl.v: six-field
   civil seconds, checked int64 arithmetic) compute exactly the integer-level
   functions of ZoneZ.v on every zone satisfying the certificate zone_ok
   (ZoneRefineDefs.v); every built-in fixed-offset zone satisfies it. *)
From CCTZ Require Import Base Cal CivilImpl PosixImpl FixedImpl ZoneLoad ZoneImpl ZoneZ ZoneHist ZoneRefineDefs.
From CCTZ Require Import CalProofs CivilNorm CivilDiff ZoneSelect ZoneZProofs FixedProofs.
Require Import Lia ZifyBool.
Local Open Scope Z_scope.

(* no division in this file: keep lia's preprocessing minimal (local to this file) *)
Local Ltac Zify.zify_post_hook ::= idtac.

Local Notation cos := civil_of_seconds.

(* ================================================================== *)
(* Arithmetic bridge: civil-time operators on six fields vs + and - on Z *)

(* 2^63 + 2^18: every civil second this close to the int64 range has an int64 year *)
Definition SB : Z := 9223372036854775808 + 262144.

Lemma year_ok s : - SB <= s <= SB -> int64 (fy (cos s)).
Proof.
  intros H.
  pose proof (cos_year_mono (- SB) s ltac:(lia)) as L1.
  pose proof (cos_year_mono s SB ltac:(lia)) as L2.
  assert (min64 <= fy (cos (- SB))) as B1 by (apply Z.leb_le; vm_compute; reflexivity).
  assert (fy (cos SB) <= max64) as B2 by (apply Z.leb_le; vm_compute; reflexivity).
  unfold int64. lia.
Qed.

Lemma ord0 f : ord_spec 0 f = sec_of f.
Proof. reflexivity. Qed.
Lemma oford0 n : of_ord_spec 0 n = cos n.
Proof. reflexivity. Qed.
Lemma align0 f : align_spec 0 f = f.
Proof. reflexivity. Qed.

Lemma int64_SB t : int64 t -> - SB <= t <= SB.
Proof. unfold int64, min64, max64, SB. lia. Qed.

Lemma plus_cos a n : - SB <= a <= SB -> int64 n -> - SB <= a + n <= SB ->
  plus64 0 (cos a) n = OK (cos (a + n)).
Proof.
  intros Ha Hn Hr.
  pose proof (plus_refines_lemma 0 (cos a) n ltac:(lia) (valid_cos a) (align0 _)
                (year_ok a Ha) Hn) as P.
  rewrite ord0, oford0, sec_of_cos in P.
  apply P. apply year_ok; exact Hr.
Qed.

Lemma minus_cos a n : - SB <= a <= SB -> int64 n -> - SB <= a - n <= SB ->
  minus64 0 (cos a) n = OK (cos (a - n)).
Proof.
  intros Ha Hn Hr.
  pose proof (minus_refines_lemma 0 (cos a) n ltac:(lia) (valid_cos a) (align0 _)
                (year_ok a Ha) Hn) as P.
  rewrite ord0, oford0, sec_of_cos in P.
  apply P. apply year_ok; exact Hr.
Qed.

Lemma epoch_cos : epoch = cos 0.
Proof. vm_compute. reflexivity. Qed.

Lemma diff0 f1 f2 : valid_fields f1 = true -> valid_fields f2 = true ->
  int64 (fy f1) -> int64 (fy f2) ->
  int64 (sec_of f1 - sec_of f2) -> difference64 0 f1 f2 = OK (sec_of f1 - sec_of f2).
Proof.
  intros V1 V2 I1 I2 H.
  exact (difference_refines_lemma 0 f1 f2 ltac:(lia) V1 V2 (align0 _) (align0 _) I1 I2 H).
Qed.

Lemma diff_l cs b : valid_fields cs = true -> int64 (fy cs) -> - SB <= b <= SB ->
  int64 (sec_of cs - b) -> difference64 0 cs (cos b) = OK (sec_of cs - b).
Proof.
  intros V I Hb Hd.
  rewrite diff0; auto using valid_cos, year_ok; rewrite sec_of_cos; auto.
Qed.

Lemma diff_r cs b : valid_fields cs = true -> int64 (fy cs) -> - SB <= b <= SB ->
  int64 (b - sec_of cs) -> difference64 0 (cos b) cs = OK (b - sec_of cs).
Proof.
  intros V I Hb Hd.
  rewrite diff0; auto using valid_cos, year_ok; rewrite sec_of_cos; auto.
Qed.

Lemma lt_l cs b : valid_fields cs = true -> lt64 cs (cos b) = (sec_of cs <? b).
Proof.
  intros V. destruct (order_agrees_lemma cs (cos b) V (valid_cos b)) as [E _].
  rewrite E, sec_of_cos. reflexivity.
Qed.

Lemma lt_r cs b : valid_fields cs = true -> lt64 (cos b) cs = (b <? sec_of cs).
Proof.
  intros V. destruct (order_agrees_lemma (cos b) cs (valid_cos b) V) as [E _].
  rewrite E, sec_of_cos. reflexivity.
Qed.

Lemma lt_cc a b : lt64 (cos a) (cos b) = (a <? b).
Proof. rewrite lt_l by apply valid_cos. rewrite sec_of_cos. reflexivity. Qed.

Lemma cstr_from_ok s i : 0 <= i <= Z.of_nat (length s) ->
  cstr_from s i = OK (c_str (skipn (Z.to_nat i) s)).
Proof.
  intros H. unfold cstr_from.
  destruct (Z.ltb_spec i 0); [lia|]. destruct (Z.ltb_spec (Z.of_nat (length s)) i); [lia|].
  reflexivity.
Qed.

Lemma local_time_tt_ok abbrs t ty : int64 t -> -93599 <= tt_off ty <= 93599 ->
  0 <= tt_abbr ty <= Z.of_nat (length abbrs) ->
  local_time_tt abbrs t ty =
  OK (mkAL (cos (t + tt_off ty)) (tt_off ty) (tt_isdst ty)
           (c_str (skipn (Z.to_nat (tt_abbr ty)) abbrs))).
Proof.
  intros Ht Ho Ha. unfold local_time_tt.
  pose proof (int64_SB t Ht) as Hs.
  rewrite epoch_cos.
  rewrite (plus_cos 0 t) by (unfold SB in *; try exact Ht; lia).
  cbn [bind]. change (0 + t) with t.
  rewrite (plus_cos t (tt_off ty)) by (unfold SB, int64, min64, max64 in *; lia).
  cbn [bind]. rewrite cstr_from_ok by exact Ha. reflexivity.
Qed.

(* ================================================================== *)
(* Facts packed in the certificate zone_ok                             *)

Definition absf (z : zone) (tr : transition) : ztr :=
  mkZT (tr_time tr) (off_of z (tr_type tr)) (tr_type tr).
Definition absl (z : zone) : list ztr := map (absf z) (z_trans z).
Definition doff (z : zone) : Z := off_of z (z_default z).

Lemma abs_zone_eq z : abs_zone z = mkZZ (absl z) (doff z) (z_default z).
Proof. reflexivity. Qed.

Lemma absl_nth z i : nth_error (absl z) i = option_map (absf z) (nth_error (z_trans z) i).
Proof. unfold absl. apply nth_error_map. Qed.

Lemma absl_length z : length (absl z) = length (z_trans z).
Proof. unfold absl. apply map_length. Qed.

Lemma last_opt_nth {A} (l : list A) x : last_opt l = Some x ->
  nth_error l (length l - 1) = Some x /\ (0 < length l)%nat.
Proof.
  unfold last_opt. intros H. destruct (rev l) as [|y r] eqn:E; [discriminate|].
  inversion H; subst y. clear H.
  assert (l = rev r ++ [x]) as ->.
  { rewrite <- (rev_involutive l), E. reflexivity. }
  rewrite app_length. cbn [length].
  replace (length (rev r) + 1 - 1)%nat with (length (rev r)) by lia.
  split; [|lia]. rewrite nth_error_app2 by lia. rewrite Nat.sub_diag. reflexivity.
Qed.

Record zfacts (z : zone) : Prop := mkZF {
  zf_ne : z_trans z <> [];
  zf_types : forall ty, In ty (z_types z) -> type_ok z ty = true;
  zf_dflt : idx_ok z (z_default z) = true;
  zf_trs : forall tr, In tr (z_trans z) ->
     idx_ok z (tr_type tr) = true /\ - 2 ^ 59 <= tr_time tr <= 2 ^ 60;
  zf_civ : civils_ok z (doff z) (z_trans z) = true;
  zf_wf : WF (doff z) (absl z);
  zf_ti : times_increasing (absl z) = true;
  zf_last : exists l, last_opt (z_trans z) = Some l /\ 0 <= tr_time l;
  zf_first : exists f r, z_trans z = f :: r /\ tr_time f < 0
}.

Lemma zone_ok_facts z : zone_ok z = true -> zfacts z.
Proof.
  unfold zone_ok. rewrite !andb_true_iff.
  intros [[[[[[[H1 H2] H3] H4] H5] H6] H7] H8].
  split.
  - destruct (z_trans z); [discriminate|congruence].
  - rewrite forallb_forall in H2. exact H2.
  - exact H3.
  - rewrite forallb_forall in H4. intros tr Hin. specialize (H4 tr Hin).
    rewrite !andb_true_iff, !Z.leb_le in H4. tauto.
  - exact H5.
  - rewrite abs_zone_eq in H6. apply wfz_WF in H6. exact H6.
  - rewrite abs_zone_eq in H6. unfold wfz in H6. rewrite !andb_true_iff in H6.
    cbn [zz_tr] in H6. tauto.
  - destruct (last_opt (z_trans z)) as [l|]; [|discriminate].
    exists l. split; auto. apply Z.leb_le; exact H7.
  - destruct (z_trans z) as [|f r]; [discriminate|].
    exists f, r. split; auto. apply Z.ltb_lt; exact H8.
Qed.

(* a valid type index *)
Lemma type_facts z i : zfacts z -> idx_ok z i = true ->
  exists ty, nth_res (z_types z) i = OK ty /\ tt_off ty = off_of z i /\
    -93599 <= off_of z i <= 93599 /\
    tt_cmax ty = cos (max64 + off_of z i) /\ tt_cmin ty = cos (min64 + off_of z i) /\
    0 <= tt_abbr ty <= Z.of_nat (length (z_abbrs z)).
Proof.
  intros F Hi. unfold idx_ok in Hi. rewrite andb_true_iff, Z.leb_le, Z.ltb_lt in Hi.
  unfold nth_res, off_of.
  destruct (Z.ltb_spec i 0); [lia|].
  destruct (nth_error (z_types z) (Z.to_nat i)) as [ty|] eqn:E.
  2:{ apply nth_error_None in E. lia. }
  exists ty. split; [reflexivity|]. split; [reflexivity|].
  pose proof (zf_types z F ty (nth_error_In _ _ E)) as T.
  unfold type_ok in T. rewrite !andb_true_iff, !Z.leb_le, !fields_eqb_eq in T.
  destruct T as [[[[[T1 T2] T3] T4] T5] T6]. repeat split; auto.
Qed.

Lemma off_bound z i : zfacts z -> idx_ok z i = true -> -93599 <= off_of z i <= 93599.
Proof. intros F Hi. destruct (type_facts z i F Hi) as (ty & _ & _ & H & _). exact H. Qed.

Lemma doff_bound z : zfacts z -> -93599 <= doff z <= 93599.
Proof. intros F. apply off_bound; auto. apply zf_dflt; auto. Qed.

(* offset in force before index i is a bounded offset *)
Lemma ob_bound z i : zfacts z -> -93599 <= ob (doff z) (absl z) i <= 93599.
Proof.
  intros F. destruct i as [|j]; cbn [ob]; [apply doff_bound; auto|].
  rewrite absl_nth. destruct (nth_error (z_trans z) j) as [tr|] eqn:E; cbn [option_map].
  - cbn [absf zt_off]. apply off_bound; auto.
    apply (zf_trs z F tr). eapply nth_error_In; eauto.
  - apply doff_bound; auto.
Qed.

Lemma civils_nth z : forall l po i tr, civils_ok z po l = true -> nth_error l i = Some tr ->
  tr_cs tr = cos (tr_time tr + off_of z (tr_type tr)) /\
  tr_pcs tr = cos (tr_time tr - 1 + ob po (map (absf z) l) i).
Proof.
  induction l as [|x r IH]; intros po i tr Hc Hn.
  - destruct i; discriminate.
  - cbn [civils_ok] in Hc. rewrite !andb_true_iff, !fields_eqb_eq in Hc.
    destruct Hc as [[C1 C2] C3].
    destruct i as [|i]; cbn [nth_error] in Hn.
    + inversion Hn; subst x. cbn [ob]. auto.
    + destruct (IH _ i tr C3 Hn) as [A B]. split; [exact A|].
      rewrite B. cbn [map].
      rewrite (ob_cons po (absf z x) (map (absf z) r) i); [reflexivity|].
      rewrite map_length. apply nth_some_lt in Hn. lia.
Qed.

(* everything about transition number i *)
Lemma tr_facts z i tr : zfacts z -> nth_error (z_trans z) i = Some tr ->
  idx_ok z (tr_type tr) = true /\ - 2 ^ 59 <= tr_time tr <= 2 ^ 60 /\
  -93599 <= off_of z (tr_type tr) <= 93599 /\
  tr_cs tr = cos (tr_time tr + off_of z (tr_type tr)) /\
  tr_pcs tr = cos (tr_time tr - 1 + ob (doff z) (absl z) i) /\
  nth_error (absl z) i = Some (absf z tr).
Proof.
  intros F Hn.
  destruct (zf_trs z F tr (nth_error_In _ _ Hn)) as [A B].
  destruct (civils_nth z _ _ _ _ (zf_civ z F) Hn) as [C D].
  repeat split; auto; try lia.
  - apply off_bound; auto.
  - apply off_bound; auto.
  - rewrite absl_nth, Hn. reflexivity.
Qed.

Lemma times_sorted_of_ti z : forall l, times_increasing (map (absf z) l) = true -> times_sorted_l l = true.
Proof.
  induction l as [|a r IH]; [reflexivity|]. destruct r as [|b r']; [reflexivity|].
  cbn [map] in *. rewrite ti_cons2. cbn [absf zt_time].
  intros H. apply andb_true_iff in H. destruct H as [H1 H2].
  change (times_sorted_l (a :: b :: r')) with ((tr_time a <? tr_time b) && times_sorted_l (b :: r')).
  rewrite H1. cbn [andb]. apply IH. exact H2.
Qed.

Lemma zf_times_sorted z : zfacts z -> times_sorted_l (z_trans z) = true.
Proof. intros F. apply (times_sorted_of_ti z). exact (zf_ti z F). Qed.

Lemma civil_sorted_of_adj : forall l,
  (forall i a b, nth_error l i = Some a -> nth_error l (S i) = Some b -> lt64 (tr_cs a) (tr_cs b) = true) ->
  civil_sorted_l l = true.
Proof.
  induction l as [|a r IH]; [reflexivity|]. destruct r as [|b r']; [reflexivity|].
  intros H.
  change (civil_sorted_l (a :: b :: r')) with (lt64 (tr_cs a) (tr_cs b) && civil_sorted_l (b :: r')).
  rewrite (H O a b eq_refl eq_refl). cbn [andb]. apply IH.
  intros i x y Hx Hy. apply (H (S i)); assumption.
Qed.

Lemma zf_civil_sorted z : zfacts z -> civil_sorted_l (z_trans z) = true.
Proof.
  intros F. apply civil_sorted_of_adj. intros i a b Ha Hb.
  destruct (tr_facts z i a F Ha) as (_ & _ & _ & Ca & _ & Na).
  destruct (tr_facts z (S i) b F Hb) as (_ & _ & _ & Cb & _ & Nb).
  rewrite Ca, Cb, lt_cc. apply Z.ltb_lt.
  destruct (zf_wf z F) as (_ & SA & _).
  exact (SA i (S i) _ _ ltac:(lia) Na Nb).
Qed.

Lemma pp_upper_idx z t : forall l,
  partition_point (fun tr => t <? tr_time tr) l = upper_idx (map (absf z) l) t.
Proof.
  induction l as [|a r IH]; [reflexivity|].
  cbn [partition_point map upper_idx absf zt_time]. rewrite IH. reflexivity.
Qed.

Lemma pp_ext {A} (p q : A -> bool) : forall l, (forall x, In x l -> p x = q x) ->
  partition_point p l = partition_point q l.
Proof.
  induction l as [|a r IH]; intros H; [reflexivity|].
  cbn [partition_point]. rewrite (H a (or_introl eq_refl)).
  rewrite IH; [reflexivity|]. intros x Hx. apply H. right; exact Hx.
Qed.

Lemma pp_upper_civil z L : forall l,
  partition_point (fun tr => L <? at_ (absf z tr)) l = upper_civil (map (absf z) l) L.
Proof.
  induction l as [|a r IH]; [reflexivity|].
  cbn [partition_point map upper_civil]. rewrite IH. reflexivity.
Qed.

(* ================================================================== *)
(* BreakTime                                                           *)

Lemma nth_tr_some z i tr : nth_error (z_trans z) i = Some tr -> nth_tr z i = OK tr.
Proof. intros H. unfold nth_tr. rewrite H. reflexivity. Qed.

(* the selected transition is never more than an int64 away *)
Lemma nearby_transition z t k tr : zfacts z -> int64 t ->
  upper_idx (absl z) t = S k -> nth_error (z_trans z) k = Some tr ->
  tr_time tr <= t /\ int64 (t - tr_time tr).
Proof.
  intros F Ht Hk Hn.
  destruct (tr_facts z k tr F Hn) as (_ & HT & _ & _ & _ & Na).
  destruct (zf_wf z F) as (ST & _).
  pose proof (upper_idx_char (absl z) t ST k _ Na) as C. cbn [absf zt_time] in C.
  assert (tr_time tr <= t) as Hle by (apply C; lia).
  split; [exact Hle|].
  destruct (Z_lt_le_dec (tr_time tr) 0) as [Hneg|Hpos].
  2:{ unfold int64, min64, max64 in *. lia. }
  destruct (zf_last z F) as (l & Hl & Hl0).
  destruct (last_opt_nth _ _ Hl) as [Hln Hlen].
  assert (S k < length (z_trans z))%nat as Hlt.
  { pose proof (nth_some_lt _ _ _ Hn) as H1.
    destruct (Nat.eq_dec (S k) (length (z_trans z))) as [E|E]; [|lia].
    replace (length (z_trans z) - 1)%nat with k in Hln by lia.
    assert (l = tr) by congruence. subst. lia. }
  destruct (nth_lt_some (z_trans z) (S k) Hlt) as [tr' Hn'].
  destruct (tr_facts z (S k) tr' F Hn') as (_ & HT' & _ & _ & _ & Na').
  pose proof (upper_idx_char (absl z) t ST (S k) _ Na') as C'. cbn [absf zt_time] in C'.
  assert (t < tr_time tr') by lia.
  unfold int64, min64, max64 in *. lia.
Qed.

Lemma local_time_tr_ok z t k tr : zfacts z -> int64 t ->
  upper_idx (absl z) t = S k -> nth_error (z_trans z) k = Some tr ->
  exists dst ab,
    local_time_tr z t tr = OK (mkAL (cos (t + off_of z (tr_type tr))) (off_of z (tr_type tr)) dst ab)
    /\ info_of z (tr_type tr) = OK (dst, ab).
Proof.
  intros F Ht Hk Hn.
  destruct (nearby_transition z t k tr F Ht Hk Hn) as [Hle Hd].
  destruct (tr_facts z k tr F Hn) as (Hi & HT & HO & Ccs & _ & _).
  destruct (type_facts z _ F Hi) as (ty & Hty & Eoff & _ & _ & _ & Hab).
  exists (tt_isdst ty), (c_str (skipn (Z.to_nat (tt_abbr ty)) (z_abbrs z))).
  unfold local_time_tr, info_of. rewrite Hty. cbn [bind].
  unfold sub64. rewrite chk64_in by exact Hd. cbn [bind].
  rewrite Ccs.
  rewrite plus_cos.
  - cbn [bind]. rewrite cstr_from_ok by exact Hab. cbn [bind]. rewrite Eoff.
    split; [|reflexivity]. do 3 f_equal. lia.
  - unfold SB. lia.
  - exact Hd.
  - unfold SB, int64, min64, max64 in *. lia.
Qed.

Lemma zbreak_abs z t : zfacts z ->
  match upper_idx (absl z) t with
  | O => (doff z, z_default z)
  | S k => match nth_error (absl z) k with
           | Some tr => (zt_off tr, zt_id tr)
           | None => (doff z, z_default z)
           end
  end = (zoff (abs_zone z) t, zid (abs_zone z) t).
Proof.
  intros F. rewrite <- (zbreak_spec_lemma (abs_zone z) t) by exact (zf_ti z F). reflexivity.
Qed.

Lemma break_noext_ok z t : zfacts z -> int64 t ->
  exists h' dst ab,
    break_time_noext z 0 t =
      OK (mkAL (cos (t + zoff (abs_zone z) t)) (zoff (abs_zone z) t) dst ab, h')
    /\ info_of z (zid (abs_zone z) t) = OK (dst, ab).
Proof.
  intros F Ht.
  destruct (zf_first z F) as (f & r & Hfr & Hf0).
  destruct (zf_last z F) as (l & Hl & Hl0).
  destruct (last_opt_nth _ _ Hl) as [Hln Hlen].
  pose proof (zbreak_abs z t F) as ZB.
  destruct (zf_wf z F) as (ST & _).
  assert (Hn0 : nth_error (z_trans z) 0 = Some f) by (rewrite Hfr; reflexivity).
  unfold break_time_noext. rewrite (nth_tr_some z 0 f Hn0), Hl. cbn [bind].
  destruct (Z.ltb_spec t (tr_time f)) as [Hlt|Hge].
  - (* before the first transition: the default type *)
    assert (upper_idx (absl z) t = O) as E0.
    { unfold absl. rewrite Hfr. cbn [map upper_idx absf zt_time].
      destruct (Z.ltb_spec t (tr_time f)); [reflexivity|lia]. }
    rewrite E0 in ZB. cbv beta iota in ZB. apply pair_equal_spec in ZB.
    destruct ZB as [Eo Ei]. rewrite <- Ei, <- Eo.
    destruct (type_facts z _ F (zf_dflt z F)) as (ty & Hty & Eoff & HO & _ & _ & Hab).
    fold (doff z) in Eoff, HO. rewrite <- Eoff in *.
    rewrite Hty. cbn [bind].
    rewrite local_time_tt_ok by (try exact Ht; try exact Hab; lia). cbn [bind].
    exists 0, (tt_isdst ty), (c_str (skipn (Z.to_nat (tt_abbr ty)) (z_abbrs z))).
    split; [reflexivity|].
    unfold info_of. rewrite Hty. cbn [bind]. rewrite cstr_from_ok by exact Hab. reflexivity.
  - (* at or after some transition *)
    assert (exists k, upper_idx (absl z) t = S k) as [k Hk].
    { destruct (upper_idx (absl z) t) eqn:E; [|eauto].
      destruct (tr_facts z 0 f F Hn0) as (_ & _ & _ & _ & _ & Na).
      pose proof (upper_idx_char (absl z) t ST 0%nat _ Na) as C. cbn [absf zt_time] in C. lia. }
    pose proof (upper_idx_le (absl z) t) as Hle. rewrite absl_length in Hle.
    destruct (nth_lt_some (z_trans z) k ltac:(lia)) as [tr Hn].
    destruct (local_time_tr_ok z t k tr F Ht Hk Hn) as (dst & ab & HL & HI).
    rewrite Hk in ZB. rewrite absl_nth, Hn in ZB. cbn [option_map absf zt_off zt_id] in ZB.
    cbv beta iota in ZB. apply pair_equal_spec in ZB.
    destruct ZB as [Eo Ei]. rewrite <- Ei, <- Eo.
    destruct (Z.leb_spec (tr_time l) t) as [Hlast|Hin].
    + (* the last transition *)
      assert (k = (length (z_trans z) - 1)%nat) as Ek.
      { destruct (Nat.eq_dec (S k) (length (z_trans z))) as [E|E]; [lia|]. exfalso.
        destruct (tr_facts z _ l F Hln) as (_ & _ & _ & _ & _ & Na).
        pose proof (upper_idx_char (absl z) t ST _ _ Na) as C. cbn [absf zt_time] in C.
        rewrite Hk in C. lia. }
      rewrite <- Ek in Hln. assert (l = tr) by congruence. subst l.
      rewrite HL. cbn [bind]. exists 0, dst, ab. split; [reflexivity|exact HI].
    + unfold break_inner. change (0 <? 0) with false. cbn [andb bind].
      rewrite bound_search_ok by (apply times_sorted_part_ub; apply zf_times_sorted; exact F).
      cbn [bind]. rewrite (pp_upper_idx z). fold (absl z). rewrite Hk.
      rewrite (nth_tr_some z k tr Hn). cbn [bind]. rewrite HL. cbn [bind].
      eexists _, dst, ab. split; [reflexivity|exact HI].
Qed.

Lemma res_fst_OK {A} (r : res (A * Z)) a : res_fst r = OK a -> exists h, r = OK (a, h).
Proof.
  destruct r as [[a' h]|e]; cbn [res_fst]; intros H; [|discriminate].
  inversion H; subst. eauto.
Qed.

Lemma break_refines_lemma : forall z h t, zone_ok z = true -> int64 t ->
  (z_extended z = false \/ (forall l, last_opt (z_trans z) = Some l -> t < tr_time l)) ->
  exists h' dst ab,
    break_time z h t = OK (mkAL (civil_of_seconds (t + zoff (abs_zone z) t)) (zoff (abs_zone z) t) dst ab, h')
    /\ info_of z (zid (abs_zone z) t) = OK (dst, ab).
Proof.
  intros z h t Hok Ht Hext. pose proof (zone_ok_facts z Hok) as F.
  destruct (break_noext_ok z t F Ht) as (h0 & dst & ab & HB & HI).
  assert (break_time z 0 t = break_time_noext z 0 t) as E0.
  { destruct (zf_first z F) as (f & r & Hfr & _).
    destruct (zf_last z F) as (l & Hl & _).
    assert (Hn0 : nth_error (z_trans z) 0 = Some f) by (rewrite Hfr; reflexivity).
    unfold break_time. rewrite Hl, (nth_tr_some z 0 f Hn0). cbn [bind].
    assert (negb (t <? tr_time f) && (tr_time l <=? t) && z_extended z = false) as ->; [|reflexivity].
    destruct Hext as [He|He].
    - rewrite He. apply andb_false_r.
    - specialize (He l Hl). destruct (Z.leb_spec (tr_time l) t); [lia|].
      rewrite andb_false_r. reflexivity. }
  pose proof (break_time_hint z h t (zf_times_sorted z F)) as Hh.
  rewrite E0, HB in Hh. cbn [res_fst] in Hh.
  destruct (res_fst_OK _ _ Hh) as [h' Hr].
  exists h', dst, ab. split; [exact Hr|exact HI].
Qed.

(* ================================================================== *)
(* The built-in fixed-offset zones                                     *)

Definition mkbt (off t : Z) : transition := mkTr t 0 (cos (t + off)) (cos (t + off - 1)).
Definition mkz (off t : Z) : ztr := mkZT t off 0.

Definition fixed_zone (off : Z) : zone :=
  mkZone (map (mkbt off) builtin_times)
         [mkTT off (cos (max64 + off)) (cos (min64 + off)) false 0] 0
         (fixed_abbr_spec off ++ [0]) [] false 0.

Lemma builtin_range : forall t, In t builtin_times -> - 2 ^ 59 <= t <= 2 ^ 60.
Proof.
  assert (forallb (fun t => (- 2 ^ 59 <=? t) && (t <=? 2 ^ 60)) builtin_times = true) as H
    by (vm_compute; reflexivity).
  rewrite forallb_forall in H. intros t Hin. specialize (H t Hin).
  rewrite andb_true_iff, !Z.leb_le in H. exact H.
Qed.

Lemma builtin_trans_ok off : -86400 <= off <= 86400 -> forall ts,
  (forall t, In t ts -> - 2 ^ 59 <= t <= 2 ^ 60) ->
  builtin_trans [] (mkTT off epoch epoch false 0) ts = OK (map (mkbt off) ts).
Proof.
  intros Ho. induction ts as [|t r IH]; intros H; [reflexivity|].
  pose proof (H t (or_introl eq_refl)) as Ht.
  assert (2 ^ 59 = 576460752303423488) as E59 by reflexivity.
  assert (2 ^ 60 = 1152921504606846976) as E60 by reflexivity.
  cbn [builtin_trans map].
  rewrite local_time_tt_ok.
  - cbn [bind al_cs tt_off]. rewrite minus_cos.
    + cbn [bind]. rewrite IH by (intros x Hx; apply H; right; exact Hx).
      cbn [bind]. reflexivity.
    + unfold SB. lia.
    + unfold int64, min64, max64. lia.
    + unfold SB. lia.
  - unfold int64, min64, max64. lia.
  - cbn [tt_off]. lia.
  - cbn [tt_abbr length]. lia.
Qed.

Definition nul_free (s : list Z) : bool := forallb (fun c => negb (c =? 0)) s.

Lemma c_str_app0 s : nul_free s = true -> c_str (s ++ [0]) = s.
Proof.
  induction s as [|c r IH]; intros H.
  - reflexivity.
  - cbn [nul_free forallb] in H. apply andb_true_iff in H. destruct H as [H1 H2].
    cbn [app c_str]. destruct (c =? 0); [discriminate|]. rewrite IH; auto.
Qed.

Lemma fixed_abbr_nul_free_sweep :
  forallb (fun off => nul_free (fixed_abbr_spec off)) (zrange (-86400) (Z.to_nat 172801)) = true.
Proof. vm_compute. reflexivity. Qed.

Lemma fixed_abbr_nul_free off : -86400 <= off <= 86400 -> nul_free (fixed_abbr_spec off) = true.
Proof.
  intros H. pose proof fixed_abbr_nul_free_sweep as S. rewrite forallb_forall in S.
  apply S. apply zrange_In. lia.
Qed.

Lemma reset_ok off : -86400 <= off <= 86400 -> reset_to_builtin_utc off = OK (fixed_zone off).
Proof.
  intros Ho. unfold reset_to_builtin_utc, narrow32.
  rewrite chk32_in by (unfold int32, min32, max32; lia). cbn [bind].
  rewrite (builtin_trans_ok off Ho _ builtin_range). cbn [bind].
  destruct (fixed_exhaustive_lemma off ltac:(lia)) as (_ & -> & _). cbn [bind].
  rewrite !local_time_tt_ok.
  - cbn [bind al_cs tt_off]. reflexivity.
  - unfold int64, min64, max64. lia.
  - cbn [tt_off]. lia.
  - cbn [tt_abbr]. lia.
  - unfold int64, min64, max64. lia.
  - cbn [tt_off]. lia.
  - cbn [tt_abbr]. lia.
Qed.

Lemma off_of_fixed off : off_of (fixed_zone off) 0 = off.
Proof. reflexivity. Qed.

Lemma fields_eqb_refl f : fields_eqb f f = true.
Proof. apply fields_eqb_eq. reflexivity. Qed.

Lemma civils_fixed z off : off_of z 0 = off -> forall ts,
  civils_ok z off (map (mkbt off) ts) = true.
Proof.
  intros Hz. induction ts as [|t r IH]; [reflexivity|].
  cbn [map civils_ok mkbt tr_cs tr_pcs tr_time tr_type]. rewrite Hz.
  replace (t - 1 + off) with (t + off - 1) by lia.
  rewrite !fields_eqb_refl. cbn [andb]. exact IH.
Qed.

Lemma absl_fixed off : absl (fixed_zone off) = map (mkz off) builtin_times.
Proof.
  unfold absl. cbn [fixed_zone z_trans]. rewrite map_map. apply map_ext.
  intros t. reflexivity.
Qed.

Lemma fixed_ti off : forall ts, strictly_increasing ts = true ->
  times_increasing (map (mkz off) ts) = true.
Proof.
  induction ts as [|a r IH]; [reflexivity|]. destruct r as [|b r']; [reflexivity|].
  intros H. change (strictly_increasing (a :: b :: r')) with ((a <? b) && strictly_increasing (b :: r')) in H.
  apply andb_true_iff in H. destruct H as [H1 H2].
  cbn [map]. rewrite ti_cons2. cbn [mkz zt_time]. rewrite H1. cbn [andb]. apply IH. exact H2.
Qed.

Lemma fixed_gw off : forall ts, strictly_increasing ts = true ->
  gaps_wide off (map (mkz off) ts) = true.
Proof.
  induction ts as [|a r IH]; [reflexivity|]. destruct r as [|b r']; [reflexivity|].
  intros H. change (strictly_increasing (a :: b :: r')) with ((a <? b) && strictly_increasing (b :: r')) in H.
  apply andb_true_iff in H. destruct H as [H1 H2].
  cbn [map]. rewrite gw_cons2. cbn [mkz zt_time zt_off]. apply andb_true_iff. split.
  - apply Z.ltb_lt. apply Z.ltb_lt in H1. lia.
  - apply IH. exact H2.
Qed.

Lemma builtin_increasing : strictly_increasing builtin_times = true.
Proof. vm_compute. reflexivity. Qed.

Lemma zoff_fixed off t : forall ts, zoff_list (map (mkz off) ts) off t = off.
Proof.
  induction ts as [|a r IH]; [reflexivity|].
  cbn [map zoff_list mkz zt_time zt_off]. destruct (a <=? t); auto.
Qed.

Lemma zid_fixed off t : forall ts, zid_list (map (mkz off) ts) 0 t = 0.
Proof.
  induction ts as [|a r IH]; [reflexivity|].
  cbn [map zid_list mkz zt_time zt_id]. destruct (a <=? t); auto.
Qed.

Lemma last_opt_map {A B} (f : A -> B) l : last_opt (map f l) = option_map f (last_opt l).
Proof.
  unfold last_opt. rewrite <- map_rev. destruct (rev l); reflexivity.
Qed.

Lemma fixed_zone_ok_true off : -86400 <= off <= 86400 -> zone_ok (fixed_zone off) = true.
Proof.
  intros Ho. unfold zone_ok. rewrite !andb_true_iff.
  split; [split; [split; [split; [split; [split; [split|]|]|]|]|]|].
  - reflexivity.
  - cbn [fixed_zone z_types forallb]. rewrite andb_true_r.
    unfold type_ok. cbn [tt_off tt_cmax tt_cmin tt_abbr].
    rewrite !fields_eqb_refl, !andb_true_iff, !Z.leb_le. repeat split; lia.
  - reflexivity.
  - rewrite forallb_forall. intros tr Hin. cbn [fixed_zone z_trans] in Hin.
    apply in_map_iff in Hin. destruct Hin as (t & <- & Hin).
    cbn [mkbt tr_type tr_time]. pose proof (builtin_range t Hin) as R.
    rewrite !andb_true_iff, !Z.leb_le. repeat split; try lia.
  - exact (civils_fixed (fixed_zone off) off (off_of_fixed off) builtin_times).
  - rewrite abs_zone_eq. unfold wfz. cbn [zz_tr zz_doff]. rewrite absl_fixed.
    change (doff (fixed_zone off)) with off.
    rewrite (fixed_ti off _ builtin_increasing), (fixed_gw off _ builtin_increasing).
    reflexivity.
  - cbn [fixed_zone z_trans]. rewrite last_opt_map. reflexivity.
  - reflexivity.
Qed.

Lemma fixed_zone_ok_lemma : forall off, -86400 <= off <= 86400 ->
  exists z, reset_to_builtin_utc off = OK z /\ zone_ok z = true /\ z_extended z = false /\
    (forall t, zoff (abs_zone z) t = off) /\
    (forall t, info_of z (zid (abs_zone z) t) = OK (false, fixed_abbr_spec off)).
Proof.
  intros off Ho. exists (fixed_zone off).
  split; [apply reset_ok; exact Ho|].
  split; [apply fixed_zone_ok_true; exact Ho|].
  split; [reflexivity|].
  split.
  - intros t. rewrite abs_zone_eq. unfold zoff. cbn [zz_tr zz_doff]. rewrite absl_fixed.
    change (doff (fixed_zone off)) with off. apply zoff_fixed.
  - intros t. rewrite abs_zone_eq. unfold zid. cbn [zz_tr zz_did]. rewrite absl_fixed.
    change (z_default (fixed_zone off)) with 0. rewrite zid_fixed.
    unfold info_of. cbn [fixed_zone z_types z_abbrs].
    change (nth_res [mkTT off (cos (max64 + off)) (cos (min64 + off)) false 0] 0)
      with (OK (mkTT off (cos (max64 + off)) (cos (min64 + off)) false 0)).
    cbn [bind tt_abbr tt_isdst].
    rewrite cstr_from_ok by (rewrite app_length; cbn [length]; lia).
    change (Z.to_nat 0) with O. cbn [skipn bind].
    rewrite c_str_app0 by (apply fixed_abbr_nul_free; exact Ho). reflexivity.
Qed.

(* ================================================================== *)
(* MakeTime                                                            *)

Definition clamp' (v : Z) : Z := Z.max min64 (Z.min max64 v).
Definition kind_of' (k : zkind) : ckind := match k with ZU => UNIQUE | ZS => SKIPPED | ZR => REPEATED end.

Definition cl_of (c : zcl) : clookup :=
  mkCL (kind_of' (zk c)) (clamp' (zpre c)) (clamp' (ztrans c)) (clamp' (zpost c)).

Lemma clamp_id v : int64 v -> clamp' v = v.
Proof. unfold clamp', int64. lia. Qed.

Ltac zi := unfold int64, min64, max64, SB in *; lia.
Ltac stp :=
  first [ rewrite diff_l by (auto; zi)
        | rewrite diff_r by (auto; zi)
        | unfold add64; rewrite chk64_in by zi
        | unfold sub64; rewrite chk64_in by zi ];
  cbn [bind].

Lemma make_skipped_ok z cs tr po : valid_fields cs = true -> int64 (fy cs) ->
  - 2 ^ 59 <= tr_time tr <= 2 ^ 60 -> -93599 <= off_of z (tr_type tr) <= 93599 ->
  -93599 <= po <= 93599 ->
  tr_cs tr = cos (tr_time tr + off_of z (tr_type tr)) ->
  tr_pcs tr = cos (tr_time tr - 1 + po) ->
  tr_time tr - 1 + po < sec_of cs < tr_time tr + off_of z (tr_type tr) ->
  make_skipped tr cs = OK (cl_of (zskipped po (absf z tr) (sec_of cs))).
Proof.
  intros V I HT HO HP Ccs Cpcs HL.
  assert (2 ^ 59 = 576460752303423488) as E59 by reflexivity.
  assert (2 ^ 60 = 1152921504606846976) as E60 by reflexivity.
  rewrite E59, E60 in HT. clear E59 E60.
  unfold make_skipped. rewrite Ccs, Cpcs.
  stp. stp. stp. stp. stp.
  unfold cl_of, zskipped, at_, pre_. cbn [zk zpre ztrans zpost kind_of' absf zt_time zt_off].
  rewrite !clamp_id by zi. reflexivity.
Qed.

Lemma make_repeated_ok z cs tr po : valid_fields cs = true -> int64 (fy cs) ->
  - 2 ^ 59 <= tr_time tr <= 2 ^ 60 -> -93599 <= off_of z (tr_type tr) <= 93599 ->
  -93599 <= po <= 93599 ->
  tr_cs tr = cos (tr_time tr + off_of z (tr_type tr)) ->
  tr_pcs tr = cos (tr_time tr - 1 + po) ->
  tr_time tr + off_of z (tr_type tr) <= sec_of cs <= tr_time tr - 1 + po ->
  make_repeated tr cs = OK (cl_of (zrepeated po (absf z tr) (sec_of cs))).
Proof.
  intros V I HT HO HP Ccs Cpcs HL.
  assert (2 ^ 59 = 576460752303423488) as E59 by reflexivity.
  assert (2 ^ 60 = 1152921504606846976) as E60 by reflexivity.
  rewrite E59, E60 in HT. clear E59 E60.
  unfold make_repeated. rewrite Ccs, Cpcs.
  stp. stp. stp. stp. stp.
  unfold cl_of, zrepeated, at_, pre_. cbn [zk zpre ztrans zpost kind_of' absf zt_time zt_off].
  rewrite !clamp_id by zi. reflexivity.
Qed.

Lemma lt_cs_tr z cs tr i : zfacts z -> valid_fields cs = true ->
  nth_error (z_trans z) i = Some tr ->
  lt64 cs (tr_cs tr) = (sec_of cs <? at_ (absf z tr)).
Proof.
  intros F V Hn. destruct (tr_facts z i tr F Hn) as (_ & _ & _ & Ccs & _ & _).
  rewrite Ccs, lt_l by exact V. reflexivity.
Qed.

Lemma uc_facts z L : zfacts z ->
  (forall i tr, nth_error (z_trans z) i = Some tr -> (i < upper_civil (absl z) L)%nat ->
     tr_time tr + off_of z (tr_type tr) <= L) /\
  (forall i tr, nth_error (z_trans z) i = Some tr -> (upper_civil (absl z) L <= i)%nat ->
     L < tr_time tr + off_of z (tr_type tr)).
Proof.
  intros F. destruct (zf_wf z F) as (_ & SA & _).
  split; intros i tr Hn Hi.
  - destruct (tr_facts z i tr F Hn) as (_ & _ & _ & _ & _ & Na).
    pose proof (upper_civil_char (absl z) L SA i _ Na) as C.
    unfold at_ in C. cbn [absf zt_time zt_off] in C. apply C. exact Hi.
  - destruct (tr_facts z i tr F Hn) as (_ & _ & _ & _ & _ & Na).
    pose proof (upper_civil_char (absl z) L SA i _ Na) as C.
    unfold at_ in C. cbn [absf zt_time zt_off] in C. lia.
Qed.

Lemma make_find_ok z cs : zfacts z -> valid_fields cs = true ->
  exists h', make_find z 0 cs = OK (upper_civil (absl z) (sec_of cs), h').
Proof.
  intros F V.
  destruct (zf_first z F) as (f & r & Hfr & Hf0).
  destruct (zf_last z F) as (l & Hl & Hl0).
  destruct (last_opt_nth _ _ Hl) as [Hln Hlen].
  assert (Hn0 : nth_error (z_trans z) 0 = Some f) by (rewrite Hfr; reflexivity).
  destruct (uc_facts z (sec_of cs) F) as [U1 U2].
  pose proof (upper_civil_le (absl z) (sec_of cs)) as Hle. rewrite absl_length in Hle.
  unfold make_find. rewrite (nth_tr_some z 0 f Hn0), Hl. cbn [bind].
  rewrite (lt_cs_tr z cs f 0 F V Hn0).
  unfold le64. rewrite (lt_cs_tr z cs l _ F V Hln).
  unfold at_. cbn [absf zt_time zt_off].
  destruct (Z.ltb_spec (sec_of cs) (tr_time f + off_of z (tr_type f))) as [H1|H1].
  - assert (upper_civil (absl z) (sec_of cs) = O) as ->.
    { destruct (upper_civil (absl z) (sec_of cs)) eqn:E; [reflexivity|].
      pose proof (U1 0%nat f Hn0 ltac:(lia)). lia. }
    exists 0. reflexivity.
  - destruct (Z.ltb_spec (sec_of cs) (tr_time l + off_of z (tr_type l))) as [H2|H2]; cbn [negb].
    + change (0 <? 0) with false. cbn [andb bind].
      rewrite bound_search_ok by (apply civil_sorted_part; apply zf_civil_sorted; exact F).
      cbn [bind].
      rewrite (pp_ext _ (fun tr => sec_of cs <? at_ (absf z tr))).
      * rewrite pp_upper_civil. fold (absl z). eexists. reflexivity.
      * intros x Hx. apply In_nth_error in Hx. destruct Hx as [i Hi].
        apply (lt_cs_tr z cs x i F V Hi).
    + assert (upper_civil (absl z) (sec_of cs) = length (z_trans z)) as ->.
      { destruct (Nat.eq_dec (upper_civil (absl z) (sec_of cs)) (length (z_trans z))) as [E|E]; [exact E|].
        pose proof (U2 _ l Hln ltac:(lia)). lia. }
      exists 0. reflexivity.
Qed.

Lemma make_noext_ok z cs : zfacts z -> valid_fields cs = true -> int64 (fy cs) ->
  exists h', make_time_noext z 0 cs = OK (cl_of (zmake (abs_zone z) (sec_of cs)), h').
Proof.
  intros F V I.
  destruct (make_find_ok z cs F V) as [h' Hf]. exists h'.
  destruct (zf_first z F) as (f & r & Hfr & Hf0).
  destruct (zf_last z F) as (l & Hl & Hl0).
  destruct (last_opt_nth _ _ Hl) as [Hln Hlen].
  assert (Hn0 : nth_error (z_trans z) 0 = Some f) by (rewrite Hfr; reflexivity).
  destruct (uc_facts z (sec_of cs) F) as [U1 U2].
  pose proof (upper_civil_le (absl z) (sec_of cs)) as Hle. rewrite absl_length in Hle.
  pose proof (doff_bound z F) as HD.
  assert (2 ^ 59 = 576460752303423488) as E59 by reflexivity.
  assert (2 ^ 60 = 1152921504606846976) as E60 by reflexivity.
  unfold make_time_noext. rewrite Hf. cbn [bind].
  rewrite abs_zone_eq, zmake_zmakeL. unfold zmakeL. rewrite absl_length.
  destruct (upper_civil (absl z) (sec_of cs)) as [|j] eqn:Ek.
  - (* before the first transition, or in its gap *)
    cbn [Nat.eqb]. rewrite (nth_tr_some z 0 f Hn0). cbn [bind].
    assert (absl z = absf z f :: map (absf z) r) as -> by (unfold absl; rewrite Hfr; reflexivity).
    destruct (tr_facts z 0 f F Hn0) as (Hi & HT & HO & Ccs & Cpcs & _). cbn [ob] in Cpcs.
    pose proof (U2 0%nat f Hn0 ltac:(lia)) as Hlt.
    unfold le64. rewrite Cpcs, lt_r by exact V.
    rewrite Z.leb_antisym. unfold pre_ at 1. cbn [absf zt_time].
    destruct (Z.ltb_spec (tr_time f - 1 + doff z) (sec_of cs)) as [Hs|Hs]; cbn [negb].
    + rewrite (make_skipped_ok z cs f (doff z)) by (auto; lia). reflexivity.
    + destruct (type_facts z _ F (zf_dflt z F)) as (ty & Hty & Eoff & _ & _ & Ecmin & _).
      fold (doff z) in Eoff, Ecmin.
      rewrite Hty. cbn [bind]. rewrite Ecmin, lt_l by exact V. rewrite Eoff.
      unfold cl_of, zunique. cbn [zk zpre ztrans zpost kind_of'].
      destruct (Z.ltb_spec (sec_of cs) (min64 + doff z)) as [Hm|Hm].
      * replace (clamp' (sec_of cs - doff z)) with min64 by (unfold clamp', min64, max64 in *; lia).
        reflexivity.
      * rewrite epoch_cos. rewrite (plus_cos 0 (doff z)) by zi. cbn [bind].
        change (0 + doff z) with (doff z).
        rewrite E59, E60 in HT.
        stp. rewrite !clamp_id by zi. reflexivity.
  - change (Nat.eqb (S j) 0) with false. cbv iota.
    destruct (nth_lt_some (z_trans z) j ltac:(lia)) as [trp Hnp].
    destruct (tr_facts z j trp F Hnp) as (Hip & HTp & HOp & Ccsp & Cpcsp & Nap).
    pose proof (ob_bound z j F) as HBp.
    pose proof (U1 j trp Hnp ltac:(lia)) as Hge.
    rewrite Nap.
    destruct (Nat.eqb_spec (S j) (length (z_trans z))) as [En|En].
    + (* at or after the last transition *)
      replace (length (z_trans z) - 1)%nat with j by lia.
      rewrite (nth_tr_some z j trp Hnp). cbn [bind].
      rewrite Cpcsp, lt_r by exact V.
      unfold pre_ at 1. cbn [absf zt_time].
      destruct (Z.ltb_spec (tr_time trp - 1 + ob (doff z) (absl z) j) (sec_of cs)) as [Hs|Hs].
      * destruct (type_facts z _ F Hip) as (ty & Hty & Eoff & _ & Ecmax & _ & _).
        rewrite Hty. cbn [bind]. rewrite Ecmax, lt_r by exact V.
        unfold cl_of, zunique, at_. cbn [zk zpre ztrans zpost kind_of' absf zt_time zt_off].
        assert (trp = l) by (replace (length (z_trans z) - 1)%nat with j in Hln by lia; congruence).
        subst l.
        destruct (Z.ltb_spec (max64 + off_of z (tr_type trp)) (sec_of cs)) as [Hm|Hm].
        -- replace (clamp' (tr_time trp + (sec_of cs - (tr_time trp + off_of z (tr_type trp)))))
             with max64 by (unfold clamp', min64, max64 in *; lia).
           reflexivity.
        -- rewrite Ccsp. rewrite E59, E60 in HTp.
           stp. stp. rewrite !clamp_id by zi. reflexivity.
      * rewrite (make_repeated_ok z cs trp (ob (doff z) (absl z) j)) by (auto; lia). reflexivity.
    + (* strictly inside the table *)
      destruct (nth_lt_some (z_trans z) (S j) ltac:(lia)) as [tr Hn].
      destruct (tr_facts z (S j) tr F Hn) as (Hi & HT & HO & Ccs & Cpcs & Na).
      rewrite (ob_S _ _ j _ Nap) in Cpcs. cbn [absf zt_off] in Cpcs.
      pose proof (U2 (S j) tr Hn ltac:(lia)) as Hlt.
      rewrite Na. rewrite (nth_tr_some z (S j) tr Hn). cbn [bind].
      rewrite Cpcs, lt_r by exact V.
      unfold pre_ at 1. cbn [absf zt_time zt_off].
      destruct (Z.ltb_spec (tr_time tr - 1 + off_of z (tr_type trp)) (sec_of cs)) as [Hs|Hs].
      * rewrite (make_skipped_ok z cs tr (off_of z (tr_type trp))) by (auto; lia). reflexivity.
      * replace (S j - 1)%nat with j by lia.
        rewrite (nth_tr_some z j trp Hnp). cbn [bind].
        unfold le64. rewrite Cpcsp, lt_r by exact V.
        rewrite Z.leb_antisym. unfold pre_ at 1. cbn [absf zt_time].
        destruct (Z.ltb_spec (tr_time trp - 1 + ob (doff z) (absl z) j) (sec_of cs)) as [Hr|Hr]; cbn [negb].
        -- rewrite Ccsp. rewrite E59, E60 in HTp, HT.
           unfold cl_of, zunique, at_. cbn [zk zpre ztrans zpost kind_of' absf zt_time zt_off].
           stp. stp. rewrite !clamp_id by zi. reflexivity.
        -- rewrite (make_repeated_ok z cs trp (ob (doff z) (absl z) j)) by (auto; lia). reflexivity.
Qed.

Lemma make_refines_lemma : forall z h cs, zone_ok z = true -> valid_fields cs = true -> int64 (fy cs) ->
  (z_extended z = false \/ fy cs <= z_last_year z) ->
  exists h', let c := zmake (abs_zone z) (sec_of cs) in
    make_time z h cs = OK (mkCL (kind_of' (zk c)) (clamp' (zpre c)) (clamp' (ztrans c)) (clamp' (zpost c)), h').
Proof.
  intros z h cs Hok V I Hext. pose proof (zone_ok_facts z Hok) as F.
  destruct (make_noext_ok z cs F V I) as (h0 & HM).
  assert (make_time z 0 cs = make_time_noext z 0 cs) as E0.
  { destruct (zf_first z F) as (f & r & Hfr & _).
    destruct (zf_last z F) as (l & Hl & _).
    assert (Hn0 : nth_error (z_trans z) 0 = Some f) by (rewrite Hfr; reflexivity).
    unfold make_time. rewrite Hl, (nth_tr_some z 0 f Hn0). cbn [bind].
    assert (negb (lt64 cs (tr_cs f)) && le64 (tr_cs l) cs && lt64 (tr_pcs l) cs
            && z_extended z && (z_last_year z <? fy cs) = false) as ->; [|reflexivity].
    destruct Hext as [He|He].
    - rewrite He, andb_false_r. reflexivity.
    - destruct (Z.ltb_spec (z_last_year z) (fy cs)); [lia|]. apply andb_false_r. }
  pose proof (make_time_hint z h cs (zf_civil_sorted z F)) as Hh.
  rewrite E0, HM in Hh. cbn [res_fst] in Hh.
  destruct (res_fst_OK _ _ Hh) as [h' Hr].
  exists h'. cbv zeta. exact Hr.
Qed.

(* Status: break_refines_lemma, make_refines_lemma and fixed_zone_ok_lemma are all
   proved (nothing left open); `Print Assumptions` reports "Closed under the
   global context" for the three theorems of Properties_C15z.v.
   Remarks on the certificate: the last conjunct of zone_ok (first transition
   before 0) is not needed by any of the three proofs; gaps_wide is used only
   to derive that the civil seconds at_ are increasing; z_future and
   z_last_year play no role below the extended_ guard. *)
