(* Source64Cor.v - the theorems about the hand-written model, carried over to the
   SOURCE-DERIVED functions of Source64.v (regenerated from the C++ AST on every
   run) through the tie lemmas of Source64Proofs.v: the code as clang reads it
   now meets the calendar specification under exactly the property's bounds. *)
From CCTZ Require Import Base SrcConstants Cal CivilImpl Source64 Source64Proofs.
From CCTZ Require Import CalProofs WeekdayProofs CivilNorm CivilDiff CivilProofs.
Require Import Lia ZifyBool.
Local Open Scope Z_scope.

(* the tag-dispatched overloads, by tag number (0 second .. 5 year) *)
Definition s64_step (tag : nat) (f : fields) (n : Z) : res fields :=
  match tag with
  | 0%nat => s64_step_second s64_fuel f n | 1%nat => s64_step_minute s64_fuel f n
  | 2%nat => s64_step_hour s64_fuel f n | 3%nat => s64_step_day s64_fuel f n
  | 4%nat => s64_step_month s64_fuel f n | _ => s64_step_year f n
  end.
Definition s64_align (tag : nat) (f : fields) : res fields :=
  match tag with
  | 0%nat => s64_align_second f | 1%nat => s64_align_minute f | 2%nat => s64_align_hour f
  | 3%nat => s64_align_day f | 4%nat => s64_align_month f | _ => s64_align_year f
  end.
Definition s64_difference (tag : nat) (f1 f2 : fields) : res Z :=
  match tag with
  | 0%nat => s64_difference_second f1 f2 | 1%nat => s64_difference_minute f1 f2
  | 2%nat => s64_difference_hour f1 f2 | 3%nat => s64_difference_day f1 f2
  | 4%nat => s64_difference_month f1 f2 | _ => s64_difference_year f1 f2
  end.
(* civil_time<T>(y, m, d, hh, mm, ss) and operator+ as the header composes them *)
Definition s64_construct (tag : nat) (y m d hh mm ss : Z) : res fields :=
  do f <- s64_n_sec s64_fuel y m d hh mm ss ;; s64_align tag f.
Definition s64_plus (tag : nat) (f : fields) (n : Z) : res fields :=
  do r <- s64_step tag f n ;; s64_align tag r.

Lemma s64_align_is tag f : (tag <= 5)%nat -> s64_align tag f = OK (align64 tag f).
Proof.
  intros H. do 6 (destruct tag as [|tag]; [first [apply s64_align_second_tie | apply s64_align_minute_tie
    | apply s64_align_hour_tie | apply s64_align_day_tie | apply s64_align_month_tie | apply s64_align_year_tie]|]).
  lia.
Qed.

Lemma valid_fields_repr f : valid_fields f = true -> int64 (fy f) -> fields_repr f.
Proof.
  intros V I. apply valid_fields_inv in V. destruct V as (Vd & Hh & Hm & Hs).
  apply valid_date_inv in Vd. destruct Vd as [Hmo Hd]. pose proof (dim_range (fy f) (fm f)).
  unfold fields_repr. repeat split; try assumption; try lia; apply I.
Qed.

Lemma src64_construct_meets_spec_lemma : forall tag y m d hh mm ss, (tag <= 5)%nat ->
  int64 y -> int64 m -> int64 d -> int64 hh -> int64 mm -> int64 ss ->
  int64 (carry_year y m) -> int64 (fy (norm_spec y m d hh mm ss)) ->
  s64_construct tag y m d hh mm ss = OK (align_spec tag (norm_spec y m d hh mm ss)).
Proof.
  intros tag y m d hh mm ss Ht Iy Im Id Ih Imi Is Ic If.
  pose proof (n_sec_refines_lemma y m d hh mm ss Iy Im Id Ih Imi Is Ic If) as H1.
  pose proof (construct_refines_lemma tag y m d hh mm ss Iy Im Id Ih Imi Is Ic If) as H2.
  unfold construct64 in H2. rewrite H1 in H2. cbn [bind] in H2.
  unfold s64_construct. rewrite (s64_n_sec_tie _ _ _ _ _ _ _ H1). cbn [bind].
  rewrite s64_align_is by exact Ht. exact H2.
Qed.

Lemma s64_step_tie tag f n r : (tag <= 5)%nat -> fields_repr f -> step64 tag f n = OK r -> s64_step tag f n = OK r.
Proof.
  intros Ht R H.
  do 6 (destruct tag as [|tag]; [first [exact (s64_step_second_tie f n r R H) | exact (s64_step_minute_tie f n r R H)
    | exact (s64_step_hour_tie f n r R H) | exact (s64_step_day_tie f n r R H) | exact (s64_step_month_tie f n r R H)
    | exact (s64_step_year_tie f n r R H)]|]).
  lia.
Qed.

Lemma src64_plus_meets_spec_lemma : forall tag f n, (tag <= 5)%nat ->
  valid_fields f = true -> align_spec tag f = f -> int64 (fy f) -> int64 n ->
  int64 (fy (of_ord_spec tag (ord_spec tag f + n))) ->
  s64_plus tag f n = OK (of_ord_spec tag (ord_spec tag f + n)).
Proof.
  intros tag f n Ht V A I In Ir.
  pose proof (plus_refines_lemma tag f n Ht V A I In Ir) as H.
  unfold plus64 in H. destruct (step64 tag f n) as [r|e] eqn:E; [|discriminate]. cbn [bind] in H.
  unfold s64_plus. rewrite (s64_step_tie tag f n r Ht (valid_fields_repr f V I) E). cbn [bind].
  rewrite s64_align_is by exact Ht. exact H.
Qed.

Lemma s64_difference_tie tag f1 f2 r : (tag <= 5)%nat -> fields_repr f1 -> fields_repr f2 ->
  difference64 tag f1 f2 = OK r -> s64_difference tag f1 f2 = OK r.
Proof.
  intros Ht R1 R2 H.
  do 6 (destruct tag as [|tag]; [first [exact (s64_difference_second_tie f1 f2 r R1 R2 H) | exact (s64_difference_minute_tie f1 f2 r R1 R2 H)
    | exact (s64_difference_hour_tie f1 f2 r R1 R2 H) | exact (s64_difference_day_tie f1 f2 r R1 R2 H)
    | exact (s64_difference_month_tie f1 f2 r R1 R2 H) | exact (s64_difference_year_tie f1 f2 r R1 R2 H)]|]).
  lia.
Qed.

Lemma src64_difference_meets_spec_lemma : forall tag f1 f2, (tag <= 5)%nat ->
  valid_fields f1 = true -> valid_fields f2 = true -> align_spec tag f1 = f1 -> align_spec tag f2 = f2 ->
  int64 (fy f1) -> int64 (fy f2) ->
  int64 (ord_spec tag f1 - ord_spec tag f2) ->
  s64_difference tag f1 f2 = OK (ord_spec tag f1 - ord_spec tag f2).
Proof.
  intros tag f1 f2 Ht V1 V2 A1 A2 I1 I2 Id.
  apply s64_difference_tie; [exact Ht | apply valid_fields_repr; assumption | apply valid_fields_repr; assumption |].
  apply difference_refines_lemma; assumption.
Qed.

Lemma src64_weekday_meets_spec_lemma : forall f, valid_fields f = true -> int64 (fy f) ->
  s64_get_weekday f = OK (weekday_of_days (days_from_civil (fy f) (fm f) (fd f))).
Proof.
  intros f V I. apply s64_get_weekday_tie; [apply valid_fields_repr; assumption|].
  apply weekday_spec_lemma; assumption.
Qed.

Lemma src64_yearday_meets_spec_lemma : forall f, valid_fields f = true -> int64 (fy f) ->
  s64_get_yearday f = OK (days_from_civil (fy f) (fm f) (fd f) - days_from_civil (fy f) 1 1 + 1).
Proof.
  intros f V I. apply s64_get_yearday_tie; [apply valid_fields_repr; assumption|].
  apply (yearday_spec_lemma f V I).
Qed.
