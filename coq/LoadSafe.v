(* LoadSafe.v — C12: what acceptance by TimeZoneInfo::Load establishes
   (accept_sorted_lemma: both sort orders; accept_bounds_lemma: non-empty table,
   every transition time in [-2^59, 2^60]), and totality of the modelled loader
   on byte lists (load_total_bytes_lemma: no Overflow/OOB/Uninit/Precond/Fuel for
   any list of bytes; load_total_unrestricted_refuted: the hypothesis is needed).
   Everything is proved; nothing is admitted. *)
From CCTZ Require Import Base SrcConstants Cal CivilImpl PosixImpl PosixSpec ZoneLoad ZoneImpl ZoneHist ZoneSpec
  CalProofs WeekdayProofs CivilNorm CivilDiff PosixProofs RuleProofs.
Require Import Lia ZifyBool.
Local Open Scope Z_scope.
Local Strategy 100 [civil_of_seconds civil_of_days days_from_civil].

(* ------------------------------------------------------------------ *)
(* The civil pass                                                       *)

Fixpoint chain (prev : option (fields * Z)) (l : list transition) : Prop :=
  match l with
  | [] => True
  | tr :: r =>
      match prev with
      | Some (pc, pt) => lt64 pc (tr_cs tr) = true /\ pt < tr_time tr
      | None => True
      end /\ chain (Some (tr_cs tr, tr_time tr)) r
  end.

Lemma chain_sorted : forall l prev, chain prev l ->
  times_sorted_l l = true /\ civil_sorted_l l = true.
Proof.
  induction l as [|a l IH]; intros prev H; [split; reflexivity|].
  destruct H as [_ H]. destruct l as [|b l]; [split; reflexivity|].
  pose proof (IH _ H) as [I1 I2].
  destruct H as [[H1 H2] _].
  split.
  - change (((tr_time a <? tr_time b) && times_sorted_l (b :: l)) = true).
    rewrite I1. apply andb_true_iff. split; [apply Z.ltb_lt; exact H2|reflexivity].
  - change ((lt64 (tr_cs a) (tr_cs b) && civil_sorted_l (b :: l)) = true).
    rewrite I2, H1. reflexivity.
Qed.

Lemma civil_pass_inv : forall abbrs types trans ttp prev acc out,
  civil_pass abbrs types ttp prev trans acc = OK (Some out) ->
  exists new, out = rev acc ++ new /\ map tr_time new = map tr_time trans /\ chain prev new.
Proof.
  induction trans as [|tr rest IH]; intros ttp prev acc out H.
  - cbn [civil_pass] in H. inversion H; subst. exists []. rewrite app_nil_r. repeat split.
  - cbn [civil_pass] in H.
    destruct (local_time_tt abbrs (tr_time tr) ttp) as [a|] ; [|discriminate H]. cbn [bind] in H.
    destruct (minus64 0 (al_cs a) 1) as [pcs|]; [|discriminate H]. cbn [bind] in H.
    destruct (nth_res types (tr_type tr)) as [ttp'|]; [|discriminate H]. cbn [bind] in H.
    destruct (local_time_tt abbrs (tr_time tr) ttp') as [b|]; [|discriminate H]. cbn [bind] in H.
    assert (K : civil_pass abbrs types ttp' (Some (al_cs b, tr_time tr)) rest
                  (mkTr (tr_time tr) (tr_type tr) (al_cs b) pcs :: acc) = OK (Some out) /\
                match prev with
                | Some (pc, pt) => lt64 pc (al_cs b) = true /\ pt < tr_time tr
                | None => True
                end).
    { destruct prev as [[pc pt]|]; [|split; [exact H|exact I]].
      destruct (lt64 pc (al_cs b)) eqn:E1; cbn [negb] in H; [|discriminate H].
      destruct (pt <? tr_time tr) eqn:E2; cbn [negb] in H; [|discriminate H].
      split; [exact H|]. split; [reflexivity|apply Z.ltb_lt; exact E2]. }
    destruct K as [K1 K2].
    destruct (IH _ _ _ _ K1) as [new [E1 [E2 E3]]].
    exists (mkTr (tr_time tr) (tr_type tr) (al_cs b) pcs :: new).
    split; [|split].
    + rewrite E1. cbn [rev]. rewrite <- app_assoc. reflexivity.
    + cbn [map tr_time]. rewrite E2. reflexivity.
    + cbn [chain tr_cs tr_time]. split; assumption.
Qed.

Lemma civil_pass_sorted abbrs types ttp trans out :
  civil_pass abbrs types ttp None trans [] = OK (Some out) ->
  times_sorted_l out = true /\ civil_sorted_l out = true /\ map tr_time out = map tr_time trans.
Proof.
  intros H. destruct (civil_pass_inv _ _ _ _ _ _ _ H) as [new [E1 [E2 E3]]].
  cbn [rev app] in E1. subst out.
  destruct (chain_sorted _ _ E3). auto.
Qed.

(* ------------------------------------------------------------------ *)
(* Peeling load_bytes                                                   *)

Ltac peel_step H :=
  match type of H with
  | bind ?r _ = OK _ =>
      let E := fresh "E" in destruct r eqn:E; [cbn [bind] in H | discriminate H]
  | (if ?c then _ else _) = OK _ =>
      let E := fresh "E" in destruct c eqn:E; try discriminate H
  | (match ?x with _ => _ end) = OK _ =>
      let E := fresh "E" in destruct x eqn:E; try discriminate H
  | (let x := ?v in _) = OK _ => cbv zeta in H
  end.


(* ------------------------------------------------------------------ *)
(* Ranges of what the footer parser delivers                            *)

Lemma g_num_range s lo hi v r : g_num s lo hi = Some (v, r) -> lo <= v <= hi.
Proof.
  unfold g_num. destruct (take_digits s) as [ds rest]. destruct ds as [|d ds]; [discriminate|].
  set (x := digits_value (d :: ds)). clearbody x.
  destruct ((lo <=? x) && (x <=? hi)) eqn:E; [|discriminate].
  intros H; inversion H; subst. lia.
Qed.

Lemma g_hms_range s hmax sign v r : 0 <= hmax -> (sign = 1 \/ sign = -1) ->
  g_hms s hmax sign = Some (v, r) -> - (hmax * 3600 + 3599) <= v <= hmax * 3600 + 3599.
Proof.
  intros Hh Hs. unfold g_hms. rewrite m43_45.
  set (P := match s with [] => _ | c :: r0 => _ end).
  assert (HP : fst P = 1 \/ fst P = - 1).
  { unfold P. destruct s as [|c r0]; [cbn [fst]; lia|].
    destruct (c =? 43); [cbn [fst]; lia|]. destruct (c =? 45); cbn [fst]; lia. }
  destruct P as [sg s1]. cbn [fst] in HP.
  destruct (g_num s1 0 hmax) as [[hh s2]|] eqn:E1; [|discriminate].
  apply g_num_range in E1. rewrite m58.
  destruct s2 as [|c2 r2]; [intros H; inversion H; subst; lia|].
  destruct (c2 =? 58); [|intros H; inversion H; subst; lia].
  destruct (g_num r2 0 59) as [[mm s3]|] eqn:E2; [|discriminate].
  apply g_num_range in E2. rewrite m58.
  destruct s3 as [|c3 r3]; [intros H; inversion H; subst; lia|].
  destruct (c3 =? 58); [|intros H; inversion H; subst; lia].
  destruct (g_num r3 0 59) as [[ss s4]|] eqn:E3; [|discriminate].
  apply g_num_range in E3.
  intros H; inversion H; subst; lia.
Qed.

Lemma g_date_ok s d r : g_date s = Some (d, r) -> pdate_ok' d = true.
Proof.
  unfold g_date. rewrite m74_77.
  destruct s as [|c s'].
  - destruct (g_num [] 0 365) as [[n rest]|] eqn:E; [|discriminate].
    apply g_num_range in E. intros H; inversion H; subst. cbn [pdate_ok']. lia.
  - destruct (c =? 74).
    { destruct (g_num s' 1 365) as [[n rest]|] eqn:E; [|discriminate].
      apply g_num_range in E. intros H; inversion H; subst. cbn [pdate_ok']. lia. }
    destruct (c =? 77).
    { destruct (g_num s' 1 12) as [[m s1]|] eqn:E1; [|discriminate].
      apply g_num_range in E1. rewrite m46.
      destruct s1 as [|c1 r1]; [discriminate|]. destruct (c1 =? 46); [|discriminate].
      destruct (g_num r1 1 5) as [[w s2]|] eqn:E2; [|discriminate].
      apply g_num_range in E2. rewrite m46.
      destruct s2 as [|c2 r2]; [discriminate|]. destruct (c2 =? 46); [|discriminate].
      destruct (g_num r2 0 6) as [[wd s3]|] eqn:E3; [|discriminate].
      apply g_num_range in E3.
      intros H; inversion H; subst. cbn [pdate_ok']. lia. }
    destruct (g_num (c :: s') 0 365) as [[n rest]|] eqn:E; [|discriminate].
    apply g_num_range in E. intros H; inversion H; subst. cbn [pdate_ok']. lia.
Qed.

Definition pt_ok (t : ptrans) : Prop :=
  exists d tm, t = mkPT (Some d) (Some tm) /\ pdate_ok' d = true /\ -604799 <= tm <= 604799.

Lemma g_rule_ok s t r : g_rule s = Some (t, r) -> pt_ok t.
Proof.
  unfold g_rule. rewrite m44.
  destruct s as [|c s']; [discriminate|].
  destruct (c =? 44); [|discriminate].
  destruct (g_date s') as [[d s1]|] eqn:D; [|discriminate].
  apply g_date_ok in D.
  rewrite m47.
  destruct s1 as [|c1 r1].
  - intros H. inversion H. exists d, 7200. repeat split; auto; lia.
  - destruct (c1 =? 47).
    + destruct (g_hms r1 167 1) as [[t' s2]|] eqn:T; [|discriminate].
      apply g_hms_range in T; [|lia|lia].
      intros H. inversion H. exists d, t'. repeat split; auto; lia.
    + intros H. inversion H. exists d, 7200. repeat split; auto; lia.
Qed.

Definition ptz_ok (z : posix_tz) : Prop :=
  exists so, std_offset z = Some so /\ -89999 <= so <= 89999 /\
    (dst_abbr z = [] \/
     exists dof, dst_offset z = Some dof /\ -93599 <= dof <= 93599 /\
                 pt_ok (dst_start z) /\ pt_ok (dst_end z)).

Lemma posix_spec_ok p z : posix_spec p = Some z -> ptz_ok z.
Proof.
  rewrite posix_spec_unf.
  destruct (deref p =? 58); [discriminate|].
  unfold spec_body.
  destruct (g_abbr p) as [[sa s1]|]; [|discriminate].
  destruct (g_hms s1 24 (-1)) as [[so s2]|] eqn:SO; [|discriminate].
  apply g_hms_range in SO; [|lia|lia].
  destruct s2 as [|c2 r2].
  - intros H. inversion H. exists so. cbn. repeat split; auto; lia.
  - destruct (g_abbr (c2 :: r2)) as [[da s3]|]; [|discriminate].
    destruct (spec_off so s3) as [[dof s4]|] eqn:DO; [|discriminate].
    assert (-93599 <= dof <= 93599) as Hdof.
    { unfold spec_off in DO. rewrite m44 in DO.
      destruct s3 as [|c3 r3].
      - apply g_hms_range in DO; lia.
      - destruct (c3 =? 44).
        + inversion DO; subst. lia.
        + apply g_hms_range in DO; lia. }
    destruct (g_rule s4) as [[r1 s5]|] eqn:R1; [|discriminate].
    destruct (g_rule s5) as [[r2' s6]|] eqn:R2; [|discriminate].
    destruct s6; [|discriminate].
    intros H. inversion H.
    apply g_rule_ok in R1. apply g_rule_ok in R2.
    exists so. cbn [std_offset dst_abbr dst_offset dst_start dst_end].
    split; [reflexivity|]. split; [lia|]. right. exists dof. auto.
Qed.

Lemma parse_ok s z : ParsePosixSpec s = Some z -> ptz_ok z.
Proof. intros H. rewrite gen_eq in H. exact (posix_spec_ok _ _ H). Qed.

(* ------------------------------------------------------------------ *)
(* Calendar facts for LocalTime                                         *)

Lemma cos_year_int64 s : min64 - 200000 <= s <= max64 + 200000 ->
  -300000000000 <= fy (civil_of_seconds s) <= 300000000000.
Proof.
  intros H.
  pose proof (cos_year_mono (min64 - 200000) s ltac:(lia)) as L1.
  pose proof (cos_year_mono s (max64 + 200000) ltac:(lia)) as L2.
  assert (-300000000000 <= fy (civil_of_seconds (min64 - 200000))) as B1
    by (apply Z.leb_le; vm_compute; reflexivity).
  assert (fy (civil_of_seconds (max64 + 200000)) <= 300000000000) as B2
    by (apply Z.leb_le; vm_compute; reflexivity).
  lia.
Qed.

Lemma cos_year_small s : - 2 ^ 59 - 200000 <= s <= 2 ^ 59 + 200000 ->
  -20000000000 <= fy (civil_of_seconds s) <= 20000000000.
Proof.
  intros H.
  pose proof (cos_year_mono (- 2 ^ 59 - 200000) s ltac:(lia)) as L1.
  pose proof (cos_year_mono s (2 ^ 59 + 200000) ltac:(lia)) as L2.
  assert (-20000000000 <= fy (civil_of_seconds (- 2 ^ 59 - 200000))) as B1
    by (apply Z.leb_le; vm_compute; reflexivity).
  assert (fy (civil_of_seconds (2 ^ 59 + 200000)) <= 20000000000) as B2
    by (apply Z.leb_le; vm_compute; reflexivity).
  lia.
Qed.

Lemma plus64_sec f n : valid_fields f = true -> int64 (fy f) -> int64 n ->
  min64 - 200000 <= sec_of f + n <= max64 + 200000 ->
  plus64 0 f n = OK (civil_of_seconds (sec_of f + n)).
Proof.
  intros V Y N R.
  pose proof (cos_year_int64 _ R) as YB.
  assert (T : (0 <= 5)%nat) by (apply Nat.leb_le; reflexivity).
  pose proof (plus_refines_lemma 0 f n T V eq_refl Y N) as K.
  cbn [of_ord_spec ord_spec] in K. apply K. unfold int64, min64, max64. lia.
Qed.

Lemma minus64_sec f n : valid_fields f = true -> int64 (fy f) -> int64 n ->
  min64 - 200000 <= sec_of f - n <= max64 + 200000 ->
  minus64 0 f n = OK (civil_of_seconds (sec_of f - n)).
Proof.
  intros V Y N R.
  pose proof (cos_year_int64 _ R) as YB.
  assert (T : (0 <= 5)%nat) by (apply Nat.leb_le; reflexivity).
  pose proof (minus_refines_lemma 0 f n T V eq_refl Y N) as K.
  cbn [of_ord_spec ord_spec] in K. apply K. unfold int64, min64, max64. lia.
Qed.

Definition off_ok (ty : ttype) : Prop := -100000 <= tt_off ty <= 100000.

Lemma local_time_tt_val abbrs t ty : int64 t -> off_ok ty ->
  local_time_tt abbrs t ty =
  (do ab <- cstr_from abbrs (tt_abbr ty) ;;
   OK (mkAL (civil_of_seconds (t + tt_off ty)) (tt_off ty) (tt_isdst ty) ab)).
Proof.
  intros Ht Ho. unfold off_ok in Ho. unfold local_time_tt.
  assert (Ve : valid_fields epoch = true) by reflexivity.
  assert (Se : sec_of epoch = 0) by (unfold sec_of, epoch; cbn [fy fm fd fhh fmm fss]; rewrite dfc_epoch; reflexivity).
  rewrite (plus64_sec epoch t); auto.
  2:{ unfold int64, min64, max64, epoch; cbn [fy]; lia. }
  2:{ rewrite Se. unfold int64, min64, max64 in *. lia. }
  cbn [bind]. rewrite Se, Z.add_0_l.
  rewrite (plus64_sec (civil_of_seconds t) (tt_off ty)).
  - cbn [bind]. rewrite sec_of_cos. reflexivity.
  - apply valid_cos.
  - pose proof (cos_year_int64 t ltac:(unfold int64, min64, max64 in *; lia)).
    unfold int64, min64, max64. lia.
  - unfold int64, min64, max64. lia.
  - rewrite sec_of_cos. unfold int64, min64, max64 in *. lia.
Qed.


(* ------------------------------------------------------------------ *)
(* Table reads                                                          *)

Definition abbr_ok (abbrs : list Z) (ty : ttype) : Prop :=
  0 <= tt_abbr ty <= Z.of_nat (length abbrs).

Lemma nth_res_inv {A} (l : list A) i x : nth_res l i = OK x ->
  In x l /\ 0 <= i < Z.of_nat (length l).
Proof.
  unfold nth_res. destruct (Z.ltb_spec i 0); [discriminate|].
  destruct (nth_error l (Z.to_nat i)) eqn:E; [|discriminate].
  intros K; inversion K; subst. split.
  - eapply nth_error_In; eauto.
  - assert (Z.to_nat i < length l)%nat by (apply nth_error_Some; congruence). lia.
Qed.

Lemma nth_res_ok {A} (l : list A) i : 0 <= i < Z.of_nat (length l) -> exists x, nth_res l i = OK x.
Proof.
  intros H. unfold nth_res. destruct (Z.ltb_spec i 0); [lia|].
  destruct (nth_error l (Z.to_nat i)) eqn:E; [eauto|].
  apply nth_error_None in E. lia.
Qed.

Lemma cstr_from_inv s i r : cstr_from s i = OK r -> 0 <= i <= Z.of_nat (length s).
Proof.
  unfold cstr_from. destruct (Z.ltb_spec i 0); cbn [orb]; [discriminate|].
  destruct (Z.ltb_spec (Z.of_nat (length s)) i); [discriminate|]. lia.
Qed.

Lemma cstr_from_ok s i : 0 <= i <= Z.of_nat (length s) -> exists r, cstr_from s i = OK r.
Proof.
  intros H. unfold cstr_from. destruct (Z.ltb_spec i 0); [lia|]. cbn [orb].
  destruct (Z.ltb_spec (Z.of_nat (length s)) i); [lia|]. eauto.
Qed.

(* ------------------------------------------------------------------ *)
(* GetTransitionType                                                    *)

Lemma gtt_scan_inv abbrs off isdst abbr : forall types ti ai ti' ai',
  gtt_scan types abbrs off isdst abbr ti ai = OK (ti', ai') ->
  0 <= ai <= Z.of_nat (length abbrs) ->
  ti <= ti' <= ti + Z.of_nat (length types) /\ 0 <= ai' <= Z.of_nat (length abbrs).
Proof.
  induction types as [|ty rest IH]; intros ti ai ti' ai' H Ha.
  - cbn [gtt_scan] in H. inversion H; subst. cbn [length]. lia.
  - cbn [gtt_scan] in H.
    destruct (cstr_from abbrs (tt_abbr ty)) as [ab|] eqn:E; [|discriminate H]. cbn [bind] in H.
    apply cstr_from_inv in E.
    set (ai1 := if list_eqb ab abbr then tt_abbr ty else ai) in *.
    assert (0 <= ai1 <= Z.of_nat (length abbrs)) as Ha1 by (unfold ai1; destruct (list_eqb ab abbr); lia).
    clearbody ai1.
    destruct ((tt_off ty =? off) && Bool.eqb (tt_isdst ty) isdst && (ai1 =? tt_abbr ty)).
    + inversion H; subst. cbn [length]. lia.
    + apply IH in H; [|exact Ha1]. cbn [length]. lia.
Qed.

Lemma gtt_inv types abbrs off isdst abbr types' abbrs' ti :
  get_transition_type types abbrs off isdst abbr = OK (Some (types', abbrs', ti)) ->
  0 <= ti < Z.of_nat (length types') /\ ti <= 255 /\
  (exists ext, types' = types ++ ext /\ Forall (fun ty => tt_off ty = off /\ abbr_ok abbrs' ty) ext) /\
  (exists ax, abbrs' = abbrs ++ ax).
Proof.
  unfold get_transition_type.
  destruct (gtt_scan types abbrs off isdst abbr 0 (Z.of_nat (length abbrs))) as [[ti0 ai0]|] eqn:E;
    [|discriminate]. cbn [bind].
  apply gtt_scan_inv in E; [|lia].
  destruct ((255 <? ti0) || (255 <? ai0)) eqn:E255; [discriminate|].
  destruct (Z.eqb_spec ti0 (Z.of_nat (length types))) as [Et|Et].
  - intros H. inversion H; subst types' abbrs' ti. clear H.
    rewrite app_length. cbn [length]. split; [lia|]. split; [lia|]. split.
    + eexists. split; [reflexivity|]. constructor; [|constructor].
      cbn [tt_off]. split; [reflexivity|]. unfold abbr_ok. cbn [tt_abbr].
      destruct (ai0 =? Z.of_nat (length abbrs)); rewrite ?app_length; lia.
    + destruct (ai0 =? Z.of_nat (length abbrs)); [eexists; reflexivity|].
      exists []. rewrite app_nil_r. reflexivity.
  - intros H. inversion H; subst types' abbrs' ti. clear H.
    split; [lia|]. split; [lia|]. split.
    + exists []. rewrite app_nil_r. split; [reflexivity|constructor].
    + exists []. rewrite app_nil_r. reflexivity.
Qed.

Lemma abbr_ok_mono abbrs ax ty : abbr_ok abbrs ty -> abbr_ok (abbrs ++ ax) ty.
Proof. unfold abbr_ok. rewrite app_length. lia. Qed.

Lemma gtt_types types abbrs off isdst abbr types' abbrs' ti :
  get_transition_type types abbrs off isdst abbr = OK (Some (types', abbrs', ti)) ->
  -100000 <= off <= 100000 ->
  0 <= ti < Z.of_nat (length types') /\ ti <= 255 /\
  (Z.of_nat (length types) <= Z.of_nat (length types')) /\
  (Forall off_ok types -> Forall off_ok types') /\
  (Forall (abbr_ok abbrs) types -> Forall (abbr_ok abbrs') types').
Proof.
  intros H Ho. apply gtt_inv in H. destruct H as (H1 & H255 & (ext & E1 & F1) & (ax & E2)).
  split; [exact H1|]. split; [exact H255|]. subst types' abbrs'. split; [rewrite app_length; lia|]. split.
  - intros F. apply Forall_app. split; [exact F|].
    eapply Forall_impl; [|exact F1]. intros ty [A _]. unfold off_ok. lia.
  - intros F. apply Forall_app. split.
    + eapply Forall_impl; [|exact F]. intros ty. apply abbr_ok_mono.
    + eapply Forall_impl; [|exact F1]. intros ty [_ A]. exact A.
Qed.

(* ------------------------------------------------------------------ *)
(* The generated transitions                                            *)

Definition gen_ok (last_time std_ti dst_ti : Z) (p : Z * Z) : Prop :=
  last_time < fst p <= 2 ^ 60 /\ (snd p = std_ti \/ snd p = dst_ti).

Lemma rule_time_bound r Y :
  pdate_ok' (r_start_date r) = true -> pdate_ok' (r_end_date r) = true ->
  -1000000 <= r_start_time r <= 1000000 -> -1000000 <= r_end_time r <= 1000000 ->
  -100000 <= fst (fst (r_std r)) <= 100000 -> -100000 <= fst (fst (r_dst r)) <= 100000 ->
  -20000000000 <= Y <= 20000000401 ->
  rule_start r Y <= 2 ^ 60 /\ rule_end r Y <= 2 ^ 60.
Proof.
  intros Hsd Hed Hst Het Hso Hdo HY.
  pose proof (dfc_jan1_bound Y HY) as HD.
  pose proof (date_yday_range_lemma Y _ Hsd) as R1.
  pose proof (date_yday_range_lemma Y _ Hed) as R2.
  unfold rule_start, rule_end.
  set (D := days_from_civil Y 1 1) in *. clearbody D.
  set (y1 := date_yday (r_start_date r) Y) in *. clearbody y1.
  set (y2 := date_yday (r_end_date r) Y) in *. clearbody y2.
  change (2 ^ 60) with 1152921504606846976. lia.
Qed.

Lemma rule_gen_ok r std_ti dst_ti last_time :
  pdate_ok' (r_start_date r) = true -> pdate_ok' (r_end_date r) = true ->
  -1000000 <= r_start_time r <= 1000000 -> -1000000 <= r_end_time r <= 1000000 ->
  -100000 <= fst (fst (r_std r)) <= 100000 -> -100000 <= fst (fst (r_dst r)) <= 100000 ->
  forall n Y, -20000000000 <= Y -> Y + Z.of_nat n <= 20000000402 ->
  Forall (gen_ok last_time std_ti dst_ti) (rule_gen' r std_ti dst_ti last_time Y n).
Proof.
  intros Hsd Hed Hst Het Hso Hdo.
  induction n as [|n IH]; intros Y H1 H2; [constructor|].
  cbn [rule_gen']. cbv zeta.
  destruct (rule_time_bound r Y Hsd Hed Hst Het Hso Hdo ltac:(lia)) as [B1 B2].
  cbn [fst]. destruct (rule_start r Y <? rule_end r Y); cbn [fst].
  - apply Forall_app. split; [|apply IH; lia].
    destruct (Z.ltb_spec last_time (rule_end r Y)); [|constructor].
    destruct (Z.ltb_spec last_time (rule_start r Y));
      repeat constructor; cbn [fst snd]; auto; lia.
  - apply Forall_app. split; [|apply IH; lia].
    destruct (Z.ltb_spec last_time (rule_start r Y)); [|constructor].
    destruct (Z.ltb_spec last_time (rule_end r Y));
      repeat constructor; cbn [fst snd]; auto; lia.
Qed.

Definition ext_tail {A} (ps pe : ptrans) (so dof std_ti dst_ti last_time last_year : Z)
           (k : ext_state -> res A) : res A :=
  let leap := is_leap_year64 last_year in
  do jan1 <- construct64 0 last_year 1 1 0 0 0 ;;
  do jan1_time <- difference64 0 jan1 epoch ;;
  do wd <- get_weekday64 jan1 ;;
  do limit <- add64 last_year src_extend_years ;;
  do st <- extend_loop 403 ps pe so dof std_ti dst_ti
             last_time limit (mkES last_year leap jan1_time (to_posix_weekday wd) []) ;;
  k st.

Definition tr_gen_ok (last_time std_ti dst_ti : Z) (tr : transition) : Prop :=
  last_time < tr_time tr <= 2 ^ 60 /\ (tr_type tr = std_ti \/ tr_type tr = dst_ti).

Lemma ext_tail_ok ps pe so dof std_ti dst_ti last_time ly :
  pt_ok ps -> pt_ok pe -> -100000 <= so <= 100000 -> -100000 <= dof <= 100000 ->
  -20000000000 <= ly <= 20000000000 ->
  exists st,
    (forall A (k : ext_state -> res A), ext_tail ps pe so dof std_ti dst_ti last_time ly k = k st) /\
    es_year st = ly + 401 /\
    Forall (tr_gen_ok last_time std_ti dst_ti) (es_acc st).
Proof.
  intros (d1 & t1 & -> & Hd1 & Ht1) (d2 & t2 & -> & Hd2 & Ht2) Hso Hdo Hly.
  set (r := mkRule (so, false, []) (dof, true, []) d1 t1 d2 t2).
  destruct (extend_loop_matches_rule_lemma r std_ti dst_ti last_time ly) as (st & E & Ey & Em);
    cbn [r r_start_date r_end_date r_start_time r_end_time r_std r_dst fst]; auto; try lia.
  cbn [r r_start_date r_end_date r_start_time r_end_time r_std r_dst fst] in E.
  exists st. split; [|split; [exact Ey|]].
  - intros A k. unfold ext_tail. cbv zeta.
    change (construct64 0 ly 1 1 0 0 0) with (OK (mkF ly 1 1 0 0 0)). cbn [bind].
    pose proof (dfc_jan1_bound ly ltac:(lia)) as HD.
    assert (V : valid_fields (mkF ly 1 1 0 0 0) = true) by reflexivity.
    assert (T : (0 <= 5)%nat) by (apply Nat.leb_le; reflexivity).
    assert (S1 : sec_of (mkF ly 1 1 0 0 0) = 86400 * days_from_civil ly 1 1)
      by (unfold sec_of; cbn [fy fm fd fhh fmm fss]; lia).
    assert (S0 : sec_of epoch = 0)
      by (unfold sec_of, epoch; cbn [fy fm fd fhh fmm fss]; rewrite dfc_epoch; reflexivity).
    pose proof (difference_refines_lemma 0 (mkF ly 1 1 0 0 0) epoch T V eq_refl eq_refl eq_refl) as K.
    cbn [ord_spec] in K. rewrite S1, S0, Z.sub_0_r in K.
    rewrite K; [|cbn [fy]; unfold int64, min64, max64; lia
                |unfold epoch; cbn [fy]; unfold int64, min64, max64; lia
                |unfold int64, min64, max64; lia].
    cbn [bind].
    rewrite (weekday_spec_lemma (mkF ly 1 1 0 0 0) V) by (cbn [fy]; unfold int64, min64, max64; lia).
    cbn [bind fy fm fd].
    unfold add64, src_extend_years. rewrite chk64_in by (unfold int64, min64, max64; lia).
    cbn [bind].
    replace (to_posix_weekday (weekday_of_days (days_from_civil ly 1 1)))
      with (posix_wd_of_days (days_from_civil ly 1 1)).
    2:{ unfold to_posix_weekday, posix_wd_of_days, weekday_of_days.
        set (D := days_from_civil ly 1 1). clearbody D.
        destruct (Z.eqb_spec ((D + 3) mod 7) 6) as [e|e]; [rewrite e; reflexivity|].
        pose proof (Z.mod_pos_bound (D + 3) 7 ltac:(lia)).
        rewrite Z.mod_small; lia. }
    rewrite E. reflexivity.
  - assert (G := rule_gen_ok r std_ti dst_ti last_time).
    cbn [r r_start_date r_end_date r_start_time r_end_time r_std r_dst fst] in G.
    specialize (G Hd1 Hd2 ltac:(lia) ltac:(lia) Hso Hdo 402%nat ly ltac:(lia)).
    assert (ly + Z.of_nat 402 <= 20000000402) as L.
    { change (Z.of_nat 402) with 402. lia. }
    specialize (G L). fold r in G. rewrite <- Em in G.
    rewrite Forall_map in G. exact G.
Qed.


(* ------------------------------------------------------------------ *)
(* ExtendTransitions                                                    *)

Ltac peel_ext H :=
  match type of H with
  | bind (construct64 _ _ _ _ _ _ _) _ = OK _ => fail 1
  | _ => peel_step H
  end.

Definition gen_tr_ok (trans : list transition) (ntypes : nat) (tr : transition) : Prop :=
  (exists last, last_opt trans = Some last /\ tr_time last < tr_time tr) /\
  tr_time tr <= 2 ^ 60 /\ 0 <= tr_type tr < Z.of_nat ntypes.

Lemma extend_inv trans types abbrs future trans2 types2 abbrs2 ext ly :
  extend_transitions trans types abbrs future = OK (Some (trans2, types2, abbrs2, ext, ly)) ->
  Forall off_ok types ->
  (forall last, last_opt trans = Some last -> - 2 ^ 59 <= tr_time last <= 2 ^ 59) ->
  exists gen,
    trans2 = trans ++ gen /\
    Forall (gen_tr_ok trans (length types2)) gen /\
    Z.of_nat (length types) <= Z.of_nat (length types2) /\
    Forall off_ok types2 /\
    (Forall (abbr_ok abbrs) types -> Forall (abbr_ok abbrs2) types2).
Proof.
  intros H Fo Hl. unfold extend_transitions in H.
  repeat peel_ext H.
  all: try match type of H with OK (Some _) = OK (Some _) => inversion H; subst; clear H end.
  - (* no footer *)
    exists []. rewrite app_nil_r. repeat split; auto. lia.
  - (* standard time only *)
    destruct (parse_ok _ _ E0) as (so & Eso & Hso & _).
    rewrite Eso in E1. cbn [get_opt] in E1. inversion E1; subst a.
    destruct (gtt_types _ _ _ _ _ _ _ _ E2 ltac:(lia)) as (_ & _ & L1 & F1 & A1).
    exists []. rewrite app_nil_r. repeat split; auto.
  - (* all-year DST *)
    destruct (parse_ok _ _ E0) as (so & Eso & Hso & [Dn | (dof & Edo & Hdo & _)]);
      [rewrite Dn in E7; discriminate|].
    rewrite Eso in E1. cbn [get_opt] in E1. inversion E1; subst a.
    rewrite Edo in E8. cbn [get_opt] in E8. inversion E8; subst a2.
    destruct (gtt_types _ _ _ _ _ _ _ _ E2 ltac:(lia)) as (_ & _ & L1 & F1 & A1).
    destruct (gtt_types _ _ _ _ _ _ _ _ E9 ltac:(lia)) as (_ & _ & L2 & F2 & A2).
    exists []. rewrite app_nil_r. repeat split; auto. lia.
  - (* rule-generated transitions *)
    destruct (parse_ok _ _ E0) as (so & Eso & Hso & [Dn | (dof & Edo & Hdo & P1 & P2)]);
      [rewrite Dn in E7; discriminate|].
    rewrite Eso in E1. cbn [get_opt] in E1. inversion E1; subst a.
    rewrite Edo in E8. cbn [get_opt] in E8. inversion E8; subst a2.
    destruct (gtt_types _ _ _ _ _ _ _ _ E2 ltac:(lia)) as (I1 & _ & L1 & F1 & A1).
    destruct (gtt_types _ _ _ _ _ _ _ _ E9 ltac:(lia)) as (I2 & _ & L2 & F2 & A2).
    destruct (last_opt trans) as [last|] eqn:EL; [|discriminate E6].
    inversion E6; subst a1. clear E6.
    pose proof (Hl _ eq_refl) as HT.
    destruct (nth_res_inv _ _ _ E15) as [In5 _].
    assert (O5 : off_ok a5).
    { specialize (F2 (F1 Fo)). rewrite Forall_forall in F2. apply F2. exact In5. }
    assert (I64 : int64 (tr_time last)).
    { unfold int64, min64, max64. change (2 ^ 59) with 576460752303423488 in HT. lia. }
    rewrite (local_time_tt_val _ _ _ I64 O5) in E16.
    destruct (cstr_from l4 (tt_abbr a5)) as [ab|]; [|discriminate E16].
    cbn [bind] in E16. inversion E16; subst a6. clear E16. cbn [al_cs] in H.
    assert (YB := cos_year_small (tr_time last + tt_off a5) ltac:(unfold off_ok in O5; lia)).
    destruct (ext_tail_ok (dst_start p) (dst_end p) so dof z0 z2 (tr_time last)
                (fy (civil_of_seconds (tr_time last + tt_off a5))) P1 P2 ltac:(lia) ltac:(lia) YB)
      as (st & K & Ey & Fg).
    specialize (K _ (fun st => OK (Some (trans ++ es_acc st, l3, l4, true, es_year st)))).
    assert (X : OK (Some (trans2, types2, abbrs2, ext, ly)) =
                OK (Some (trans ++ es_acc st, l3, l4, true, es_year st)))
      by (rewrite <- H; exact K).
    inversion X; subst. clear X H K.
    exists (es_acc st). split; [reflexivity|]. split; [|split; [lia|split; auto]].
    eapply Forall_impl; [|exact Fg].
    intros tr [[T1 T2] T3]. split; [exists last; split; [exact EL|exact T1]|].
    split; [exact T2|]. destruct T3 as [-> | ->]; lia.
Qed.


(* ------------------------------------------------------------------ *)
(* Acceptance                                                           *)

Lemma last_opt_In {A} (l : list A) x : last_opt l = Some x -> In x l.
Proof.
  unfold last_opt. destruct (rev l) as [|y r] eqn:E; [discriminate|].
  intros H; inversion H; subst. apply in_rev. rewrite E. left. reflexivity.
Qed.

Lemma last_opt_app {A} (l : list A) x : last_opt (l ++ [x]) = Some x.
Proof. unfold last_opt. rewrite rev_app_distr. reflexivity. Qed.

Lemma last_opt_nonempty {A} (l : list A) : l <> [] -> exists x, last_opt l = Some x.
Proof.
  intros H. unfold last_opt. destruct (rev l) as [|y r] eqn:E; [|eauto].
  exfalso. apply H. rewrite <- (rev_involutive l), E. reflexivity.
Qed.

Lemma combine_times (P : Z -> Prop) : forall times idxs, Forall P times ->
  Forall (fun tr => P (tr_time tr)) (map (fun '(t, i) => mkTr t i epoch epoch) (combine times idxs)).
Proof.
  induction times as [|t ts IH]; intros idxs F; [constructor|].
  destruct idxs as [|i is]; [constructor|].
  inversion F; subst. cbn [combine map]. constructor; [cbn [tr_time]; assumption|].
  apply IH. assumption.
Qed.

Definition t59 (t : Z) : Prop := - 2 ^ 59 <= t <= 2 ^ 59.

Lemma time_in_range_t59 t : time_in_range t = true -> t59 t.
Proof.
  unfold time_in_range, t59, big_bang, src_big_bang_shift.
  change (2 ^ 59) with 576460752303423488. lia.
Qed.

Lemma accept_sorted_lemma : forall bs z, load_bytes bs = OK (Some z) -> table_sorted z = true.
Proof.
  intros bs z H. unfold load_bytes in H.
  repeat peel_step H.
  inversion H; subst z; clear H. unfold table_sorted. cbn [z_trans].
  match goal with E : civil_pass _ _ _ None _ [] = OK _ |- _ =>
    destruct (civil_pass_sorted _ _ _ _ _ E) as (S1 & S2 & _) end.
  rewrite S1, S2. reflexivity.
Qed.

Lemma accept_bounds_lemma : forall bs z, load_bytes bs = OK (Some z) ->
  z_trans z <> [] /\ Forall (fun tr => - 2 ^ 59 <= tr_time tr <= 2 ^ 60) (z_trans z).
Proof.
  intros bs z H. unfold load_bytes in H.
  repeat peel_step H.
  inversion H; subst z; clear H. cbn [z_trans].
  match goal with E : extend_transitions ?t1 ?ty0 _ _ = OK _ |- _ =>
    set (trans1 := t1) in *; set (types0 := ty0) in *; rename E into EX end.
  match goal with E : civil_pass _ _ _ None _ [] = OK _ |- _ => rename E into ECP end.
  match goal with E : negb (strictly_increasing ?ts) || negb (forallb time_in_range ?ts) = false |- _ =>
    set (times := ts) in *; rename E into ETS end.
  match goal with E : negb (forallb _ types0) = false |- _ => rename E into ETY end.
  match goal with E : match last_opt _ with Some _ => _ | None => _ end = OK _ |- _ =>
    rename E into ELAST end.
  assert (FT : Forall t59 times).
  { apply orb_false_iff in ETS. destruct ETS as [_ ETS]. apply negb_false_iff in ETS.
    rewrite forallb_forall in ETS. apply Forall_forall. intros t Ht.
    apply time_in_range_t59. apply ETS. exact Ht. }
  assert (Fo : Forall off_ok types0).
  { apply negb_false_iff in ETY. rewrite forallb_forall in ETY. apply Forall_forall.
    intros ty Hty. specialize (ETY ty Hty). unfold off_ok. unfold src_kSecsPerDay in ETY. lia. }
  assert (F1 : trans1 <> [] /\ Forall (fun tr => t59 (tr_time tr)) trans1).
  { unfold trans1.
    match goal with |- context [combine times ?ix] =>
      pose proof (combine_times t59 times ix FT) as F0;
      set (trans0 := map _ (combine times ix)) in * end.
    assert (B : t59 big_bang).
    { unfold t59, big_bang, src_big_bang_shift. change (2 ^ 59) with 576460752303423488. lia. }
    destruct trans0 as [|tr0 r0].
    - split; [discriminate|]. constructor; [exact B|constructor].
    - destruct (0 <=? tr_time tr0).
      + split; [discriminate|]. constructor; [exact B|exact F0].
      + split; [discriminate|]. exact F0. }
  clearbody trans1 types0 times.
  destruct F1 as [N1 F1].
  destruct (extend_inv _ _ _ _ _ _ _ _ _ EX Fo) as (gen & EG & FG & _).
  { intros last HL. apply last_opt_In in HL. rewrite Forall_forall in F1. exact (F1 _ HL). }
  destruct (civil_pass_sorted _ _ _ _ _ ECP) as (_ & _ & EM).
  assert (F6 : Forall (fun tr => - 2 ^ 59 <= tr_time tr <= 2 ^ 60) l6).
  { subst l6. apply Forall_app. split.
    - eapply Forall_impl; [|exact F1]. unfold t59. intros tr HH.
      change (2 ^ 60) with 1152921504606846976. change (2 ^ 59) with 576460752303423488 in *. lia.
    - eapply Forall_impl; [|exact FG]. intros tr [(last & HL & T1) [T2 _]].
      apply last_opt_In in HL. rewrite Forall_forall in F1. specialize (F1 _ HL).
      unfold t59 in F1. lia. }
  match type of EM with _ = map tr_time ?t3 => set (trans3 := t3) in * end.
  assert (F3 : trans3 <> [] /\ Forall (fun tr => - 2 ^ 59 <= tr_time tr <= 2 ^ 60) trans3).
  { unfold trans3. destruct (tr_time a1 <? 0).
    - split; [subst l6; destruct trans1; [congruence|discriminate]|].
      apply Forall_app. split; [exact F6|]. constructor; [|constructor].
      cbn [tr_time]. unfold src_second_half_sentinel.
      change (2 ^ 60) with 1152921504606846976. change (2 ^ 59) with 576460752303423488. lia.
    - split; [subst l6; destruct trans1; [congruence|discriminate]|exact F6]. }
  clearbody trans3. destruct F3 as [N3 F3].
  split.
  - intros ->. cbn [map] in EM. destruct trans3; [congruence|discriminate].
  - apply (Forall_map tr_time (fun t => - 2 ^ 59 <= t <= 2 ^ 60)).
    rewrite EM. apply Forall_map. exact F3.
Qed.


(* ================================================================== *)
(* Totality of the loader on byte lists                                 *)

Lemma gtt_scan_total abbrs off isdst abbr : forall types ti ai,
  Forall (abbr_ok abbrs) types -> exists r, gtt_scan types abbrs off isdst abbr ti ai = OK r.
Proof.
  induction types as [|ty rest IH]; intros ti ai F; [eexists; reflexivity|].
  inversion F as [|? ? A F']; subst. cbn [gtt_scan].
  destruct (cstr_from_ok abbrs (tt_abbr ty) A) as [ab Eab]. rewrite Eab. cbn [bind].
  match goal with |- context [if ?c then _ else _] => destruct c end; [eexists; reflexivity|].
  apply IH. exact F'.
Qed.

Lemma gtt_total types abbrs off isdst abbr : Forall (abbr_ok abbrs) types ->
  exists r, get_transition_type types abbrs off isdst abbr = OK r.
Proof.
  intros F. unfold get_transition_type.
  destruct (gtt_scan_total abbrs off isdst abbr types 0 (Z.of_nat (length abbrs)) F) as [[ti ai] E].
  rewrite E. cbn [bind].
  destruct ((255 <? ti) || (255 <? ai)); [eexists; reflexivity|].
  destruct (ti =? Z.of_nat (length types)); eexists; reflexivity.
Qed.

Lemma equiv_total abbrs types i1 i2 : Forall (abbr_ok abbrs) types ->
  0 <= i1 < Z.of_nat (length types) -> 0 <= i2 < Z.of_nat (length types) ->
  exists b, equiv_transitions abbrs types i1 i2 = OK b.
Proof.
  intros Fa H1 H2. unfold equiv_transitions. destruct (i1 =? i2); [eexists; reflexivity|].
  destruct (nth_res_ok types i1 H1) as [t1 E1]. destruct (nth_res_ok types i2 H2) as [t2 E2].
  rewrite E1, E2. cbn [bind].
  destruct (negb (tt_off t1 =? tt_off t2)); [eexists; reflexivity|].
  destruct (negb (Bool.eqb (tt_isdst t1) (tt_isdst t2))); [eexists; reflexivity|].
  destruct (tt_abbr t1 =? tt_abbr t2); [eexists; reflexivity|].
  rewrite Forall_forall in Fa.
  destruct (cstr_from_ok abbrs (tt_abbr t1) (Fa _ (proj1 (nth_res_inv _ _ _ E1)))) as [a1 ->].
  destruct (cstr_from_ok abbrs (tt_abbr t2) (Fa _ (proj1 (nth_res_inv _ _ _ E2)))) as [a2 ->].
  cbn [bind]. eexists; reflexivity.
Qed.

Lemma all_year_dst_total p : pt_ok (dst_start p) -> pt_ok (dst_end p) ->
  (exists so, std_offset p = Some so) -> (exists dof, dst_offset p = Some dof) ->
  exists b, all_year_dst p = OK b.
Proof.
  intros (d1 & t1 & E1 & _) (d2 & t2 & E2 & _) [so Eso] [dof Edo].
  unfold all_year_dst. rewrite E1, E2, Eso, Edo. cbn [pt_date pt_time get_opt bind].
  destruct d1 as [n|n|m w wd]; try (eexists; reflexivity).
  destruct (negb (n =? 0)); [eexists; reflexivity|].
  destruct (negb (t1 =? 0)); [eexists; reflexivity|].
  destruct d2 as [j|j|m w wd]; try (eexists; reflexivity).
  destruct (negb (j =? nthZ src_kDaysPerYear 0)); eexists; reflexivity.
Qed.

Lemma local_time_tt_total abbrs t ty : int64 t -> off_ok ty -> abbr_ok abbrs ty ->
  exists ab, local_time_tt abbrs t ty =
             OK (mkAL (civil_of_seconds (t + tt_off ty)) (tt_off ty) (tt_isdst ty) ab).
Proof.
  intros Ht Ho Ha. rewrite local_time_tt_val by assumption.
  destruct (cstr_from_ok abbrs (tt_abbr ty) Ha) as [ab E]. rewrite E. cbn [bind]. eauto.
Qed.

Definition tr_ok (ntypes : nat) (tr : transition) : Prop :=
  - 2 ^ 59 <= tr_time tr <= 2 ^ 60 /\ 0 <= tr_type tr < Z.of_nat ntypes.

Lemma extend_total trans types abbrs future :
  trans <> [] ->
  Forall (tr_ok (length types)) trans ->
  (forall last, last_opt trans = Some last -> t59 (tr_time last)) ->
  Forall off_ok types -> Forall (abbr_ok abbrs) types ->
  exists r, extend_transitions trans types abbrs future = OK r.
Proof.
  intros Hne Ftr Hl Fo Fa. unfold extend_transitions.
  destruct future as [|c0 fut]; [eexists; reflexivity|].
  destruct (ParsePosixSpec (c0 :: fut)) as [p|] eqn:EP; [|eexists; reflexivity].
  destruct (parse_ok _ _ EP) as (so & Eso & Hso & D).
  rewrite Eso. cbn [get_opt bind].
  destruct (gtt_total types abbrs so false (std_abbr p) Fa) as [r1 E1]. rewrite E1. cbn [bind].
  destruct r1 as [[[types1 abbrs1] std_ti]|]; [|eexists; reflexivity].
  destruct (gtt_types _ _ _ _ _ _ _ _ E1 ltac:(lia)) as (I1 & _ & L1 & F1 & A1).
  specialize (F1 Fo). specialize (A1 Fa).
  destruct (last_opt_nonempty trans Hne) as [last EL]. rewrite EL. cbn [bind].
  pose proof (Hl _ EL) as HT.
  assert (TL : 0 <= tr_type last < Z.of_nat (length types)).
  { apply last_opt_In in EL. rewrite Forall_forall in Ftr. exact (proj2 (Ftr _ EL)). }
  destruct (dst_abbr p) as [|dc dr] eqn:ED.
  { destruct (equiv_total abbrs1 types1 (tr_type last) std_ti A1 ltac:(lia) I1) as [b Eb].
    rewrite Eb. cbn [bind]. destruct b; eexists; reflexivity. }
  destruct D as [Dn | (dof & Edo & Hdo & P1 & P2)]; [discriminate|].
  rewrite Edo. cbn [get_opt bind].
  destruct (gtt_total types1 abbrs1 dof true (dc :: dr) A1) as [r2 E2]. rewrite E2. cbn [bind].
  destruct r2 as [[[types2 abbrs2] dst_ti]|]; [|eexists; reflexivity].
  destruct (gtt_types _ _ _ _ _ _ _ _ E2 ltac:(lia)) as (I2 & _ & L2 & F2 & A2).
  specialize (F2 F1). specialize (A2 A1).
  destruct (all_year_dst_total p P1 P2 ltac:(eauto) ltac:(eauto)) as [ay Eay]. rewrite Eay. cbn [bind].
  destruct ay.
  { destruct (equiv_total abbrs2 types2 (tr_type last) dst_ti A2 ltac:(lia) I2) as [b Eb].
    rewrite Eb. cbn [bind]. destruct b; eexists; reflexivity. }
  destruct (nth_res_ok types2 (tr_type last) ltac:(lia)) as [ltt Eltt]. rewrite Eltt. cbn [bind].
  destruct (nth_res_inv _ _ _ Eltt) as [Inl _].
  assert (O5 : off_ok ltt) by (rewrite Forall_forall in F2; auto).
  assert (A5 : abbr_ok abbrs2 ltt) by (rewrite Forall_forall in A2; auto).
  assert (I64 : int64 (tr_time last)).
  { unfold t59 in HT. unfold int64, min64, max64. change (2 ^ 59) with 576460752303423488 in HT. lia. }
  destruct (local_time_tt_total abbrs2 (tr_time last) ltt I64 O5 A5) as [ab Eal].
  rewrite Eal. cbn [bind al_cs].
  assert (YB := cos_year_small (tr_time last + tt_off ltt)
                  ltac:(unfold off_ok in O5; unfold t59 in HT; lia)).
  destruct (ext_tail_ok (dst_start p) (dst_end p) so dof std_ti dst_ti (tr_time last)
              (fy (civil_of_seconds (tr_time last + tt_off ltt))) P1 P2 ltac:(lia) ltac:(lia) YB)
    as (st & K & _).
  eexists.
  exact (K _ (fun st => OK (Some (trans ++ es_acc st, types2, abbrs2, true, es_year st)))).
Qed.

Lemma civil_pass_total abbrs types : Forall off_ok types -> Forall (abbr_ok abbrs) types ->
  forall trans ttp prev acc, off_ok ttp -> abbr_ok abbrs ttp ->
  Forall (tr_ok (length types)) trans ->
  exists r, civil_pass abbrs types ttp prev trans acc = OK r.
Proof.
  intros Fo Fa. induction trans as [|tr rest IH]; intros ttp prev acc O A F; [eexists; reflexivity|].
  inversion F as [|? ? [T1 T2] F']; subst. cbn [civil_pass].
  assert (I64 : int64 (tr_time tr)).
  { unfold int64, min64, max64. change (2 ^ 59) with 576460752303423488 in T1.
    change (2 ^ 60) with 1152921504606846976 in T1. lia. }
  destruct (local_time_tt_total abbrs (tr_time tr) ttp I64 O A) as [ab Ea]. rewrite Ea. cbn [bind al_cs].
  rewrite minus64_sec.
  2: apply valid_cos.
  2:{ pose proof (cos_year_int64 (tr_time tr + tt_off ttp)
                   ltac:(unfold off_ok in O; unfold int64, min64, max64 in *; lia)).
      unfold int64, min64, max64. lia. }
  2:{ unfold int64, min64, max64. lia. }
  2:{ rewrite sec_of_cos. unfold off_ok in O; unfold int64, min64, max64 in *. lia. }
  cbn [bind].
  destruct (nth_res_ok types (tr_type tr) T2) as [ttp' Et]. rewrite Et. cbn [bind].
  destruct (nth_res_inv _ _ _ Et) as [Int _].
  assert (O' : off_ok ttp') by (rewrite Forall_forall in Fo; auto).
  assert (A' : abbr_ok abbrs ttp') by (rewrite Forall_forall in Fa; auto).
  destruct (local_time_tt_total abbrs (tr_time tr) ttp' I64 O' A') as [ab' Eb]. rewrite Eb. cbn [bind al_cs].
  destruct prev as [[pc pt]|].
  - destruct (negb (lt64 pc _)); [eexists; reflexivity|].
    destruct (negb (pt <? tr_time tr)); [eexists; reflexivity|].
    apply IH; assumption.
  - apply IH; assumption.
Qed.

Lemma set_civil_limits_total abbrs : forall types,
  Forall off_ok types -> Forall (abbr_ok abbrs) types ->
  exists r, set_civil_limits abbrs types = OK r.
Proof.
  induction types as [|ty rest IH]; intros Fo Fa; [eexists; reflexivity|].
  inversion Fo as [|? ? O Fo']; inversion Fa as [|? ? A Fa']; subst. cbn [set_civil_limits].
  destruct (local_time_tt_total abbrs max64 ty ltac:(unfold int64, min64, max64; lia) O A) as [ab1 E1].
  destruct (local_time_tt_total abbrs min64 ty ltac:(unfold int64, min64, max64; lia) O A) as [ab2 E2].
  rewrite E1, E2. cbn [bind]. destruct (IH Fo' Fa') as [r E]. rewrite E. cbn [bind]. eexists; reflexivity.
Qed.

(* ---- lists of bytes ---- *)
Definition byteP (c : Z) : Prop := 0 <= c <= 255.

Lemma all_bytes_Forall s : all_bytes s = true -> Forall byteP s.
Proof.
  unfold all_bytes. rewrite forallb_forall. intros H. apply Forall_forall. intros x Hx.
  specialize (H x Hx). unfold is_byte in H. unfold byteP. lia.
Qed.

Lemma Forall_firstn {A} (P : A -> Prop) n l : Forall P l -> Forall P (firstn n l).
Proof. intros H. rewrite <- (firstn_skipn n l) in H. apply Forall_app in H. tauto. Qed.
Lemma Forall_skipn {A} (P : A -> Prop) n l : Forall P l -> Forall P (skipn n l).
Proof. intros H. rewrite <- (firstn_skipn n l) in H. apply Forall_app in H. tauto. Qed.

Lemma nthZ_byte l i : Forall byteP l -> byteP (nthZ l i).
Proof.
  intros F. unfold nthZ. destruct (nth_in_or_default i l 0) as [H|H].
  - rewrite Forall_forall in F. auto.
  - rewrite H. unfold byteP. lia.
Qed.

Lemma chunks_length : forall n k bs, length (chunks n k bs) = n.
Proof. induction n; intros; cbn [chunks length]; auto. Qed.

Lemma chunks_bytes : forall n k bs, Forall byteP bs -> Forall (Forall byteP) (chunks n k bs).
Proof.
  induction n as [|n IH]; intros k bs F; cbn [chunks]; constructor.
  - apply Forall_firstn; exact F.
  - apply IH. apply Forall_skipn; exact F.
Qed.

Lemma read_n_inv n src a b : read_n n src = Some (a, b) ->
  a = firstn (Z.to_nat n) src /\ b = skipn (Z.to_nat n) src /\ length a = Z.to_nat n.
Proof.
  unfold read_n. destruct (Z.ltb_spec (Z.of_nat (length src)) n) as [L|L]; [discriminate|].
  intros K; inversion K; subst. repeat split. rewrite firstn_length. lia.
Qed.

Lemma skip_z_bytes n src : Forall byteP src -> Forall byteP (skip_z n src).
Proof.
  intros F. unfold skip_z. destruct (Z.of_nat (length src) <=? n); [constructor|].
  apply Forall_skipn; exact F.
Qed.

Definition hdr_ok (h : header) : Prop :=
  0 <= h_timecnt h /\ 0 <= h_typecnt h /\ 0 <= h_charcnt h /\ 0 <= h_leapcnt h /\
  0 <= h_isstdcnt h /\ 0 <= h_isutcnt h.

Lemma header_build_inv tzh h : header_build tzh = Some h -> hdr_ok h.
Proof.
  unfold header_build. cbv zeta.
  match goal with |- (if ?c then _ else _) = _ -> _ => destruct c eqn:E end; [discriminate|].
  intros H; inversion H; subst. unfold hdr_ok. cbn [h_timecnt h_typecnt h_charcnt h_leapcnt h_isstdcnt h_isutcnt].
  repeat (apply orb_false_iff in E; destruct E as [E ?]).
  repeat match goal with H : (_ <? 0) = false |- _ => apply Z.ltb_ge in H end.
  lia.
Qed.

(* ---- default type search ---- *)
Lemma dflt_down_ok types : forall fuel index,
  0 <= index < Z.of_nat (length types) -> index < Z.of_nat fuel ->
  exists r, dflt_down fuel types index = OK r /\ 0 <= r <= index.
Proof.
  induction fuel as [|f IH]; intros index H1 H2; [lia|].
  cbn [dflt_down]. destruct (Z.eqb_spec index 0) as [->|N]; [exists 0; split; [reflexivity|lia]|].
  destruct (nth_res_ok types index H1) as [ty E]. rewrite E. cbn [bind].
  destruct (tt_isdst ty); [|exists index; split; [reflexivity|lia]].
  destruct (IH (index - 1) ltac:(lia) ltac:(lia)) as (r & Er & Hr).
  exists r. split; [exact Er|lia].
Qed.

Lemma dflt_up_ok types typecnt : typecnt = Z.of_nat (length types) -> forall fuel index,
  0 <= index <= typecnt -> typecnt - index < Z.of_nat fuel ->
  exists r, dflt_up fuel types typecnt index = OK r /\ index <= r <= typecnt.
Proof.
  intros ET. induction fuel as [|f IH]; intros index H1 H2; [lia|].
  cbn [dflt_up]. destruct (Z.eqb_spec index typecnt) as [->|N]; [exists typecnt; split; [reflexivity|lia]|].
  destruct (nth_res_ok types index ltac:(lia)) as [ty E]. rewrite E. cbn [bind].
  destruct (tt_isdst ty); [|exists index; split; [reflexivity|lia]].
  destruct (IH (index + 1) ltac:(lia) ltac:(lia)) as (r & Er & Hr).
  exists r. split; [exact Er|lia].
Qed.

Lemma combine_both (P Q : Z -> Prop) : forall times idxs, Forall P times -> Forall Q idxs ->
  Forall (fun tr => P (tr_time tr) /\ Q (tr_type tr))
         (map (fun '(t, i) => mkTr t i epoch epoch) (combine times idxs)).
Proof.
  induction times as [|t ts IH]; intros idxs F G; [constructor|].
  destruct idxs as [|i is]; [constructor|].
  inversion F; inversion G; subst. cbn [combine map]. constructor; [cbn [tr_time tr_type]; auto|].
  apply IH; assumption.
Qed.

Ltac peel_some H :=
  match type of H with
  | (if ?c then _ else _) = Some _ => let E := fresh "E" in destruct c eqn:E; try discriminate H
  | (match ?x with _ => _ end) = Some _ => let E := fresh "E" in destruct x eqn:E; try discriminate H
  end.

Ltac skip_if :=
  match goal with
  | |- exists r, (if ?c then _ else _) = OK r =>
      let E := fresh "C" in destruct c eqn:E; [eexists; reflexivity|]
  end.

Lemma load_total_bytes_lemma : forall bs, all_bytes bs = true -> exists r, load_bytes bs = OK r.
Proof.
  intros bs AB. apply all_bytes_Forall in AB. unfold load_bytes.
  destruct (read_n 44 bs) as [[tzh1 src1]|] eqn:R1; [|eexists; reflexivity].
  apply read_n_inv in R1. destruct R1 as (_ & E1 & _).
  assert (B1 : Forall byteP src1) by (subst src1; apply Forall_skipn; exact AB).
  clear E1.
  skip_if.
  destruct (header_build _) as [hdr1|] eqn:HB1; [|eexists; reflexivity].
  cbv zeta.
  match goal with |- exists r, match ?s2 with _ => _ end = OK r =>
    destruct s2 as [[[[hdr tl] ver] src4]|] eqn:S2; [|eexists; reflexivity] end.
  assert (S2' : (tl = 4 \/ tl = 8) /\ Forall byteP src4 /\ hdr_ok hdr).
  { repeat peel_some S2; inversion S2; subst; clear S2.
    - match goal with E : read_n 44 _ = Some _ |- _ =>
        apply read_n_inv in E; destruct E as (_ & E & _) end.
      split; [right; reflexivity|]. split.
      + subst src4. apply Forall_skipn. apply skip_z_bytes. exact B1.
      + eapply header_build_inv; eauto.
    - split; [left; reflexivity|]. split.
      + exact B1.
      + eapply header_build_inv; eauto. }
  destruct S2' as (Htl & B4 & HH).
  skip_if. skip_if. skip_if. skip_if.
  destruct (read_n (data_length hdr tl) src4) as [[tbuf src5]|] eqn:R3; [|eexists; reflexivity].
  apply read_n_inv in R3. destruct R3 as (Etb & Es5 & Ltb).
  assert (Btb : Forall byteP tbuf) by (subst tbuf; apply Forall_firstn; exact B4).
  assert (B5 : Forall byteP src5) by (subst src5; apply Forall_skipn; exact B4).
  clear Etb Es5 S2.
  match goal with |- context [forallb time_in_range ?ts] => set (times := ts) in * end.
  match goal with |- context [forallb (fun i => i <? h_typecnt hdr) ?ix] => set (idxs := ix) in * end.
  match goal with |- context [forallb _ (map ?f (chunks ?n 6 ?b))] =>
    set (raw := chunks n 6 b) in *; set (types0 := map f raw) in * end.
  match goal with |- context [firstn (Z.to_nat (h_charcnt hdr)) ?b] =>
    set (abbrs := firstn (Z.to_nat (h_charcnt hdr)) b) in * end.
  skip_if. skip_if. skip_if.
  (* facts about the decoded tables *)
  assert (TC : 1 <= h_typecnt hdr) by (unfold hdr_ok in HH; lia).
  assert (Lty : Z.of_nat (length types0) = h_typecnt hdr).
  { unfold types0, raw. rewrite map_length, chunks_length. lia. }
  assert (Bidx : Forall (fun i => 0 <= i < h_typecnt hdr) idxs).
  { apply negb_false_iff in C5. rewrite forallb_forall in C5. apply Forall_forall. intros i Hi.
    specialize (C5 i Hi).
    assert (byteP i).
    { assert (F : Forall byteP idxs) by (unfold idxs; apply Forall_firstn, Forall_skipn; exact Btb).
      rewrite Forall_forall in F. auto. }
    unfold byteP in *. lia. }
  assert (FT : Forall t59 times).
  { apply orb_false_iff in C4. destruct C4 as [_ C4]. apply negb_false_iff in C4.
    rewrite forallb_forall in C4. apply Forall_forall. intros t Ht.
    apply time_in_range_t59. apply C4. exact Ht. }
  assert (Braw : Forall (Forall byteP) raw).
  { unfold raw. apply chunks_bytes. apply Forall_skipn, Forall_skipn. exact Btb. }
  assert (Lab : Z.of_nat (length abbrs) = h_charcnt hdr).
  { unfold abbrs. rewrite firstn_length, !skipn_length, Ltb. unfold data_length.
    unfold hdr_ok in HH. apply negb_false_iff in C1. apply Z.eqb_eq in C1. rewrite C1.
    destruct Htl as [-> | ->].
    - change (Z.to_nat 4) with 4%nat. lia.
    - change (Z.to_nat 8) with 8%nat. lia. }
  assert (Fo : Forall off_ok types0 /\ Forall (abbr_ok abbrs) types0).
  { apply negb_false_iff in C6. rewrite forallb_forall in C6.
    split; apply Forall_forall; intros ty Hty; specialize (C6 ty Hty).
    - unfold off_ok. unfold src_kSecsPerDay in C6. lia.
    - unfold abbr_ok. rewrite Lab.
      unfold types0 in Hty. apply in_map_iff in Hty. destruct Hty as (c & <- & Hc).
      cbn [tt_abbr] in *. rewrite Forall_forall in Braw. pose proof (nthZ_byte c 5 (Braw c Hc)) as Bc.
      unfold byteP in Bc. lia. }
  destruct Fo as [Fo Fa].
  clearbody abbrs raw.
  match goal with |- exists r, bind ?e _ = OK r =>
    assert (D : exists d, e = OK d /\ 0 <= d < h_typecnt hdr) end.
  { destruct (existsb _ idxs && negb (h_timecnt hdr =? 0)); [|exists 0; split; [reflexivity|lia]].
    destruct (nth_res_ok types0 0 ltac:(lia)) as [t0 E0]. rewrite E0. cbn [bind].
    assert (I0 : 0 <= nthZ idxs 0 < h_typecnt hdr /\ nthZ idxs 0 <= 255).
    { unfold nthZ. destruct (nth_in_or_default 0 idxs 0) as [HI|HI].
      - rewrite Forall_forall in Bidx. split; [exact (Bidx _ HI)|].
        assert (F : Forall byteP idxs) by (unfold idxs; apply Forall_firstn, Forall_skipn; exact Btb).
        rewrite Forall_forall in F. specialize (F _ HI). unfold byteP in F. lia.
      - rewrite HI. lia. }
    assert (E1 : exists i1, (if tt_isdst t0 then dflt_down 257 types0 (nthZ idxs 0) else OK 0) = OK i1 /\
                            0 <= i1 <= h_typecnt hdr).
    { destruct (tt_isdst t0); [|exists 0; split; [reflexivity|lia]].
      destruct (dflt_down_ok types0 257 (nthZ idxs 0) ltac:(lia)) as (r & Er & Hr).
      { change (Z.of_nat 257) with 257. lia. }
      exists r. split; [exact Er|lia]. }
    destruct E1 as (i1 & E1 & H1). rewrite E1. cbn [bind].
    destruct (dflt_up_ok types0 (h_typecnt hdr) (eq_sym Lty) (S (length types0)) i1 H1 ltac:(lia))
      as (i2 & E2 & H2).
    rewrite E2. cbn [bind]. eexists. split; [reflexivity|].
    destruct (negb (i2 =? h_typecnt hdr) && (i2 <=? 255)) eqn:EE; lia. }
  destruct D as (dflt & ED & HD). rewrite ED. cbn [bind]. clear ED.
  destruct (if negb (ver =? 0) then footer_read src5 else Some []) as [future|]; [|eexists; reflexivity].
  match goal with |- context [extend_transitions ?t1 _ _ _] => set (trans1 := t1) end.
  assert (F1 : trans1 <> [] /\ Forall (fun tr => t59 (tr_time tr) /\ 0 <= tr_type tr < h_typecnt hdr) trans1).
  { unfold trans1.
    pose proof (combine_both t59 (fun i => 0 <= i < h_typecnt hdr) times idxs FT Bidx) as F0.
    set (trans0 := map _ (combine times idxs)) in *.
    assert (B : t59 big_bang).
    { unfold t59, big_bang, src_big_bang_shift. change (2 ^ 59) with 576460752303423488. lia. }
    destruct trans0 as [|tr0 r0].
    - split; [discriminate|]. constructor; [cbn [tr_time tr_type]; auto|constructor].
    - destruct (0 <=? tr_time tr0).
      + split; [discriminate|]. constructor; [cbn [tr_time tr_type]; auto|exact F0].
      + split; [discriminate|]. exact F0. }
  clearbody trans1. destruct F1 as [N1 F1].
  assert (F1' : Forall (tr_ok (length types0)) trans1).
  { eapply Forall_impl; [|exact F1]. intros tr [T1 T2]. unfold tr_ok, t59 in *.
    change (2 ^ 59) with 576460752303423488 in *. change (2 ^ 60) with 1152921504606846976. lia. }
  assert (Hl : forall last, last_opt trans1 = Some last -> t59 (tr_time last)).
  { intros last HL. apply last_opt_In in HL. rewrite Forall_forall in F1. exact (proj1 (F1 _ HL)). }
  destruct (extend_total trans1 types0 abbrs future N1 F1' Hl Fo Fa) as [ext EX].
  rewrite EX. cbn [bind].
  destruct ext as [[[[[trans2 types1] abbrs1] extended] ly]|]; [|eexists; reflexivity].
  destruct (extend_inv _ _ _ _ _ _ _ _ _ EX Fo Hl) as (gen & EG & FG & L1 & Fo1 & Fa1).
  specialize (Fa1 Fa).
  assert (F2 : Forall (tr_ok (length types1)) trans2).
  { subst trans2. apply Forall_app. split.
    - eapply Forall_impl; [|exact F1']. unfold tr_ok. intros tr HH'. lia.
    - eapply Forall_impl; [|exact FG]. intros tr [(last & HL & T1) [T2 T3]].
      specialize (Hl _ HL). unfold t59 in Hl. unfold tr_ok. lia. }
  destruct (last_opt_nonempty trans2) as [last EL].
  { subst trans2. destruct trans1; [congruence|discriminate]. }
  rewrite EL. cbn [bind].
  destruct (nth_res_ok types1 dflt ltac:(lia)) as [dtt Edtt]. rewrite Edtt. cbn [bind].
  destruct (nth_res_inv _ _ _ Edtt) as [Ind _].
  match goal with |- context [civil_pass _ _ _ None ?t3 []] => set (trans3 := t3) end.
  assert (F3 : Forall (tr_ok (length types1)) trans3).
  { unfold trans3. destruct (tr_time last <? 0); [|exact F2].
    apply Forall_app. split; [exact F2|]. constructor; [|constructor].
    unfold tr_ok. cbn [tr_time tr_type]. unfold src_second_half_sentinel.
    apply last_opt_In in EL. rewrite Forall_forall in F2. pose proof (proj2 (F2 _ EL)).
    change (2 ^ 59) with 576460752303423488. change (2 ^ 60) with 1152921504606846976. lia. }
  clearbody trans3.
  destruct (civil_pass_total abbrs1 types1 Fo1 Fa1 trans3 dtt None []) as [cp ECP]; auto.
  { rewrite Forall_forall in Fo1. auto. }
  { rewrite Forall_forall in Fa1. auto. }
  rewrite ECP. cbn [bind].
  destruct cp as [trans4|]; [|eexists; reflexivity].
  destruct (set_civil_limits_total abbrs1 types1 Fo1 Fa1) as [types2 ESL].
  rewrite ESL. cbn [bind]. eexists; reflexivity.
Qed.

(* The hypothesis [all_bytes] cannot be dropped: [bs : list Z] is otherwise free to
   contain a "byte" -1, which passes the `type_index >= typecnt` test and then
   indexes transition_types_[-1].  (A C++ unsigned char cannot take that value.) *)
Definition not_bytes_witness : list Z :=
  [84;90;105;102;0] ++ repeat 0 15 ++ [0;0;0;0] ++ [0;0;0;0] ++ [0;0;0;0]
  ++ [0;0;0;1] ++ [0;0;0;1] ++ [0;0;0;1]
  ++ [0;0;0;0] ++ [-1] ++ [0;0;0;0;0;0] ++ [0].

Lemma load_total_unrestricted_refuted : ~ (forall bs, exists r, load_bytes bs = OK r).
Proof.
  intros H. destruct (H not_bytes_witness) as [r E].
  assert (K : load_bytes not_bytes_witness = Err OOB) by (vm_compute; reflexivity).
  rewrite K in E. discriminate E.
Qed.

Print Assumptions accept_sorted_lemma.
Print Assumptions accept_bounds_lemma.
Print Assumptions load_total_bytes_lemma.
Print Assumptions load_total_unrestricted_refuted.
