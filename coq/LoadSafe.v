(* LoadSafe.v — C12: what acceptance by TimeZoneInfo::Load establishes
   (sort orders, bounds on the transition times). *)
From CCTZ Require Import Base SrcConstants Cal CivilImpl PosixImpl PosixSpec ZoneLoad ZoneImpl ZoneHist ZoneSpec
  CalProofs WeekdayProofs CivilNorm CivilDiff PosixProofs RuleProofs.
Require Import Lia ZifyBool.
Local Open Scope Z_scope.

(* ------------------------------------------------------------------ *)
(* The civil pass                                                       *)

Fixpoint chain (prev : option (fields * Z)) (l : list transition) : Prop :=
  match l with
  | [] => True
  | tr :: r =>
      match prev with
      | Some (pc, pt) => lt64 pc (tr_cs tr) = true /\ pt < tr_time tr
      | None => True
      end /\ chain (Some (tr_cs tr, tr_time tr)) r
  end.

Lemma chain_sorted : forall l prev, chain prev l ->
  times_sorted_l l = true /\ civil_sorted_l l = true.
Proof.
  induction l as [|a l IH]; intros prev H; [split; reflexivity|].
  destruct H as [_ H]. destruct l as [|b l]; [split; reflexivity|].
  pose proof (IH _ H) as [I1 I2].
  destruct H as [[H1 H2] _].
  split.
  - change (((tr_time a <? tr_time b) && times_sorted_l (b :: l)) = true).
    rewrite I1. apply andb_true_iff. split; [apply Z.ltb_lt; exact H2|reflexivity].
  - change ((lt64 (tr_cs a) (tr_cs b) && civil_sorted_l (b :: l)) = true).
    rewrite I2, H1. reflexivity.
Qed.

Lemma civil_pass_inv : forall abbrs types trans ttp prev acc out,
  civil_pass abbrs types ttp prev trans acc = OK (Some out) ->
  exists new, out = rev acc ++ new /\ map tr_time new = map tr_time trans /\ chain prev new.
Proof.
  induction trans as [|tr rest IH]; intros ttp prev acc out H.
  - cbn [civil_pass] in H. inversion H; subst. exists []. rewrite app_nil_r. repeat split.
  - cbn [civil_pass] in H.
    destruct (local_time_tt abbrs (tr_time tr) ttp) as [a|] ; [|discriminate H]. cbn [bind] in H.
    destruct (minus64 0 (al_cs a) 1) as [pcs|]; [|discriminate H]. cbn [bind] in H.
    destruct (nth_res types (tr_type tr)) as [ttp'|]; [|discriminate H]. cbn [bind] in H.
    destruct (local_time_tt abbrs (tr_time tr) ttp') as [b|]; [|discriminate H]. cbn [bind] in H.
    assert (K : civil_pass abbrs types ttp' (Some (al_cs b, tr_time tr)) rest
                  (mkTr (tr_time tr) (tr_type tr) (al_cs b) pcs :: acc) = OK (Some out) /\
                match prev with
                | Some (pc, pt) => lt64 pc (al_cs b) = true /\ pt < tr_time tr
                | None => True
                end).
    { destruct prev as [[pc pt]|]; [|split; [exact H|exact I]].
      destruct (lt64 pc (al_cs b)) eqn:E1; cbn [negb] in H; [|discriminate H].
      destruct (pt <? tr_time tr) eqn:E2; cbn [negb] in H; [|discriminate H].
      split; [exact H|]. split; [reflexivity|apply Z.ltb_lt; exact E2]. }
    destruct K as [K1 K2].
    destruct (IH _ _ _ _ K1) as [new [E1 [E2 E3]]].
    exists (mkTr (tr_time tr) (tr_type tr) (al_cs b) pcs :: new).
    split; [|split].
    + rewrite E1. cbn [rev]. rewrite <- app_assoc. reflexivity.
    + cbn [map tr_time]. rewrite E2. reflexivity.
    + cbn [chain tr_cs tr_time]. split; assumption.
Qed.

Lemma civil_pass_sorted abbrs types ttp trans out :
  civil_pass abbrs types ttp None trans [] = OK (Some out) ->
  times_sorted_l out = true /\ civil_sorted_l out = true /\ map tr_time out = map tr_time trans.
Proof.
  intros H. destruct (civil_pass_inv _ _ _ _ _ _ _ H) as [new [E1 [E2 E3]]].
  cbn [rev app] in E1. subst out.
  destruct (chain_sorted _ _ E3). auto.
Qed.

(* ------------------------------------------------------------------ *)
(* Peeling load_bytes                                                   *)

Ltac peel_step H :=
  match type of H with
  | bind ?r _ = OK _ =>
      let E := fresh "E" in destruct r eqn:E; [cbn [bind] in H | discriminate H]
  | (if ?c then _ else _) = OK _ =>
      let E := fresh "E" in destruct c eqn:E; try discriminate H
  | (match ?x with _ => _ end) = OK _ =>
      let E := fresh "E" in destruct x eqn:E; try discriminate H
  | (let x := ?v in _) = OK _ => cbv zeta in H
  end.

Lemma load_accept_shape bs z : load_bytes bs = OK (Some z) ->
  exists abbrs types dtt trans3,
    civil_pass abbrs types dtt None trans3 [] = OK (Some (z_trans z)).
Proof.
  intros H. unfold load_bytes in H.
  repeat peel_step H.
  Show.
Abort.
