(* ZoneImpl.v — IMPL64 layer: BreakTime / MakeTime / TimeLocal /
   NextTransition / PrevTransition (src/time_zone_info.cc:875-1080) and
   convert() (include/cctz/time_zone.h).  The two search hints are explicit
   arguments and results; std::upper_bound / lower_bound are modelled by their
   specification guarded by the partition precondition (Precond otherwise). *)
From CCTZ Require Import Base SrcConstants Cal CivilImpl FixedImpl PosixImpl ZoneLoad.
Local Open Scope Z_scope.

Definition kSecsPer400Years : Z := src_kSecsPer400Years_days * src_kSecsPerDay.

(* first index whose element satisfies [after]; requires the list to be
   partitioned (all non-[after] elements first) *)
Fixpoint partition_point {A} (after : A -> bool) (l : list A) : nat :=
  match l with
  | [] => O
  | x :: r => if after x then O else S (partition_point after r)
  end.
Definition partitioned {A} (after : A -> bool) (l : list A) : bool :=
  forallb after (skipn (partition_point after l) l).
Definition bound_search {A} (after : A -> bool) (l : list A) : res nat :=
  if partitioned after l then OK (partition_point after l) else Err Precond.

Definition nth_tr (z : zone) (i : nat) : res transition :=
  match nth_error (z_trans z) i with Some t => OK t | None => Err OOB end.

(* ---- BreakTime (:895-936) ---- *)

(* the part for unix_time strictly inside the table *)
Definition break_inner (z : zone) (hint : Z) (t : Z) : res (alookup * Z) :=
  let timecnt := Z.of_nat (length (z_trans z)) in
  let use_hint : res (option transition) :=
    if (0 <? hint) && (hint <? timecnt) then
      do a <- nth_tr z (Z.to_nat (hint - 1)) ;;
      if tr_time a <=? t then
        (do b <- nth_tr z (Z.to_nat hint) ;;
         if t <? tr_time b then OK (Some a) else OK None)
      else OK None
    else OK None in
  do uh <- use_hint ;;
  match uh with
  | Some a => do al <- local_time_tr z t a ;; OK (al, hint)
  | None =>
      do k <- bound_search (fun tr => t <? tr_time tr) (z_trans z) ;;
      do tr <- (match k with O => Err OOB | S k' => nth_tr z k' end) ;;
      do al <- local_time_tr z t tr ;;
      OK (al, Z.of_nat k)
  end.

Definition break_time_noext (z : zone) (hint : Z) (t : Z) : res (alookup * Z) :=
  do first <- nth_tr z 0 ;;
  do last <- (match last_opt (z_trans z) with Some x => OK x | None => Err OOB end) ;;
  if t <? tr_time first then
    (do ty <- nth_res (z_types z) (z_default z) ;;
     do al <- local_time_tt (z_abbrs z) t ty ;; OK (al, hint))
  else if tr_time last <=? t then
    (do al <- local_time_tr z t last ;; OK (al, hint))
  else break_inner z hint t.

Definition year_shift (cs : fields) (shift : Z) : res fields :=
  do y <- add64 (fy cs) shift ;;
  construct64 0 y (fm cs) (fd cs) (fhh cs) (fmm cs) (fss cs).

Definition break_time (z : zone) (hint : Z) (t : Z) : res (alookup * Z) :=
  do last <- (match last_opt (z_trans z) with Some x => OK x | None => Err OOB end) ;;
  do first <- nth_tr z 0 ;;
  if negb (t <? tr_time first) && (tr_time last <=? t) && z_extended z then
    do diff <- sub64 t (tr_time last) ;;
    do shift <- add64 (Z.quot diff kSecsPer400Years) 1 ;;
    do d <- mul64 shift kSecsPer400Years ;;
    do t' <- sub64 t d ;;
    (* the recursive call: by construction t' < last.unix_time *)
    do '(al, hint') <- (if negb (t' <? tr_time first) && (tr_time last <=? t') then Err Fuel
                        else break_time_noext z hint t') ;;
    do s400 <- mul64 shift 400 ;;
    do cs' <- year_shift (al_cs al) s400 ;;
    OK (mkAL cs' (al_off al) (al_dst al) (al_abbr al), hint')
  else break_time_noext z hint t.

(* ---- MakeTime (:938-1007) ---- *)
Inductive ckind := UNIQUE | SKIPPED | REPEATED.
Record clookup := mkCL { cl_kind : ckind; cl_pre : Z; cl_trans : Z; cl_post : Z }.

Definition make_unique (t : Z) : clookup := mkCL UNIQUE t t t.

Definition make_skipped (tr : transition) (cs : fields) : res clookup :=
  do d1 <- difference64 0 cs (tr_pcs tr) ;;
  do a <- sub64 (tr_time tr) 1 ;;
  do pre <- add64 a d1 ;;
  do d2 <- difference64 0 (tr_cs tr) cs ;;
  do post <- sub64 (tr_time tr) d2 ;;
  OK (mkCL SKIPPED pre (tr_time tr) post).

Definition make_repeated (tr : transition) (cs : fields) : res clookup :=
  do d1 <- difference64 0 (tr_pcs tr) cs ;;
  do a <- sub64 (tr_time tr) 1 ;;
  do pre <- sub64 a d1 ;;
  do d2 <- difference64 0 cs (tr_cs tr) ;;
  do post <- add64 (tr_time tr) d2 ;;
  OK (mkCL REPEATED pre (tr_time tr) post).

Definition le64 (a b : fields) : bool := negb (lt64 b a).

(* returns the index "tr - begin" (0 .. timecnt) and the new hint *)
Definition make_find (z : zone) (hint : Z) (cs : fields) : res (nat * Z) :=
  let timecnt := length (z_trans z) in
  do first <- nth_tr z 0 ;;
  do last <- (match last_opt (z_trans z) with Some x => OK x | None => Err OOB end) ;;
  if lt64 cs (tr_cs first) then OK (O, hint)
  else if le64 (tr_cs last) cs then OK (timecnt, hint)
  else
    let use_hint : res bool :=
      if (0 <? hint) && (hint <? Z.of_nat timecnt) then
        do a <- nth_tr z (Z.to_nat (hint - 1)) ;;
        if le64 (tr_cs a) cs then
          (do b <- nth_tr z (Z.to_nat hint) ;; OK (lt64 cs (tr_cs b)))
        else OK false
      else OK false in
    do uh <- use_hint ;;
    if uh then OK (Z.to_nat hint, hint)
    else
      do k <- bound_search (fun tr => lt64 cs (tr_cs tr)) (z_trans z) ;;
      OK (k, Z.of_nat k).

Definition make_time_noext (z : zone) (hint : Z) (cs : fields) : res (clookup * Z) :=
  let timecnt := length (z_trans z) in
  do '(k, hint') <- make_find z hint cs ;;
  if Nat.eqb k 0 then
    do tr <- nth_tr z 0 ;;
    if le64 cs (tr_pcs tr) then
      do ty <- nth_res (z_types z) (z_default z) ;;
      if lt64 cs (tt_cmin ty) then OK (make_unique min64, hint')
      else
        (do e <- plus64 0 epoch (tt_off ty) ;;
         do d <- difference64 0 cs e ;;
         OK (make_unique d, hint'))
    else (do r <- make_skipped tr cs ;; OK (r, hint'))
  else if Nat.eqb k timecnt then
    do tr <- nth_tr z (timecnt - 1) ;;
    if lt64 (tr_pcs tr) cs then
      (* after the last transition (the extended_ branch is in make_time) *)
      do ty <- nth_res (z_types z) (tr_type tr) ;;
      if lt64 (tt_cmax ty) cs then OK (make_unique max64, hint')
      else
        (do d <- difference64 0 cs (tr_cs tr) ;;
         do u <- add64 (tr_time tr) d ;;
         OK (make_unique u, hint'))
    else (do r <- make_repeated tr cs ;; OK (r, hint'))
  else
    do tr <- nth_tr z k ;;
    if lt64 (tr_pcs tr) cs then (do r <- make_skipped tr cs ;; OK (r, hint'))
    else
      do trp <- nth_tr z (k - 1) ;;
      if le64 cs (tr_pcs trp) then (do r <- make_repeated trp cs ;; OK (r, hint'))
      else
        (do d <- difference64 0 cs (tr_cs trp) ;;
         do u <- add64 (tr_time trp) d ;;
         OK (make_unique u, hint')).

(* TimeLocal (:875-893): saturating +N*400-year shift *)
Definition time_local (z : zone) (hint : Z) (cs : fields) (c4_shift : Z) : res (clookup * Z) :=
  do '(cl, hint') <- make_time_noext z hint cs ;;
  if Z.quot max64 kSecsPer400Years <? c4_shift then
    OK (mkCL (cl_kind cl) max64 max64 max64, hint')
  else
    do offset <- mul64 c4_shift kSecsPer400Years ;;
    do limit <- sub64 max64 offset ;;
    let sat v : res Z := if limit <? v then OK max64 else add64 v offset in
    do a <- sat (cl_pre cl) ;;
    do b <- sat (cl_trans cl) ;;
    do c <- sat (cl_post cl) ;;
    OK (mkCL (cl_kind cl) a b c, hint').

Definition make_time (z : zone) (hint : Z) (cs : fields) : res (clookup * Z) :=
  let timecnt := length (z_trans z) in
  do last <- (match last_opt (z_trans z) with Some x => OK x | None => Err OOB end) ;;
  (* the extended branch is taken exactly when tr == end, cs > last.prev_civil_sec,
     extended_ and cs.year() > last_year_ *)
  do first <- nth_tr z 0 ;;
  if negb (lt64 cs (tr_cs first)) && le64 (tr_cs last) cs && lt64 (tr_pcs last) cs
     && z_extended z && (z_last_year z <? fy cs) then
    do a <- sub64 (fy cs) (z_last_year z) ;;
    do b <- sub64 a 1 ;;
    do shift <- add64 (Z.quot b 400) 1 ;;
    do s <- mul64 shift (-400) ;;
    do cs' <- year_shift cs s ;;
    (* TimeLocal calls MakeTime again: by construction cs'.year <= last_year_ *)
    if z_last_year z <? fy cs' then Err Fuel else time_local z hint cs' shift
  else make_time_noext z hint cs.

(* convert(cs, tz) (time_zone.h:250-260) *)
Definition convert_cs (z : zone) (hint : Z) (cs : fields) : res Z :=
  do '(cl, _) <- make_time z hint cs ;;
  OK (match cl_kind cl with SKIPPED => cl_trans cl | _ => cl_pre cl end).

(* ---- NextTransition / PrevTransition (:1021-1080) ---- *)
Definition drop_big_bang (z : zone) : list transition * nat :=
  match z_trans z with
  | t0 :: r => if tr_time t0 <=? big_bang then (r, 1%nat) else (z_trans z, 0%nat)
  | [] => ([], 0%nat)
  end.

(* walk forward from index k (relative to [begin]) skipping no-op transitions *)
Fixpoint next_scan (fuel : nat) (z : zone) (l : list transition) (k : nat) : res (option transition) :=
  match fuel with
  | O => Err Fuel
  | S f =>
      match nth_error l k with
      | None => OK None                                   (* tr == end *)
      | Some tr =>
          do prev_ti <- (match k with
                         | O => OK (z_default z)
                         | S k' => match nth_error l k' with Some p => OK (tr_type p) | None => Err OOB end
                         end) ;;
          do e <- equiv_transitions (z_abbrs z) (z_types z) prev_ti (tr_type tr) ;;
          if e then next_scan f z l (S k) else OK (Some tr)
      end
  end.

Definition next_transition (z : zone) (t : Z) : res (option (fields * fields)) :=
  match z_trans z with
  | [] => OK None
  | _ =>
      let '(l, _) := drop_big_bang z in
      do k <- bound_search (fun tr => t <? tr_time tr) l ;;
      do r <- next_scan (S (length l)) z l k ;;
      match r with
      | None => OK None
      | Some tr => do from <- plus64 0 (tr_pcs tr) 1 ;; OK (Some (from, tr_cs tr))
      end
  end.

(* walk backward: tr (index k, 1-based position) ; skip while tr[-1] is a no-op *)
Fixpoint prev_scan (z : zone) (l : list transition) (k : nat) : res nat :=
  match k with
  | O => OK O
  | S k' =>
      do cur <- (match nth_error l k' with Some p => OK p | None => Err OOB end) ;;
      do prev_ti <- (match k' with
                     | O => OK (z_default z)
                     | S k'' => match nth_error l k'' with Some p => OK (tr_type p) | None => Err OOB end
                     end) ;;
      do e <- equiv_transitions (z_abbrs z) (z_types z) prev_ti (tr_type cur) ;;
      if e then prev_scan z l k' else OK k
  end.

Definition prev_transition (z : zone) (t : Z) : res (option (fields * fields)) :=
  match z_trans z with
  | [] => OK None
  | _ =>
      let '(l, _) := drop_big_bang z in
      (* lower_bound: first element with !(elem.unix_time < t) *)
      do k <- bound_search (fun tr => negb (tr_time tr <? t)) l ;;
      do k' <- prev_scan z l k ;;
      match k' with
      | O => OK None
      | S j =>
          do tr <- (match nth_error l j with Some p => OK p | None => Err OOB end) ;;
          do from <- plus64 0 (tr_pcs tr) 1 ;; OK (Some (from, tr_cs tr))
      end
  end.
