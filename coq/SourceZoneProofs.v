(* SourceZoneProofs.v - tie between the source-derived zone query functions (SourceZone.v, regenerated
   from clang's AST of src/time_zone_info.cc on every run) and the hand-written model (ZoneImpl.v,
   ZoneLoad.v): whenever the model returns OK r, the source-derived function returns OK r. *)
From CCTZ Require Import Base SrcConstants Cal CivilImpl ZoneLoad ZoneImpl SourceZone.
From CCTZ Require FutureProofs FinishZone ZoneRefine NextPrevRefine.
Require Import Lia ZifyBool.
Local Open Scope Z_scope.
Local Ltac Zify.zify_post_hook ::= idtac.

(* ------------------------------------------------------------------ *)
(* the vocabulary's primitives on in-range arguments                   *)

Definition size_t (x : Z) : Prop := 0 <= x < 2 ^ 64.

Lemma u64_id x : size_t x -> u64 x = x.
Proof. unfold size_t, u64. intros H. apply Z.mod_small. lia. Qed.

Lemma bind_ret {A} (e : res A) : (do x <- e ;; OK x) = e.
Proof. destruct e; reflexivity. Qed.

Lemma nth_res_tr z i : 0 <= i -> nth_res (z_trans z) i = nth_tr z (Z.to_nat i).
Proof. intros H. unfold nth_res, nth_tr. destruct (Z.ltb_spec i 0); [lia|reflexivity]. Qed.

Lemma nth_tr_len z i x : nth_tr z i = OK x -> (i < length (z_trans z))%nat.
Proof.
  unfold nth_tr. destruct (nth_error (z_trans z) i) eqn:E; [|discriminate]. intros _.
  apply nth_error_Some. congruence.
Qed.

Lemma last_opt_nth {A} (l : list A) x : last_opt l = Some x ->
  nth_error l (length l - 1) = Some x /\ (0 < length l)%nat.
Proof.
  unfold last_opt. intros H. destruct (rev l) as [|y r] eqn:E; [discriminate|].
  inversion H; subst y. clear H.
  assert (l = rev r ++ [x]) as ->.
  { rewrite <- (rev_involutive l), E. reflexivity. }
  rewrite app_length. cbn [length].
  replace (length (rev r) + 1 - 1)%nat with (length (rev r)) by lia.
  split; [|lia]. rewrite nth_error_app2 by lia. rewrite Nat.sub_diag. reflexivity.
Qed.

Lemma last_res z x : last_opt (z_trans z) = Some x -> size_t (vec_size (z_trans z)) ->
  nth_res (z_trans z) (u64 (vec_size (z_trans z) - 1)) = OK x /\ 0 < vec_size (z_trans z).
Proof.
  intros H S. apply last_opt_nth in H as [H L]. unfold vec_size, size_t in *.
  rewrite u64_id by (unfold size_t; lia). rewrite nth_res_tr by lia. unfold nth_tr.
  replace (Z.to_nat (Z.of_nat (length (z_trans z)) - 1)) with (length (z_trans z) - 1)%nat by lia.
  rewrite H. split; [reflexivity|lia].
Qed.

Lemma vec_addr_0 z x : nth_tr z 0 = OK x -> vec_addr (z_trans z) 0 = OK 0.
Proof. intros H. unfold vec_addr. rewrite nth_res_tr by lia. change (Z.to_nat 0) with 0%nat. rewrite H. reflexivity. Qed.

Lemma ptr_add_ok {A} (l : list A) p k : 0 <= p -> 0 <= p + k <= vec_size l -> ptr_add l p k = OK (p + k).
Proof.
  intros Hp Hk. unfold ptr_add. destruct (Z.ltb_spec p 0); [lia|].
  replace ((0 <=? p + k) && (p + k <=? vec_size l)) with true by lia. reflexivity.
Qed.

Lemma ptr_diff_ok p q : 0 <= p -> 0 <= q -> ptr_diff p q = OK (p - q).
Proof. intros. unfold ptr_diff. replace ((p <? 0) || (q <? 0)) with false by lia. reflexivity. Qed.

Lemma ptr_rd_tr z p : 0 <= p -> ptr_rd (z_trans z) p = nth_tr z (Z.to_nat p).
Proof. intros H. unfold ptr_rd. destruct (Z.ltb_spec p 0); [lia|]. apply nth_res_tr; lia. Qed.

Lemma bound_search_le {A} (after : A -> bool) l k : bound_search after l = OK k -> (k <= length l)%nat.
Proof.
  unfold bound_search. destruct (partitioned after l); [|discriminate]. intros H. inversion H. subst k. clear H.
  induction l as [|x r IH]; cbn [partition_point length]; [lia|]. destruct (after x); lia.
Qed.

Lemma range_search_full {A} (after : A -> bool) l :
  range_search after l 0 (vec_size l) = do k <- bound_search after l ;; OK (Z.of_nat k).
Proof.
  unfold range_search, vec_size.
  replace ((0 <=? 0) && (0 <=? Z.of_nat (length l)) && (Z.of_nat (length l) <=? Z.of_nat (length l))) with true by lia.
  rewrite Z.sub_0_r, Nat2Z.id. change (Z.to_nat 0) with 0%nat. cbn [skipn]. rewrite firstn_all.
  destruct (bound_search after l); reflexivity.
Qed.

(* ------------------------------------------------------------------ *)
(* LocalTime (both overloads), YearShift: equal to the model           *)

Theorem sz_LocalTime_tt_tie z t ty : sz_LocalTime_i64_tt z t ty = local_time_tt (z_abbrs z) t ty.
Proof. reflexivity. Qed.

Theorem sz_LocalTime_tr_tie z t tr : sz_LocalTime_i64_tr z t tr = local_time_tr z t tr.
Proof. reflexivity. Qed.

Theorem sz_YearShift_tie cs s : sz_YearShift cs s = year_shift cs s.
Proof. unfold sz_YearShift, year_shift. destruct (add64 (fy cs) s); cbn [bind]; [apply bind_ret|reflexivity]. Qed.

Lemma k400 : kSecsPer400Years = 12622780800.
Proof. reflexivity. Qed.

(* ------------------------------------------------------------------ *)
(* BreakTime                                                           *)

Lemma search_facts z (pred : transition -> bool) k tr first :
  size_t (vec_size (z_trans z)) ->
  bound_search pred (z_trans z) = OK k ->
  (match k with O => Err OOB | S k' => nth_tr z k' end) = OK tr ->
  nth_tr z 0 = OK first ->
  vec_addr (z_trans z) 0 = OK 0 /\
  ptr_add (z_trans z) 0 (vec_size (z_trans z)) = OK (vec_size (z_trans z)) /\
  range_search pred (z_trans z) 0 (vec_size (z_trans z)) = OK (Z.of_nat k) /\
  ptr_diff (Z.of_nat k) 0 = OK (Z.of_nat k) /\
  u64 (Z.of_nat k) = Z.of_nat k /\
  ptr_add (z_trans z) (Z.of_nat k) (-1) = OK (Z.of_nat k - 1) /\
  ptr_rd (z_trans z) (Z.of_nat k - 1) = OK tr.
Proof.
  intros S B T F. pose proof (bound_search_le _ _ _ B) as L. unfold size_t in *.
  pose proof (eq_refl : vec_size (z_trans z) = Z.of_nat (length (z_trans z))) as VS.
  destruct k as [|k']; [discriminate|].
  split; [|split; [|split; [|split; [|split; [|split]]]]].
  - eapply vec_addr_0; eauto.
  - apply ptr_add_ok; lia.
  - rewrite range_search_full, B. reflexivity.
  - rewrite ptr_diff_ok by lia. f_equal.
  - apply u64_id. unfold size_t. lia.
  - rewrite ptr_add_ok by lia. f_equal.
  - rewrite ptr_rd_tr by lia. rewrite <- T. f_equal. lia.
Qed.

Lemma sz_BreakTime_noext z hint t r f :
  size_t (vec_size (z_trans z)) -> size_t hint ->
  break_time_noext z hint t = OK r ->
  (forall first last, nth_tr z 0 = OK first -> last_opt (z_trans z) = Some last ->
     negb (t <? tr_time first) && (tr_time last <=? t) && z_extended z = false) ->
  sz_BreakTime (S f) z hint t = OK r.
Proof.
  intros Sz Sh H NE. unfold break_time_noext in H.
  apply bind_ok in H as (first & F & H).
  destruct (last_opt (z_trans z)) as [last|] eqn:La; cbn [bind] in H; [|discriminate].
  specialize (NE first last F eq_refl).
  destruct (last_res z last La Sz) as [Lr Lp].
  cbn [sz_BreakTime].
  replace (negb (vec_size (z_trans z) =? 0)) with true by lia.
  rewrite nth_res_tr by lia. change (Z.to_nat 0) with 0%nat. rewrite F. cbn [bind].
  destruct (t <? tr_time first) eqn:C1.
  { exact H. }
  rewrite Lr. cbn [bind]. destruct (tr_time last <=? t) eqn:C2.
  { cbn [negb andb] in NE. rewrite NE. cbn [bind]. exact H. }
  unfold break_inner in H. change (vec_size (z_trans z)) with (Z.of_nat (length (z_trans z))) in *.
  assert (TAIL : forall hint' : unit, (do k <- bound_search (fun tr => t <? tr_time tr) (z_trans z) ;;
           do tr <- match k with O => Err OOB | S k' => nth_tr z k' end ;;
           do al <- local_time_tr z t tr ;; OK (al, Z.of_nat k)) = OK r ->
       (do t24 <- vec_addr (z_trans z) 0;;
         do t25 <- ptr_add (z_trans z) t24 (Z.of_nat (length (z_trans z)));;
         do t26 <- range_search (fun e_ : transition => sz_ByUnixTime (mkTr t 0 (mkF 1970 1 1 0 0 0) (mkF 1970 1 1 0 0 0)) e_) (z_trans z) t24 t25;;
         do t27 <- ptr_diff t26 t24;;
         do t28 <- ptr_add (z_trans z) t26 (-1);;
         do t29 <- ptr_rd (z_trans z) t28;;
         do t30 <- sz_LocalTime_i64_tr z t t29;; OK (t30, u64 t27)) = OK r).
  { intros _ H1. apply bind_ok in H1 as (k & B & H1). apply bind_ok in H1 as (tr & T & H1).
    destruct (search_facts z _ k tr first Sz B T F) as (F1 & F2 & F3 & F4 & F5 & F6 & F7).
    change (vec_size (z_trans z)) with (Z.of_nat (length (z_trans z))) in *.
    rewrite F1; cbn [bind]. rewrite F2; cbn [bind].
    change (fun e_ : transition => sz_ByUnixTime (mkTr t 0 (mkF 1970 1 1 0 0 0) (mkF 1970 1 1 0 0 0)) e_) with (fun tr => t <? tr_time tr).
    rewrite F3; cbn [bind]. rewrite F4; cbn [bind]. rewrite F6; cbn [bind]. rewrite F7; cbn [bind].
    rewrite F5. exact H1. }
  destruct ((0 <? hint) && (hint <? Z.of_nat (length (z_trans z)))) eqn:C3.
  2:{ cbn [bind] in H. apply (TAIL tt). exact H. }
  unfold size_t in Sh. rewrite u64_id by (unfold size_t; lia). rewrite !nth_res_tr by lia.
  destruct (nth_tr z (Z.to_nat (hint - 1))) as [a|] eqn:A; cbn [bind] in H |- *; [|discriminate].
  destruct (tr_time a <=? t) eqn:C4.
  2:{ cbn [bind] in H. apply (TAIL tt). exact H. }
  destruct (nth_tr z (Z.to_nat hint)) as [b|] eqn:Bb; cbn [bind] in H |- *; [|discriminate].
  destruct (t <? tr_time b) eqn:C5; cbn [bind] in H.
  2:{ apply (TAIL tt). exact H. }
  exact H.
Qed.

(* BreakTime: hypotheses are the C++ types of transitions_.size() and of the hint (size_t) *)
Theorem sz_BreakTime_tie z hint t r :
  size_t (vec_size (z_trans z)) -> size_t hint ->
  break_time z hint t = OK r ->
  forall fuel, (2 <= fuel)%nat -> sz_BreakTime fuel z hint t = OK r.
Proof.
  intros Sz Sh H fuel Hf. unfold break_time in H.
  destruct (last_opt (z_trans z)) as [last|] eqn:La; cbn [bind] in H; [|discriminate].
  apply bind_ok in H as (first & F & H).
  destruct fuel as [|f1]; [lia|].
  destruct (negb (t <? tr_time first) && (tr_time last <=? t) && z_extended z) eqn:C.
  2:{ apply sz_BreakTime_noext; auto. intros first' last' F' L'. congruence. }
  destruct (last_res z last La Sz) as [Lr Lp].
  apply andb_prop in C as [C Ex]. apply andb_prop in C as [C1 C2]. apply negb_true_iff in C1.
  cbn [sz_BreakTime].
  replace (negb (vec_size (z_trans z) =? 0)) with true by lia.
  rewrite nth_res_tr by lia. change (Z.to_nat 0) with 0%nat. rewrite F. cbn [bind].
  rewrite C1, Lr. cbn [bind]. rewrite C2, Ex.
  rewrite k400 in H.
  apply bind_ok in H as (diff & D1 & H). rewrite D1; cbn [bind].
  apply bind_ok in H as (shift & D2 & H). rewrite D2; cbn [bind].
  apply bind_ok in H as (d & D3 & H). rewrite D3; cbn [bind].
  apply bind_ok in H as (t' & D4 & H). rewrite D4; cbn [bind].
  apply bind_ok in H as ([al hint'] & D5 & H).
  destruct (negb (t' <? tr_time first) && (tr_time last <=? t')) eqn:C'; [discriminate|].
  destruct f1 as [|f2]; [lia|].
  rewrite (sz_BreakTime_noext z hint t' (al, hint') f2 Sz Sh D5).
  2:{ intros first' last' F' L'. assert (first' = first) by congruence. assert (last' = last) by congruence. subst.
      rewrite C'. reflexivity. }
  cbn [bind].
  apply bind_ok in H as (s400 & D6 & H). rewrite D6; cbn [bind].
  rewrite sz_YearShift_tie. exact H.
Qed.

(* ------------------------------------------------------------------ *)
(* MakeUnique / MakeSkipped / MakeRepeated                             *)

Theorem sz_MakeUnique_tp_tie t : sz_MakeUnique_tp t = OK (make_unique t).
Proof. reflexivity. Qed.
Theorem sz_MakeUnique_i64_tie t : sz_MakeUnique_i64 t = OK (make_unique t).
Proof. reflexivity. Qed.

(* the operands of `unix_time - 1 + (cs - prev_civil_sec)` are evaluated left to right by the translation and
   right to left by the model: the results agree whenever the model's is defined *)
Theorem sz_MakeSkipped_tie tr cs r : make_skipped tr cs = OK r -> sz_MakeSkipped tr cs = OK r.
Proof.
  unfold make_skipped, sz_MakeSkipped. intros H.
  apply bind_ok in H as (d1 & D1 & H). apply bind_ok in H as (a & D2 & H). apply bind_ok in H as (pre & D3 & H).
  apply bind_ok in H as (d2 & D4 & H). apply bind_ok in H as (post & D5 & H).
  rewrite D2; cbn [bind]. rewrite D1; cbn [bind]. rewrite D3; cbn [bind]. rewrite D4; cbn [bind]. rewrite D5; cbn [bind].
  exact H.
Qed.

Theorem sz_MakeRepeated_tie tr cs r : make_repeated tr cs = OK r -> sz_MakeRepeated tr cs = OK r.
Proof.
  unfold make_repeated, sz_MakeRepeated. intros H.
  apply bind_ok in H as (d1 & D1 & H). apply bind_ok in H as (a & D2 & H). apply bind_ok in H as (pre & D3 & H).
  apply bind_ok in H as (d2 & D4 & H). apply bind_ok in H as (post & D5 & H).
  rewrite D2; cbn [bind]. rewrite D1; cbn [bind]. rewrite D3; cbn [bind]. rewrite D4; cbn [bind]. rewrite D5; cbn [bind].
  exact H.
Qed.

(* ------------------------------------------------------------------ *)
(* MakeTime / TimeLocal                                                *)

Lemma partition_point_le {A} (after : A -> bool) l i x :
  nth_error l i = Some x -> after x = true -> (partition_point after l <= i)%nat.
Proof.
  revert i. induction l as [|y l IH]; intros [|i] H Hx; cbn [nth_error partition_point] in *; try discriminate.
  - inversion H; subst. rewrite Hx. lia.
  - destruct (after y); [lia|]. specialize (IH i H Hx). lia.
Qed.

Lemma bound_search_pp {A} (after : A -> bool) l k : bound_search after l = OK k -> k = partition_point after l.
Proof. unfold bound_search. destruct (partitioned after l); [|discriminate]. intros H. inversion H. reflexivity. Qed.

Lemma make_find_src z hint cs k hint' first last :
  size_t (vec_size (z_trans z)) -> size_t hint ->
  nth_tr z 0 = OK first -> last_opt (z_trans z) = Some last ->
  make_find z hint cs = OK (k, hint') ->
  (k <= length (z_trans z))%nat /\ size_t hint' /\
  (k = length (z_trans z) -> negb (lt64 cs (tr_cs first)) && le64 (tr_cs last) cs = true).
Proof.
  intros Sz Sh F La H. unfold make_find in H. rewrite F, La in H. cbn [bind] in H.
  apply last_opt_nth in La as [Ln Lp]. unfold size_t, vec_size in *.
  destruct (lt64 cs (tr_cs first)) eqn:C1.
  { inversion H; subst. split; [lia|]. split; [lia|]. intros E. lia. }
  destruct (le64 (tr_cs last) cs) eqn:C2.
  { inversion H; subst. split; [lia|]. split; [lia|]. reflexivity. }
  apply bind_ok in H as (uh & U & H).
  destruct uh.
  - inversion H; subst. clear H.
    destruct ((0 <? hint') && (hint' <? Z.of_nat (length (z_trans z)))) eqn:C3; [|discriminate].
    split; [lia|]. split; [lia|]. intros E. lia.
  - apply bind_ok in H as (k0 & B & H). inversion H; subst. clear H.
    pose proof (bound_search_le _ _ _ B) as L. split; [lia|]. split; [lia|]. intros E.
    apply bound_search_pp in B.
    assert (lt64 cs (tr_cs last) = true) as C by (unfold le64 in C2; apply negb_false_iff in C2; exact C2).
    pose proof (partition_point_le (fun tr => lt64 cs (tr_cs tr)) _ _ _ Ln C). lia.
Qed.

Definition ext_cond (z : zone) (cs : fields) (first last : transition) : bool :=
  negb (lt64 cs (tr_cs first)) && le64 (tr_cs last) cs && lt64 (tr_pcs last) cs
  && z_extended z && (z_last_year z <? fy cs).

Lemma sz_MakeTime_noext z hint cs r f :
  size_t (vec_size (z_trans z)) -> size_t hint ->
  make_time_noext z hint cs = OK r ->
  (forall first last, nth_tr z 0 = OK first -> last_opt (z_trans z) = Some last -> ext_cond z cs first last = false) ->
  sz_MakeTime (S f) z hint cs = OK r.
Proof.
  intros Sz Sh H NE. unfold make_time_noext in H.
  apply bind_ok in H as ([k hint'] & MF & H).
  assert (exists first, nth_tr z 0 = OK first) as [first F].
  { unfold make_find in MF. destruct (nth_tr z 0) as [x|]; [eauto|discriminate]. }
  assert (exists last, last_opt (z_trans z) = Some last) as [last La].
  { unfold make_find in MF. rewrite F in MF. cbn [bind] in MF. destruct (last_opt (z_trans z)) as [x|]; [eauto|discriminate]. }
  specialize (NE first last F La).
  destruct (make_find_src z hint cs k hint' first last Sz Sh F La MF) as (Kle & Sh' & Kend).
  destruct (last_res z last La Sz) as [Lr Lp].
  cbn [sz_MakeTime].
  replace (negb (vec_size (z_trans z) =? 0)) with true by lia.
  rewrite (vec_addr_0 z first F). cbn [bind].
  rewrite ptr_add_ok by lia. cbn [bind]. rewrite Z.add_0_l.
  rewrite ptr_rd_tr by lia. change (Z.to_nat 0) with 0%nat. rewrite F. cbn [bind].
  match goal with |- bind ?B ?K = OK r => assert (HB : B = OK (hint', Z.of_nat k)) end.
  { clear H NE Kend. unfold make_find in MF. rewrite F, La in MF. cbn [bind] in MF.
    destruct (lt64 cs (tr_cs first)) eqn:C1.
    { inversion MF; subst. reflexivity. }
    rewrite Lr. cbn [bind]. unfold le64 in MF.
    destruct (lt64 cs (tr_cs last)) eqn:C2; cbn [negb] in MF |- *.
    2:{ inversion MF; subst. reflexivity. }
    change (vec_size (z_trans z)) with (Z.of_nat (length (z_trans z))) in *.
    assert (TAIL : forall u : unit,
      (do k0 <- bound_search (fun tr => lt64 cs (tr_cs tr)) (z_trans z) ;; OK (k0, Z.of_nat k0)) = OK (k, hint') ->
      (do t10 <- range_search (fun e_ : transition => sz_ByCivilTime (mkTr 0 0 cs (mkF 1970 1 1 0 0 0)) e_)
                          (z_trans z) 0 (Z.of_nat (length (z_trans z)));;
       do t11 <- ptr_diff t10 0;; OK (u64 t11, t10)) = OK (hint', Z.of_nat k)).
    { intros _ H1. apply bind_ok in H1 as (k0 & B & H1). inversion H1; subst. clear H1.
      pose proof (bound_search_le _ _ _ B) as L.
      change (Z.of_nat (length (z_trans z))) with (vec_size (z_trans z)). rewrite range_search_full.
      change (fun e_ : transition => sz_ByCivilTime (mkTr 0 0 cs (mkF 1970 1 1 0 0 0)) e_) with (fun tr => lt64 cs (tr_cs tr)).
      rewrite B. cbn [bind]. rewrite ptr_diff_ok by lia. cbn [bind]. rewrite Z.sub_0_r.
      rewrite u64_id by (unfold size_t, vec_size in *; lia). reflexivity. }
    destruct ((0 <? hint) && (hint <? Z.of_nat (length (z_trans z)))) eqn:C3.
    2:{ cbn [bind] in MF |- *. change (-1 =? -1) with true. cbv iota. rewrite (TAIL tt MF). reflexivity. }
    unfold size_t in Sh. rewrite u64_id by (unfold size_t; lia). rewrite !nth_res_tr by lia.
    destruct (nth_tr z (Z.to_nat (hint - 1))) as [a|] eqn:A; cbn [bind] in MF |- *; [|discriminate].
    destruct (lt64 cs (tr_cs a)) eqn:C4; cbn [negb bind] in MF |- *.
    { change (-1 =? -1) with true. cbv iota. rewrite (TAIL tt MF). reflexivity. }
    destruct (nth_tr z (Z.to_nat hint)) as [b|] eqn:Bb; cbn [bind] in MF |- *; [|discriminate].
    destruct (lt64 cs (tr_cs b)) eqn:C5; cbn [bind] in MF |- *.
    2:{ change (-1 =? -1) with true. cbv iota. rewrite (TAIL tt MF). reflexivity. }
    inversion MF; subst. clear MF.
    rewrite ptr_add_ok by (unfold vec_size; lia). cbn [bind]. rewrite Z.add_0_l.
    replace (hint' =? -1) with false by lia. cbn [bind]. rewrite Z2Nat.id by lia. reflexivity. }
  rewrite HB. cbn [bind]. clear HB MF.
  pose proof (eq_refl : vec_size (z_trans z) = Z.of_nat (length (z_trans z))) as VS.
  destruct (Nat.eqb_spec k 0) as [K0|K0].
  { subst k. change (Z.of_nat 0 =? 0) with true. cbv iota.
    rewrite ptr_rd_tr by lia. change (Z.to_nat (Z.of_nat 0)) with 0%nat.
    rewrite F in H |- *. cbn [bind] in H |- *. unfold le64 in H.
    destruct (lt64 (tr_pcs first) cs); cbn [negb] in H |- *.
    - apply bind_ok in H as (sk & S1 & H). rewrite (sz_MakeSkipped_tie _ _ _ S1). cbn [bind]. exact H.
    - exact H. }
  replace (Z.of_nat k =? 0) with false by lia. cbv iota.
  destruct (Nat.eqb_spec k (length (z_trans z))) as [K1|K1].
  { replace (Z.of_nat k =? vec_size (z_trans z)) with true by lia. cbv iota.
    rewrite ptr_add_ok by lia. cbn [bind]. rewrite ptr_rd_tr by lia.
    replace (Z.to_nat (Z.of_nat k + -1)) with (length (z_trans z) - 1)%nat by lia.
    destruct (nth_tr z (length (z_trans z) - 1)) as [tr|] eqn:T; cbn [bind] in H |- *; [|discriminate].
    assert (tr = last) as ->.
    { apply last_opt_nth in La as [Ln _]. unfold nth_tr in T. rewrite Ln in T. congruence. }
    destruct (lt64 (tr_pcs last) cs) eqn:C.
    - unfold ext_cond in NE. rewrite (Kend K1), C in NE. cbn [andb] in NE. rewrite NE. exact H.
    - apply bind_ok in H as (sk & S1 & H). rewrite (sz_MakeRepeated_tie _ _ _ S1). cbn [bind]. exact H. }
  replace (Z.of_nat k =? vec_size (z_trans z)) with false by lia. cbv iota.
  rewrite ptr_rd_tr by lia. rewrite Nat2Z.id.
  destruct (nth_tr z k) as [tr|] eqn:T; cbn [bind] in H |- *; [|discriminate].
  destruct (lt64 (tr_pcs tr) cs) eqn:C.
  { apply bind_ok in H as (sk & S1 & H). rewrite (sz_MakeSkipped_tie _ _ _ S1). cbn [bind]. exact H. }
  rewrite ptr_add_ok by lia. cbn [bind]. rewrite ptr_rd_tr by lia.
  replace (Z.to_nat (Z.of_nat k + -1)) with (k - 1)%nat by lia.
  destruct (nth_tr z (k - 1)) as [trp|] eqn:Tp; cbn [bind] in H |- *; [|discriminate].
  unfold le64 in H. destruct (lt64 (tr_pcs trp) cs) eqn:C'; cbn [negb] in H |- *.
  - exact H.
  - apply bind_ok in H as (sk & S1 & H). rewrite (sz_MakeRepeated_tie _ _ _ S1). cbn [bind]. exact H.
Qed.

Lemma sz_TimeLocal_tie z hint cs c4 r f :
  size_t (vec_size (z_trans z)) -> size_t hint ->
  int64 (z_last_year z - 400) ->
  z_last_year z - 400 < fy cs <= z_last_year z ->
  time_local z hint cs c4 = OK r -> (1 <= f)%nat ->
  sz_TimeLocal (S f) z hint cs c4 = OK r.
Proof.
  intros Sz Sh I Y H Hf. unfold time_local in H. apply bind_ok in H as ([cl hint'] & M & H).
  cbn [sz_TimeLocal].
  assert (S0 : sub64 (z_last_year z) 400 = OK (z_last_year z - 400)) by (unfold sub64; apply chk64_in; exact I).
  rewrite S0. cbn [bind].
  replace ((z_last_year z - 400 <? fy cs) && (fy cs <=? z_last_year z)) with true by lia.
  destruct f as [|f']; [lia|].
  rewrite (sz_MakeTime_noext z hint cs (cl, hint') f' Sz Sh M).
  2:{ intros first last _ _. unfold ext_cond. replace (z_last_year z <? fy cs) with false by lia. apply andb_false_r. }
  cbn [bind]. rewrite k400 in H. unfold max64 in H.
  destruct (Z.quot 9223372036854775807 12622780800 <? c4) eqn:C.
  { exact H. }
  apply bind_ok in H as (offset & D1 & H). rewrite D1. cbn [bind].
  apply bind_ok in H as (limit & D2 & H). rewrite D2. cbn [bind].
  rewrite !bind_ret.
  apply bind_ok in H as (a & A1 & H). apply bind_ok in H as (b & A2 & H). apply bind_ok in H as (c & A3 & H).
  rewrite A1. cbn [bind]. rewrite A2. cbn [bind]. rewrite A3. cbn [bind]. exact H.
Qed.

(* MakeTime.  Hypotheses: the C++ types of transitions_.size() and of the hint (size_t); cs is a civil_second
   (always normalised); and - only so that the EVALUATION of TimeLocal's assert, `last_year_ - 400 < ...`, does
   not itself overflow - last_year_ - 400 is an int64 (the loader sets last_year_ to 0 or to a year within
   +-2^60 seconds of the epoch). *)
Theorem sz_MakeTime_tie z hint cs r :
  size_t (vec_size (z_trans z)) -> size_t hint ->
  valid_fields cs = true -> int64 (z_last_year z - 400) ->
  make_time z hint cs = OK r ->
  forall fuel, (3 <= fuel)%nat -> sz_MakeTime fuel z hint cs = OK r.
Proof.
  intros Sz Sh V I H fuel Hf. unfold make_time in H.
  destruct (last_opt (z_trans z)) as [last|] eqn:La; cbn [bind] in H; [|discriminate].
  apply bind_ok in H as (first & F & H).
  destruct fuel as [|f1]; [lia|].
  change (negb (lt64 cs (tr_cs first)) && le64 (tr_cs last) cs && lt64 (tr_pcs last) cs && z_extended z && (z_last_year z <? fy cs))
    with (ext_cond z cs first last) in H.
  destruct (ext_cond z cs first last) eqn:C.
  2:{ apply sz_MakeTime_noext; auto. intros first' last' F' L'.
      assert (first' = first) by congruence. assert (last' = last) by congruence. subst. exact C. }
  unfold ext_cond in C.
  apply andb_prop in C as [C C5]. apply andb_prop in C as [C C4]. apply andb_prop in C as [C C3]. apply andb_prop in C as [C1 C2].
  apply negb_true_iff in C1. unfold le64 in C2.
  destruct (last_res z last La Sz) as [Lr Lp].
  pose proof (eq_refl : vec_size (z_trans z) = Z.of_nat (length (z_trans z))) as VS.
  cbn [sz_MakeTime].
  replace (negb (vec_size (z_trans z) =? 0)) with true by lia.
  rewrite (vec_addr_0 z first F). cbn [bind].
  rewrite ptr_add_ok by lia. cbn [bind]. rewrite Z.add_0_l.
  rewrite ptr_rd_tr by lia. change (Z.to_nat 0) with 0%nat. rewrite F. cbn [bind].
  rewrite C1, Lr. cbn [bind]. rewrite C2. cbn [bind].
  replace (vec_size (z_trans z) =? 0) with false by lia. rewrite Z.eqb_refl.
  rewrite ptr_add_ok by lia. cbn [bind]. rewrite ptr_rd_tr by lia.
  replace (Z.to_nat (vec_size (z_trans z) + -1)) with (length (z_trans z) - 1)%nat by lia.
  pose proof La as La'. apply last_opt_nth in La' as [Ln _]. unfold nth_tr at 1. rewrite Ln. cbn [bind].
  rewrite C3, C4, C5. cbn [andb].
  apply bind_ok in H as (a & D1 & H). rewrite D1; cbn [bind].
  apply bind_ok in H as (b & D2 & H). rewrite D2; cbn [bind].
  apply bind_ok in H as (shift & D3 & H). rewrite D3; cbn [bind].
  apply bind_ok in H as (s & D4 & H). rewrite D4; cbn [bind].
  apply bind_ok in H as (cs' & D5 & H). rewrite sz_YearShift_tie, D5; cbn [bind].
  destruct (z_last_year z <? fy cs') eqn:C6; [discriminate|].
  (* the year of the shifted civil second *)
  assert (Y : z_last_year z - 400 < fy cs' <= z_last_year z).
  { apply chk64_ok in D1 as [-> I1]. apply chk64_ok in D2 as [-> I2]. apply chk64_ok in D3 as [-> I3]. apply chk64_ok in D4 as [-> I4].
    assert (I5 : int64 (fy cs + 400 * - (Z.quot (fy cs - z_last_year z - 1) 400 + 1))).
    { unfold year_shift in D5. apply bind_ok in D5 as (y' & Ya & _). apply chk64_ok in Ya as [_ Ya].
      replace (400 * - (Z.quot (fy cs - z_last_year z - 1) 400 + 1)) with ((Z.quot (fy cs - z_last_year z - 1) 400 + 1) * -400) by lia. exact Ya. }
    replace ((Z.quot (fy cs - z_last_year z - 1) 400 + 1) * -400) with (400 * - (Z.quot (fy cs - z_last_year z - 1) 400 + 1)) in D5 by lia.
    rewrite (FutureProofs.year_shift_ok cs _ V I5) in D5.
    apply (f_equal (fun r => match r with OK c => fy c | Err _ => 0 end)) in D5. cbn [fy] in D5.
    rewrite Z.quot_div_nonneg in * by lia.
    pose proof (Z.div_mod (fy cs - z_last_year z - 1) 400 ltac:(lia)).
    pose proof (Z.mod_pos_bound (fy cs - z_last_year z - 1) 400 ltac:(lia)). lia. }
  destruct f1 as [|f2]; [lia|].
  rewrite (sz_TimeLocal_tie z hint cs' shift r f2 Sz Sh I Y H ltac:(lia)). cbn [bind].
  destruct r; reflexivity.
Qed.

(* ------------------------------------------------------------------ *)
(* EquivTransitions: equal to the model                                *)

Theorem sz_EquivTransitions_tie z a b :
  sz_EquivTransitions z a b = equiv_transitions (z_abbrs z) (z_types z) a b.
Proof.
  unfold sz_EquivTransitions, equiv_transitions.
  destruct (a =? b); [reflexivity|].
  destruct (nth_res (z_types z) a) as [t1|]; cbn [bind]; [|reflexivity].
  destruct (nth_res (z_types z) b) as [t2|]; cbn [bind]; [|reflexivity].
  destruct (tt_off t1 =? tt_off t2); cbn [negb]; [|reflexivity].
  destruct (tt_isdst t1), (tt_isdst t2); cbn [b2z Z.eqb negb Bool.eqb]; try reflexivity.
  - destruct (tt_abbr t1 =? tt_abbr t2); cbn [negb bind]; [reflexivity|].
    destruct (cstr_from (z_abbrs z) (tt_abbr t1)); cbn [bind]; [|reflexivity].
    destruct (cstr_from (z_abbrs z) (tt_abbr t2)); cbn [bind]; [|reflexivity].
    destruct (list_eqb a0 a1); reflexivity.
  - destruct (tt_abbr t1 =? tt_abbr t2); cbn [negb bind]; [reflexivity|].
    destruct (cstr_from (z_abbrs z) (tt_abbr t1)); cbn [bind]; [|reflexivity].
    destruct (cstr_from (z_abbrs z) (tt_abbr t2)); cbn [bind]; [|reflexivity].
    destruct (list_eqb a0 a1); reflexivity.
Qed.

(* ------------------------------------------------------------------ *)
(* NextTransition / PrevTransition                                     *)

Lemma big_bang_val : big_bang = -576460752303423488.
Proof. reflexivity. Qed.

(* the model works on the list after the BIG_BANG sentinel, the source on pointers into the whole table *)
Lemma nth_skipn {A} (l : list A) b k : nth_error (skipn b l) k = nth_error l (b + k).
Proof. revert l. induction b as [|b IH]; intros [|x l]; cbn [skipn Nat.add nth_error]; auto. destruct k; reflexivity. Qed.

Lemma ptr_rd_nat z i : ptr_rd (z_trans z) (Z.of_nat i) = nth_tr z i.
Proof. rewrite ptr_rd_tr by lia. rewrite Nat2Z.id. reflexivity. Qed.

Lemma next_loop z b : forall fuel fuel' k res, (fuel <= fuel')%nat ->
  (b + k <= length (z_trans z))%nat ->
  next_scan fuel z (skipn b (z_trans z)) k = OK res ->
  exists p, sz_NextTransition_loop1 fuel' z (Z.of_nat b) (vec_size (z_trans z)) (Z.of_nat (b + k)) = OK p /\
    match res with
    | None => p = vec_size (z_trans z)
    | Some tr => 0 <= p < vec_size (z_trans z) /\ nth_tr z (Z.to_nat p) = OK tr
    end.
Proof.
  pose proof (eq_refl : vec_size (z_trans z) = Z.of_nat (length (z_trans z))) as VS.
  induction fuel as [|fuel IH]; intros fuel' k res Hf Hk H; cbn [next_scan] in H; [discriminate|].
  destruct fuel' as [|fuel']; [lia|]. cbn [sz_NextTransition_loop1].
  rewrite nth_skipn in H.
  destruct (nth_error (z_trans z) (b + k)) as [tr|] eqn:E.
  2:{ inversion H; subst res. apply nth_error_None in E.
      replace (Z.of_nat (b + k) =? vec_size (z_trans z)) with true by lia. cbn [negb]. eexists; split; [reflexivity|lia]. }
  assert (b + k < length (z_trans z))%nat as Lt by (apply nth_error_Some; congruence).
  replace (Z.of_nat (b + k) =? vec_size (z_trans z)) with false by lia. cbn [negb].
  apply bind_ok in H as (prev_ti & P & H).
  assert (PT : (if Z.of_nat (b + k) =? Z.of_nat b then OK (z_default z)
                else do t7 <- ptr_add (z_trans z) (Z.of_nat (b + k)) (-1);; do t8 <- ptr_rd (z_trans z) t7;; OK (tr_type t8)) = OK prev_ti).
  { destruct k as [|k'].
    - replace (Z.of_nat (b + 0) =? Z.of_nat b) with true by lia. exact P.
    - replace (Z.of_nat (b + S k') =? Z.of_nat b) with false by lia.
      rewrite ptr_add_ok by lia. cbn [bind].
      replace (Z.of_nat (b + S k') + -1) with (Z.of_nat (b + k')) by lia. rewrite ptr_rd_nat. unfold nth_tr.
      rewrite nth_skipn in P. destruct (nth_error (z_trans z) (b + k')); [|discriminate]. cbn [bind]. exact P. }
  rewrite PT. cbn [bind].
  rewrite ptr_add_ok by lia. cbn [bind]. rewrite Z.add_0_r. rewrite ptr_rd_nat. unfold nth_tr at 1. rewrite E. cbn [bind].
  rewrite sz_EquivTransitions_tie.
  apply bind_ok in H as (e & Eq & H). rewrite Eq. cbn [bind].
  destruct e; cbn [negb].
  - rewrite ptr_add_ok by lia. cbn [bind].
    replace (Z.of_nat (b + k) + 1) with (Z.of_nat (b + S k)) by lia.
    apply IH; [lia|lia|exact H].
  - inversion H; subst res. eexists; split; [reflexivity|]. split; [lia|]. rewrite Nat2Z.id. unfold nth_tr. rewrite E. reflexivity.
Qed.

Lemma range_search_from {A} (after : A -> bool) l b : (b <= length l)%nat ->
  range_search after l (Z.of_nat b) (vec_size l) = do k <- bound_search after (skipn b l) ;; OK (Z.of_nat (b + k)).
Proof.
  intros Hb. unfold range_search, vec_size.
  replace ((0 <=? Z.of_nat b) && (Z.of_nat b <=? Z.of_nat (length l)) && (Z.of_nat (length l) <=? Z.of_nat (length l))) with true by lia.
  rewrite Nat2Z.id. rewrite firstn_all2 by (rewrite skipn_length; lia).
  destruct (bound_search after (skipn b l)); cbn [bind]; [|reflexivity]. f_equal. lia.
Qed.

Definition next_result (res : option (fields * fields)) (f0 t0 : fields) : bool * fields * fields :=
  match res with None => (false, f0, t0) | Some (a, b) => (true, a, b) end.

Lemma next_core z t b res f0 t0 fuel :
  (b <= length (z_trans z))%nat -> (length (z_trans z) < fuel)%nat ->
  (do k <- bound_search (fun tr => t <? tr_time tr) (skipn b (z_trans z)) ;;
   do r <- next_scan (S (length (skipn b (z_trans z)))) z (skipn b (z_trans z)) k ;;
   match r with
   | None => OK None
   | Some tr => do from <- plus64 0 (tr_pcs tr) 1 ;; OK (Some (from, tr_cs tr))
   end) = OK res ->
  (do t5 <- range_search (fun e_ : transition => sz_ByUnixTime (mkTr t 0 (mkF 1970 1 1 0 0 0) (mkF 1970 1 1 0 0 0)) e_)
              (z_trans z) (Z.of_nat b) (vec_size (z_trans z)) ;;
   do tr <- sz_NextTransition_loop1 fuel z (Z.of_nat b) (vec_size (z_trans z)) t5 ;;
   if tr =? vec_size (z_trans z) then OK (false, f0, t0)
   else do t13 <- ptr_rd (z_trans z) tr ;; do t14 <- plus64 0 (tr_pcs t13) 1 ;;
        do t15 <- ptr_rd (z_trans z) tr ;; OK (true, t14, tr_cs t15)) = OK (next_result res f0 t0).
Proof.
  intros Hb Hf H.
  apply bind_ok in H as (k & B & H). apply bind_ok in H as (r & N & H).
  rewrite range_search_from by exact Hb.
  change (fun e_ : transition => sz_ByUnixTime (mkTr t 0 (mkF 1970 1 1 0 0 0) (mkF 1970 1 1 0 0 0)) e_) with (fun tr => t <? tr_time tr).
  rewrite B. cbn [bind].
  pose proof (bound_search_le _ _ _ B) as L. rewrite skipn_length in L, N.
  destruct (next_loop z b (S (length (z_trans z) - b)) fuel k r ltac:(lia) ltac:(lia) N) as (p & Lp & R).
  rewrite Lp. cbn [bind].
  destruct r as [tr|].
  - destruct R as [Rp Rt]. replace (p =? vec_size (z_trans z)) with false by lia.
    rewrite ptr_rd_tr by lia. rewrite Rt. cbn [bind].
    apply bind_ok in H as (from & P & H). rewrite P. cbn [bind]. inversion H; subst res. reflexivity.
  - subst p. rewrite Z.eqb_refl. inversion H; subst res. reflexivity.
Qed.

(* NextTransition: no hypothesis at all; [f0 t0] are the members of *trans on entry *)
Theorem sz_NextTransition_tie z t f0 t0 res :
  next_transition z t = OK res ->
  forall fuel, (length (z_trans z) < fuel)%nat ->
  sz_NextTransition fuel z t f0 t0 = OK (next_result res f0 t0).
Proof.
  intros H fuel Hf. unfold next_transition, drop_big_bang in H. unfold sz_NextTransition.
  destruct (z_trans z) as [|x r] eqn:E in H.
  { inversion H; subst res. rewrite E. reflexivity. }
  assert (F : nth_tr z 0 = OK x) by (unfold nth_tr; rewrite E; reflexivity).
  assert (L1 : (1 <= length (z_trans z))%nat) by (rewrite E; cbn [length]; lia).
  replace (vec_empty (z_trans z)) with false by (rewrite E; reflexivity).
  rewrite (vec_addr_0 z x F). cbn [bind].
  rewrite ptr_add_ok by (unfold vec_size; lia). cbn [bind]. rewrite Z.add_0_l.
  rewrite ptr_rd_tr by lia. change (Z.to_nat 0) with 0%nat. rewrite F. cbn [bind].
  rewrite big_bang_val in H.
  destruct (tr_time x <=? -576460752303423488) eqn:BB.
  - rewrite ptr_add_ok by (unfold vec_size; lia). cbn [bind].
    apply (next_core z t 1 res f0 t0 fuel L1 Hf). rewrite E. exact H.
  - cbn [bind]. apply (next_core z t 0 res f0 t0 fuel ltac:(lia) Hf). rewrite E. exact H.
Qed.

Lemma prev_loop z b : forall k k' fuel, (k < fuel)%nat -> (b + k <= length (z_trans z))%nat ->
  prev_scan z (skipn b (z_trans z)) k = OK k' ->
  sz_PrevTransition_loop2 fuel z (Z.of_nat b) (Z.of_nat (b + k)) = OK (Z.of_nat (b + k')) /\ (k' <= k)%nat.
Proof.
  pose proof (eq_refl : vec_size (z_trans z) = Z.of_nat (length (z_trans z))) as VS.
  induction k as [|k IH]; intros k' fuel Hf Hk H; cbn [prev_scan] in H.
  { inversion H; subst k'. destruct fuel as [|fuel]; [lia|]. cbn [sz_PrevTransition_loop2].
    replace (Z.of_nat (b + 0) =? Z.of_nat b) with true by lia. cbn [negb]. split; [reflexivity|lia]. }
  destruct fuel as [|fuel]; [lia|]. cbn [sz_PrevTransition_loop2].
  replace (Z.of_nat (b + S k) =? Z.of_nat b) with false by lia. cbn [negb].
  apply bind_ok in H as (cur & Cu & H). apply bind_ok in H as (prev_ti & P & H). apply bind_ok in H as (e & Eq & H).
  rewrite nth_skipn in Cu.
  rewrite ptr_add_ok by lia. cbn [bind].
  replace (Z.of_nat (b + S k) + -1) with (Z.of_nat (b + k)) by lia.
  assert (PT : (if Z.of_nat (b + k) =? Z.of_nat b then OK (z_default z)
                else do t26 <- ptr_add (z_trans z) (Z.of_nat (b + S k)) (-2);; do t27 <- ptr_rd (z_trans z) t26;; OK (tr_type t27)) = OK prev_ti).
  { destruct k as [|k0].
    - replace (Z.of_nat (b + 0) =? Z.of_nat b) with true by lia. exact P.
    - replace (Z.of_nat (b + S k0) =? Z.of_nat b) with false by lia.
      rewrite ptr_add_ok by lia. cbn [bind].
      replace (Z.of_nat (b + S (S k0)) + -2) with (Z.of_nat (b + k0)) by lia. rewrite ptr_rd_nat. unfold nth_tr.
      rewrite nth_skipn in P. destruct (nth_error (z_trans z) (b + k0)); [|discriminate]. cbn [bind]. exact P. }
  rewrite PT. cbn [bind].
  rewrite ptr_rd_nat. unfold nth_tr at 1.
  destruct (nth_error (z_trans z) (b + k)) as [c|]; [|discriminate]. cbn [bind] in Cu |- *. inversion Cu; subst c.
  rewrite sz_EquivTransitions_tie, Eq. cbn [bind].
  destruct e; cbn [negb].
  - destruct (IH k' fuel ltac:(lia) ltac:(lia) H) as [I1 I2]. rewrite I1. split; [reflexivity|lia].
  - inversion H; subst k'. split; [reflexivity|lia].
Qed.

Lemma prev_core z t b res f0 t0 fuel :
  (b <= length (z_trans z))%nat -> (length (z_trans z) < fuel)%nat ->
  (do k <- bound_search (fun tr => negb (tr_time tr <? t)) (skipn b (z_trans z)) ;;
   do k' <- prev_scan z (skipn b (z_trans z)) k ;;
   match k' with
   | O => OK None
   | S j =>
       do tr <- (match nth_error (skipn b (z_trans z)) j with Some p => OK p | None => Err OOB end) ;;
       do from <- plus64 0 (tr_pcs tr) 1 ;; OK (Some (from, tr_cs tr))
   end) = OK res ->
  (do t23 <- range_search (fun e_ : transition => negb (sz_ByUnixTime e_ (mkTr t 0 (mkF 1970 1 1 0 0 0) (mkF 1970 1 1 0 0 0))))
               (z_trans z) (Z.of_nat b) (vec_size (z_trans z)) ;;
   do tr <- sz_PrevTransition_loop2 fuel z (Z.of_nat b) t23 ;;
   if tr =? Z.of_nat b then OK (false, f0, t0)
   else do t32 <- ptr_add (z_trans z) tr (-1) ;;
        do t33 <- ptr_rd (z_trans z) t32 ;; do t34 <- plus64 0 (tr_pcs t33) 1 ;;
        do t35 <- ptr_rd (z_trans z) t32 ;; OK (true, t34, tr_cs t35)) = OK (next_result res f0 t0).
Proof.
  intros Hb Hf H.
  pose proof (eq_refl : vec_size (z_trans z) = Z.of_nat (length (z_trans z))) as VS.
  apply bind_ok in H as (k & B & H). apply bind_ok in H as (k' & N & H).
  rewrite range_search_from by exact Hb.
  change (fun e_ : transition => negb (sz_ByUnixTime e_ (mkTr t 0 (mkF 1970 1 1 0 0 0) (mkF 1970 1 1 0 0 0)))) with (fun tr => negb (tr_time tr <? t)).
  rewrite B. cbn [bind].
  pose proof (bound_search_le _ _ _ B) as L. rewrite skipn_length in L.
  destruct (prev_loop z b k k' fuel ltac:(lia) ltac:(lia) N) as [Lp Lk].
  rewrite Lp. cbn [bind].
  destruct k' as [|j].
  - replace (Z.of_nat (b + 0) =? Z.of_nat b) with true by lia. inversion H; subst res. reflexivity.
  - replace (Z.of_nat (b + S j) =? Z.of_nat b) with false by lia.
    rewrite ptr_add_ok by lia. cbn [bind].
    replace (Z.of_nat (b + S j) + -1) with (Z.of_nat (b + j)) by lia. rewrite ptr_rd_nat. unfold nth_tr.
    rewrite nth_skipn in H. destruct (nth_error (z_trans z) (b + j)) as [tr|]; cbn [bind] in H |- *; [|discriminate].
    apply bind_ok in H as (from & P & H). rewrite P. cbn [bind]. inversion H; subst res. reflexivity.
Qed.

(* PrevTransition: no hypothesis at all.  (tp is a time_point<seconds>, so the `FromUnixSeconds(unix_time) != tp`
   branch, which the model leaves out, is dead: the translation tests `unix_time =? tp` with unix_time := tp.) *)
Theorem sz_PrevTransition_tie z t f0 t0 res :
  prev_transition z t = OK res ->
  forall fuel, (length (z_trans z) < fuel)%nat ->
  sz_PrevTransition fuel z t f0 t0 = OK (next_result res f0 t0).
Proof.
  intros H fuel Hf. unfold prev_transition, drop_big_bang in H. unfold sz_PrevTransition.
  destruct (z_trans z) as [|x r] eqn:E in H.
  { inversion H; subst res. rewrite E. reflexivity. }
  assert (F : nth_tr z 0 = OK x) by (unfold nth_tr; rewrite E; reflexivity).
  assert (L1 : (1 <= length (z_trans z))%nat) by (rewrite E; cbn [length]; lia).
  replace (vec_empty (z_trans z)) with false by (rewrite E; reflexivity).
  rewrite (vec_addr_0 z x F). cbn [bind].
  rewrite ptr_add_ok by (unfold vec_size; lia). cbn [bind]. rewrite Z.add_0_l.
  rewrite ptr_rd_tr by lia. change (Z.to_nat 0) with 0%nat. rewrite F. cbn [bind].
  rewrite big_bang_val in H. rewrite Z.eqb_refl. cbn [negb].
  destruct (tr_time x <=? -576460752303423488) eqn:BB.
  - rewrite ptr_add_ok by (unfold vec_size; lia). cbn [bind].
    apply (prev_core z t 1 res f0 t0 fuel L1 Hf). rewrite E. exact H.
  - cbn [bind]. apply (prev_core z t 0 res f0 t0 fuel ltac:(lia) Hf). rewrite E. exact H.
Qed.

(* ------------------------------------------------------------------ *)
(* Composition with the refinement theorems (ZoneRefine.v): the code AS CLANG READS IT NOW computes the
   integer-level specification (ZoneZ.v) on every zone satisfying the certificate zone_ok - which the loader
   establishes (LoadCert.v) - with no out-of-bounds access, no overflow and no violated library precondition. *)
From CCTZ Require Import ZoneZ ZoneRefineDefs.

Theorem src_zone_break_meets_spec : forall z h t fuel, zone_ok z = true -> int64 t ->
  size_t (vec_size (z_trans z)) -> size_t h -> (2 <= fuel)%nat ->
  (z_extended z = false \/ (forall l, last_opt (z_trans z) = Some l -> t < tr_time l)) ->
  exists h' dst ab,
    sz_BreakTime fuel z h t = OK (mkAL (civil_of_seconds (t + zoff (abs_zone z) t)) (zoff (abs_zone z) t) dst ab, h')
    /\ info_of z (zid (abs_zone z) t) = OK (dst, ab).
Proof.
  intros z h t fuel Hok It Sz Sh Hf Hx.
  destruct (ZoneRefine.break_refines_lemma z h t Hok It Hx) as (h' & dst & ab & B & I).
  exists h', dst, ab. split; [apply sz_BreakTime_tie; auto|exact I].
Qed.

Theorem src_zone_make_meets_spec : forall z h cs fuel, zone_ok z = true -> valid_fields cs = true -> int64 (fy cs) ->
  size_t (vec_size (z_trans z)) -> size_t h -> int64 (z_last_year z - 400) -> (3 <= fuel)%nat ->
  (z_extended z = false \/ fy cs <= z_last_year z) ->
  exists h', let c := zmake (abs_zone z) (sec_of cs) in
    sz_MakeTime fuel z h cs = OK (mkCL (ZoneRefine.kind_of' (zk c)) (ZoneRefine.clamp' (zpre c)) (ZoneRefine.clamp' (ztrans c)) (ZoneRefine.clamp' (zpost c)), h').
Proof.
  intros z h cs fuel Hok V I Sz Sh Il Hf Hx.
  destruct (ZoneRefine.make_refines_lemma z h cs Hok V I Hx) as (h' & M).
  exists h'. cbv zeta in M |- *. apply sz_MakeTime_tie; auto.
Qed.

Theorem src_zone_next_meets_spec : forall z t f0 t0 fuel, zone_ok z = true -> int64 t ->
  (length (z_trans z) < fuel)%nat ->
  sz_NextTransition fuel z t f0 t0 =
    OK (match znext (eqv_types z) (NextPrevRefine.searched z) t with
        | None => (false, f0, t0)
        | Some tr => (true, civil_of_seconds (NextPrevRefine.prev_local z tr + 1), civil_of_seconds (zt_time tr + zt_off tr))
        end).
Proof.
  intros z t f0 t0 fuel Hok It Hf.
  rewrite (sz_NextTransition_tie z t f0 t0 _ (NextPrevRefine.next_refines_lemma z t Hok It) fuel Hf).
  destruct (znext (eqv_types z) (NextPrevRefine.searched z) t); reflexivity.
Qed.

Theorem src_zone_prev_meets_spec : forall z t f0 t0 fuel, zone_ok z = true -> int64 t ->
  (length (z_trans z) < fuel)%nat ->
  sz_PrevTransition fuel z t f0 t0 =
    OK (match zprev (eqv_types z) (NextPrevRefine.searched z) t with
        | None => (false, f0, t0)
        | Some tr => (true, civil_of_seconds (NextPrevRefine.prev_local z tr + 1), civil_of_seconds (zt_time tr + zt_off tr))
        end).
Proof.
  intros z t f0 t0 fuel Hok It Hf.
  rewrite (sz_PrevTransition_tie z t f0 t0 _ (NextPrevRefine.prev_refines_lemma z t Hok It) fuel Hf).
  destruct (zprev (eqv_types z) (NextPrevRefine.searched z) t); reflexivity.
Qed.

(* ------------------------------------------------------------------ *)
(* Non-vacuity: the hypotheses hold, the model returns OK and both sides compute the same values on an accepted
   EST5EDT file whose footer extends the table to 2402 (FinishZone.est_zone): instants / civil seconds before
   the table, inside it (hint stale, hint right), after it and 600 years after it (the recursive branches).  *)
Example source_zone_examples :
  let z := FinishZone.est_zone in
  size_t (vec_size (z_trans z)) /\ int64 (z_last_year z - 400) /\ z_extended z = true /\ z_last_year z = 2402 /\
  forallb (fun '(h, t) => is_ok (break_time z h t))
    [(0, -3000000000); (0, 1000000005); (1, 1000000005); (2, 1100000000); (7, 13700000000); (0, 32503680000); (3, 9000000000000000000)] = true /\
  map (fun '(h, t) => sz_BreakTime 2 z h t) [(0, -3000000000); (0, 1000000005); (1, 1000000005); (2, 1100000000); (7, 13700000000); (0, 32503680000); (3, 9000000000000000000)]
  = map (fun '(h, t) => break_time z h t) [(0, -3000000000); (0, 1000000005); (1, 1000000005); (2, 1100000000); (7, 13700000000); (0, 32503680000); (3, 9000000000000000000)] /\
  forallb (fun '(h, cs) => valid_fields cs && is_ok (make_time z h cs))
    [(0, mkF 1960 1 1 0 0 0); (0, mkF 2002 3 10 2 30 0); (2, mkF 2002 11 3 1 30 0); (1, mkF 2100 6 1 12 0 0); (0, mkF 3000 3 9 2 30 0); (5, mkF 292277026596 12 4 15 30 7)] = true /\
  map (fun '(h, cs) => sz_MakeTime 3 z h cs) [(0, mkF 1960 1 1 0 0 0); (0, mkF 2002 3 10 2 30 0); (2, mkF 2002 11 3 1 30 0); (1, mkF 2100 6 1 12 0 0); (0, mkF 3000 3 9 2 30 0); (5, mkF 292277026596 12 4 15 30 7)]
  = map (fun '(h, cs) => make_time z h cs) [(0, mkF 1960 1 1 0 0 0); (0, mkF 2002 3 10 2 30 0); (2, mkF 2002 11 3 1 30 0); (1, mkF 2100 6 1 12 0 0); (0, mkF 3000 3 9 2 30 0); (5, mkF 292277026596 12 4 15 30 7)] /\
  map (fun t => sz_NextTransition (S (length (z_trans z))) z t epoch epoch) [-3000000000; 999999999; 1000000000; 13700000000]
  = map (fun t => do r <- next_transition z t ;; OK (next_result r epoch epoch)) [-3000000000; 999999999; 1000000000; 13700000000] /\
  map (fun t => sz_PrevTransition (S (length (z_trans z))) z t epoch epoch) [-3000000000; 1000000000; 1000000001; 13700000000]
  = map (fun t => do r <- prev_transition z t ;; OK (next_result r epoch epoch)) [-3000000000; 1000000000; 1000000001; 13700000000] /\
  forallb (fun t => is_ok (next_transition z t) && is_ok (prev_transition z t)) [-3000000000; 999999999; 1000000000; 1000000001; 13700000000] = true.
Proof. vm_compute. repeat split; intros; discriminate. Qed.

Print Assumptions sz_LocalTime_tt_tie.
Print Assumptions sz_LocalTime_tr_tie.
Print Assumptions sz_YearShift_tie.
Print Assumptions sz_EquivTransitions_tie.
Print Assumptions sz_MakeUnique_tp_tie.
Print Assumptions sz_MakeUnique_i64_tie.
Print Assumptions sz_MakeSkipped_tie.
Print Assumptions sz_MakeRepeated_tie.
Print Assumptions sz_BreakTime_tie.
Print Assumptions sz_TimeLocal_tie.
Print Assumptions sz_MakeTime_tie.
Print Assumptions sz_NextTransition_tie.
Print Assumptions sz_PrevTransition_tie.
Print Assumptions src_zone_break_meets_spec.
Print Assumptions src_zone_make_meets_spec.
Print Assumptions src_zone_next_meets_spec.
Print Assumptions src_zone_prev_meets_spec.
