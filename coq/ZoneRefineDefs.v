(* ZoneRefineDefs.v — the abstraction from a loaded zone (ZoneLoad.zone, civil
   seconds as six fields, checked int64 arithmetic) to the integer level
   (ZoneZ.zz), and the boolean certificate [zone_ok] under which ZoneImpl's
   functions are proved (ZoneRefine.v) to compute exactly ZoneZ's.  The
   extracted driver evaluates zone_ok on every zone it loads. *)
From CCTZ Require Import Base Cal CivilImpl PosixImpl ZoneLoad ZoneImpl ZoneZ ZoneHist.
Local Open Scope Z_scope.

Definition off_of (z : zone) (i : Z) : Z :=
  match (if i <? 0 then None else nth_error (z_types z) (Z.to_nat i)) with
  | Some ty => tt_off ty
  | None => 0
  end.

Definition abs_zone (z : zone) : zz :=
  mkZZ (map (fun tr => mkZT (tr_time tr) (off_of z (tr_type tr)) (tr_type tr)) (z_trans z))
       (off_of z (z_default z)) (z_default z).

(* transition i shows civil_sec = T + off_i and prev_civil_sec = T - 1 + off_{i-1} *)
Fixpoint civils_ok (z : zone) (prev_off : Z) (l : list transition) : bool :=
  match l with
  | [] => true
  | tr :: r =>
      fields_eqb (tr_cs tr) (civil_of_seconds (tr_time tr + off_of z (tr_type tr)))
      && fields_eqb (tr_pcs tr) (civil_of_seconds (tr_time tr - 1 + prev_off))
      && civils_ok z (off_of z (tr_type tr)) r
  end.

(* 93599 = 25:59:59, the widest utc offset an accepted file can carry: the type
   table is bounded by a day, a POSIX-footer std offset by 24:59:59 and its
   default dst offset is one hour more (LoadCert.v proves the loader
   establishes this bound and shows it is attained beyond a day) *)
Definition type_ok (z : zone) (ty : ttype) : bool :=
  (-93599 <=? tt_off ty) && (tt_off ty <=? 93599)
  && fields_eqb (tt_cmax ty) (civil_of_seconds (max64 + tt_off ty))
  && fields_eqb (tt_cmin ty) (civil_of_seconds (min64 + tt_off ty))
  && (0 <=? tt_abbr ty) && (tt_abbr ty <=? Z.of_nat (length (z_abbrs z))).

Definition idx_ok (z : zone) (i : Z) : bool := (0 <=? i) && (i <? Z.of_nat (length (z_types z))).

Definition zone_ok (z : zone) : bool :=
  match z_trans z with [] => false | _ => true end
  && forallb (type_ok z) (z_types z)
  && idx_ok z (z_default z)
  && forallb (fun tr => idx_ok z (tr_type tr) && (- 2 ^ 59 <=? tr_time tr) && (tr_time tr <=? 2 ^ 60)) (z_trans z)
  && civils_ok z (off_of z (z_default z)) (z_trans z)
  && wfz (abs_zone z)
  (* a transition in the second half of the time line (the 2^31-1 sentinel or later) *)
  && match last_opt (z_trans z) with Some l => 0 <=? tr_time l | None => false end
  && match z_trans z with f :: _ => tr_time f <? 0 | [] => false end.

(* type equivalence as EquivTransitions computes it *)
Definition eqv_types (z : zone) (a b : Z) : bool :=
  match equiv_transitions (z_abbrs z) (z_types z) a b with OK r => r | Err _ => false end.

(* info of a type *)
Definition info_of (z : zone) (i : Z) : res (bool * list Z) :=
  do ty <- nth_res (z_types z) i ;;
  do ab <- cstr_from (z_abbrs z) (tt_abbr ty) ;;
  OK (tt_isdst ty, ab).
