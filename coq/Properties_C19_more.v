(* Properties_C19_more.v - C19, composed END TO END over the source-derived functions (SourceNamesWhole.v, which itself uses
   the decision-rule theorems of Properties_C19.v; hence this second file): load_time_zone / local_time_zone built by
   plugging FileZoneInfoSource::Open into Load(name) into the Impl constructor into LoadTimeZone (single-threaded:
   no interference at the lock acquisitions) return - success flag, whether *tz is the UTC impl, the name it reports - what
   the decision model NameRes says, for every name, environment, file system and coherent cache. *)
From CCTZ Require Import Base FixedImpl PosixImpl ZoneLoad ZoneImpl LoaderSM NameRes SourceZone SourceLoad SourceNames SourceNamesWhole.
Local Open Scope Z_scope.
Theorem c19w_load_time_zone_whole : forall fuel e fs fresh names m c n,
  env_ok e -> file_ok fuel fs e n -> fresh <> utc_id ->
  SourceCacheProofs.cache_rep m c -> cache_coherent fs e names fresh c ->
  match NameRes.load_time_zone fs e n with
  | OK x => exists r, sn_load_time_zone_whole fuel e fs fresh m n = OK r /\ observe names fresh n r = model_obs x
  | Err _ => True
  end.
Proof. exact SourceNamesWhole.src_load_time_zone_whole. Qed.
Print Assumptions c19w_load_time_zone_whole.
Theorem c19w_local_time_zone_whole : forall fuel e fs fresh names m c,
  env_ok e -> file_ok fuel fs e (local_zone_name e) -> fresh <> utc_id ->
  SourceCacheProofs.cache_rep m c -> cache_coherent fs e names fresh c ->
  match NameRes.local_time_zone fs e with
  | OK x => exists b p m' tr',
      sn_load_time_zone_whole fuel e fs fresh m (local_zone_name e) = OK (b, p, m', tr') /\
      sn_local_time_zone_whole fuel e fs fresh m = OK (p, m', tr') /\
      observe names fresh (local_zone_name e) (b, p, m', tr') = model_obs x
  | Err _ => True
  end.
Proof. exact SourceNamesWhole.src_local_time_zone_whole. Qed.
Print Assumptions c19w_local_time_zone_whole.
Theorem c19w_utc_names_internal : forall fuel e fs fresh m,
  sn_load_time_zone_whole fuel e fs fresh m str_UTC' = OK (true, Some utc_id, m, []) /\
  sn_load_time_zone_whole fuel e fs fresh m [85; 84; 67; 48] = OK (true, Some utc_id, m, []).
Proof. exact SourceNamesWhole.src_utc_names_internal. Qed.
Print Assumptions c19w_utc_names_internal.
Theorem c19w_fixed_names_internal : forall fuel e fs fresh names m c n off,
  FixedOffsetFromName n = Some off -> off <> 0 -> has_prefix str_libc n = false ->
  env_ok e -> fresh <> utc_id -> SourceCacheProofs.cache_rep m c -> cache_coherent fs e names fresh c ->
  (exists r, sn_load_time_zone_whole fuel e fs fresh m n = OK r /\ observe names fresh n r = (true, false, n)) /\
  (forall fs', sn_load_time_zone_whole fuel e fs' fresh m n = sn_load_time_zone_whole fuel e fs fresh m n) /\
  (exists z0, reset_to_builtin_utc off = OK z0 /\
     forall fs', src_if_make fuel e fs' n = OK (Some (SInfo (SourceLoadProofs.load_result 0 z0)))).
Proof. exact SourceNamesWhole.src_fixed_names_internal. Qed.
Print Assumptions c19w_fixed_names_internal.
Theorem c19w_unresolvable_is_utc_false : forall fuel e fs fresh names m c n,
  env_ok e -> file_ok fuel fs e n -> fresh <> utc_id ->
  SourceCacheProofs.cache_rep m c -> cache_coherent fs e names fresh c ->
  FixedOffsetFromName n = None -> has_prefix str_libc n = false -> fs (zone_path e n) = None ->
  exists r, sn_load_time_zone_whole fuel e fs fresh m n = OK r /\ observe names fresh n r = (false, true, str_UTC').
Proof. exact SourceNamesWhole.src_unresolvable_is_utc_false. Qed.
Print Assumptions c19w_unresolvable_is_utc_false.
Theorem c19w_rejected_data_is_utc_false : forall fuel e fs fresh names m c n bytes,
  env_ok e -> file_ok fuel fs e n -> fresh <> utc_id ->
  SourceCacheProofs.cache_rep m c -> cache_coherent fs e names fresh c ->
  FixedOffsetFromName n = None -> has_prefix str_libc n = false ->
  fs (zone_path e n) = Some bytes -> load_bytes bytes = OK None ->
  exists r, sn_load_time_zone_whole fuel e fs fresh m n = OK r /\ observe names fresh n r = (false, true, str_UTC').
Proof. exact SourceNamesWhole.src_rejected_data_is_utc_false. Qed.
Print Assumptions c19w_rejected_data_is_utc_false.
Theorem c19w_loaded_reports_requested_name : forall fuel e fs fresh names m c n bytes z,
  env_ok e -> file_ok fuel fs e n -> fresh <> utc_id ->
  SourceCacheProofs.cache_rep m c -> cache_coherent fs e names fresh c ->
  FixedOffsetFromName n = None -> has_prefix str_libc n = false ->
  fs (zone_path e n) = Some bytes -> load_bytes bytes = OK (Some z) ->
  (exists r, sn_load_time_zone_whole fuel e fs fresh m n = OK r /\ observe names fresh n r = (true, false, n)) /\
  src_if_make fuel e fs n = OK (Some (SInfo (SourceLoadProofs.load_result 0 z))).
Proof. exact SourceNamesWhole.src_loaded_reports_requested_name. Qed.
Print Assumptions c19w_loaded_reports_requested_name.
Theorem c19w_local_fallback_utc : forall fuel e fs fresh names m c,
  env_ok e -> file_ok fuel fs e (local_zone_name e) -> fresh <> utc_id ->
  SourceCacheProofs.cache_rep m c -> cache_coherent fs e names fresh c ->
  FixedOffsetFromName (local_zone_name e) = None -> has_prefix str_libc (local_zone_name e) = false ->
  fs (zone_path e (local_zone_name e)) = None ->
  exists m' tr', sn_local_time_zone_whole fuel e fs fresh m = OK (Some utc_id, m', tr').
Proof. exact SourceNamesWhole.src_local_fallback_utc. Qed.
Print Assumptions c19w_local_fallback_utc.
