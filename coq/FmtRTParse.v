(* FmtRTParse.v — C07, component lemmas for the general format -> parse round
   trip (FmtRoundTrip.v): what each of parse()'s scanners returns on the text
   the corresponding format() specifier wrote, for the specifiers not covered
   by ParseProofs.v (%E4Y with its fixed width, %:::z with its elided fields,
   %E#S / %E#f for every #, week numbers and weekdays). *)
From CCTZ Require Import Base SrcConstants Cal CivilImpl PosixImpl ZoneLoad FormatImpl ParseImpl FmtSpec.
From CCTZ Require Import ParseProofs FmtProofs.
From Coq Require Import Lia ZifyBool.
Local Open Scope Z_scope.
Local Ltac Zify.zify_post_hook ::= Z.to_euclidean_division_equations.

(* ------------------------------------------------------------------ *)
(* ParseInt with a positive width that the digits fill exactly          *)

Lemma pil_width kmin : kmin < 0 -> forall ds k width value n,
  forallb is_digit ds = true -> ds <> [] -> Z.of_nat (length ds) = width -> value <= 0 ->
  kmin <= value * 10 ^ Z.of_nat (length ds) - digits_val ds ->
  parse_int_loop kmin (ds ++ k) width value n =
    (value * 10 ^ Z.of_nat (length ds) - digits_val ds, k, (n + length ds)%nat, false).
Proof.
  intros Hk. induction ds as [|c ds IH]; intros k width value n Hd Hne Hw Hv Hlo; [congruence|].
  cbn [forallb] in Hd. apply andb_true_iff in Hd. destruct Hd as [Hc Hd].
  cbn [app]. rewrite pil_cons, Hc. apply is_digit_range in Hc.
  cbn [length] in *. rewrite dv_cons in *. rewrite Nat2Z.inj_succ in *. rewrite Z.pow_succ_r in * by lia.
  pose proof (dv_nonneg ds Hd) as Hnn.
  assert (HP : 0 < 10 ^ Z.of_nat (length ds)) by (apply Z.pow_pos_nonneg; lia).
  set (P := 10 ^ Z.of_nat (length ds)) in *.
  assert (Hx : kmin <= value * 10 - (c - 48)) by nia.
  replace (value <? Z.quot kmin 10) with false by lia.
  replace (value * 10 <? kmin + (c - 48)) with false by lia.
  destruct ds as [|c' ds'].
  - cbn [length] in *. subst width. change (Z.succ (Z.of_nat 0)) with 1.
    change ((0 <? 1) && (1 - 1 =? 0)) with true. cbv iota.
    subst P. change (10 ^ Z.of_nat 0) with 1. rewrite dv_nil.
    match goal with |- (?a, _, ?c, _) = (?a', _, ?c', _) => replace a with a' by lia; replace c with c' by lia; reflexivity end.
  - replace ((0 <? width) && (width - 1 =? 0)) with false by (cbn [length] in Hw; lia).
    replace (0 <? width) with true by lia.
    rewrite IH; auto; try lia; [|discriminate].
    match goal with |- (?a, _, ?c, _) = (?a', _, ?c', _) => replace a with a' by lia; replace c with c' by lia; reflexivity end.
Qed.

(* zero-padded decimal of a value that fits the width *)
Lemma pad_digits w v : (1 <= w <= 40)%nat -> 0 <= v < 10 ^ Z.of_nat w ->
  length (pad_left w 48 (dec_digits v)) = w /\
  forallb is_digit (pad_left w 48 (dec_digits v)) = true /\
  digits_val (pad_left w 48 (dec_digits v)) = v.
Proof.
  intros Hw H. unfold dec_digits.
  assert (H40 : 10 ^ Z.of_nat w <= 10 ^ Z.of_nat 40) by (apply Z.pow_le_mono_r; lia).
  destruct (pp_dec_digits_fuel 40 v [] ltac:(lia)) as (ds & -> & Hd & Hdv & Hlen).
  rewrite app_nil_r. specialize (Hlen (Z.of_nat w) ltac:(lia) ltac:(lia)).
  unfold pad_left. rewrite app_length, repeat_length, forallb_app, pp_forallb_repeat, Hd, dv_app, pp_dv_repeat.
  repeat split; lia.
Qed.

(* %E4Y: exactly four characters, sign included *)
Lemma parse_E4Y y K : -999 <= y <= 9999 ->
  parse_int64 (dec_width 4 y ++ K) 4 (-999) 9999 = Some (y, K) /\ length (dec_width 4 y) = 4%nat.
Proof.
  intros Hy. unfold dec_width, parse_int64.
  destruct (Z.ltb_spec y 0) as [N|N].
  - change (4 - 1)%nat with 3%nat.
    destruct (pad_digits 3 (- y) ltac:(lia) ltac:(change (10 ^ Z.of_nat 3) with 1000; lia)) as (L & D & V).
    set (ds := pad_left 3 48 (dec_digits (- y))) in *. clearbody ds.
    split; [|cbn [length]; lia].
    rewrite parse_int_unf. cbn [app]. change (45 =? 45) with true.
    change ((4 <=? 0) || negb (4 - 1 =? 0)) with true. change (if 4 <=? 0 then 4 else 4 - 1) with 3.
    cbv beta iota zeta.
    rewrite (pil_width min64 ltac:(reflexivity) ds K 3 0 0%nat); auto; try lia.
    + rewrite L, V. cbv beta iota. change (Nat.eqb (0 + 3) 0) with false. cbn [negb andb orb].
      replace (0 * 10 ^ Z.of_nat 3 - - y) with y by lia.
      replace (y =? 0) with false by lia. cbn [negb].
      replace ((-999 <=? y) && (y <=? 9999)) with true by lia. reflexivity.
    + intros ->. discriminate.
    + rewrite L, V. unfold min64. lia.
  - destruct (pad_digits 4 y ltac:(lia) ltac:(change (10 ^ Z.of_nat 4) with 10000; lia)) as (L & D & V).
    set (ds := pad_left 4 48 (dec_digits y)) in *. clearbody ds.
    split; [|exact L].
    rewrite parse_int_unf.
    destruct ds as [|c ds']; [discriminate|].
    assert (Hc : 48 <= c <= 57).
    { cbn [forallb] in D. apply andb_true_iff in D. apply is_digit_range. tauto. }
    cbn [app]. replace (c =? 45) with false by lia. cbv beta iota zeta.
    change (c :: ds' ++ K) with ((c :: ds') ++ K).
    rewrite (pil_width min64 ltac:(reflexivity) (c :: ds') K 4 0 0%nat); auto; try lia.
    + rewrite L, V. cbv beta iota. change (Nat.eqb (0 + 4) 0) with false. cbn [negb andb orb].
      replace (0 * 10 ^ Z.of_nat 4 - y) with (- y) by lia.
      replace (- y =? min64) with false by (unfold min64; lia). cbn [negb].
      rewrite Z.opp_involutive.
      replace ((-999 <=? y) && (y <=? 9999)) with true by lia. reflexivity.
    + discriminate.
    + rewrite L, V. unfold min64. lia.
Qed.

(* ------------------------------------------------------------------ *)
(* one- and two-digit numbers read with width 0                         *)

Lemma dec_small v : 0 <= v <= 9 -> dec v = [48 + v].
Proof.
  intros H.
  assert (E : v = 0 \/ v = 1 \/ v = 2 \/ v = 3 \/ v = 4 \/ v = 5 \/ v = 6 \/ v = 7 \/ v = 8 \/ v = 9) by lia.
  repeat (destruct E as [->|E]; [reflexivity|]). subst; reflexivity.
Qed.

Lemma parse_small v K lo hi : 0 <= v <= 9 -> lo <= v <= hi -> no_digit_head' K ->
  parse_int32 (dec v ++ K) 0 lo hi = Some (v, K).
Proof.
  intros Hv Hr HK. rewrite dec_small by lia. unfold parse_int32.
  apply pp_parse_pos; auto; try reflexivity; try discriminate.
  - cbn [forallb]. rewrite is_digit_48 by lia. reflexivity.
  - rewrite dv_cons, dv_nil. cbn [length]. lia.
  - unfold min32. lia.
Qed.

Lemma dec2_eq' v : 0 <= v <= 99 -> dec2 v = [48 + v / 10; 48 + v mod 10].
Proof.
  intros H. pose proof (format02d_ok v H) as A. rewrite pp_format02d in A by lia. congruence.
Qed.

Lemma parse_two_w0 v K lo hi : 0 <= v <= 99 -> lo <= v <= hi -> no_digit_head' K ->
  parse_int32 (dec2 v ++ K) 0 lo hi = Some (v, K).
Proof.
  intros Hv Hr HK. rewrite dec2_eq' by lia. unfold parse_int32.
  apply pp_parse_pos; auto; try reflexivity; try discriminate.
  - cbn [forallb]. rewrite !is_digit_48 by lia. reflexivity.
  - rewrite !dv_cons, dv_nil. cbn [length]. change (10 ^ Z.of_nat 1) with 10. change (10 ^ Z.of_nat 0) with 1. lia.
  - unfold min32. lia.
Qed.

(* ------------------------------------------------------------------ *)
(* ParseSubSeconds on any run of digits                                 *)

Definition sub_val (ds : list Z) : Z :=
  digits_val (firstn 15 ds) * 10 ^ (15 - Z.of_nat (length (firstn 15 ds))).

Lemma subsec_loop_pre : forall ds rest v exp n, forallb is_digit ds = true ->
  exp + Z.of_nat (length ds) <= 15 ->
  subsec_loop (ds ++ rest) v exp n =
  subsec_loop rest (v * 10 ^ Z.of_nat (length ds) + digits_val ds) (exp + Z.of_nat (length ds)) (n + length ds)%nat.
Proof.
  induction ds as [|c ds IH]; intros rest v exp n Hd He.
  - cbn [app length]. rewrite dv_nil, Nat.add_0_r.
    replace (v * 10 ^ Z.of_nat 0 + 0) with v by (cbn; lia). replace (exp + Z.of_nat 0) with exp by lia.
    reflexivity.
  - cbn [forallb] in Hd. apply andb_true_iff in Hd. destruct Hd as [Hc Hd].
    cbn [app subsec_loop]. rewrite Hc. cbn [length] in *. rewrite Nat2Z.inj_succ in *.
    replace (exp <? 15) with true by lia. rewrite IH by (auto; lia).
    rewrite dv_cons, Z.pow_succ_r by lia.
    set (P := 10 ^ Z.of_nat (length ds)). clearbody P.
    f_equal; lia.
Qed.

Lemma subsec_loop_sat : forall ds k v n, forallb is_digit ds = true -> no_digit_head' k ->
  subsec_loop (ds ++ k) v 15 n = (v, 15, k, (n + length ds)%nat).
Proof.
  induction ds as [|c ds IH]; intros k v n Hd Hk.
  - cbn [app length]. rewrite Nat.add_0_r. destruct k as [|c k]; [reflexivity|].
    cbn [subsec_loop]. cbn in Hk. rewrite Hk. reflexivity.
  - cbn [forallb] in Hd. apply andb_true_iff in Hd. destruct Hd as [Hc Hd].
    cbn [app subsec_loop]. rewrite Hc. change (15 <? 15) with false. cbv iota.
    rewrite IH by auto. cbn [length]. f_equal. lia.
Qed.

Lemma forallb_firstn {A} (p : A -> bool) n l : forallb p l = true -> forallb p (firstn n l) = true.
Proof.
  revert n. induction l as [|a l IH]; intros n H; [destruct n; reflexivity|].
  destruct n; [reflexivity|]. cbn [firstn forallb] in *. apply andb_true_iff in H. destruct H as [H1 H2].
  rewrite H1, IH by assumption. reflexivity.
Qed.
Lemma forallb_skipn {A} (p : A -> bool) n l : forallb p l = true -> forallb p (skipn n l) = true.
Proof.
  revert n. induction l as [|a l IH]; intros n H; [destruct n; reflexivity|].
  destruct n; [exact H|]. cbn [skipn forallb] in *. apply andb_true_iff in H. destruct H as [H1 H2].
  apply IH. assumption.
Qed.

Lemma parse_subseconds_digits ds k : forallb is_digit ds = true -> ds <> [] -> no_digit_head' k ->
  parse_subseconds (ds ++ k) = OK (Some (sub_val ds, k)).
Proof.
  intros Hd Hne Hk. unfold parse_subseconds, sub_val.
  rewrite <- (firstn_skipn 15 ds) at 1.
  pose proof (forallb_firstn is_digit 15 ds Hd) as Ha.
  pose proof (forallb_skipn is_digit 15 ds Hd) as Hb.
  pose proof (firstn_length 15 ds) as La. pose proof (skipn_length 15 ds) as Lb.
  assert (Hlen : length ds = (length (firstn 15 ds) + length (skipn 15 ds))%nat)
    by (rewrite <- app_length, firstn_skipn; reflexivity).
  set (a := firstn 15 ds) in *. set (b := skipn 15 ds) in *.
  assert (Hn : length ds <> 0%nat) by (destruct ds; [congruence|cbn [length]; lia]).
  clearbody a b.
  rewrite <- app_assoc, subsec_loop_pre by (auto; lia).
  replace (0 * 10 ^ Z.of_nat (length a) + digits_val a) with (digits_val a) by lia.
  assert (E : subsec_loop (b ++ k) (digits_val a) (0 + Z.of_nat (length a)) (0 + length a) =
              (digits_val a, Z.of_nat (length a), k, length ds)).
  { destruct b as [|cb b'].
    - cbn [app]. cbn [length] in *. replace (0 + Z.of_nat (length a)) with (Z.of_nat (length a)) by lia.
      replace (0 + length a)%nat with (length ds) by lia.
      destruct k as [|c k]; [reflexivity|]. cbn [subsec_loop]. cbn in Hk. rewrite Hk. reflexivity.
    - assert (length a = 15%nat) by (cbn [length] in *; lia).
      replace (0 + Z.of_nat (length a)) with 15 by lia.
      rewrite subsec_loop_sat by auto. rewrite H. change (Z.of_nat 15) with 15. f_equal. lia. }
  rewrite E. clear E.
  destruct (Nat.eqb_spec (length ds) 0) as [C|_]; [contradiction|].
  pose proof (dv_nonneg a Ha) as Hnn.
  assert (Hub : digits_val a < 10 ^ Z.of_nat (length a)).
  { pose proof (subsec_loop_pre a [] 0 0 0%nat Ha ltac:(lia)) as P.
    rewrite app_nil_r in P. cbn [subsec_loop] in P.
    pose proof (subsec_loop_inv a 0 0 0%nat _ _ _ _ ltac:(lia) ltac:(change (10 ^ 0) with 1; lia) P) as Q.
    replace (0 + Z.of_nat (length a)) with (Z.of_nat (length a)) in Q by lia. lia. }
  set (e := Z.of_nat (length a)) in *. assert (He : 0 <= e <= 15) by lia. clearbody e.
  rewrite pp_kExp10 by lia. cbn [bind].
  assert (HE : 10 ^ e * 10 ^ (15 - e) = 10 ^ 15) by (rewrite <- Z.pow_add_r by lia; f_equal; lia).
  assert (HP : 0 < 10 ^ (15 - e)) by (apply Z.pow_pos_nonneg; lia).
  change (10 ^ 15) with 1000000000000000 in *.
  set (A := 10 ^ e) in *. set (B := 10 ^ (15 - e)) in *. clearbody A B.
  assert (0 <= digits_val a * B < 1000000000000000) by nia.
  unfold mul64. rewrite chk64_in by (unfold int64, min64, max64; lia). reflexivity.
Qed.

(* the rendered fractions are runs of digits *)
Lemma pad_left_digits w ds : forallb is_digit ds = true -> forallb is_digit (pad_left w 48 ds) = true.
Proof. intros H. unfold pad_left. rewrite forallb_app, pp_forallb_repeat, H. reflexivity. Qed.

Lemma dec_digits_digits v : 0 <= v < 10 ^ Z.of_nat 40 -> forallb is_digit (dec_digits v) = true /\ dec_digits v <> [].
Proof.
  intros H. unfold dec_digits.
  destruct (pp_dec_digits_fuel 40 v [] H) as (ds & E & Hd & _).
  pose proof (ddf_nonempty 39 v []) as N. rewrite E in *. rewrite app_nil_r in *.
  split; [exact Hd|]. destruct ds; [cbn [length] in N; lia|discriminate].
Qed.

Lemma frac_digits_shape fs n : 0 <= fs < 10 ^ 15 -> 1 <= n ->
  forallb is_digit (frac_digits fs n) = true /\ frac_digits fs n <> [].
Proof.
  intros Hfs Hn. unfold frac_digits.
  assert (H40 : 10 ^ 15 < 10 ^ Z.of_nat 40) by (vm_compute; reflexivity).
  set (n' := if 18 <? n then 18 else n). assert (Hn' : 1 <= n' <= 18) by (subst n'; destruct (18 <? n) eqn:E; lia).
  clearbody n'.
  destruct (n' <=? 15) eqn:E.
  - assert (0 < 10 ^ (15 - n')) by (apply Z.pow_pos_nonneg; lia).
    assert (0 <= fs / 10 ^ (15 - n') <= fs).
    { split; [apply Z.div_pos; lia|]. apply Z.div_le_upper_bound; [lia|]. nia. }
    destruct (dec_digits_digits (fs / 10 ^ (15 - n')) ltac:(lia)) as [D N].
    split; [apply pad_left_digits; exact D|].
    unfold pad_left. destruct (dec_digits (fs / 10 ^ (15 - n'))); [congruence|].
    intros C. apply app_eq_nil in C. destruct C; discriminate.
  - destruct (dec_digits_digits fs ltac:(lia)) as [D N].
    split.
    + rewrite forallb_app, pad_left_digits, pp_forallb_repeat by exact D. reflexivity.
    + unfold pad_left. destruct (dec_digits fs); [congruence|].
      intros C. apply app_eq_nil in C. destruct C as [C _]. apply app_eq_nil in C. destruct C; discriminate.
Qed.

(* full precision: 15 digits or more give back the femtoseconds *)
Lemma sub_val_full fs n : 0 <= fs < 10 ^ 15 -> 15 <= n -> sub_val (frac_digits fs n) = fs.
Proof.
  intros Hfs Hn.
  assert (E15 : sub_val (frac_digits fs 15) = fs).
  { destruct (subsec_roundtrip_lemma fs [] Hfs I) as [R _].
    destruct (frac_digits_shape fs 15 Hfs ltac:(lia)) as [D N].
    rewrite (parse_subseconds_digits _ [] D N I) in R. congruence. }
  destruct (pp_pad15 fs Hfs) as (L & _ & _).
  assert (F15 : frac_digits fs 15 = pad_left 15 48 (dec_digits fs)).
  { unfold frac_digits. change (18 <? 15) with false. cbv iota. change (15 <=? 15) with true. cbv iota.
    change (Z.to_nat 15) with 15%nat. change (10 ^ (15 - 15)) with 1. rewrite Z.div_1_r. reflexivity. }
  destruct (Z.eq_dec n 15) as [->|Hne]; [exact E15|].
  rewrite <- E15 at 2. rewrite F15. unfold frac_digits.
  set (n' := if 18 <? n then 18 else n). assert (Hn' : 16 <= n' <= 18) by (subst n'; destruct (18 <? n) eqn:E; lia).
  replace (n' <=? 15) with false by lia.
  unfold sub_val. rewrite firstn_app. rewrite L.
  rewrite (firstn_all2 (n := 15)) by lia. change (15 - 15)%nat with 0%nat. cbn [firstn]. rewrite app_nil_r.
  reflexivity.
Qed.

Lemma sub_val_min fs : 0 <= fs < 10 ^ 15 ->
  sub_val (match frac_min fs with [] => [48] | d => d end) = fs.
Proof.
  intros Hfs. destruct (Z.eq_dec fs 0) as [->|Hne]; [vm_compute; reflexivity|].
  destruct (subsec_roundtrip_lemma fs [] Hfs I) as [_ R]. specialize (R Hne).
  assert (D : forallb is_digit (frac_min fs) = true).
  { destruct (pp_pad15 fs Hfs) as (_ & Hd & _). unfold frac_min.
    destruct (pp_strip (pad_left 15 48 (dec_digits fs))) as [j Hj].
    set (P := pad_left 15 48 (dec_digits fs)) in *. clearbody P.
    set (Q := rev (strip_zeros_r (rev P))) in *. clearbody Q. subst P.
    rewrite forallb_app in Hd. apply andb_true_iff in Hd. tauto. }
  destruct (frac_min fs) as [|c q] eqn:EF.
  - vm_compute in R. discriminate.
  - rewrite (parse_subseconds_digits _ [] D ltac:(discriminate) I) in R. congruence.
Qed.

(* ------------------------------------------------------------------ *)
(* %:::z : the elided forms                                             *)

Lemma parseoffset_cccz off k : -86400 < off < 86400 -> no_offset_cont' 58 k ->
  fmt_parse_offset (render_offset off [58] true true ++ k) 58 = Some (off, k).
Proof.
  intros Ho Hk.
  assert (Ho' : -93599 <= off <= 93599) by lia.
  assert (Ha : 0 <= Z.abs off < 86400) by lia.
  destruct (Z.eq_dec (Z.abs off mod 60) 0) as [Es|Es].
  2:{ (* seconds shown: the same text as %::z *)
      assert (E : render_offset off [58] true true = render_offset off [58] true false).
      { unfold render_offset, off_parts.
        replace (Z.abs off mod 60 =? 0) with false by lia. rewrite andb_false_r. reflexivity. }
      rewrite E. apply parseoffset_formatoffset_full_lemma; auto. apply format_offset_ccz; lia. }
  destruct (Z.eq_dec ((Z.abs off / 60) mod 60) 0) as [Em|Em].
  2:{ (* minutes shown: the same text as %:z *)
      assert (E : render_offset off [58] true true = render_offset off [58] false false).
      { unfold render_offset, off_parts.
        replace (Z.abs off mod 60 =? 0) with true by lia.
        replace ((Z.abs off / 60) mod 60 =? 0) with false by lia. rewrite andb_false_r, andb_false_l.
        rewrite app_nil_r. reflexivity. }
      rewrite E.
      destruct (parseoffset_formatoffset_minutes_lemma off k _ [58] 58 Ho (or_intror (conj eq_refl eq_refl)) Hk
                  (format_offset_cz off Ho')) as (off' & P & E1 & E2).
      rewrite P. f_equal. f_equal. lia. }
  (* hours only *)
  assert (Hoff : off = if off <? 0 then - (Z.abs off / 3600 * 3600) else Z.abs off / 3600 * 3600)
    by (destruct (off <? 0) eqn:E; lia).
  assert (Hh : 0 <= Z.abs off / 3600 <= 23) by lia.
  unfold render_offset, off_parts.
  replace (Z.abs off mod 60 =? 0) with true by lia.
  replace ((Z.abs off / 60) mod 60 =? 0) with true by lia.
  cbn [andb]. rewrite !app_nil_r.
  set (hh := Z.abs off / 3600) in *. clearbody hh.
  rewrite dec2_eq' by lia. cbn [app].
  unfold fmt_parse_offset.
  assert (Esg : ((if off <? 0 then 45 else 43) =? 43) || ((if off <? 0 then 45 else 43) =? 45) = true)
    by (destruct (off <? 0); reflexivity).
  rewrite Esg. unfold parse_int32.
  change (rng src_parse_off_hh 0) with 0. change (rng src_parse_off_hh 1) with 23.
  change (rng src_parse_off_mm 0) with 0. change (rng src_parse_off_mm 1) with 59.
  rewrite pp_parse_fmt02 by (unfold min32; lia). rewrite consumed2_cons.
  assert (Hap : match k with c :: r => if negb (58 =? 0) && (c =? 58) then r else k | [] => k end = k).
  { destruct k as [|c r]; [reflexivity|]. cbn in Hk. destruct Hk as [_ [Hk|Hk]]; [discriminate|].
    replace (c =? 58) with false by lia. reflexivity. }
  rewrite Hap.
  rewrite pp_parse_none; [|reflexivity|destruct k; cbn in *; tauto|lia].
  f_equal. f_equal. destruct (off <? 0); cbn [Z.eqb Pos.eqb]; lia.
Qed.

(* ------------------------------------------------------------------ *)
(* %e : the blank-padded day                                            *)


Definition le_check (d : Z) : bool :=
  list_eqb (pad_left 2 32 (dec_digits d)) (if d <? 10 then [32; 48 + d] else [48 + d / 10; 48 + d mod 10]).
Lemma le_sweep : forallb le_check (zrange 1 31) = true.
Proof. vm_compute. reflexivity. Qed.

Lemma list_eqb_eq : forall a b : list Z, list_eqb a b = true -> a = b.
Proof.
  induction a as [|x a IH]; intros [|y b] H; try reflexivity; try (cbn in H; discriminate).
  cbn [list_eqb] in H. apply andb_true_iff in H. destruct H as [H1 H2].
  f_equal; [lia|apply IH; exact H2].
Qed.

Lemma Le_render d : 1 <= d <= 31 ->
  pad_left 2 32 (dec_digits d) = if d <? 10 then [32; 48 + d] else [48 + d / 10; 48 + d mod 10].
Proof.
  intros H. pose proof le_sweep as S. rewrite forallb_forall in S.
  apply list_eqb_eq. apply (S d). apply zrange_In. lia.
Qed.

(* one digit read with width 1 *)
Lemma parse_w1 d K : 1 <= d <= 9 -> parse_int32 ((48 + d) :: K) 1 1 9 = Some (d, K).
Proof.
  intros Hd. unfold parse_int32. rewrite parse_int_unf.
  replace (48 + d =? 45) with false by lia. cbv beta iota zeta.
  change ((48 + d) :: K) with ([48 + d] ++ K).
  rewrite (pil_width min32 ltac:(reflexivity) [48 + d] K 1 0 0%nat); auto; try lia.
  - cbn [length Nat.add]. rewrite dv_cons, dv_nil. cbn [length]. change (10 ^ Z.of_nat 0) with 1.
    change (10 ^ Z.of_nat 1) with 10. cbv beta iota. cbn [Nat.eqb negb andb orb].
    replace (0 * 10 - ((48 + d - 48) * 1 + 0) =? min32) with false by (unfold min32; lia). cbn [negb].
    replace (- (0 * 10 - ((48 + d - 48) * 1 + 0))) with d by lia.
    replace ((1 <=? d) && (d <=? 9)) with true by lia. reflexivity.
  - cbn [forallb]. rewrite is_digit_48 by lia. reflexivity.
  - discriminate.
  - rewrite dv_cons, dv_nil. cbn [length]. unfold min32. lia.
Qed.

(* one digit read with width 2 when no digit follows *)
Lemma parse_w2_one d K lo hi : 1 <= d <= 9 -> lo <= d <= hi -> no_digit_head' K ->
  parse_int32 ((48 + d) :: K) 2 lo hi = Some (d, K).
Proof.
  intros Hd Hr HK. unfold parse_int32. rewrite parse_int_unf.
  replace (48 + d =? 45) with false by lia. cbv beta iota zeta.
  rewrite pil_cons, is_digit_48 by lia.
  replace (0 <? Z.quot min32 10) with false by (unfold min32; lia).
  replace (0 * 10 <? min32 + (48 + d - 48)) with false by (unfold min32; lia).
  change ((0 <? 2) && (2 - 1 =? 0)) with false. change (if 0 <? 2 then 2 - 1 else 2) with 1.
  cbv beta iota.
  assert (E : parse_int_loop min32 K 1 (0 * 10 - (48 + d - 48)) 1 = (0 * 10 - (48 + d - 48), K, 1%nat, false)).
  { destruct K as [|c K']; [reflexivity|]. rewrite pil_cons. cbn in HK. rewrite HK. reflexivity. }
  rewrite E. cbv beta iota. cbn [Nat.eqb negb andb orb].
  replace (0 * 10 - (48 + d - 48) =? min32) with false by (unfold min32; lia). cbn [negb].
  replace (- (0 * 10 - (48 + d - 48))) with d by lia.
  replace ((lo <=? d) && (d <=? hi)) with true by lia. reflexivity.
Qed.
