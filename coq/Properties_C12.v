(* Properties_C12.v — C12: loading arbitrary bytes.  The logic of the loader is
   a total Gallina function of the byte list (termination and determinism of
   the modelled logic are by construction); what is proved: *)
From CCTZ Require Import Base SrcConstants Cal CivilImpl PosixImpl PosixSpec PosixProofs ZoneLoad ZoneImpl ZoneHist ZoneSelect LoadSafe.
Local Open Scope Z_scope.

(* the footer parser never leaves a field unset that ExtendTransitions reads *)
Theorem c12_footer_determined : forall s r, ParsePosixSpec s = Some r -> ptz_determined r = true.
Proof. exact posix_determined_lemma. Qed.
Print Assumptions c12_footer_determined.

(* acceptance establishes the two sort orders every query relies on *)
Theorem c12_accept_sorted : forall bs z, load_bytes bs = OK (Some z) -> table_sorted z = true.
Proof. exact accept_sorted_lemma. Qed.
Print Assumptions c12_accept_sorted.

(* hence on EVERY accepted zone, for every argument, no search is undefined *)
Theorem c12_accepted_searches_defined : forall bs z h t cs, load_bytes bs = OK (Some z) ->
  break_time z h t <> Err Precond /\ make_time z h cs <> Err Precond /\
  next_transition z t <> Err Precond /\ prev_transition z t <> Err Precond.
Proof.
  intros bs z h t cs H. apply searches_meet_precondition_lemma. exact (accept_sorted_lemma bs z H).
Qed.
Print Assumptions c12_accepted_searches_defined.

(* acceptance implies every transition time is within +-2^59, at most 2+timecnt+804 entries *)
Theorem c12_accept_bounds : forall bs z, load_bytes bs = OK (Some z) ->
  z_trans z <> [] /\ Forall (fun tr => - 2 ^ 59 <= tr_time tr <= 2 ^ 60) (z_trans z).
Proof. exact accept_bounds_lemma. Qed.
Print Assumptions c12_accept_bounds.

(* TOTALITY of the loader's logic: for EVERY list of bytes the modelled Load()
   returns accept or reject - it never reads out of bounds, never reads an
   unset field, never overflows a 64-bit integer, never violates a search
   precondition and never runs out of the stated loop fuel. *)
Theorem c12_load_total : forall bs, all_bytes bs = true -> exists r, load_bytes bs = OK r.
Proof. exact load_total_bytes_lemma. Qed.
Print Assumptions c12_load_total.

From CCTZ Require Import ZoneZ ZoneRefineDefs ZoneRefine LoadCert.

(* ACCEPTANCE ESTABLISHES THE CERTIFICATE: every structural clause of zone_ok holds for every
   accepted byte string; with the property's own side condition on the data (gaps_wide) the whole
   certificate holds, so the zone theorems of C01/C02/C03/C06/C10/C11/C14 apply to every accepted file *)
Theorem c12_load_establishes_structure : forall bs z,
  load_bytes bs = OK (Some z) -> zone_struct_ok z = true.
Proof. exact load_establishes_structure_lemma. Qed.
Print Assumptions c12_load_establishes_structure.

Theorem c12_load_establishes_certificate : forall bs z, load_bytes bs = OK (Some z) ->
  gaps_wide (zz_doff (abs_zone z)) (zz_tr (abs_zone z)) = true -> zone_ok z = true.
Proof. exact load_establishes_certificate_lemma. Qed.
Print Assumptions c12_load_establishes_certificate.


From CCTZ Require Import SourcePosix SourceDecode SourceDecodeProofs.

(* SOURCE-DERIVED byte decoders (SourceDecode.v, regenerated from clang's AST of Decode8/32/64 in
   src/time_zone_info.cc on every run: shifts, ors, unsigned arithmetic modulo 2^64, checked conversions):
   equal to the model's big-endian two's-complement decoders on every byte buffer *)
Theorem src_decode32_tie : forall fuel buf cp, SourceDecodeProofs.bytes_ok buf -> 0 <= cp -> cp + 4 <= blen buf -> (5 <= fuel)%nat ->
  sd_Decode32 fuel buf cp = OK (decode32 (firstn 4 (skipn (Z.to_nat cp) buf))).
Proof. exact sd_Decode32_tie. Qed.
Print Assumptions src_decode32_tie.

Theorem src_decode64_tie : forall fuel buf cp, SourceDecodeProofs.bytes_ok buf -> 0 <= cp -> cp + 8 <= blen buf -> (9 <= fuel)%nat ->
  sd_Decode64 fuel buf cp = OK (decode64 (firstn 8 (skipn (Z.to_nat cp) buf))).
Proof. exact sd_Decode64_tie. Qed.
Print Assumptions src_decode64_tie.

From CCTZ Require Import C10Whole.
(* second half of C12 ("... or yields a zone on which every lookup, conversion and transition query is likewise well-defined"):
   true of every accepted file inside shift_safe, and FALSE without it - findings F9/F9b, machine-checked *)
Theorem c12_accepted_zone_total : forall bs z,
  load_bytes bs = OK (Some z) -> shift_safe z = true ->
  (forall hint t, int64 t -> exists r, break_time z hint t = OK r) /\
  (forall hint cs, valid_fields cs = true -> int64 (fy cs) -> exists r, make_time z hint cs = OK r) /\
  (forall hint cs, valid_fields cs = true -> int64 (fy cs) -> exists r, convert_cs z hint cs = OK r) /\
  (forall t, int64 t -> exists r, next_transition z t = OK r) /\
  (forall t, int64 t -> exists r, prev_transition z t = OK r).
Proof. exact C10Whole.c10_total_every_accepted_file. Qed.
Print Assumptions c12_accepted_zone_total.
Theorem c12_every_query_defined_refuted :
  ~ (forall bs, all_bytes bs = true ->
       load_bytes bs = OK None \/
       exists z, load_bytes bs = OK (Some z) /\
         (forall hint t, int64 t -> exists r, break_time z hint t = OK r)).
Proof. exact C10Whole.c12_every_query_defined_refuted. Qed.
Print Assumptions c12_every_query_defined_refuted.

From CCTZ Require Import SourceDecodeProofs SourceLoad SourceLoadProofs.
(* THE LOADER AS CLANG READS IT NOW (SourceLoad.v, regenerated by gen/ast_translate_load.py from the current
   time_zone_info.cc: Header::Build, Header::DataLength, GetTransitionType, ExtendTransitions and Load(ZoneInfoSource *zip)
   itself - the source as a byte list + cursor, unset header members as Err Uninit, vector aliases invalidated on resize,
   byte pointers with strict bounds): whatever the hand-written load_bytes decides for a byte string - accept with zone z,
   or reject - the source-derived Load decides the same and builds the same zone. *)
Theorem c12_src_load_accepts : forall bs z ver zver d0 a0 f0 e0 ly0 fuel,
  bytes_ok bs -> Z.of_nat (length bs) < 2 ^ 62 -> (length bs + 1300 <= fuel)%nat ->
  load_bytes bs = OK (Some z) ->
  exists ver' rest, sl_Load fuel (mkZone [] [] d0 a0 f0 e0 ly0) ver bs zver = OK (true, load_result ly0 z, ver', rest).
Proof. exact sl_Load_accepts. Qed.
Print Assumptions c12_src_load_accepts.
Theorem c12_src_load_rejects : forall bs ver zver d0 a0 f0 e0 ly0 fuel,
  bytes_ok bs -> Z.of_nat (length bs) < 2 ^ 62 -> (length bs + 1300 <= fuel)%nat ->
  load_bytes bs = OK None ->
  exists z' ver' rest, sl_Load fuel (mkZone [] [] d0 a0 f0 e0 ly0) ver bs zver = OK (false, z', ver', rest).
Proof. exact sl_Load_rejects. Qed.
Print Assumptions c12_src_load_rejects.
