(* TranslatedProofs.v — the functions translated from clang's AST of the
   CURRENT source (Translated.v, regenerated every run) compute what the
   hand-written checked-int64 model computes: whenever the model returns OK v,
   v is the translated function's value (and for the total leaf functions they
   are equal outright).  A change to one of these functions in /repo changes
   Translated.v and makes the corresponding lemma fail to compile. *)
From CCTZ Require Import Base Cal SrcConstants CivilImpl Translated.
Require Import ZifyBool.
Local Open Scope Z_scope.

Lemma b2z_same b : Translated.b2z b = CivilImpl.b2z b.
Proof. reflexivity. Qed.

Ltac bools :=
  repeat match goal with
  | |- context [if ?b then _ else _] => destruct b eqn:?
  | H : context [if ?b then _ else _] |- _ => destruct b eqn:?
  end.

(* invert a chain of checked operations: every bound variable equals the exact result *)
Ltac mon_inv H :=
  repeat (first
    [ apply bind_ok in H; let a := fresh "v" in let Ha := fresh "Hv" in destruct H as [a [Ha H]]
    | apply chk64_ok in H; destruct H as [? ?]; subst ]).
Ltac chk_inv :=
  repeat match goal with
  | H : add64 _ _ = OK _ |- _ => unfold add64 in H; apply chk64_ok in H; destruct H as [? ?]; subst
  | H : sub64 _ _ = OK _ |- _ => unfold sub64 in H; apply chk64_ok in H; destruct H as [? ?]; subst
  | H : mul64 _ _ = OK _ |- _ => unfold mul64 in H; apply chk64_ok in H; destruct H as [? ?]; subst
  | H : OK _ = OK _ |- _ => inversion H; clear H; subst
  end.

Lemma tr_is_leap_year_eq y : tr_is_leap_year y = CivilImpl.b2z (is_leap_year64 y).
Proof.
  unfold tr_is_leap_year, is_leap_year64, Translated.b2z, CivilImpl.b2z.
  destruct (Z.rem y 4 =? 0), (Z.rem y 100 =? 0), (Z.rem y 400 =? 0); reflexivity.
Qed.

Lemma tr_is_leap_year_bool y : negb (tr_is_leap_year y =? 0) = is_leap_year64 y.
Proof. rewrite tr_is_leap_year_eq. destruct (is_leap_year64 y); reflexivity. Qed.

Lemma tr_year_index_eq y m r : year_index64 y m = OK r -> r = tr_year_index y m.
Proof.
  unfold year_index64, tr_year_index. intros H. mon_inv H. chk_inv.
  unfold Translated.b2z, CivilImpl.b2z in *.
  destruct (2 <? m); destruct (Z.rem _ 400 <? 0); reflexivity.
Qed.

Lemma tr_days_per_century_eq yi : tr_days_per_century yi = days_per_century64 yi.
Proof.
  unfold tr_days_per_century, days_per_century64, src_days_per_century_base, Translated.b2z, CivilImpl.b2z.
  destruct (yi =? 0), (300 <? yi); reflexivity.
Qed.

Lemma tr_days_per_4years_eq yi : tr_days_per_4years yi = days_per_4years64 yi.
Proof.
  unfold tr_days_per_4years, days_per_4years64, src_days_per_4years_base, Translated.b2z, CivilImpl.b2z.
  destruct (yi =? 0), (300 <? yi), (Z.rem (yi - 1) 100 <? 96); reflexivity.
Qed.

Lemma tr_days_per_year_eq y m r : days_per_year64 y m = OK r -> r = tr_days_per_year y m.
Proof.
  unfold days_per_year64, tr_days_per_year. intros H. mon_inv H. chk_inv.
  rewrite tr_is_leap_year_bool. unfold Translated.b2z, CivilImpl.b2z. reflexivity.
Qed.

Lemma tr_days_per_month_eq y m r : days_per_month64 y m = OK r -> r = tr_days_per_month y m.
Proof.
  unfold days_per_month64, tr_days_per_month, src_k_days_per_month. intros H.
  destruct (m <? 0) eqn:Em; [discriminate|].
  destruct (nth_error _ (Z.to_nat m)) as [k|] eqn:En; [|discriminate].
  inversion H; subst; clear H.
  rewrite (nth_error_nth _ _ 0 En).
  rewrite tr_is_leap_year_eq. unfold Translated.b2z, CivilImpl.b2z.
  destruct (m =? 2), (is_leap_year64 y); reflexivity.
Qed.

Lemma tr_scale_add_eq v f a r : scale_add64 v f a = OK r -> r = tr_scale_add v f a.
Proof.
  unfold scale_add64, tr_scale_add, Translated.b2z. intros H.
  destruct (v <? 0); mon_inv H; chk_inv; reflexivity.
Qed.

Lemma tr_ymd_ord_eq y m d r : ymd_ord64 y m d = OK r -> r = tr_ymd_ord y m d.
Proof.
  unfold ymd_ord64, tr_ymd_ord, Translated.b2z. intros H.
  assert (E : (2 <? m) = negb (m <=? 2)) by (destruct (2 <? m) eqn:?, (m <=? 2) eqn:?; try reflexivity; lia).
  rewrite E in *. clear E.
  destruct (m <=? 2) eqn:E1; cbn [negb Z.eqb] in *; mon_inv H; chk_inv;
    match goal with H : (if ?b then _ else _) = OK _ |- _ => destruct b eqn:? end; chk_inv; reflexivity.
Qed.

Lemma tr_get_yearday_eq f r : get_yearday64 f = OK r -> r = tr_get_yearday (fy f) (fm f) (fd f).
Proof.
  unfold get_yearday64, tr_get_yearday, src_k_month_offsets. intros H.
  destruct (fm f <? 0) eqn:Em; [discriminate|].
  destruct (nth_error _ (Z.to_nat (fm f))) as [k|] eqn:En; [|discriminate].
  inversion H; subst; clear H.
  rewrite (nth_error_nth _ _ 0 En). rewrite tr_is_leap_year_eq.
  unfold Translated.b2z, CivilImpl.b2z. destruct (2 <? fm f), (is_leap_year64 (fy f)); reflexivity.
Qed.

Lemma tr_get_weekday_eq f r : get_weekday64 f = OK r -> r = tr_get_weekday (fy f) (fm f) (fd f).
Proof.
  unfold get_weekday64, tr_get_weekday, src_k_weekday_offsets, src_k_weekday_by_mon_off. intros H.
  destruct (fm f <? 0) eqn:Em; [discriminate|].
  destruct (nth_error _ (Z.to_nat (fm f))) as [off|] eqn:En; [|discriminate].
  match type of H with context [if ?c then None else _] => destruct c eqn:Ei end; [discriminate|].
  match type of H with context [nth_error ?l ?i] => destruct (nth_error l i) as [w|] eqn:Ew end; [|discriminate].
  inversion H; subst; clear H.
  rewrite (nth_error_nth _ _ 0 En).
  unfold Translated.b2z, CivilImpl.b2z in *.
  rewrite <- (nth_error_nth _ _ 0 Ew).
  match goal with
  | |- nth (Z.to_nat (Z.rem ?a 7 + 6)) _ _ = nth (Z.to_nat (Z.rem ?b 7 + 6)) _ _ => replace b with a by ring
  end.
  reflexivity.
Qed.
