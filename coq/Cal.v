(* Cal.v — SPEC layer: the proleptic Gregorian calendar as mathematics on Z.
   Nothing here is transcribed from cctz.  The day count is written the way a
   textbook states it: 365 days per year plus one per leap year, plus the
   cumulative month table, plus the day of the month.  Proofs are in
   CalProofs.v. *)
From CCTZ Require Import Base.
Local Open Scope Z_scope.

Definition is_leap (y : Z) : bool :=
  (y mod 4 =? 0) && (negb (y mod 100 =? 0) || (y mod 400 =? 0)).

Definition days_in_month (y m : Z) : Z :=
  if m =? 2 then (if is_leap y then 29 else 28)
  else if (m =? 4) || (m =? 6) || (m =? 9) || (m =? 11) then 30
  else 31.

Definition days_in_year (y : Z) : Z := if is_leap y then 366 else 365.

(* Days in months 1..m-1 of a non-leap year. *)
Definition cum_days (m : Z) : Z :=
  nth (Z.to_nat m) [0; 0; 31; 59; 90; 120; 151; 181; 212; 243; 273; 304; 334] 0.

(* Number of leap years in [0, y)  (negative count for y < 0). *)
Definition leaps_before (y : Z) : Z := (y + 3) / 4 - (y + 99) / 100 + (y + 399) / 400.

(* Days from 0000-01-01 to y-01-01. *)
Definition days_before_year (y : Z) : Z := 365 * y + leaps_before y.

(* Days from 1970-01-01 to y-m-d (negative before). *)
Definition days_from_civil (y m d : Z) : Z :=
  days_before_year y - days_before_year 1970
  + cum_days m + (if (2 <? m) && is_leap y then 1 else 0) + (d - 1).

Definition valid_date (y m d : Z) : bool :=
  (1 <=? m) && (m <=? 12) && (1 <=? d) && (d <=? days_in_month y m).

(* Inverse: the civil date of a day number (H. Hinnant's civil_from_days,
   on floor division).  Its correctness is *proved* against days_from_civil in
   CalProofs.v (cod_dfc, dfc_cod), so it carries no trust of its own. *)
Definition civil_of_days (z : Z) : Z * Z * Z :=
  let z := z + 719468 in
  let era := z / 146097 in
  let doe := z - era * 146097 in
  let yoe := (doe - doe / 1460 + doe / 36524 - doe / 146096) / 365 in
  let y := yoe + era * 400 in
  let doy := doe - (365 * yoe + yoe / 4 - yoe / 100) in
  let mp := (5 * doy + 2) / 153 in
  let d := doy - (153 * mp + 2) / 5 + 1 in
  let m := if mp <? 10 then mp + 3 else mp - 9 in
  ((if m <=? 2 then y + 1 else y), m, d).

(* Civil seconds ------------------------------------------------------ *)

Record fields := mkF { fy : Z; fm : Z; fd : Z; fhh : Z; fmm : Z; fss : Z }.

Definition fields_eqb (a b : fields) : bool :=
  (fy a =? fy b) && (fm a =? fm b) && (fd a =? fd b) &&
  (fhh a =? fhh b) && (fmm a =? fmm b) && (fss a =? fss b).

Definition valid_fields (f : fields) : bool :=
  valid_date (fy f) (fm f) (fd f) &&
  (0 <=? fhh f) && (fhh f <=? 23) && (0 <=? fmm f) && (fmm f <=? 59) &&
  (0 <=? fss f) && (fss f <=? 59).

(* Seconds from 1970-01-01T00:00:00 on the civil (zone-less) time line. *)
Definition sec_of (f : fields) : Z :=
  days_from_civil (fy f) (fm f) (fd f) * 86400 + fhh f * 3600 + fmm f * 60 + fss f.

Definition civil_of_seconds (s : Z) : fields :=
  let day := s / 86400 in
  let r := s mod 86400 in
  let '(y, m, d) := civil_of_days day in
  mkF y m d (r / 3600) ((r mod 3600) / 60) (r mod 60).

(* Lexicographic order on six fields. *)
Definition fields_ltb (a b : fields) : bool :=
  (fy a <? fy b) || ((fy a =? fy b) &&
  ((fm a <? fm b) || ((fm a =? fm b) &&
  ((fd a <? fd b) || ((fd a =? fd b) &&
  ((fhh a <? fhh b) || ((fhh a =? fhh b) &&
  ((fmm a <? fmm b) || ((fmm a =? fmm b) && (fss a <? fss b)))))))))).

(* THE normalisation spec (property C04): months are carried into the year
   first, then days are counted from the first of that month, then the
   time-of-day fields are added as seconds. *)
Definition carry_year (y m : Z) : Z := y + (m - 1) / 12.
Definition carry_month (m : Z) : Z := (m - 1) mod 12 + 1.
Definition norm_sec (y m d hh mm ss : Z) : Z :=
  (days_from_civil (carry_year y m) (carry_month m) 1 + (d - 1)) * 86400
  + hh * 3600 + mm * 60 + ss.
Definition norm_spec (y m d hh mm ss : Z) : fields :=
  civil_of_seconds (norm_sec y m d hh mm ss).

(* Weekday of a day number: 0 = Monday ... 6 = Sunday (cctz's enum order).
   1970-01-01 (day 0) is a Thursday (3). *)
Definition weekday_of_days (z : Z) : Z := (z + 3) mod 7.

(* Alignment: 0 second, 1 minute, 2 hour, 3 day, 4 month, 5 year. *)
Definition align_spec (tag : nat) (f : fields) : fields :=
  match tag with
  | 0%nat => f
  | 1%nat => mkF (fy f) (fm f) (fd f) (fhh f) (fmm f) 0
  | 2%nat => mkF (fy f) (fm f) (fd f) (fhh f) 0 0
  | 3%nat => mkF (fy f) (fm f) (fd f) 0 0 0
  | 4%nat => mkF (fy f) (fm f) 1 0 0 0
  | _ => mkF (fy f) 1 1 0 0 0
  end.

(* Ordinal of an aligned civil time in its own unit, and back. *)
Definition ord_spec (tag : nat) (f : fields) : Z :=
  match tag with
  | 0%nat => sec_of f
  | 1%nat => sec_of f / 60
  | 2%nat => sec_of f / 3600
  | 3%nat => days_from_civil (fy f) (fm f) (fd f)
  | 4%nat => 12 * fy f + (fm f - 1)
  | _ => fy f
  end.
Definition of_ord_spec (tag : nat) (n : Z) : fields :=
  match tag with
  | 0%nat => civil_of_seconds n
  | 1%nat => civil_of_seconds (n * 60)
  | 2%nat => civil_of_seconds (n * 3600)
  | 3%nat => civil_of_seconds (n * 86400)
  | 4%nat => mkF (n / 12) (n mod 12 + 1) 1 0 0 0
  | _ => mkF n 1 1 0 0 0
  end.
