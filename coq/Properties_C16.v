(* Properties_C16.v — C16: POSIX TZ strings: exact acceptance, fully determined result. *)
From CCTZ Require Import Base SrcConstants PosixImpl PosixSpec PosixProofs.
Local Open Scope Z_scope.

(* For every byte string without an interior NUL the parser returns exactly
   what the grammar (PosixSpec.v) denotes: same accept/reject, same fields. *)
Theorem posix_iff : forall s, nul_free s = true -> ParsePosixSpec s = posix_spec s.
Proof. exact posix_iff_lemma. Qed.
Print Assumptions posix_iff.

(* With an interior NUL only the C-string prefix is seen (std::string::c_str). *)
Theorem posix_cstr : forall s, ParsePosixSpec s = ParsePosixSpec (c_str s) /\ nul_free (c_str s) = true.
Proof. exact posix_cstr_lemma. Qed.
Print Assumptions posix_cstr.

(* On acceptance every field the consumer (ExtendTransitions) reads is set. *)
Theorem posix_determined : forall s r, ParsePosixSpec s = Some r -> ptz_determined r = true.
Proof. exact posix_determined_lemma. Qed.
Print Assumptions posix_determined.

(* the numeric bounds the proofs use are the ones in the source *)
Theorem posix_bounds_from_source :
  src_posix_offset_hours = [0; 24] /\ src_posix_time_hours = [-167; 167] /\
  src_posix_J_range = [1; 365] /\ src_posix_N_range = [0; 365] /\
  src_posix_default_time = 7200 /\ src_posix_default_dst_delta = 3600.
Proof. repeat split; reflexivity. Qed.
Print Assumptions posix_bounds_from_source.

Example c16_nonvacuous :
  let s := [69;83;84;53;69;68;84;44;77;51;46;50;46;48;44;77;49;49;46;49;46;48] in
  nul_free s = true /\ exists r, ParsePosixSpec s = Some r /\ dst_offset r = Some (-14400).
Proof. vm_compute. split; [reflexivity | eexists; split; reflexivity]. Qed.

From CCTZ Require Import SourcePosix SourcePosixProofs.

(* SOURCE-DERIVED parser (SourcePosix.v, regenerated from clang's AST of src/time_zone_posix.cc on every
   run: pointers as buffer indices, output parameters returned): for every spec string it never errs
   (no out-of-bounds read, null dereference or int overflow; fuel length+2 suffices), accepts exactly
   what the hand-written model accepts and yields the same fields *)
Theorem src_posix_parser_tie : forall spec, bytes_ok spec -> Z.of_nat (length spec) < 2 ^ 64 ->
  forall (i_dabbr : list Z) (i1 i2 i3 i4 i5 i6 i7 i8 i9 i10 i11 i12 i13 i14 i15 : Z) (i_sabbr : list Z) (i16 : Z),
  exists ok dabbr e_fmt e_j e_mm e_mw e_mwd e_n e_t doff s_fmt s_j s_mm s_mw s_mwd s_n s_t sabbr soff,
    sp_ParsePosixSpec (sp_fuel spec) spec i_dabbr i1 i2 i3 i4 i5 i6 i7 i8 i9 i10 i11 i12 i13 i14 i15 i_sabbr i16
      = OK (ok, dabbr, e_fmt, e_j, e_mm, e_mw, e_mwd, e_n, e_t, doff, s_fmt, s_j, s_mm, s_mw, s_mwd, s_n, s_t, sabbr, soff) /\
    match ParsePosixSpec spec with
    | None => ok = false
    | Some z => ok = true /\ sabbr = std_abbr z /\ std_offset z = Some soff /\
        (dst_abbr z = [] \/
         (dabbr = dst_abbr z /\ dst_offset z = Some doff /\
          agrees_trans (dst_start z) s_fmt s_j s_mm s_mw s_mwd s_n s_t /\
          agrees_trans (dst_end z) e_fmt e_j e_mm e_mw e_mwd e_n e_t))
    end.
Proof. exact sp_ParsePosixSpec_tie. Qed.
Print Assumptions src_posix_parser_tie.

