(* Properties_C16.v — C16: POSIX TZ strings: exact acceptance, fully determined result. *)
From CCTZ Require Import Base SrcConstants PosixImpl PosixSpec PosixProofs.
Local Open Scope Z_scope.

(* For every byte string without an interior NUL the parser returns exactly
   what the grammar (PosixSpec.v) denotes: same accept/reject, same fields. *)
Theorem posix_iff : forall s, nul_free s = true -> ParsePosixSpec s = posix_spec s.
Proof. exact posix_iff_lemma. Qed.
Print Assumptions posix_iff.

(* With an interior NUL only the C-string prefix is seen (std::string::c_str). *)
Theorem posix_cstr : forall s, ParsePosixSpec s = ParsePosixSpec (c_str s) /\ nul_free (c_str s) = true.
Proof. exact posix_cstr_lemma. Qed.
Print Assumptions posix_cstr.

(* On acceptance every field the consumer (ExtendTransitions) reads is set. *)
Theorem posix_determined : forall s r, ParsePosixSpec s = Some r -> ptz_determined r = true.
Proof. exact posix_determined_lemma. Qed.
Print Assumptions posix_determined.

(* the numeric bounds the proofs use are the ones in the source *)
Theorem posix_bounds_from_source :
  src_posix_offset_hours = [0; 24] /\ src_posix_time_hours = [-167; 167] /\
  src_posix_J_range = [1; 365] /\ src_posix_N_range = [0; 365] /\
  src_posix_default_time = 7200 /\ src_posix_default_dst_delta = 3600.
Proof. repeat split; reflexivity. Qed.
Print Assumptions posix_bounds_from_source.

Example c16_nonvacuous :
  let s := [69;83;84;53;69;68;84;44;77;51;46;50;46;48;44;77;49;49;46;49;46;48] in
  nul_free s = true /\ exists r, ParsePosixSpec s = Some r /\ dst_offset r = Some (-14400).
Proof. vm_compute. split; [reflexivity | eexists; split; reflexivity]. Qed.
