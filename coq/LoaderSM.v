(* LoaderSM.v — C13 / C14 (name cache) / C20: a small-step interleaving model of
   time_zone::Impl::LoadTimeZone (src/time_zone_impl.cc:49-83) at the
   granularity of its critical sections:
     S1  fixed-name shortcut; lock, find in cache, unlock (return on hit);
     S2  (no lock) construct the Impl: built-in fixed-offset zone, or call the
         zone_info_source_factory and parse the bytes;
     S3  lock, insert-if-absent, unlock, return the cached identity.
   The data source is a FUNCTION of the name (Section variable [data]).  A
   thread that has to call the factory is split into two events, Start (S1 and
   entry into the factory) and Release (rest of S2, and S3); everything else a
   thread does between those is invisible to other threads. *)
From CCTZ Require Import Base FixedImpl ZoneLoad.
Local Open Scope Z_scope.

Definition name := list Z.
Definition tid := nat.

(* identity of an Impl: 0 is the UTC impl; others are allocation numbers *)
Definition impl_id := nat.
Definition utc_id : impl_id := O.

Inductive fevent := FEnter (t : tid) (n : name) | FExit (t : tid) (n : name).

Inductive tstate :=
| TInFactory (n : name)                       (* parked inside the factory call *)
| TDone (ok : bool) (id : impl_id).           (* load_time_zone returned *)

Record lstate := mkLS {
  ls_cache : list (name * impl_id);           (* time_zone_map (never holds "UTC"/"UTC0"/zero-offset names) *)
  ls_next : impl_id;                          (* next fresh identity *)
  ls_impls : list (impl_id * name);           (* constructed Impls that were published: id -> name_ *)
  ls_log : list fevent;                       (* factory log, oldest first *)
  ls_thr : list (tid * tstate);               (* latest state of each thread *)
  ls_results : list (tid * name * bool * impl_id)   (* every completed load, oldest first *)
}.

Definition ls0 : lstate := mkLS [] 1%nat [] [] [] [].


Fixpoint cache_find (c : list (name * impl_id)) (n : name) : option impl_id :=
  match c with
  | [] => None
  | (k, v) :: r => if list_eqb k n then Some v else cache_find r n
  end.

Fixpoint set_thr (l : list (tid * tstate)) (t : tid) (s : tstate) : list (tid * tstate) :=
  match l with
  | [] => [(t, s)]
  | (k, v) :: r => if Nat.eqb k t then (t, s) :: r else (k, v) :: set_thr r t s
  end.
Fixpoint get_thr (l : list (tid * tstate)) (t : tid) : option tstate :=
  match l with
  | [] => None
  | (k, v) :: r => if Nat.eqb k t then Some v else get_thr r t
  end.

Inductive event := Start (t : tid) (n : name) | Release (t : tid).

Section Loader.
Variable data : name -> option (list Z).       (* the zone data source *)

(* does constructing an Impl for [n] succeed?  (new_impl->zone_ != nullptr) *)
Definition construct_ok (n : name) : bool :=
  match load_name data n with OK (Some _) => true | _ => false end.

(* S3: publish under the lock *)
Definition publish (s : lstate) (t : tid) (n : name) (ok : bool) (log : list fevent) : lstate :=
  match cache_find (ls_cache s) n with
  | Some id =>
      (* lost the race (or was cached meanwhile): use the cached identity *)
      mkLS (ls_cache s) (ls_next s) (ls_impls s) log (set_thr (ls_thr s) t (TDone (negb (Nat.eqb id utc_id)) id))
           (ls_results s ++ [(t, n, negb (Nat.eqb id utc_id), id)])
  | None =>
      if ok then
        let id := ls_next s in
        mkLS ((n, id) :: ls_cache s) (S id) ((id, n) :: ls_impls s) log
             (set_thr (ls_thr s) t (TDone true id)) (ls_results s ++ [(t, n, true, id)])
      else
        mkLS ((n, utc_id) :: ls_cache s) (ls_next s) (ls_impls s) log
             (set_thr (ls_thr s) t (TDone false utc_id)) (ls_results s ++ [(t, n, false, utc_id)])
  end.

Definition step (s : lstate) (e : event) : lstate :=
  match e with
  | Start t n =>
      match get_thr (ls_thr s) t with
      | Some (TInFactory _) => s                        (* a parked thread cannot start another load *)
      | _ =>
        match FixedOffsetFromName n with
        | Some 0 =>
            (* S1 shortcut: UTC, never cached, no factory *)
            mkLS (ls_cache s) (ls_next s) (ls_impls s) (ls_log s) (set_thr (ls_thr s) t (TDone true utc_id))
                 (ls_results s ++ [(t, n, true, utc_id)])
        | fx =>
          match cache_find (ls_cache s) n with
          | Some id =>
              mkLS (ls_cache s) (ls_next s) (ls_impls s) (ls_log s)
                   (set_thr (ls_thr s) t (TDone (negb (Nat.eqb id utc_id)) id))
                   (ls_results s ++ [(t, n, negb (Nat.eqb id utc_id), id)])
          | None =>
              match fx with
              | Some _ =>
                  (* fixed-offset name: S2 builds the zone without the factory; S3 follows at once *)
                  publish s t n (construct_ok n) (ls_log s)
              | None =>
                  (* S2: enter the factory and park *)
                  mkLS (ls_cache s) (ls_next s) (ls_impls s) (ls_log s ++ [FEnter t n])
                       (set_thr (ls_thr s) t (TInFactory n)) (ls_results s)
              end
          end
        end
      end
  | Release t =>
      match get_thr (ls_thr s) t with
      | Some (TInFactory n) => publish s t n (construct_ok n) (ls_log s ++ [FExit t n])
      | _ => s
      end
  end.

Definition exec (es : list event) : lstate := fold_left step es ls0.
Definition exec_from (s : lstate) (es : list event) : lstate := fold_left step es s.

(* ---- observations ---- *)
Definition entries_for (log : list fevent) (n : name) : nat :=
  length (filter (fun e => match e with FEnter _ m => list_eqb m n | _ => false end) log).

(* two factory invocations overlap: an Enter while another thread is inside *)
Fixpoint overlap_aux (log : list fevent) (inside : list tid) : bool :=
  match log with
  | [] => false
  | FEnter t _ :: r => (match inside with [] => false | _ => true end) || overlap_aux r (t :: inside)
  | FExit t _ :: r => overlap_aux r (filter (fun x => negb (Nat.eqb x t)) inside)
  end.
Definition overlapping (log : list fevent) : bool := overlap_aux log [].

(* a schedule without concurrency: every load runs S1..S3 before the next
   event (a Release of a thread that is not parked is a no-op) *)
Definition serial (loads : list (tid * name)) : list event :=
  flat_map (fun '(t, n) => [Start t n; Release t]) loads.

End Loader.
