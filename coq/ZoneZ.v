(* ZoneZ.v — the zone algorithms at the integer level.  A civil second is the
   integer  L = t + offset  (seconds on the zone-less civil time line; the
   calendar bijection sec_of / civil_of_seconds of Cal.v connects it to six
   fields).  A zone is a list of transitions (instant, offset in force from
   then on, type id) and the offset/type in force before the first one.
   These are the same case analyses as BreakTime / MakeTime / Next/Prev in
   ZoneImpl.v with the civil-time arithmetic replaced by + and -; ZoneRefine.v
   proves the two agree.  The property theorems about zones are proved here
   by induction over the (arbitrarily long) transition list. *)
From CCTZ Require Import Base.
Local Open Scope Z_scope.

Record ztr := mkZT { zt_time : Z; zt_off : Z; zt_id : Z }.
Record zz := mkZZ { zz_tr : list ztr; zz_doff : Z; zz_did : Z }.

(* ---- the zone as a function of the instant (the SPEC at this level) ---- *)

(* offset / type id in force at instant t: the last transition at or before t *)
Fixpoint zoff_list (l : list ztr) (cur : Z) (t : Z) : Z :=
  match l with
  | [] => cur
  | tr :: r => if zt_time tr <=? t then zoff_list r (zt_off tr) t else cur
  end.
Definition zoff (z : zz) (t : Z) : Z := zoff_list (zz_tr z) (zz_doff z) t.

Fixpoint zid_list (l : list ztr) (cur : Z) (t : Z) : Z :=
  match l with
  | [] => cur
  | tr :: r => if zt_time tr <=? t then zid_list r (zt_id tr) t else cur
  end.
Definition zid (z : zz) (t : Z) : Z := zid_list (zz_tr z) (zz_did z) t.

(* instant t displays civil second L *)
Definition displays (z : zz) (t L : Z) : Prop := t + zoff z t = L.

(* ---- well-formedness ---- *)
Fixpoint times_increasing (l : list ztr) : bool :=
  match l with
  | a :: ((b :: _) as r) => (zt_time a <? zt_time b) && times_increasing r
  | _ => true
  end.

(* "offset changes farther apart than the sum of their sizes" (property C02) *)
Fixpoint gaps_wide (prev_off : Z) (l : list ztr) : bool :=
  match l with
  | a :: ((b :: _) as r) =>
      (Z.abs (zt_off a - prev_off) + Z.abs (zt_off b - zt_off a) <? zt_time b - zt_time a)
      && gaps_wide (zt_off a) r
  | _ => true
  end.

Definition wfz (z : zz) : bool :=
  times_increasing (zz_tr z) && gaps_wide (zz_doff z) (zz_tr z)
  && match zz_tr z with [] => false | _ => true end.

(* ---- BreakTime at this level: index search as the implementation does it ---- *)
Fixpoint upper_idx (l : list ztr) (t : Z) : nat :=   (* first index with t < time *)
  match l with
  | [] => O
  | tr :: r => if t <? zt_time tr then O else S (upper_idx r t)
  end.

Definition zbreak (z : zz) (t : Z) : Z * Z :=   (* (offset, id) *)
  match upper_idx (zz_tr z) t with
  | O => (zz_doff z, zz_did z)
  | S k => match nth_error (zz_tr z) k with
           | Some tr => (zt_off tr, zt_id tr)
           | None => (zz_doff z, zz_did z)
           end
  end.

(* ---- MakeTime at this level ---- *)
Inductive zkind := ZU | ZS | ZR.
Record zcl := mkZCL { zk : zkind; zpre : Z; ztrans : Z; zpost : Z }.

Definition at_ (tr : ztr) : Z := zt_time tr + zt_off tr.                (* civil_sec *)
Definition pre_ (prev_off : Z) (tr : ztr) : Z := zt_time tr - 1 + prev_off.   (* prev_civil_sec *)

(* offset in force just before transition k *)
Definition off_before (z : zz) (k : nat) : Z :=
  match k with
  | O => zz_doff z
  | S j => match nth_error (zz_tr z) j with Some p => zt_off p | None => zz_doff z end
  end.

Fixpoint upper_civil (l : list ztr) (L : Z) : nat :=   (* first index with L < at *)
  match l with
  | [] => O
  | tr :: r => if L <? at_ tr then O else S (upper_civil r L)
  end.

Definition zskipped (po : Z) (tr : ztr) (L : Z) : zcl :=
  mkZCL ZS (zt_time tr - 1 + (L - pre_ po tr)) (zt_time tr) (zt_time tr - (at_ tr - L)).
Definition zrepeated (po : Z) (tr : ztr) (L : Z) : zcl :=
  mkZCL ZR (zt_time tr - 1 - (pre_ po tr - L)) (zt_time tr) (zt_time tr + (L - at_ tr)).
Definition zunique (t : Z) : zcl := mkZCL ZU t t t.

Definition zmake (z : zz) (L : Z) : zcl :=
  let l := zz_tr z in
  let n := length l in
  let k := upper_civil l L in
  match k with
  | O =>
      match l with
      | [] => zunique (L - zz_doff z)
      | tr :: _ =>
          if L <=? pre_ (zz_doff z) tr then zunique (L - zz_doff z)
          else zskipped (zz_doff z) tr L
      end
  | S j =>
      match nth_error l j with
      | None => zunique (L - zz_doff z)
      | Some trp =>
          if Nat.eqb k n then
            (* after the last transition, or inside its overlap *)
            if pre_ (off_before z j) trp <? L then zunique (zt_time trp + (L - at_ trp))
            else zrepeated (off_before z j) trp L
          else
            match nth_error l k with
            | None => zunique (L - zz_doff z)
            | Some tr =>
                if pre_ (zt_off trp) tr <? L then zskipped (zt_off trp) tr L
                else if L <=? pre_ (off_before z j) trp then zrepeated (off_before z j) trp L
                else zunique (zt_time trp + (L - at_ trp))
            end
      end
  end.

Definition zconvert (z : zz) (L : Z) : Z :=
  let c := zmake z L in match zk c with ZS => ztrans c | _ => zpre c end.

(* ---- Next / Prev at this level.  [eqv a b]: type ids a and b are equivalent
   (same offset, DST flag and abbreviation). ---- *)
Section NextPrev.
Variable eqv : Z -> Z -> bool.

(* real changes: transitions whose type is not equivalent to its predecessor's *)
Fixpoint zchanges (l : list ztr) (prev_id : Z) : list ztr :=
  match l with
  | [] => []
  | tr :: r => if eqv prev_id (zt_id tr) then zchanges r (zt_id tr)
               else tr :: zchanges r (zt_id tr)
  end.

(* the implementation's walk: from index k forward, skipping no-ops *)
Fixpoint znext_scan (l : list ztr) (did : Z) (k : nat) (fuel : nat) : option ztr :=
  match fuel with
  | O => None
  | S f =>
      match nth_error l k with
      | None => None
      | Some tr =>
          let prev_id := match k with O => did | S j => match nth_error l j with Some p => zt_id p | None => did end end in
          if eqv prev_id (zt_id tr) then znext_scan l did (S k) f else Some tr
      end
  end.
Definition znext (z : zz) (t : Z) : option ztr :=
  znext_scan (zz_tr z) (zz_did z) (upper_idx (zz_tr z) t) (S (length (zz_tr z))).

Fixpoint lower_idx (l : list ztr) (t : Z) : nat :=   (* first index with not (time < t) *)
  match l with
  | [] => O
  | tr :: r => if zt_time tr <? t then S (lower_idx r t) else O
  end.
Fixpoint zprev_scan (l : list ztr) (did : Z) (k : nat) : option ztr :=
  match k with
  | O => None
  | S j =>
      match nth_error l j with
      | None => None
      | Some cur =>
          let prev_id := match j with O => did | S i => match nth_error l i with Some p => zt_id p | None => did end end in
          if eqv prev_id (zt_id cur) then zprev_scan l did j else Some cur
      end
  end.
Definition zprev (z : zz) (t : Z) : option ztr :=
  zprev_scan (zz_tr z) (zz_did z) (lower_idx (zz_tr z) t).
End NextPrev.
