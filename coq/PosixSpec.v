(* PosixSpec.v — SPEC layer for C16: the POSIX-TZ grammar as the documentation
   reads, on unbounded Z, with no reference to the C++ control flow:
     spec   = std offset [ dst [ offset ] , date [ / time ] , date [ / time ] ]
     abbr   = '<' any* '>'  |  3 or more characters none of which is a digit, '+', '-' or ','
     offset = [+|-] hh [ : mm [ : ss ] ]      hh in 0..24, mm, ss in 0..59
     date   = 'J' n (1..365) | n (0..365) | 'M' m '.' w '.' d  (1..12, 1..5, 0..6)
     time   = [+|-] hh [ : mm [ : ss ] ]      hh in 0..167
   with nothing following.  Offsets are stored with POSIX's sign inverted
   (seconds east of UTC); dst defaults to std + 1h; times default to 02:00:00. *)
From CCTZ Require Import Base PosixImpl.
Local Open Scope Z_scope.

Fixpoint take_digits (s : list Z) : list Z * list Z :=
  match s with
  | c :: r => if is_digit c then let '(ds, rest) := take_digits r in (c :: ds, rest) else ([], s)
  | [] => ([], [])
  end.

Definition digits_value (ds : list Z) : Z := fold_left (fun a c => a * 10 + (c - 48)) ds 0.

(* a decimal number (any number of digits, at least one) within [lo, hi] *)
Definition g_num (s : list Z) (lo hi : Z) : option (Z * list Z) :=
  let '(ds, rest) := take_digits s in
  match ds with
  | [] => None
  | _ => let v := digits_value ds in
         if (lo <=? v) && (v <=? hi) then Some (v, rest) else None
  end.

Fixpoint take_until_gt (s : list Z) : option (list Z * list Z) :=
  match s with
  | [] => None
  | c :: r => if c =? 62 then Some ([], r)
              else match take_until_gt r with Some (a, rest) => Some (c :: a, rest) | None => None end
  end.

Definition abbr_char (c : Z) : bool := negb (is_digit c || (c =? 43) || (c =? 45) || (c =? 44)).

Fixpoint take_while (f : Z -> bool) (s : list Z) : list Z * list Z :=
  match s with
  | c :: r => if f c then let '(a, rest) := take_while f r in (c :: a, rest) else ([], s)
  | [] => ([], [])
  end.

Definition g_abbr (s : list Z) : option (list Z * list Z) :=
  match s with
  | 60 :: r => take_until_gt r
  | _ => let '(a, rest) := take_while abbr_char s in
         if (3 <=? Z.of_nat (length a)) then Some (a, rest) else None
  end.

(* [+|-] hh [:mm [:ss]] ; result = sign * seconds, where a leading '-' flips [sign] *)
Definition g_hms (s : list Z) (hmax : Z) (sign : Z) : option (Z * list Z) :=
  let '(sg, s1) := match s with
                   | 43 :: r => (sign, r)
                   | 45 :: r => (- sign, r)
                   | _ => (sign, s)
                   end in
  match g_num s1 0 hmax with
  | None => None
  | Some (hh, s2) =>
      match s2 with
      | 58 :: r2 =>
          match g_num r2 0 59 with
          | None => None
          | Some (mm, s3) =>
              match s3 with
              | 58 :: r3 =>
                  match g_num r3 0 59 with
                  | None => None
                  | Some (ss, s4) => Some (sg * (hh * 3600 + mm * 60 + ss), s4)
                  end
              | _ => Some (sg * (hh * 3600 + mm * 60), s3)
              end
          end
      | _ => Some (sg * (hh * 3600), s2)
      end
  end.

Definition g_date (s : list Z) : option (pdate * list Z) :=
  match s with
  | 74 :: r => match g_num r 1 365 with Some (n, rest) => Some (DJ n, rest) | None => None end
  | 77 :: r =>
      match g_num r 1 12 with
      | Some (m, 46 :: r1) =>
          match g_num r1 1 5 with
          | Some (w, 46 :: r2) =>
              match g_num r2 0 6 with
              | Some (d, rest) => Some (DM m w d, rest)
              | None => None
              end
          | _ => None
          end
      | _ => None
      end
  | _ => match g_num s 0 365 with Some (n, rest) => Some (DN n, rest) | None => None end
  end.

(* , date [ / time ] *)
Definition g_rule (s : list Z) : option (ptrans * list Z) :=
  match s with
  | 44 :: r =>
      match g_date r with
      | None => None
      | Some (d, s1) =>
          match s1 with
          | 47 :: r1 =>
              match g_hms r1 167 1 with
              | Some (t, s2) => Some (mkPT (Some d) (Some t), s2)
              | None => None
              end
          | _ => Some (mkPT (Some d) (Some 7200), s1)
          end
      end
  | _ => None
  end.

Definition posix_spec (s : list Z) : option posix_tz :=
  match s with
  | 58 :: _ => None
  | _ =>
    match g_abbr s with
    | None => None
    | Some (sa, s1) =>
      match g_hms s1 24 (-1) with
      | None => None
      | Some (so, s2) =>
        match s2 with
        | [] => Some (mkPTZ sa (Some so) [] None pt_unset pt_unset)
        | _ =>
          match g_abbr s2 with
          | None => None
          | Some (da, s3) =>
            let off := match s3 with
                       | 44 :: _ => Some (so + 3600, s3)
                       | _ => g_hms s3 24 (-1)
                       end in
            match off with
            | None => None
            | Some (dof, s4) =>
              match g_rule s4 with
              | None => None
              | Some (r1, s5) =>
                match g_rule s5 with
                | None => None
                | Some (r2, s6) =>
                  match s6 with
                  | [] => Some (mkPTZ sa (Some so) da (Some dof) r1 r2)
                  | _ => None
                  end
                end
              end
            end
          end
        end
      end
    end
  end.

(* "every field the consumer reads is determined" *)
Definition pt_determined (t : ptrans) : bool :=
  match pt_date t, pt_time t with Some _, Some _ => true | _, _ => false end.
Definition ptz_determined (z : posix_tz) : bool :=
  match std_offset z with
  | None => false
  | Some _ =>
      match dst_abbr z with
      | [] => true     (* std only: the consumer reads nothing else *)
      | _ => match dst_offset z with
             | Some _ => pt_determined (dst_start z) && pt_determined (dst_end z)
             | None => false
             end
      end
  end.

Definition nul_free (s : list Z) : bool := forallb (fun c => negb (c =? 0)) s.

(* decidable equality on results, for the driver *)
Definition pdate_eqb (a b : pdate) : bool :=
  match a, b with
  | DJ x, DJ y => x =? y
  | DN x, DN y => x =? y
  | DM a1 a2 a3, DM b1 b2 b3 => (a1 =? b1) && (a2 =? b2) && (a3 =? b3)
  | _, _ => false
  end.
