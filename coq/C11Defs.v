(* C11Defs.v - vocabulary of the C11 statements: the first listed change after t, the last before t *)
From CCTZ Require Import Base ZoneZ.
Local Open Scope Z_scope.

Definition first_after (l : list ztr) (t : Z) : option ztr :=
  match filter (fun tr => t <? zt_time tr) l with x :: _ => Some x | [] => None end.
Definition last_before (l : list ztr) (t : Z) : option ztr :=
  match rev (filter (fun tr => zt_time tr <? t) l) with x :: _ => Some x | [] => None end.
