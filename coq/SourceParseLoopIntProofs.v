(* SourceParseLoopIntProofs.v - the PROVED part of the simulation between scan_loop (ParseImpl.v) and the
   clang-AST-derived specifier loop of detail::parse() (SourceParseLoop.v), by a loop invariant over the whole
   pstate of the model and the tuple of C++ locals (TUP below).  The formats covered (int_fmt): white space,
   literal text, a % at the end, and the conversions
     %H %M %S %w %Y %m %d %e (with its blank-padded form) %U %W %u %z %s %% %Z
     %:z %::z %:::z   %ET %Ez %E*z %E*S %E*f %E4Y
     %I %l %r %R %T %c %X (strptime, with the twelve-hour flag) and % followed by ANY byte outside special_convs
     (strptime as "%c": %a %A %b %B %h %C %D %F %g %G %j %n %t %y %V %x ...),
   the strptime oracle being any function that returns a suffix of its input (oracle_suffix).
   NOT covered: %p (the "%I%p" probe), %E#S / %E#f and the other %E.. / %O.. forms, and %: not followed by z. *)
From Coq Require Import ZArith List Lia Bool.
From CCTZ Require Import Base SrcConstants Cal CivilImpl PosixImpl ZoneLoad FormatImpl ParseImpl.
From CCTZ Require Import SourcePosix SourceFmtParse SourceFmtLoop SourceParseLoop.
From CCTZ Require Import SourcePosixProofs SourceFmtParseProofs SourceFixedProofs SourceParseLoopProofs.
Import ListNotations.
Local Open Scope Z_scope.

(* the C++ locals of the loop, for a state of the model *)
Definition TUP (s : pstate) (zone : list Z) (data fmt : Z) :=
  (data, ps_saw_year s, ps_year s, tm_sec (ps_tm s), tm_min (ps_tm s), tm_hour (ps_tm s), tm_mday (ps_tm s), tm_mon (ps_tm s),
   tm_year (ps_tm s), tm_wday (ps_tm s), tm_yday (ps_tm s), tm_isdst (ps_tm s), ps_subsec s, ps_saw_offset s, ps_offset s, zone, fmt,
   ps_twelve s, ps_afternoon s, ps_week_num s, ps_week_start s, ps_saw_s s, ps_percent_s s).

Definition RUN (o : list Z -> list Z -> tmrec -> option (list Z * tmrec)) (fuel : nat) (F I : list Z) (s : pstate) (zone : list Z) (data fmt : Z) :=
  sp_parse_loop_loop2 o fuel F I 9223372036854775807 (-9223372036854775808) data (ps_saw_year s) (ps_year s)
    (tm_sec (ps_tm s)) (tm_min (ps_tm s)) (tm_hour (ps_tm s)) (tm_mday (ps_tm s)) (tm_mon (ps_tm s)) (tm_year (ps_tm s))
    (tm_wday (ps_tm s)) (tm_yday (ps_tm s)) (tm_isdst (ps_tm s)) (ps_subsec s) (ps_saw_offset s) (ps_offset s) zone fmt
    (ps_twelve s) (ps_afternoon s) (ps_week_num s) (ps_week_start s) (ps_saw_s s) (ps_percent_s s).

Definition data_of (st : Z * bool * Z * Z * Z * Z * Z * Z * Z * Z * Z * Z * Z * bool * Z * list Z * Z * bool * bool * Z * Z * bool * Z) : Z :=
  let '(data, _, _, _, _, _, _, _, _, _, _, _, _, _, _, _, _, _, _, _, _, _, _) := st in data.

(* the conversions of this part *)
Definition int_convs : list Z := [72; 77; 83; 119; 89; 109; 100; 101; 85; 87; 117; 122; 115; 37; 73; 108; 114; 82; 84; 99; 88;
  97; 65; 98; 66; 104; 67; 68; 70; 103; 71; 106; 110; 116; 121; 86; 120; 90].
(* the conversion bytes parse() treats itself or specially; every OTHER byte after a % goes to strptime as "%c" *)
Definition special_convs : list Z :=
  [89; 109; 100; 101; 85; 87; 117; 119; 72; 77; 83; 73; 108; 114; 82; 84; 99; 88; 122; 90; 115; 58; 37; 69; 79; 112].
Definition def_convs : list Z := [97; 65; 98; 66; 104; 67; 68; 70; 103; 71; 106; 110; 116; 121; 86; 120].
Fixpoint int_fmt (l : list Z) : bool :=
  match l with
  | [] => true
  | a :: r => if a =? 37 then match r with [] => true | c :: r' =>
                  if c =? 69 then   (* %ET %Ez %E*z %E*S %E*f %E4Y *)
                    match r' with
                    | e :: r'' => if (e =? 84) || (e =? 122) then int_fmt r''
                                  else if e =? 42 then match r'' with z :: r3 => ((z =? 122) || (z =? 83) || (z =? 102)) && int_fmt r3 | [] => false end
                                  else if e =? 52 then match r'' with z :: r3 => (z =? 89) && int_fmt r3 | [] => false end
                                  else false
                    | [] => false
                    end
                  else if c =? 58 then   (* %:z %::z %:::z *)
                    match r' with
                    | e :: r'' =>
                        if e =? 122 then int_fmt r''
                        else if e =? 58 then
                          match r'' with
                          | z :: r3 => if z =? 122 then int_fmt r3
                                       else if z =? 58 then match r3 with w :: r4 => (w =? 122) && int_fmt r4 | [] => false end
                                       else false
                          | [] => false
                          end
                        else false
                    | [] => false
                    end
                  else (existsb (Z.eqb c) int_convs || negb (existsb (Z.eqb c) special_convs)) && int_fmt r' end
              else int_fmt r
  end.

Lemma int_fmt_skip l : int_fmt l = true -> int_fmt (skip_space l) = true.
Proof.
  induction l as [|c r IH]; intros H; [reflexivity|]. cbn [skip_space].
  destruct (is_space c) eqn:S; [|exact H]. apply IH. cbn [int_fmt] in H.
  destruct (Z.eqb_spec c 37); [subst c; discriminate S|exact H].
Qed.

Lemma null_run o fuel F I a b c d e f g h i j k l m n p q r t u v w x :
  sp_parse_loop_loop2 o (S fuel) F I 9223372036854775807 (-9223372036854775808) (-1) a b c d e f g h i j k l m n p q r t u v w x =
  OK (-1, a, b, c, d, e, f, g, h, i, j, k, l, m, n, p, q, r, t, u, v, w, x).
Proof. reflexivity. Qed.

(* ParseZone's loop: the bytes up to the first white space (or the end) *)
Lemma zone_loop_run buf : bytes_in buf -> forall n dp fuel zone,
  valid buf dp -> length (suffix buf dp) = n -> (n < fuel)%nat ->
  exists dp', sp_ParseZone_loop1 fuel buf dp zone =
                OK (dp', zone ++ fst (span_while (fun x => negb (is_space x)) (suffix buf dp))) /\
              valid buf dp' /\ suffix buf dp' = snd (span_while (fun x => negb (is_space x)) (suffix buf dp)).
Proof.
  intros BB. induction n as [|n IH]; intros dp fuel zone V L Hf; (destruct fuel as [|fuel]; [lia|]);
    cbn [sp_ParseZone_loop1]; unfold sp_ParseZone_loop1_body; cbv zeta;
    pose proof (isspace_ok buf dp BB) as SP; rewrite (rd_suffix buf dp V); cbn [bind].
  - destruct (suffix buf dp) as [|y d1] eqn:ES; [|discriminate L]. cbn [deref span_while fst snd].
    change (negb (0 =? 0)) with false. cbv iota. cbn [bind]. cbv iota.
    exists dp. rewrite app_nil_r. split; [reflexivity|]. split; [exact V|exact ES].
  - destruct (suffix buf dp) as [|y d1] eqn:ES; [discriminate L|]. cbn [deref] in *.
    destruct (suffix_cons buf dp y d1 V ES) as (Nz & _ & V1 & R1).
    destruct (Z.eqb_spec y 0); [contradiction|]. cbn [negb]. cbv iota. rewrite SP. cbn [bind span_while].
    destruct (is_space y) eqn:SY; cbn [negb bind]; cbv iota.
    + exists dp. cbn [fst snd]. rewrite app_nil_r. split; [reflexivity|]. split; [exact V|exact ES].
    + rewrite (padd_1 buf dp V). cbn [bind].
      cbn [length] in L.
      destruct (IH (dp + 1) fuel (zone ++ [y]) V1 ltac:(rewrite <- R1; lia) ltac:(lia)) as (dp' & E & V' & S').
      rewrite <- R1 in E, S'.
      destruct (span_while (fun x => negb (is_space x)) d1) as [a b]. cbn [fst snd] in *.
      exists dp'. rewrite E. rewrite <- app_assoc. split; [reflexivity|]. split; assumption.
Qed.

Section IntConversions.
Variable o : list Z -> list Z -> tmrec -> option (list Z * tmrec).

(* scan_step on the four conversions *)
Lemma step_H f2 data s : scan_step o (37 :: 72 :: f2) data s =
  match parse_int32 data 2 0 23 with
  | Some (v, d1) => OK (f2, Some (d1, set_twelve (set_tm s (tm_with (ps_tm s) 2 v)) false))
  | None => OK (f2, None)
  end.
Proof. reflexivity. Qed.
Lemma step_M f2 data s : scan_step o (37 :: 77 :: f2) data s =
  match parse_int32 data 2 0 59 with
  | Some (v, d1) => OK (f2, Some (d1, set_tm s (tm_with (ps_tm s) 1 v)))
  | None => OK (f2, None)
  end.
Proof. reflexivity. Qed.
Lemma step_S f2 data s : scan_step o (37 :: 83 :: f2) data s =
  match parse_int32 data 2 0 60 with
  | Some (v, d1) => OK (f2, Some (d1, set_tm s (tm_with (ps_tm s) 0 v)))
  | None => OK (f2, None)
  end.
Proof. reflexivity. Qed.
Lemma step_w f2 data s : scan_step o (37 :: 119 :: f2) data s =
  match parse_int32 data 0 0 6 with
  | Some (v, d1) => OK (f2, Some (d1, set_tm s (tm_with (ps_tm s) 6 v)))
  | None => OK (f2, None)
  end.
Proof. reflexivity. Qed.
Lemma step_Y f2 data s : scan_step o (37 :: 89 :: f2) data s =
  match parse_int64 data 0 min64 max64 with
  | Some (v, d1) => OK (f2, Some (d1, set_year s v))
  | None => OK (f2, None)
  end.
Proof. reflexivity. Qed.
Lemma step_m f2 data s : scan_step o (37 :: 109 :: f2) data s =
  match parse_int32 data 2 1 12 with
  | Some (v, d1) => OK (f2, Some (d1, set_week (set_tm s (tm_with (ps_tm s) 4 (v - 1))) (-1) (ps_week_start s)))
  | None => OK (f2, None)
  end.
Proof. reflexivity. Qed.
Lemma step_d f2 data s : scan_step o (37 :: 100 :: f2) data s =
  match parse_int32 data 2 1 31 with
  | Some (v, d1) => OK (f2, Some (d1, set_week (set_tm s (tm_with (ps_tm s) 3 v)) (-1) (ps_week_start s)))
  | None => OK (f2, None)
  end.
Proof. reflexivity. Qed.
Lemma step_e f2 data s : scan_step o (37 :: 101 :: f2) data s =
  match (if (match data with x :: _ => x =? 32 | [] => false end) then parse_int32 (tl data) 1 1 9 else parse_int32 data 2 1 31) with
  | Some (v, d1) => OK (f2, Some (d1, set_week (set_tm s (tm_with (ps_tm s) 3 v)) (-1) (ps_week_start s)))
  | None => OK (f2, None)
  end.
Proof. reflexivity. Qed.
Lemma step_U f2 data s : scan_step o (37 :: 85 :: f2) data s =
  match parse_int32 data 0 0 53 with
  | Some (v, d1) => OK (f2, Some (d1, set_week s v 6))
  | None => OK (f2, None)
  end.
Proof. reflexivity. Qed.
Lemma step_W f2 data s : scan_step o (37 :: 87 :: f2) data s =
  match parse_int32 data 0 0 53 with
  | Some (v, d1) => OK (f2, Some (d1, set_week s v 0))
  | None => OK (f2, None)
  end.
Proof. reflexivity. Qed.
Lemma step_u f2 data s : scan_step o (37 :: 117 :: f2) data s =
  match parse_int32 data 0 1 7 with
  | Some (v, d1) => OK (f2, Some (d1, set_tm s (tm_with (ps_tm s) 6 (Z.rem v 7))))
  | None => OK (f2, None)
  end.
Proof. reflexivity. Qed.
Lemma step_z f2 data s : scan_step o (37 :: 122 :: f2) data s =
  match fmt_parse_offset data 0 with
  | Some (o0, d1) => OK (f2, Some (d1, set_offset s o0))
  | None => OK (f2, None)
  end.
Proof. reflexivity. Qed.
Lemma step_ET f3 data s : scan_step o (37 :: 69 :: 84 :: f3) data s =
  match data with
  | x :: d1 => if (x =? 84) || (x =? 116) then OK (f3, Some (d1, s)) else OK (84 :: f3, None)
  | [] => OK (84 :: f3, None)
  end.
Proof. reflexivity. Qed.
Lemma step_Ez f3 data s : scan_step o (37 :: 69 :: 122 :: f3) data s =
  match fmt_parse_offset data 58 with
  | Some (o0, d1) => OK (f3, Some (d1, set_offset s o0))
  | None => OK (f3, None)
  end.
Proof. reflexivity. Qed.
Lemma step_Esz f4 data s : scan_step o (37 :: 69 :: 42 :: 122 :: f4) data s =
  match fmt_parse_offset data 58 with
  | Some (o0, d1) => OK (f4, Some (d1, set_offset s o0))
  | None => OK (f4, None)
  end.
Proof. reflexivity. Qed.
Lemma step_EsS f4 data s : scan_step o (37 :: 69 :: 42 :: 83 :: f4) data s =
  do r <- parse_ext_seconds data s ;; OK (f4, r).
Proof. reflexivity. Qed.
Lemma ext_seconds_eq data s : parse_ext_seconds data s =
  match parse_int32 data 2 0 60 with
  | None => OK None
  | Some (v, d1) =>
      if deref d1 =? 46 then
        do r <- parse_subseconds (tl d1) ;;
        match r with
        | None => OK None
        | Some (sub, d3) => OK (Some (d3, set_subsec (set_tm s (tm_with (ps_tm s) 0 v)) sub))
        end
      else OK (Some (d1, set_tm s (tm_with (ps_tm s) 0 v)))
  end.
Proof.
  unfold parse_ext_seconds. change (rng src_parse_range_S 0) with 0. change (rng src_parse_range_S 1) with 60.
  destruct (parse_int32 data 2 0 60) as [[v d1]|]; [|reflexivity]. cbv zeta.
  destruct d1 as [|y d2]; [reflexivity|]. cbn [deref tl].
  destruct y as [|p|p]; try reflexivity.
  repeat (destruct p as [p|p|]; try reflexivity).
Qed.
Lemma step_Esf f4 data s : scan_step o (37 :: 69 :: 42 :: 102 :: f4) data s =
  do r <- parse_ext_frac data s ;; OK (f4, r).
Proof. reflexivity. Qed.
Lemma step_cz f3 data s : scan_step o (37 :: 58 :: 122 :: f3) data s =
  match fmt_parse_offset data 58 with
  | Some (o0, d1) => OK (f3, Some (d1, set_offset s o0))
  | None => OK (f3, None)
  end.
Proof. reflexivity. Qed.
Lemma step_ccz f4 data s : scan_step o (37 :: 58 :: 58 :: 122 :: f4) data s =
  match fmt_parse_offset data 58 with
  | Some (o0, d1) => OK (f4, Some (d1, set_offset s o0))
  | None => OK (f4, None)
  end.
Proof. reflexivity. Qed.
Lemma step_cccz f5 data s : scan_step o (37 :: 58 :: 58 :: 58 :: 122 :: f5) data s =
  match fmt_parse_offset data 58 with
  | Some (o0, d1) => OK (f5, Some (d1, set_offset s o0))
  | None => OK (f5, None)
  end.
Proof. reflexivity. Qed.
Lemma step_Z f2 data s : scan_step o (37 :: 90 :: f2) data s =
  let '(zn, d1) := span_while (fun x => negb (is_space x)) data in
  match zn with [] => OK (f2, None) | _ => OK (f2, Some (d1, s)) end.
Proof. reflexivity. Qed.
Lemma step_E4Y f4 data s : scan_step o (37 :: 69 :: 52 :: 89 :: f4) data s =
  match parse_int64 data 4 (-999) 9999 with
  | Some (v, d1) => if Nat.eqb (length data) (length d1 + 4) then OK (f4, Some (d1, set_year s v)) else OK (f4, None)
  | None => OK (f4, None)
  end.
Proof. reflexivity. Qed.
Lemma step_s f2 data s : scan_step o (37 :: 115 :: f2) data s =
  match parse_int64 data 0 min64 max64 with
  | Some (v, d1) => OK (f2, Some (d1, set_percent_s s v))
  | None => OK (f2, None)
  end.
Proof. reflexivity. Qed.
Lemma step_pct f2 data s : scan_step o (37 :: 37 :: f2) data s =
  match data with
  | x :: d1 => if x =? 37 then OK (f2, Some (d1, s)) else OK (f2, None)
  | [] => OK (f2, None)
  end.
Proof.
  destruct data as [|x d1]; [reflexivity|].
  destruct x as [|p|p]; try reflexivity.
  do 6 (try (destruct p as [p|p|]; try reflexivity)).
Qed.
Lemma two_spec (a b : Z) (l : list Z) : firstn (length (a :: b :: l) - length l) (a :: b :: l) = [a; b].
Proof. replace (length (a :: b :: l) - length l)%nat with 2%nat by (cbn [length]; lia). reflexivity. Qed.
Lemma step_strp12 c f2 data s : (c = 73 \/ c = 108 \/ c = 114) ->
  scan_step o (37 :: c :: f2) data s = OK (f2, parse_tm_spec o [37; c] data (set_twelve s true)).
Proof. intros [ -> | [ -> | -> ] ]; rewrite <- (two_spec 37 _ f2); reflexivity. Qed.
Lemma step_strp24 c f2 data s : (c = 82 \/ c = 84 \/ c = 99 \/ c = 88) ->
  scan_step o (37 :: c :: f2) data s = OK (f2, parse_tm_spec o [37; c] data (set_twelve s false)).
Proof. intros [ -> | [ -> | [ -> | -> ] ] ]; rewrite <- (two_spec 37 _ f2); reflexivity. Qed.
Lemma step_strpdef c f2 data s : In c def_convs ->
  scan_step o (37 :: c :: f2) data s = OK (f2, parse_tm_spec o [37; c] data s).
Proof.
  intros HIn. cbn [In def_convs] in HIn.
  repeat (destruct HIn as [<-|HIn]; [rewrite <- (two_spec 37 _ f2); reflexivity|]). contradiction.
Qed.
Lemma step_other c f2 data s : existsb (Z.eqb c) special_convs = false ->
  scan_step o (37 :: c :: f2) data s = OK (f2, parse_tm_spec o [37; c] data s).
Proof.
  intros HN. cbn [existsb special_convs] in HN.
  repeat (apply orb_false_iff in HN; destruct HN as [? HN]).
  unfold scan_step. change (is_space 37) with false. cbv iota. change (negb (37 =? 37)) with false. cbv iota zeta.
  repeat match goal with E : (c =? _) = false |- _ => rewrite ?E; clear E end.
  cbn [orb]. cbv iota. rewrite two_spec. reflexivity.
Qed.
Lemma step_pct_end data s : scan_step o [37] data s = OK ([], None).
Proof. reflexivity. Qed.

Variables (F I : list Z).
Hypothesis BF : bytes_in F.
Hypothesis BI : bytes_in I.
(* what strptime leaves is a suffix of what it was given *)
Hypothesis O_suffix : forall d f t rest t', o d f t = Some (rest, t') -> exists pre, d = pre ++ rest.

Lemma skip_pre (pre rest : list Z) : skipn (length (pre ++ rest) - length rest) (pre ++ rest) = rest.
Proof.
  rewrite app_length. replace (length pre + length rest - length rest)%nat with (length pre) by lia.
  rewrite skipn_app, skipn_all, Nat.sub_diag. reflexivity.
Qed.

Lemma list_eqb_refl (l : list Z) : list_eqb l l = true.
Proof. apply list_eqb_eq. reflexivity. Qed.

Lemma suffix_shift buf rest : forall pre p, valid buf p -> suffix buf p = pre ++ rest ->
  valid buf (p + Z.of_nat (length pre)) /\ suffix buf (p + Z.of_nat (length pre)) = rest.
Proof.
  induction pre as [|c pre IHp]; intros p V E.
  - cbn [length app] in *. replace (p + Z.of_nat 0) with p by lia. split; assumption.
  - cbn [app] in E. destruct (suffix_cons buf p c (pre ++ rest) V E) as (_ & _ & V1 & R1).
    destruct (IHp (p + 1) V1 (eq_sym R1)) as [V2 S2].
    cbn [length]. replace (p + Z.of_nat (S (length pre))) with (p + 1 + Z.of_nat (length pre)) by lia. split; assumption.
Qed.

(* a two-character conversion handed to strptime (not %p): the continuation after the switch *)
Ltac strp_case H IH stepL mem VF VI EF NP2 VF2 RF2 FL :=
  rewrite (stepL _ _ _ _ mem) in H; cbn [bind] in H; unfold parse_tm_spec in H;
  unfold sp_parse_loop_loop2_k14; cbv zeta;
  unfold pdiff;
  match goal with |- context [(?a <? 0) || (?b <? 0)] =>
    destruct (Z.ltb_spec a 0); [unfold valid in *; lia|]; destruct (Z.ltb_spec b 0); [unfold valid in *; lia|] end;
  cbn [orb bind];
  match goal with |- context [Z.modulo (?a - ?b) (2 ^ 64)] => replace (a - b) with 2 by lia end;
  change (Z.modulo 2 (2 ^ 64)) with 2;
  match goal with |- context [substr F ?fp 2] =>
    match type of EF with ?a :: ?b :: ?l = _ =>
      let SB := fresh "SB" in
      destruct (substr_suffix F fp [a; b] l VF (eq_sym EF)) as [SB _];
      change (Z.of_nat (length [a; b])) with 2 in SB; rewrite SB
    end
  end;
  cbn [bind]; unfold parse_tm_at.

Ltac strp_rest H IH s r dp fp fuel zone VI NP2 VF2 RF2 :=
  destruct (Z.eqb_spec dp (-1)); [unfold valid in VI; lia|];
  destruct (Z.leb_spec 0 dp); [|unfold valid in VI; lia]; destruct (Z.leb_spec dp (blen I)); [|unfold valid in VI; lia]; cbn [andb];
  change (c_str (skipn (Z.to_nat dp) I)) with (suffix I dp);
  match goal with |- context [c_str [37; ?c]] => change (c_str [37; c]) with [37; c] end;
  replace (mkTM (tm_sec (ps_tm s)) (tm_min (ps_tm s)) (tm_hour (ps_tm s)) (tm_mday (ps_tm s)) (tm_mon (ps_tm s)) (tm_year (ps_tm s))
                (tm_wday (ps_tm s)) (tm_yday (ps_tm s)) (tm_isdst (ps_tm s))) with (ps_tm s) by (destruct (ps_tm s); reflexivity);
  cbn [ps_tm set_twelve] in H;
  match type of H with context [list_eqb [37; ?c] [37; 112]] =>
    change (list_eqb [37; c] [37; 112]) with false in H; change (list_eqb [37; c] [37; 112]) with false end;
  cbv iota zeta in H;
  match type of H with context [o (suffix I dp) ?sp (ps_tm s)] =>
    let rest := fresh "rest" in let tm' := fresh "tm'" in let EO := fresh "EO" in
    destruct (o (suffix I dp) sp (ps_tm s)) as [[rest tm']|] eqn:EO;
    [ let pre := fresh "pre" in let EP := fresh "EP" in
      destruct (O_suffix _ _ _ _ _ EO) as [pre EP]; rewrite EP;
      rewrite skip_pre, list_eqb_refl;
      replace (length rest <=? length (pre ++ rest))%nat with true by (symmetry; apply Nat.leb_le; rewrite app_length; lia);
      cbn [andb];
      replace (Z.of_nat (length (pre ++ rest) - length rest)) with (Z.of_nat (length pre)) by (rewrite app_length; lia);
      let V' := fresh "V'" in let S' := fresh "S'" in
      destruct (suffix_shift I rest pre dp VI EP) as [V' S'];
      cbn [bind andb]; cbv iota; cbn [bind];
      exact (IH _ _ _ r H NP2 fuel (fp + 1 + 1) (dp + Z.of_nat (length pre)) zone VF2 RF2 V' (eq_sym S') ltac:(lia))
    | cbn [bind andb]; cbv iota; cbn [bind]; injection H as <-;
      destruct fuel as [|fuel]; [lia|]; rewrite null_run; eexists; split; reflexivity ]
  end.

Ltac strp_rest2 CS LE H IH s r dp fp fuel zone VI NP2 VF2 RF2 :=
  destruct (Z.eqb_spec dp (-1)); [unfold valid in VI; lia|];
  destruct (Z.leb_spec 0 dp); [|unfold valid in VI; lia]; destruct (Z.leb_spec dp (blen I)); [|unfold valid in VI; lia]; cbn [andb];
  change (c_str (skipn (Z.to_nat dp) I)) with (suffix I dp);
  rewrite CS;
  replace (mkTM (tm_sec (ps_tm s)) (tm_min (ps_tm s)) (tm_hour (ps_tm s)) (tm_mday (ps_tm s)) (tm_mon (ps_tm s)) (tm_year (ps_tm s))
                (tm_wday (ps_tm s)) (tm_yday (ps_tm s)) (tm_isdst (ps_tm s))) with (ps_tm s) by (destruct (ps_tm s); reflexivity);
  cbn [ps_tm set_twelve] in H;
  rewrite LE in H; rewrite LE;
  cbv iota zeta in H;
  match type of H with context [o (suffix I dp) ?sp (ps_tm s)] =>
    let rest := fresh "rest" in let tm' := fresh "tm'" in let EO := fresh "EO" in
    destruct (o (suffix I dp) sp (ps_tm s)) as [[rest tm']|] eqn:EO;
    [ let pre := fresh "pre" in let EP := fresh "EP" in
      destruct (O_suffix _ _ _ _ _ EO) as [pre EP]; rewrite EP;
      rewrite skip_pre, list_eqb_refl;
      replace (length rest <=? length (pre ++ rest))%nat with true by (symmetry; apply Nat.leb_le; rewrite app_length; lia);
      cbn [andb];
      replace (Z.of_nat (length (pre ++ rest) - length rest)) with (Z.of_nat (length pre)) by (rewrite app_length; lia);
      let V' := fresh "V'" in let S' := fresh "S'" in
      destruct (suffix_shift I rest pre dp VI EP) as [V' S'];
      cbn [bind andb]; cbv iota; cbn [bind];
      exact (IH _ _ _ r H NP2 fuel (fp + 1 + 1) (dp + Z.of_nat (length pre)) zone VF2 RF2 V' (eq_sym S') ltac:(lia))
    | cbn [bind andb]; cbv iota; cbn [bind]; injection H as <-;
      destruct fuel as [|fuel]; [lia|]; rewrite null_run; eexists; split; reflexivity ]
  end.

Definition POST (r : option (list Z * pstate)) (st : Z * bool * Z * Z * Z * Z * Z * Z * Z * Z * Z * Z * Z * bool * Z * list Z * Z * bool * bool * Z * Z * bool * Z) : Prop :=
  match r with
  | None => data_of st = -1
  | Some (rest, s') => exists zone' dp' fp', st = TUP s' zone' dp' fp' /\ valid I dp' /\ rest = suffix I dp'
  end.

(* after a conversion that parsed v into a field: the loop goes on from the new state; after one that failed: data = nullptr *)
Lemma loop2_int : forall f fmt data (s : pstate) r,
  scan_loop o f fmt data s = OK r -> int_fmt fmt = true ->
  forall fuel fp dp zone, valid F fp -> fmt = suffix F fp -> valid I dp -> data = suffix I dp ->
  (f + length F + length I + 3 <= fuel)%nat ->
  exists st, RUN o fuel F I s zone dp fp = OK st /\ POST r st.
Proof.
  induction f as [|f IH]; intros fmt data s r H NP fuel fp dp zone VF EF VI ED Hfu; [discriminate H|].
  destruct fuel as [|fuel]; [lia|]. subst data.
  assert (LF : (length (suffix F fp) <= length F)%nat) by (pose proof (suffix_length F fp VF); unfold valid, blen in *; lia).
  assert (LI : (length (suffix I dp) <= length I)%nat) by (pose proof (suffix_length I dp VI); unfold valid, blen in *; lia).
  assert (FL : (length I < fuel)%nat) by lia.
  unfold RUN. cbn [sp_parse_loop_loop2]. unfold sp_parse_loop_loop2_body. cbv zeta.
  destruct (Z.eqb_spec dp (-1)); [unfold valid in VI; lia|]. cbn [negb].
  rewrite (rd_suffix F fp VF). cbn [bind]. rewrite <- EF.
  cbn [scan_loop] in H.
  destruct fmt as [|f0 f1].
  - injection H as <-. cbn [deref]. change (negb (0 =? 0)) with false. cbv iota.
    eexists. split; [reflexivity|]. exists zone, dp, fp. split; [reflexivity|]. split; [exact VI|reflexivity].
  - destruct (suffix_cons F fp f0 f1 VF (eq_sym EF)) as (Nz & Lt & VF1 & RF).
    cbn [deref]. destruct (Z.eqb_spec f0 0); [contradiction|]. cbn [negb]. cbv iota.
    pose proof (isspace_ok F fp BF) as SP. rewrite <- EF in SP. cbn [deref] in SP. rewrite SP. cbn [bind].
    cbn [int_fmt] in NP.
    destruct (is_space f0) eqn:S0.
    + (* white space *)
      destruct (Z.eqb_spec f0 37) as [E37|E37]; [subst f0; discriminate S0|].
      unfold scan_step in H. rewrite S0 in H. cbn [bind] in H.
      destruct (skip_loop_run sp_parse_loop_loop3 loop3_unfold I BI (length (suffix I dp)) dp fuel VI eq_refl ltac:(lia))
        as (dp1 & E1 & V1 & S1).
      rewrite E1. cbn [bind].
      destruct (loop4_run F BF (length f1) fp fuel f0 f1 VF (eq_sym EF) eq_refl ltac:(rewrite <- EF in LF; cbn [length] in LF; lia))
        as (fp1 & E2 & V2 & S2).
      rewrite E2. cbn [bind].
      exact (IH _ _ s r H (int_fmt_skip _ NP) fuel fp1 dp1 zone V2 (eq_sym S2) V1 (eq_sym S1) ltac:(lia)).
    + unfold sp_parse_loop_loop2_b1. cbv zeta.
      rewrite (rd_suffix F fp VF). cbn [bind]. rewrite <- EF. cbn [deref].
      destruct (Z.eqb_spec f0 37) as [E37|E37]; cbn [negb]; cbv iota.
      2: { (* a literal byte *)
        unfold scan_step in H. rewrite S0 in H. destruct (Z.eqb_spec f0 37); [contradiction|]. cbn [negb] in H.
        rewrite (rd_suffix I dp VI). cbn [bind].
        destruct (suffix I dp) as [|c d1] eqn:ES; cbn [deref].
        - cbn [bind] in H. injection H as <-.
          destruct (Z.eqb_spec 0 f0); [congruence|]. cbn [bind].
          destruct fuel as [|fuel]; [lia|]. rewrite null_run. eexists. split; reflexivity.
        - destruct (Z.eqb_spec c f0) as [EC|EC].
          + cbn [bind] in H.
            destruct (suffix_cons I dp c d1 VI ES) as (NzI & LtI & VI1 & RI).
            rewrite (padd_1 I dp VI), (padd_1 F fp VF). cbn [bind].
            exact (IH _ _ s r H NP fuel (fp + 1) (dp + 1) zone VF1 RF VI1 RI ltac:(lia)).
          + cbn [bind] in H. injection H as <-. cbn [bind].
            destruct fuel as [|fuel]; [lia|]. rewrite null_run. eexists. split; reflexivity. }
      (* a conversion *)
      subst f0. unfold sp_parse_loop_loop2_b2. cbv zeta.
      rewrite (padd_1 F fp VF). cbn [bind]. rewrite (rd_suffix F (fp + 1) VF1). cbn [bind]. rewrite <- RF.
      destruct f1 as [|c f2].
      { (* "%" at the end of the format *)
        rewrite step_pct_end in H. cbn [bind] in H. injection H as <-.
        cbn [deref]. change (0 =? 0) with true. cbv iota.
        destruct fuel as [|fuel]; [lia|]. rewrite null_run. eexists. split; reflexivity. }
      destruct (suffix_cons F (fp + 1) c f2 VF1 (eq_sym RF)) as (Nzc & Ltc & VF2 & RF2).
      cbn [deref]. destruct (Z.eqb_spec c 0); [contradiction|]. cbv iota.
      unfold sp_parse_loop_loop2_b3. cbv zeta.
      rewrite (padd_1 F (fp + 1) VF1). cbn [bind]. rewrite (rd_suffix F (fp + 1) VF1). cbn [bind]. rewrite <- RF. cbn [deref].
      revert NP. destruct (Z.eqb_spec c 58) as [E58|E58]; intros NP.
      { (* %:z %::z %:::z *)
        subst c.
        assert (VD : forall dp', dp < dp' <= blen I -> valid I dp') by (intros dp' B; unfold valid in *; lia).
        assert (NM : forall dp', dp < dp' <= blen I -> (dp' =? -1) = false) by (intros dp' B; unfold valid in VI; lia).
        unfold sp_parse_loop_loop2_b4, sp_parse_loop_loop2_b5, sp_parse_loop_loop2_b6, sp_parse_loop_loop2_b7, sp_parse_loop_loop2_b8,
               sp_parse_loop_loop2_b9, sp_parse_loop_loop2_b10, sp_parse_loop_loop2_b11, sp_parse_loop_loop2_b12, sp_parse_loop_loop2_b13.
        cbv zeta. cbn [Z.eqb Pos.eqb orb]; cbv iota.
        destruct f2 as [|e f3]; [discriminate NP|].
        destruct (suffix_cons F (fp + 1 + 1) e f3 VF2 (eq_sym RF2)) as (Nze & Lte & VF3 & RF3).
        destruct (Z.eqb_spec e 122) as [E122|E122].
        { subst e. rewrite step_cz in H.
          repeat (rewrite (padd_0 F (fp + 1 + 1) VF2) || rewrite (padd_1 F (fp + 1 + 1) VF2) || rewrite (rd_suffix F (fp + 1 + 1) VF2)
                  || rewrite <- RF2 || (progress cbn [bind deref Z.eqb Pos.eqb]) || (progress cbv iota)).
          pose proof (sf_ParseOffset_tie fuel I dp [58] 0 (ps_offset s) VI ltac:(unfold blen; cbn; lia) FL) as T.
          change (deref (suffix [58] 0)) with 58 in T.
          destruct (fmt_parse_offset (suffix I dp) 58) as [[v d1]|].
          - destruct T as (dp' & E & R & B & _). rewrite E. cbn [bind]. cbn [bind] in H. rewrite (NM dp' B). cbn [negb bind].
            repeat (rewrite (padd_0 F (fp + 1 + 1) VF2) || rewrite (padd_1 F (fp + 1 + 1) VF2) || rewrite (rd_suffix F (fp + 1 + 1) VF2)
                            || rewrite <- RF2 || (progress cbn [bind deref Z.eqb Pos.eqb]) || (progress cbv iota)).
            rewrite ?(padd_1 F (fp + 1 + 1) VF2). cbn [bind].
            exact (IH _ _ _ r H NP fuel (fp + 1 + 1 + 1) dp' zone VF3 RF3 (VD dp' B) R ltac:(lia)).
          - rewrite T. cbn [bind]. cbn [bind] in H. injection H as <-.
            destruct fuel as [|fuel]; [lia|]. change (negb (-1 =? -1)) with false. cbv iota. cbn [bind].
            repeat (rewrite (padd_0 F (fp + 1 + 1) VF2) || rewrite (padd_1 F (fp + 1 + 1) VF2) || rewrite (rd_suffix F (fp + 1 + 1) VF2)
                            || rewrite <- RF2 || (progress cbn [bind deref Z.eqb Pos.eqb]) || (progress cbv iota)).
            rewrite ?(padd_1 F (fp + 1 + 1) VF2). cbn [bind].
            rewrite null_run. eexists. split; reflexivity. }
        destruct (Z.eqb_spec e 58) as [E58|E58]; [|discriminate NP].
        subst e. destruct f3 as [|z f4]; [discriminate NP|].
        destruct (suffix_cons F (fp + 1 + 1 + 1) z f4 VF3 (eq_sym RF3)) as (_ & _ & VF4 & RF4).
        assert (P2 : padd F (fp + 1 + 1) 2 = OK (fp + 1 + 1 + 1 + 1)).
        { rewrite padd_in; [f_equal; lia|unfold valid in *; lia|unfold valid in *; lia]. }
        destruct (Z.eqb_spec z 122) as [Z122|Z122].
        { subst z. rewrite step_ccz in H.
          repeat (rewrite (padd_0 F (fp + 1 + 1) VF2) || rewrite (padd_1 F (fp + 1 + 1) VF2) || rewrite (rd_suffix F (fp + 1 + 1) VF2)
                  || rewrite <- RF2 || rewrite (rd_suffix F (fp + 1 + 1 + 1) VF3) || rewrite <- RF3 || (progress cbn [bind deref Z.eqb Pos.eqb]) || (progress cbv iota)).
          pose proof (sf_ParseOffset_tie fuel I dp [58] 0 (ps_offset s) VI ltac:(unfold blen; cbn; lia) FL) as T.
          change (deref (suffix [58] 0)) with 58 in T.
          destruct (fmt_parse_offset (suffix I dp) 58) as [[v d1]|].
          - destruct T as (dp' & E & R & B & _). rewrite E. cbn [bind]. cbn [bind] in H. rewrite (NM dp' B). cbn [negb bind].
            repeat (rewrite (padd_0 F (fp + 1 + 1) VF2) || rewrite (padd_1 F (fp + 1 + 1) VF2) || rewrite (rd_suffix F (fp + 1 + 1) VF2)
                            || rewrite <- RF2 || rewrite (rd_suffix F (fp + 1 + 1 + 1) VF3) || rewrite <- RF3 || (progress cbn [bind deref Z.eqb Pos.eqb]) || (progress cbv iota)).
            rewrite ?P2. cbn [bind].
            exact (IH _ _ _ r H NP fuel (fp + 1 + 1 + 1 + 1) dp' zone VF4 RF4 (VD dp' B) R ltac:(lia)).
          - rewrite T. cbn [bind]. cbn [bind] in H. injection H as <-.
            destruct fuel as [|fuel]; [lia|]. change (negb (-1 =? -1)) with false. cbv iota. cbn [bind].
            repeat (rewrite (padd_0 F (fp + 1 + 1) VF2) || rewrite (padd_1 F (fp + 1 + 1) VF2) || rewrite (rd_suffix F (fp + 1 + 1) VF2)
                            || rewrite <- RF2 || rewrite (rd_suffix F (fp + 1 + 1 + 1) VF3) || rewrite <- RF3 || (progress cbn [bind deref Z.eqb Pos.eqb]) || (progress cbv iota)).
            rewrite ?P2. cbn [bind].
            rewrite null_run. eexists. split; reflexivity. }
        destruct (Z.eqb_spec z 58) as [Z58|Z58]; [|discriminate NP].
        subst z. destruct f4 as [|w f5]; [discriminate NP|].
        apply andb_true_iff in NP. destruct NP as [W122 NP5]. apply Z.eqb_eq in W122. subst w.
        destruct (suffix_cons F (fp + 1 + 1 + 1 + 1) 122 f5 VF4 (eq_sym RF4)) as (_ & _ & VF5 & RF5).
        assert (P3 : padd F (fp + 1 + 1) 3 = OK (fp + 1 + 1 + 1 + 1 + 1)).
        { rewrite padd_in; [f_equal; lia|unfold valid in *; lia|unfold valid in *; lia]. }
        rewrite step_cccz in H.
        repeat (rewrite (padd_0 F (fp + 1 + 1) VF2) || rewrite (padd_1 F (fp + 1 + 1) VF2) || rewrite (rd_suffix F (fp + 1 + 1) VF2)
                  || rewrite <- RF2 || rewrite (rd_suffix F (fp + 1 + 1 + 1) VF3) || rewrite <- RF3 || rewrite P2 || rewrite (rd_suffix F (fp + 1 + 1 + 1 + 1) VF4) || rewrite <- RF4 || (progress cbn [bind deref Z.eqb Pos.eqb]) || (progress cbv iota)).
        pose proof (sf_ParseOffset_tie fuel I dp [58] 0 (ps_offset s) VI ltac:(unfold blen; cbn; lia) FL) as T.
        change (deref (suffix [58] 0)) with 58 in T.
        destruct (fmt_parse_offset (suffix I dp) 58) as [[v d1]|].
        - destruct T as (dp' & E & R & B & _). rewrite E. cbn [bind]. cbn [bind] in H. rewrite (NM dp' B). cbn [negb bind].
          repeat (rewrite (padd_0 F (fp + 1 + 1) VF2) || rewrite (padd_1 F (fp + 1 + 1) VF2) || rewrite (rd_suffix F (fp + 1 + 1) VF2)
                          || rewrite <- RF2 || rewrite (rd_suffix F (fp + 1 + 1 + 1) VF3) || rewrite <- RF3 || rewrite P2 || rewrite (rd_suffix F (fp + 1 + 1 + 1 + 1) VF4) || rewrite <- RF4 || (progress cbn [bind deref Z.eqb Pos.eqb]) || (progress cbv iota)).
          rewrite ?P3. cbn [bind].
          exact (IH _ _ _ r H NP5 fuel (fp + 1 + 1 + 1 + 1 + 1) dp' zone VF5 RF5 (VD dp' B) R ltac:(lia)).
        - rewrite T. cbn [bind]. cbn [bind] in H. injection H as <-.
          destruct fuel as [|fuel]; [lia|]. change (negb (-1 =? -1)) with false. cbv iota. cbn [bind].
          repeat (rewrite (padd_0 F (fp + 1 + 1) VF2) || rewrite (padd_1 F (fp + 1 + 1) VF2) || rewrite (rd_suffix F (fp + 1 + 1) VF2)
                          || rewrite <- RF2 || rewrite (rd_suffix F (fp + 1 + 1 + 1) VF3) || rewrite <- RF3 || rewrite P2 || rewrite (rd_suffix F (fp + 1 + 1 + 1 + 1) VF4) || rewrite <- RF4 || (progress cbn [bind deref Z.eqb Pos.eqb]) || (progress cbv iota)).
          rewrite ?P3. cbn [bind].
          rewrite null_run. eexists. split; reflexivity. }
      revert NP. destruct (Z.eqb_spec c 69) as [E69|E69]; intros NP.
      { (* %E: %ET %Ez %E*z *)
        subst c.
        assert (VD : forall dp', dp < dp' <= blen I -> valid I dp') by (intros dp' B; unfold valid in *; lia).
        assert (NM : forall dp', dp < dp' <= blen I -> (dp' =? -1) = false) by (intros dp' B; unfold valid in VI; lia).
        unfold sp_parse_loop_loop2_b4, sp_parse_loop_loop2_b5, sp_parse_loop_loop2_b6, sp_parse_loop_loop2_b7, sp_parse_loop_loop2_b8,
               sp_parse_loop_loop2_b9, sp_parse_loop_loop2_b10, sp_parse_loop_loop2_b11, sp_parse_loop_loop2_b12, sp_parse_loop_loop2_b13.
        cbv zeta. cbn [Z.eqb Pos.eqb orb]; cbv iota.
        destruct f2 as [|e f3]; [discriminate NP|].
        destruct (suffix_cons F (fp + 1 + 1) e f3 VF2 (eq_sym RF2)) as (Nze & Lte & VF3 & RF3).
        rewrite (padd_0 F (fp + 1 + 1) VF2). cbn [bind]. rewrite (rd_suffix F (fp + 1 + 1) VF2). cbn [bind]. rewrite <- RF2. cbn [deref].
        destruct (Z.eqb_spec e 84) as [E84|E84].
        { (* %ET *)
          subst e. rewrite step_ET in H. cbn [Z.eqb Pos.eqb]. cbv iota.
          rewrite (rd_suffix I dp VI). cbn [bind].
          destruct (suffix I dp) as [|x d1] eqn:ES; cbn [deref].
          - repeat ((progress cbn [bind deref Z.eqb]) || (progress cbv iota)).
            injection H as <-. destruct fuel as [|fuel]; [lia|]. rewrite null_run. eexists. split; reflexivity.
          - destruct (suffix_cons I dp x d1 VI ES) as (NzI & LtI & VI1 & RI).
            destruct (x =? 84) eqn:X1; cbv iota.
            + cbn [bind]. cbv iota. rewrite (padd_1 I dp VI). cbn [bind]. rewrite (padd_1 F (fp + 1 + 1) VF2). cbn [bind].
              cbn [orb] in H.
              exact (IH _ _ _ r H NP fuel (fp + 1 + 1 + 1) (dp + 1) zone VF3 RF3 VI1 RI ltac:(lia)).
            + cbn [bind deref]. cbn [orb] in H.
              destruct (x =? 116) eqn:X2; rewrite ?X2 in H; cbv iota; cbn [bind]; cbv iota.
              * rewrite (padd_1 I dp VI). cbn [bind]. rewrite (padd_1 F (fp + 1 + 1) VF2). cbn [bind].
                exact (IH _ _ _ r H NP fuel (fp + 1 + 1 + 1) (dp + 1) zone VF3 RF3 VI1 RI ltac:(lia)).
              * cbn [bind]. injection H as <-. destruct fuel as [|fuel]; [lia|]. rewrite null_run. eexists. split; reflexivity. }
        destruct (Z.eqb_spec e 122) as [E122|E122].
        { (* %Ez *)
          subst e. rewrite step_Ez in H.
          repeat (rewrite (padd_0 F (fp + 1 + 1) VF2) || rewrite (rd_suffix F (fp + 1 + 1) VF2) || rewrite <- RF2
                  || (progress cbn [bind deref Z.eqb Pos.eqb]) || (progress cbv iota)).
          pose proof (sf_ParseOffset_tie fuel I dp [58] 0 (ps_offset s) VI ltac:(unfold blen; cbn; lia) FL) as T.
          change (deref (suffix [58] 0)) with 58 in T.
          destruct (fmt_parse_offset (suffix I dp) 58) as [[v d1]|].
          - destruct T as (dp' & E & R & B & _). rewrite E. cbn [bind]. cbn [bind] in H. rewrite (NM dp' B). cbn [negb bind].
            repeat (rewrite (padd_0 F (fp + 1 + 1) VF2) || rewrite (rd_suffix F (fp + 1 + 1) VF2) || rewrite <- RF2
                    || (progress cbn [bind deref Z.eqb Pos.eqb]) || (progress cbv iota)).
            rewrite (padd_1 F (fp + 1 + 1) VF2). cbn [bind].
            exact (IH _ _ _ r H NP fuel (fp + 1 + 1 + 1) dp' zone VF3 RF3 (VD dp' B) R ltac:(lia)).
          - rewrite T. cbn [bind]. cbn [bind] in H. injection H as <-.
            destruct fuel as [|fuel]; [lia|]. change (negb (-1 =? -1)) with false. cbv iota. cbn [bind].
            repeat (rewrite (padd_0 F (fp + 1 + 1) VF2) || rewrite (rd_suffix F (fp + 1 + 1) VF2) || rewrite <- RF2
                    || (progress cbn [bind deref Z.eqb Pos.eqb]) || (progress cbv iota)).
            rewrite (padd_1 F (fp + 1 + 1) VF2). cbn [bind].
            rewrite null_run. eexists. split; reflexivity. }
        destruct (Z.eqb_spec e 52) as [E52|E52].
        { (* %E4Y *)
          subst e. cbn [Z.eqb Pos.eqb orb] in NP. cbv iota in NP.
          destruct f3 as [|z f4]; [discriminate NP|].
          apply andb_true_iff in NP. destruct NP as [Z89 NP4]. apply Z.eqb_eq in Z89. subst z.
          destruct (suffix_cons F (fp + 1 + 1 + 1) 89 f4 VF3 (eq_sym RF3)) as (_ & _ & VF4 & RF4).
          assert (P2 : padd F (fp + 1 + 1) 2 = OK (fp + 1 + 1 + 1 + 1)).
          { rewrite padd_in; [f_equal; lia|unfold valid in *; lia|unfold valid in *; lia]. }
          assert (W4 : int32 4) by (unfold int32, min32, max32; lia).
          rewrite step_E4Y in H.
          repeat (rewrite (padd_0 F (fp + 1 + 1) VF2) || rewrite (padd_1 F (fp + 1 + 1) VF2) || rewrite (rd_suffix F (fp + 1 + 1) VF2)
                  || rewrite (rd_suffix F (fp + 1 + 1 + 1) VF3) || rewrite <- RF2 || rewrite <- RF3
                  || (progress cbn [bind deref Z.eqb Pos.eqb]) || (progress cbv iota)).
          cbv zeta.
          pose proof (sf_ParseInt_long_strong I fuel dp 4 (-999) 9999 (ps_year s) VI FL W4) as T. unfold int_post in T.
          destruct (parse_int64 (suffix I dp) 4 (-999) 9999) as [[v d1]|].
          - destruct T as (dp' & E & R & V' & Ltd & _ & LL). rewrite E. cbn [bind].
            destruct (Z.eqb_spec dp' (-1)); [unfold valid in *; lia|]. cbn [negb]. cbv iota.
            unfold pdiff. destruct (Z.ltb_spec dp' 0); [unfold valid in *; lia|]. destruct (Z.ltb_spec dp 0); [unfold valid in *; lia|].
            cbn [orb bind].
            destruct (Z.eqb_spec (dp' - dp) 4) as [D4|D4]; repeat ((progress cbn [bind]) || (progress cbv iota zeta)); rewrite P2; cbn [bind].
            + rewrite (proj2 (Nat.eqb_eq _ _)) in H by lia. cbn [bind] in H.
              exact (IH _ _ _ r H NP4 fuel (fp + 1 + 1 + 1 + 1) dp' zone VF4 RF4 V' R ltac:(lia)).
            + rewrite (proj2 (Nat.eqb_neq _ _)) in H by lia. cbn [bind] in H. injection H as <-.
              destruct fuel as [|fuel]; [lia|]. rewrite null_run. eexists. split; reflexivity.
          - rewrite T. cbn [bind]. change (negb (-1 =? -1)) with false. cbv iota. cbn [bind]. rewrite P2. cbn [bind].
            cbn [bind] in H. injection H as <-.
            destruct fuel as [|fuel]; [lia|]. rewrite null_run. eexists. split; reflexivity. }
        destruct (Z.eqb_spec e 42) as [E42|E42]; [|cbn [orb] in NP; discriminate NP].
        { (* %E*z *)
          subst e. cbn [Z.eqb Pos.eqb orb] in NP. cbv iota in NP.
          destruct f3 as [|z f4]; [discriminate NP|].
          apply andb_true_iff in NP. destruct NP as [Z122 NP4].
          destruct (suffix_cons F (fp + 1 + 1 + 1) z f4 VF3 (eq_sym RF3)) as (_ & _ & VF4 & RF4).
          assert (P2 : padd F (fp + 1 + 1) 2 = OK (fp + 1 + 1 + 1 + 1)).
          { rewrite padd_in; [f_equal; lia|unfold valid in *; lia|unfold valid in *; lia]. }
          apply orb_true_iff in Z122. destruct Z122 as [Z122|Z102]; [|apply Z.eqb_eq in Z102].
          2: { (* %E*f *)
            subst z. rewrite step_Esf in H. unfold parse_ext_frac in H.
            repeat (rewrite (padd_0 F (fp + 1 + 1) VF2) || rewrite (padd_1 F (fp + 1 + 1) VF2) || rewrite (rd_suffix F (fp + 1 + 1) VF2)
                    || rewrite (rd_suffix F (fp + 1 + 1 + 1) VF3) || rewrite <- RF2 || rewrite <- RF3
                    || (progress cbn [bind deref Z.eqb Pos.eqb]) || (progress cbv iota)).
            destruct (Z.eqb_spec dp (-1)); [unfold valid in VI; lia|]. cbn [negb]. cbv iota.
            rewrite (rd_suffix I dp VI). cbn [bind].
            pose proof (sf_ParseSubSeconds_tie fuel I dp (ps_subsec s) ltac:(unfold valid in VI; lia) FL) as T2.
            pose proof (deref_byte I dp BI) as DB.
            destruct (suffix I dp) as [|y d1] eqn:ES; cbn [deref]; cbn [deref] in DB.
            - change (isdigit_chk 0) with (@OK bool false). repeat ((progress cbn [bind]) || (progress cbv iota)). rewrite P2. cbn [bind].
              repeat ((progress cbn [bind] in H) || (progress cbv iota zeta in H)).
              exact (IH _ _ _ r H NP4 fuel (fp + 1 + 1 + 1 + 1) dp zone VF4 RF4 VI (eq_sym ES) ltac:(lia)).
            - assert (DC : isdigit_chk y = OK (is_digit y)).
              { unfold isdigit_chk. destruct (Z.leb_spec (-1) y); [|lia]. destruct (Z.leb_spec y 255); [|lia]. reflexivity. }
              rewrite DC. cbn [bind].
              destruct (is_digit y) eqn:D; repeat ((progress cbn [bind]) || (progress cbv iota)).
              + destruct (parse_subseconds (y :: d1)) as [[[sub d3]|]|err]; [| |destruct T2].
                * destruct T2 as (dp2 & E2 & R3 & B2 & _). rewrite E2. cbn [bind]. rewrite P2. cbn [bind].
                  repeat ((progress cbn [bind] in H) || (progress cbv iota zeta in H)).
                  exact (IH _ _ _ r H NP4 fuel (fp + 1 + 1 + 1 + 1) dp2 zone VF4 RF4 ltac:(unfold valid in *; lia) R3 ltac:(lia)).
                * rewrite T2. cbn [bind]. rewrite P2. cbn [bind].
                  repeat ((progress cbn [bind] in H) || (progress cbv iota zeta in H)). injection H as <-.
                  destruct fuel as [|fuel]; [lia|]. rewrite null_run. eexists. split; reflexivity.
              + rewrite P2. cbn [bind].
                repeat ((progress cbn [bind] in H) || (progress cbv iota zeta in H)).
                exact (IH _ _ _ r H NP4 fuel (fp + 1 + 1 + 1 + 1) dp zone VF4 RF4 VI (eq_sym ES) ltac:(lia)). }
          apply orb_true_iff in Z122. destruct Z122 as [Z122|Z83]; [apply Z.eqb_eq in Z122|apply Z.eqb_eq in Z83]; subst z.
          2: { (* %E*S *)
            assert (W2 : int32 2) by (unfold int32, min32, max32; lia).
            rewrite step_EsS in H. rewrite ext_seconds_eq in H.
            repeat (rewrite (padd_0 F (fp + 1 + 1) VF2) || rewrite (padd_1 F (fp + 1 + 1) VF2) || rewrite (rd_suffix F (fp + 1 + 1) VF2)
                    || rewrite (rd_suffix F (fp + 1 + 1 + 1) VF3) || rewrite <- RF2 || rewrite <- RF3
                    || (progress cbn [bind deref Z.eqb Pos.eqb]) || (progress cbv iota)).
            pose proof (sf_ParseInt_int_tie fuel I dp 2 0 60 (tm_sec (ps_tm s)) VI FL W2) as T.
            destruct (parse_int32 (suffix I dp) 2 0 60) as [[v d1]|].
            - destruct T as (dp' & E & R & B & _). rewrite E. cbn [bind]. rewrite (NM dp' B). cbn [negb]. cbv iota.
              rewrite (rd_suffix I dp' (VD dp' B)). cbn [bind]. subst d1.
              destruct (suffix I dp') as [|y d2] eqn:ES2; cbn [deref]; cbn [deref tl] in H.
              + change (0 =? 46) with false. change (0 =? 46) with false in H.
                repeat ((progress cbn [bind]) || (progress cbv iota)). rewrite P2. cbn [bind].
                repeat ((progress cbn [bind] in H) || (progress cbv iota zeta in H)).
                exact (IH _ _ _ r H NP4 fuel (fp + 1 + 1 + 1 + 1) dp' zone VF4 RF4 (VD dp' B) (eq_sym ES2) ltac:(lia)).
              + destruct (suffix_cons I dp' y d2 (VD dp' B) ES2) as (_ & _ & VI2 & R2).
                destruct (y =? 46) eqn:Y; repeat ((progress cbn [bind]) || (progress cbv iota)).
                * rewrite (padd_1 I dp' (VD dp' B)). cbn [bind].
                  pose proof (sf_ParseSubSeconds_tie fuel I (dp' + 1) (ps_subsec s) ltac:(unfold valid in VI2; lia) FL) as T2.
                  rewrite <- R2 in T2.
                  destruct (parse_subseconds d2) as [[[sub d3]|]|err]; [| |destruct T2].
                  -- destruct T2 as (dp2 & E2 & R3 & B2 & _). rewrite E2. cbn [bind]. rewrite P2. cbn [bind].
                     repeat ((progress cbn [bind] in H) || (progress cbv iota zeta in H)).
                     exact (IH _ _ _ r H NP4 fuel (fp + 1 + 1 + 1 + 1) dp2 zone VF4 RF4 ltac:(unfold valid in *; lia) R3 ltac:(lia)).
                  -- rewrite T2. cbn [bind]. rewrite P2. cbn [bind].
                     repeat ((progress cbn [bind] in H) || (progress cbv iota zeta in H)). injection H as <-.
                     destruct fuel as [|fuel]; [lia|]. rewrite null_run. eexists. split; reflexivity.
                * rewrite P2. cbn [bind].
                  repeat ((progress cbn [bind] in H) || (progress cbv iota zeta in H)).
                  exact (IH _ _ _ r H NP4 fuel (fp + 1 + 1 + 1 + 1) dp' zone VF4 RF4 (VD dp' B) (eq_sym ES2) ltac:(lia)).
            - rewrite T. cbn [bind]. change (negb (-1 =? -1)) with false. cbv iota. cbn [bind]. rewrite P2. cbn [bind].
              cbn [bind] in H. injection H as <-.
              destruct fuel as [|fuel]; [lia|]. rewrite null_run. eexists. split; reflexivity. }
          rewrite step_Esz in H.
          repeat (rewrite (padd_0 F (fp + 1 + 1) VF2) || rewrite (padd_1 F (fp + 1 + 1) VF2) || rewrite (rd_suffix F (fp + 1 + 1) VF2)
                  || rewrite (rd_suffix F (fp + 1 + 1 + 1) VF3) || rewrite <- RF2 || rewrite <- RF3
                  || (progress cbn [bind deref Z.eqb Pos.eqb]) || (progress cbv iota)).
          pose proof (sf_ParseOffset_tie fuel I dp [58] 0 (ps_offset s) VI ltac:(unfold blen; cbn; lia) FL) as T.
          change (deref (suffix [58] 0)) with 58 in T.
          destruct (fmt_parse_offset (suffix I dp) 58) as [[v d1]|].
          - destruct T as (dp' & E & R & B & _). rewrite E. cbn [bind]. cbn [bind] in H. rewrite (NM dp' B). cbn [negb bind].
            repeat (rewrite (padd_0 F (fp + 1 + 1) VF2) || rewrite (rd_suffix F (fp + 1 + 1) VF2) || rewrite <- RF2
                    || (progress cbn [bind deref Z.eqb Pos.eqb]) || (progress cbv iota)).
            rewrite P2. cbn [bind].
            exact (IH _ _ _ r H NP4 fuel (fp + 1 + 1 + 1 + 1) dp' zone VF4 RF4 (VD dp' B) R ltac:(lia)).
          - rewrite T. cbn [bind]. cbn [bind] in H. injection H as <-.
            destruct fuel as [|fuel]; [lia|]. change (negb (-1 =? -1)) with false. cbv iota. cbn [bind].
            repeat (rewrite (padd_0 F (fp + 1 + 1) VF2) || rewrite (rd_suffix F (fp + 1 + 1) VF2) || rewrite <- RF2
                    || (progress cbn [bind deref Z.eqb Pos.eqb]) || (progress cbv iota)).
            rewrite P2. cbn [bind].
            rewrite null_run. eexists. split; reflexivity. } }
      apply andb_true_iff in NP. destruct NP as [MC NP2].
      assert (W2 : int32 2) by (unfold int32, min32, max32; lia).
      assert (W0 : int32 0) by (unfold int32, min32, max32; lia).
      assert (VD : forall dp', dp < dp' <= blen I -> valid I dp') by (intros dp' B; unfold valid in *; lia).
      unfold sp_parse_loop_loop2_b4, sp_parse_loop_loop2_b5, sp_parse_loop_loop2_b6, sp_parse_loop_loop2_b7, sp_parse_loop_loop2_b8,
             sp_parse_loop_loop2_b9, sp_parse_loop_loop2_b10, sp_parse_loop_loop2_b11, sp_parse_loop_loop2_b12, sp_parse_loop_loop2_b13.
      cbv zeta.
      cbn [existsb int_convs] in MC.
      assert (W1 : int32 1) by (unfold int32, min32, max32; lia).
      assert (NM : forall dp', dp < dp' <= blen I -> (dp' =? -1) = false) by (intros dp' B; unfold valid in VI; lia).
      destruct (Z.eqb_spec c 72) as [C|C]; [subst c|destruct (Z.eqb_spec c 77) as [C'|C']; [subst c|
        destruct (Z.eqb_spec c 83) as [C''|C'']; [subst c|destruct (Z.eqb_spec c 119) as [C3|C3]; [subst c|
        destruct (Z.eqb_spec c 89) as [C4|C4]; [subst c|destruct (Z.eqb_spec c 109) as [C5|C5]; [subst c|
        destruct (Z.eqb_spec c 100) as [C6|C6]; [subst c|destruct (Z.eqb_spec c 101) as [C7|C7]; [subst c|
        destruct (Z.eqb_spec c 85) as [C8|C8]; [subst c|destruct (Z.eqb_spec c 87) as [C9|C9]; [subst c|
        destruct (Z.eqb_spec c 117) as [C10|C10]; [subst c|destruct (Z.eqb_spec c 122) as [C11|C11]; [subst c|
        destruct (Z.eqb_spec c 115) as [C12|C12]; [subst c|destruct (Z.eqb_spec c 37) as [C13|C13]; [subst c|
        destruct (Z.eqb_spec c 73) as [C14|C14]; [subst c|destruct (Z.eqb_spec c 108) as [C15|C15]; [subst c|
        destruct (Z.eqb_spec c 114) as [C16|C16]; [subst c|destruct (Z.eqb_spec c 82) as [C17|C17]; [subst c|
        destruct (Z.eqb_spec c 84) as [C18|C18]; [subst c|destruct (Z.eqb_spec c 99) as [C19|C19]; [subst c|
        destruct (Z.eqb_spec c 88) as [C20|C20]; [subst c|
        destruct (Z.eqb_spec c 97) as [D0|D0]; [subst c|destruct (Z.eqb_spec c 65) as [D1|D1]; [subst c|
        destruct (Z.eqb_spec c 98) as [D2|D2]; [subst c|destruct (Z.eqb_spec c 66) as [D3|D3]; [subst c|
        destruct (Z.eqb_spec c 104) as [D4|D4]; [subst c|destruct (Z.eqb_spec c 67) as [D5|D5]; [subst c|
        destruct (Z.eqb_spec c 68) as [D6|D6]; [subst c|destruct (Z.eqb_spec c 70) as [D7|D7]; [subst c|
        destruct (Z.eqb_spec c 103) as [D8|D8]; [subst c|destruct (Z.eqb_spec c 71) as [D9|D9]; [subst c|
        destruct (Z.eqb_spec c 106) as [D10|D10]; [subst c|destruct (Z.eqb_spec c 110) as [D11|D11]; [subst c|
        destruct (Z.eqb_spec c 116) as [D12|D12]; [subst c|destruct (Z.eqb_spec c 121) as [D13|D13]; [subst c|
        destruct (Z.eqb_spec c 86) as [D14|D14]; [subst c|destruct (Z.eqb_spec c 120) as [D15|D15]; [subst c|
        destruct (Z.eqb_spec c 90) as [D90|D90]; [subst c|]]]]]]]]]]]]]]]]]]]]]]]]]]]]]]]]]]]]]];
        cbn [Z.eqb Pos.eqb orb]; cbv iota.
      * (* %H *)
        rewrite step_H in H.
        pose proof (sf_ParseInt_int_tie fuel I dp 2 0 23 (tm_hour (ps_tm s)) VI FL W2) as T.
        destruct (parse_int32 (suffix I dp) 2 0 23) as [[v d1]|].
        -- destruct T as (dp' & E & R & B & _). rewrite E. cbn [bind]. cbn [bind] in H.
          exact (IH _ _ _ r H NP2 fuel (fp + 1 + 1) dp' zone VF2 RF2 (VD dp' B) R ltac:(lia)).
        -- rewrite T. cbn [bind]. cbn [bind] in H. injection H as <-.
          destruct fuel as [|fuel]; [lia|]. rewrite null_run. eexists. split; reflexivity.
      * (* %M *)
        rewrite step_M in H.
        pose proof (sf_ParseInt_int_tie fuel I dp 2 0 59 (tm_min (ps_tm s)) VI FL W2) as T.
        destruct (parse_int32 (suffix I dp) 2 0 59) as [[v d1]|].
        -- destruct T as (dp' & E & R & B & _). rewrite E. cbn [bind]. cbn [bind] in H.
          exact (IH _ _ _ r H NP2 fuel (fp + 1 + 1) dp' zone VF2 RF2 (VD dp' B) R ltac:(lia)).
        -- rewrite T. cbn [bind]. cbn [bind] in H. injection H as <-.
          destruct fuel as [|fuel]; [lia|]. rewrite null_run. eexists. split; reflexivity.
      * (* %S *)
        rewrite step_S in H.
        pose proof (sf_ParseInt_int_tie fuel I dp 2 0 60 (tm_sec (ps_tm s)) VI FL W2) as T.
        destruct (parse_int32 (suffix I dp) 2 0 60) as [[v d1]|].
        -- destruct T as (dp' & E & R & B & _). rewrite E. cbn [bind]. cbn [bind] in H.
          exact (IH _ _ _ r H NP2 fuel (fp + 1 + 1) dp' zone VF2 RF2 (VD dp' B) R ltac:(lia)).
        -- rewrite T. cbn [bind]. cbn [bind] in H. injection H as <-.
          destruct fuel as [|fuel]; [lia|]. rewrite null_run. eexists. split; reflexivity.
      * (* %w *)
        rewrite step_w in H.
        pose proof (sf_ParseInt_int_tie fuel I dp 0 0 6 (tm_wday (ps_tm s)) VI FL W0) as T.
        destruct (parse_int32 (suffix I dp) 0 0 6) as [[v d1]|].
        -- destruct T as (dp' & E & R & B & _). rewrite E. cbn [bind]. cbn [bind] in H.
          exact (IH _ _ _ r H NP2 fuel (fp + 1 + 1) dp' zone VF2 RF2 (VD dp' B) R ltac:(lia)).
        -- rewrite T. cbn [bind]. cbn [bind] in H. injection H as <-.
          destruct fuel as [|fuel]; [lia|]. rewrite null_run. eexists. split; reflexivity.
      * (* %Y *)
        rewrite step_Y in H.
        pose proof (sf_ParseInt_long_tie fuel I dp 0 (-9223372036854775808) 9223372036854775807 (ps_year s) VI FL W0) as T.
        change min64 with (-9223372036854775808) in H. change max64 with 9223372036854775807 in H.
        destruct (parse_int64 (suffix I dp) 0 (-9223372036854775808) 9223372036854775807) as [[v d1]|].
        -- destruct T as (dp' & E & R & B & _). rewrite E. cbn [bind]. cbn [bind] in H. rewrite (NM dp' B). cbn [negb bind].
           exact (IH _ _ _ r H NP2 fuel (fp + 1 + 1) dp' zone VF2 RF2 (VD dp' B) R ltac:(lia)).
        -- rewrite T. cbn [bind]. cbn [bind] in H. injection H as <-.
           destruct fuel as [|fuel]; [lia|]. change (negb (-1 =? -1)) with false. cbv iota. cbn [bind]. rewrite null_run. eexists. split; reflexivity.
      * (* %m *)
        rewrite step_m in H.
        pose proof (sf_ParseInt_int_tie fuel I dp 2 1 12 (tm_mon (ps_tm s)) VI FL W2) as T.
        destruct (parse_int32 (suffix I dp) 2 1 12) as [[v d1]|].
        -- destruct T as (dp' & E & R & B & LH). rewrite E. cbn [bind]. cbn [bind] in H. rewrite (NM dp' B). cbn [negb].
           unfold sub32. rewrite chk32_in by (unfold int32, min32, max32; lia). cbn [bind].
           exact (IH _ _ _ r H NP2 fuel (fp + 1 + 1) dp' zone VF2 RF2 (VD dp' B) R ltac:(lia)).
        -- rewrite T. cbn [bind]. cbn [bind] in H. injection H as <-.
           destruct fuel as [|fuel]; [lia|]. change (negb (-1 =? -1)) with false. cbv iota. cbn [bind]. rewrite null_run. eexists. split; reflexivity.
      * (* %d *)
        rewrite step_d in H.
        rewrite (padd_in F (fp + 1 + 1) (-1)) by (unfold valid in *; lia). cbn [bind].
        replace (fp + 1 + 1 + -1) with (fp + 1) by lia. rewrite (rd_suffix F (fp + 1) VF1). cbn [bind]. rewrite <- RF. cbn [deref].
        change (100 =? 101) with false. cbv iota. cbn [bind].
        pose proof (sf_ParseInt_int_tie fuel I dp 2 1 31 (tm_mday (ps_tm s)) VI FL W2) as T.
        destruct (parse_int32 (suffix I dp) 2 1 31) as [[v d1]|].
        -- destruct T as (dp' & E & R & B & _). rewrite E. cbn [bind]. cbn [bind] in H.
           exact (IH _ _ _ r H NP2 fuel (fp + 1 + 1) dp' zone VF2 RF2 (VD dp' B) R ltac:(lia)).
        -- rewrite T. cbn [bind]. cbn [bind] in H. injection H as <-.
           destruct fuel as [|fuel]; [lia|]. rewrite null_run. eexists. split; reflexivity.
      * (* %e, with the blank that format() writes for a one-digit day *)
        rewrite step_e in H.
        rewrite (padd_in F (fp + 1 + 1) (-1)) by (unfold valid in *; lia). cbn [bind].
        replace (fp + 1 + 1 + -1) with (fp + 1) by lia. rewrite (rd_suffix F (fp + 1) VF1). cbn [bind]. rewrite <- RF. cbn [deref].
        change (101 =? 101) with true. cbv iota.
        rewrite (rd_suffix I dp VI). cbn [bind].
        destruct (suffix I dp) as [|x dr] eqn:ES; cbn [deref tl] in H |- *.
        { change (0 =? 32) with false. cbv iota. cbn [bind].
          pose proof (sf_ParseInt_int_tie fuel I dp 2 1 31 (tm_mday (ps_tm s)) VI FL W2) as T. rewrite ES in T.
          destruct (parse_int32 [] 2 1 31) as [[v d1]|].
          - destruct T as (dp' & E & R & B & _). rewrite E. cbn [bind]. cbn [bind] in H.
            exact (IH _ _ _ r H NP2 fuel (fp + 1 + 1) dp' zone VF2 RF2 (VD dp' B) R ltac:(lia)).
          - rewrite T. cbn [bind]. cbn [bind] in H. injection H as <-.
            destruct fuel as [|fuel]; [lia|]. rewrite null_run. eexists. split; reflexivity. }
        destruct (x =? 32) eqn:X32; cbv iota; cbn [bind].
        { destruct (suffix_cons I dp x dr VI ES) as (NzI & LtI & VI1 & RI).
          rewrite (padd_1 I dp VI). cbn [bind].
          pose proof (sf_ParseInt_int_tie fuel I (dp + 1) 1 1 9 (tm_mday (ps_tm s)) VI1 FL W1) as T. rewrite <- RI in T.
          destruct (parse_int32 dr 1 1 9) as [[v d1]|].
          - destruct T as (dp' & E & R & B & _). rewrite E. cbn [bind]. cbn [bind] in H.
            exact (IH _ _ _ r H NP2 fuel (fp + 1 + 1) dp' zone VF2 RF2 (VD dp' ltac:(lia)) R ltac:(lia)).
          - rewrite T. cbn [bind]. cbn [bind] in H. injection H as <-.
            destruct fuel as [|fuel]; [lia|]. rewrite null_run. eexists. split; reflexivity. }
        { pose proof (sf_ParseInt_int_tie fuel I dp 2 1 31 (tm_mday (ps_tm s)) VI FL W2) as T. rewrite ES in T.
          destruct (parse_int32 (x :: dr) 2 1 31) as [[v d1]|].
          - destruct T as (dp' & E & R & B & _). rewrite E. cbn [bind]. cbn [bind] in H.
            exact (IH _ _ _ r H NP2 fuel (fp + 1 + 1) dp' zone VF2 RF2 (VD dp' B) R ltac:(lia)).
          - rewrite T. cbn [bind]. cbn [bind] in H. injection H as <-.
            destruct fuel as [|fuel]; [lia|]. rewrite null_run. eexists. split; reflexivity. }
      * (* %U *)
        rewrite step_U in H.
        pose proof (sf_ParseInt_int_tie fuel I dp 0 0 53 (ps_week_num s) VI FL W0) as T.
        destruct (parse_int32 (suffix I dp) 0 0 53) as [[v d1]|].
        -- destruct T as (dp' & E & R & B & _). rewrite E. cbn [bind]. cbn [bind] in H.
           exact (IH _ _ _ r H NP2 fuel (fp + 1 + 1) dp' zone VF2 RF2 (VD dp' B) R ltac:(lia)).
        -- rewrite T. cbn [bind]. cbn [bind] in H. injection H as <-.
           destruct fuel as [|fuel]; [lia|]. rewrite null_run. eexists. split; reflexivity.
      * (* %W *)
        rewrite step_W in H.
        pose proof (sf_ParseInt_int_tie fuel I dp 0 0 53 (ps_week_num s) VI FL W0) as T.
        destruct (parse_int32 (suffix I dp) 0 0 53) as [[v d1]|].
        -- destruct T as (dp' & E & R & B & _). rewrite E. cbn [bind]. cbn [bind] in H.
           exact (IH _ _ _ r H NP2 fuel (fp + 1 + 1) dp' zone VF2 RF2 (VD dp' B) R ltac:(lia)).
        -- rewrite T. cbn [bind]. cbn [bind] in H. injection H as <-.
           destruct fuel as [|fuel]; [lia|]. rewrite null_run. eexists. split; reflexivity.
      * (* %u *)
        rewrite step_u in H.
        pose proof (sf_ParseInt_int_tie fuel I dp 0 1 7 (tm_wday (ps_tm s)) VI FL W0) as T.
        destruct (parse_int32 (suffix I dp) 0 1 7) as [[v d1]|].
        -- destruct T as (dp' & E & R & B & _). rewrite E. cbn [bind]. cbn [bind] in H. rewrite (NM dp' B). cbn [negb bind].
           exact (IH _ _ _ r H NP2 fuel (fp + 1 + 1) dp' zone VF2 RF2 (VD dp' B) R ltac:(lia)).
        -- rewrite T. cbn [bind]. cbn [bind] in H. injection H as <-.
           destruct fuel as [|fuel]; [lia|]. change (negb (-1 =? -1)) with false. cbv iota. cbn [bind]. rewrite null_run. eexists. split; reflexivity.
      * (* %z *)
        rewrite step_z in H.
        pose proof (sf_ParseOffset_tie fuel I dp [] 0 (ps_offset s) VI ltac:(unfold blen; cbn; lia) FL) as T.
        change (deref (suffix [] 0)) with 0 in T.
        destruct (fmt_parse_offset (suffix I dp) 0) as [[v d1]|].
        -- destruct T as (dp' & E & R & B & _). rewrite E. cbn [bind]. cbn [bind] in H. rewrite (NM dp' B). cbn [negb bind].
           exact (IH _ _ _ r H NP2 fuel (fp + 1 + 1) dp' zone VF2 RF2 (VD dp' B) R ltac:(lia)).
        -- rewrite T. cbn [bind]. cbn [bind] in H. injection H as <-.
           destruct fuel as [|fuel]; [lia|]. change (negb (-1 =? -1)) with false. cbv iota. cbn [bind]. rewrite null_run. eexists. split; reflexivity.
      * (* %s *)
        rewrite step_s in H.
        pose proof (sf_ParseInt_long_tie fuel I dp 0 (-9223372036854775808) 9223372036854775807 (ps_percent_s s) VI FL W0) as T.
        change min64 with (-9223372036854775808) in H. change max64 with 9223372036854775807 in H.
        destruct (parse_int64 (suffix I dp) 0 (-9223372036854775808) 9223372036854775807) as [[v d1]|].
        -- destruct T as (dp' & E & R & B & _). rewrite E. cbn [bind]. cbn [bind] in H. rewrite (NM dp' B). cbn [negb bind].
           exact (IH _ _ _ r H NP2 fuel (fp + 1 + 1) dp' zone VF2 RF2 (VD dp' B) R ltac:(lia)).
        -- rewrite T. cbn [bind]. cbn [bind] in H. injection H as <-.
           destruct fuel as [|fuel]; [lia|]. change (negb (-1 =? -1)) with false. cbv iota. cbn [bind]. rewrite null_run. eexists. split; reflexivity.
      * (* %% *)
        rewrite step_pct in H.
        rewrite (rd_suffix I dp VI). cbn [bind].
        destruct (suffix I dp) as [|x dr] eqn:ES; cbn [deref].
        { change (0 =? 37) with false. cbv iota. cbn [bind]. cbn [bind] in H. injection H as <-.
          destruct fuel as [|fuel]; [lia|]. rewrite null_run. eexists. split; reflexivity. }
        destruct (x =? 37) eqn:X37; cbv iota.
        { destruct (suffix_cons I dp x dr VI ES) as (NzI & LtI & VI1 & RI).
          rewrite (padd_1 I dp VI). cbn [bind]. cbn [bind] in H.
          exact (IH _ _ _ r H NP2 fuel (fp + 1 + 1) (dp + 1) zone VF2 RF2 VI1 RI ltac:(lia)). }
        { cbn [bind]. cbn [bind] in H. injection H as <-.
          destruct fuel as [|fuel]; [lia|]. rewrite null_run. eexists. split; reflexivity. }
      * (* %I *)
        strp_case H IH step_strp12 (or_introl (eq_refl 73) : 73 = 73 \/ 73 = 108 \/ 73 = 114) VF VI EF NP2 VF2 RF2 FL.
        strp_rest H IH s r dp fp fuel zone VI NP2 VF2 RF2.
      * (* %l *)
        strp_case H IH step_strp12 (or_intror (or_introl (eq_refl 108)) : 108 = 73 \/ 108 = 108 \/ 108 = 114) VF VI EF NP2 VF2 RF2 FL.
        strp_rest H IH s r dp fp fuel zone VI NP2 VF2 RF2.
      * (* %r *)
        strp_case H IH step_strp12 (or_intror (or_intror (eq_refl 114)) : 114 = 73 \/ 114 = 108 \/ 114 = 114) VF VI EF NP2 VF2 RF2 FL.
        strp_rest H IH s r dp fp fuel zone VI NP2 VF2 RF2.
      * (* %R *)
        strp_case H IH step_strp24 (or_introl (eq_refl 82) : 82 = 82 \/ 82 = 84 \/ 82 = 99 \/ 82 = 88) VF VI EF NP2 VF2 RF2 FL.
        strp_rest H IH s r dp fp fuel zone VI NP2 VF2 RF2.
      * (* %T *)
        strp_case H IH step_strp24 (or_intror (or_introl (eq_refl 84)) : 84 = 82 \/ 84 = 84 \/ 84 = 99 \/ 84 = 88) VF VI EF NP2 VF2 RF2 FL.
        strp_rest H IH s r dp fp fuel zone VI NP2 VF2 RF2.
      * (* %c *)
        strp_case H IH step_strp24 (or_intror (or_intror (or_introl (eq_refl 99))) : 99 = 82 \/ 99 = 84 \/ 99 = 99 \/ 99 = 88) VF VI EF NP2 VF2 RF2 FL.
        strp_rest H IH s r dp fp fuel zone VI NP2 VF2 RF2.
      * (* %X *)
        strp_case H IH step_strp24 (or_intror (or_intror (or_intror (eq_refl 88))) : 88 = 82 \/ 88 = 84 \/ 88 = 99 \/ 88 = 88) VF VI EF NP2 VF2 RF2 FL.
        strp_rest H IH s r dp fp fuel zone VI NP2 VF2 RF2.
      * (* %a *)
        cbn [bind]. strp_case H IH step_strpdef (ltac:(cbn; tauto) : In 97 def_convs) VF VI EF NP2 VF2 RF2 FL.
        strp_rest H IH s r dp fp fuel zone VI NP2 VF2 RF2.
      * (* %A *)
        cbn [bind]. strp_case H IH step_strpdef (ltac:(cbn; tauto) : In 65 def_convs) VF VI EF NP2 VF2 RF2 FL.
        strp_rest H IH s r dp fp fuel zone VI NP2 VF2 RF2.
      * (* %b *)
        cbn [bind]. strp_case H IH step_strpdef (ltac:(cbn; tauto) : In 98 def_convs) VF VI EF NP2 VF2 RF2 FL.
        strp_rest H IH s r dp fp fuel zone VI NP2 VF2 RF2.
      * (* %B *)
        cbn [bind]. strp_case H IH step_strpdef (ltac:(cbn; tauto) : In 66 def_convs) VF VI EF NP2 VF2 RF2 FL.
        strp_rest H IH s r dp fp fuel zone VI NP2 VF2 RF2.
      * (* %h *)
        cbn [bind]. strp_case H IH step_strpdef (ltac:(cbn; tauto) : In 104 def_convs) VF VI EF NP2 VF2 RF2 FL.
        strp_rest H IH s r dp fp fuel zone VI NP2 VF2 RF2.
      * (* %C *)
        cbn [bind]. strp_case H IH step_strpdef (ltac:(cbn; tauto) : In 67 def_convs) VF VI EF NP2 VF2 RF2 FL.
        strp_rest H IH s r dp fp fuel zone VI NP2 VF2 RF2.
      * (* %D *)
        cbn [bind]. strp_case H IH step_strpdef (ltac:(cbn; tauto) : In 68 def_convs) VF VI EF NP2 VF2 RF2 FL.
        strp_rest H IH s r dp fp fuel zone VI NP2 VF2 RF2.
      * (* %F *)
        cbn [bind]. strp_case H IH step_strpdef (ltac:(cbn; tauto) : In 70 def_convs) VF VI EF NP2 VF2 RF2 FL.
        strp_rest H IH s r dp fp fuel zone VI NP2 VF2 RF2.
      * (* %g *)
        cbn [bind]. strp_case H IH step_strpdef (ltac:(cbn; tauto) : In 103 def_convs) VF VI EF NP2 VF2 RF2 FL.
        strp_rest H IH s r dp fp fuel zone VI NP2 VF2 RF2.
      * (* %G *)
        cbn [bind]. strp_case H IH step_strpdef (ltac:(cbn; tauto) : In 71 def_convs) VF VI EF NP2 VF2 RF2 FL.
        strp_rest H IH s r dp fp fuel zone VI NP2 VF2 RF2.
      * (* %j *)
        cbn [bind]. strp_case H IH step_strpdef (ltac:(cbn; tauto) : In 106 def_convs) VF VI EF NP2 VF2 RF2 FL.
        strp_rest H IH s r dp fp fuel zone VI NP2 VF2 RF2.
      * (* %n *)
        cbn [bind]. strp_case H IH step_strpdef (ltac:(cbn; tauto) : In 110 def_convs) VF VI EF NP2 VF2 RF2 FL.
        strp_rest H IH s r dp fp fuel zone VI NP2 VF2 RF2.
      * (* %t *)
        cbn [bind]. strp_case H IH step_strpdef (ltac:(cbn; tauto) : In 116 def_convs) VF VI EF NP2 VF2 RF2 FL.
        strp_rest H IH s r dp fp fuel zone VI NP2 VF2 RF2.
      * (* %y *)
        cbn [bind]. strp_case H IH step_strpdef (ltac:(cbn; tauto) : In 121 def_convs) VF VI EF NP2 VF2 RF2 FL.
        strp_rest H IH s r dp fp fuel zone VI NP2 VF2 RF2.
      * (* %V *)
        cbn [bind]. strp_case H IH step_strpdef (ltac:(cbn; tauto) : In 86 def_convs) VF VI EF NP2 VF2 RF2 FL.
        strp_rest H IH s r dp fp fuel zone VI NP2 VF2 RF2.
      * (* %x *)
        cbn [bind]. strp_case H IH step_strpdef (ltac:(cbn; tauto) : In 120 def_convs) VF VI EF NP2 VF2 RF2 FL.
        strp_rest H IH s r dp fp fuel zone VI NP2 VF2 RF2.
      * (* %Z *)
        rewrite step_Z in H.
        unfold sp_ParseZone. cbv zeta. destruct (Z.eqb_spec dp (-1)); [unfold valid in VI; lia|]. cbn [negb]. cbv iota.
        destruct (zone_loop_run I BI (length (suffix I dp)) dp fuel [] VI eq_refl ltac:(lia)) as (dp' & E & V' & S').
        rewrite E. cbn [bind app].
        destruct (span_while (fun x => negb (is_space x)) (suffix I dp)) as [zn d1]. cbn [fst snd] in *.
        destruct zn as [|z0 zn].
        -- change (blen [] =? 0) with true. cbv iota. cbn [bind].
           repeat ((progress cbn [bind] in H) || (progress cbv iota zeta in H)). injection H as <-.
           destruct fuel as [|fuel]; [lia|]. rewrite null_run. eexists. split; reflexivity.
        -- assert (BZ : (blen (z0 :: zn) =? 0) = false) by (unfold blen; cbn [length]; lia).
           rewrite BZ. cbn [bind].
           repeat ((progress cbn [bind] in H) || (progress cbv iota zeta in H)).
           exact (IH _ _ _ r H NP2 fuel (fp + 1 + 1) dp' (z0 :: zn) VF2 RF2 V' (eq_sym S') ltac:(lia)).
      * (* any other conversion byte (not one of special_convs): "%c" is handed to strptime *)
        cbn [orb] in MC. apply negb_true_iff in MC. pose proof MC as MEM.
        assert (C112 : (c =? 112) = false).
        { destruct (Z.eqb_spec c 112) as [->|]; [vm_compute in MEM; discriminate MEM|reflexivity]. }
        assert (CS : c_str [37; c] = [37; c]).
        { cbn [c_str]. change (37 =? 0) with false. cbv iota. destruct (Z.eqb_spec c 0); [contradiction|reflexivity]. }
        assert (LE : list_eqb [37; c] [37; 112] = false).
        { cbn [list_eqb]. rewrite C112. reflexivity. }
        cbn [existsb special_convs] in MC.
        repeat (apply orb_false_iff in MC; destruct MC as [? MC]).
        repeat match goal with E : (c =? _) = false |- _ => rewrite ?E; clear E end.
        cbn [orb]. cbv iota. cbn [bind].
        repeat match goal with Hc : c <> _ |- _ => clear Hc end.
        strp_case H IH step_other MEM VF VI EF NP2 VF2 RF2 FL.
        strp_rest2 CS LE H IH s r dp fp fuel zone VI NP2 VF2 RF2.
Qed.
End IntConversions.

(* what sp_parse_loop returns for a state of the model: data, kyearmax, kyearmin, then the locals *)
Definition FINAL (s : pstate) (zone : list Z) (data : Z) :=
  (data, 9223372036854775807, -9223372036854775808, ps_saw_year s, ps_year s, tm_sec (ps_tm s), tm_min (ps_tm s), tm_hour (ps_tm s),
   tm_mday (ps_tm s), tm_mon (ps_tm s), tm_year (ps_tm s), tm_wday (ps_tm s), tm_yday (ps_tm s), tm_isdst (ps_tm s), ps_subsec s,
   ps_saw_offset s, ps_offset s, zone, ps_twelve s, ps_afternoon s, ps_week_num s, ps_week_start s, ps_saw_s s, ps_percent_s s).

Definition data_of24 (st : Z * Z * Z * bool * Z * Z * Z * Z * Z * Z * Z * Z * Z * Z * Z * bool * Z * list Z * bool * bool * Z * Z * bool * Z) : Z :=
  let '(data, _, _, _, _, _, _, _, _, _, _, _, _, _, _, _, _, _, _, _, _, _, _, _) := st in data.

(* the strptime oracle returns a SUFFIX of the data it was given -- what strptime(3) guarantees for
   its result pointer, and what parse_tm_at checks before it converts the result back to an index *)
Definition oracle_suffix (o : list Z -> list Z -> tmrec -> option (list Z * tmrec)) : Prop :=
  forall d f t rest t', o d f t = Some (rest, t') -> exists pre, d = pre ++ rest.

(* detail::parse() up to the end of its specifier loop, for formats of white space, literal text and
   %H %M %S %w %Y %m %d %e %U %W %u %z %s %% and the strptime-delegated %I %l %r %R %T %c %X
   %a %A %b %B %h %C %D %F %g %G %j %n %t %y %V %x, and %ET %Ez %E*z %E*S %E*f %E4Y %:z %::z %:::z %Z,
   and % followed by any byte outside special_convs (handed to strptime) *)
Theorem sp_parse_loop_tie_int : forall o fmt input fuel r,
  oracle_suffix o ->
  int_fmt (c_str fmt) = true -> bytes_in fmt -> bytes_in input ->
  (2 * length fmt + 2 * length input + 8 <= fuel)%nat ->
  scan_loop o (S (length (c_str fmt))) (c_str fmt) (skip_space (c_str input)) ps0 = OK r ->
  exists st, sp_parse_loop o fuel fmt input = OK st /\
    match r with
    | None => data_of24 st = -1
    | Some (rest, s) => exists zone dp, st = FINAL s zone dp /\ valid input dp /\ rest = suffix input dp
    end.
Proof.
  intros o fmt input fuel r OS NP BF BI Hfu H.
  assert (V0 : valid input 0) by (unfold valid, blen; lia).
  assert (VF0 : valid fmt 0) by (unfold valid, blen; lia).
  destruct (skip_loop_run sp_parse_loop_loop1 loop1_unfold input BI (length (suffix input 0)) 0 fuel V0 eq_refl
              ltac:(pose proof (suffix_length input 0 V0); unfold blen in *; lia)) as (dp & E1 & V1 & S1).
  assert (LC : (length (c_str fmt) <= length fmt)%nat).
  { pose proof (suffix_length fmt 0 VF0). unfold suffix, blen in *. cbn [skipn Z.to_nat] in *. lia. }
  destruct (loop2_int o fmt input BF BI OS _ _ _ ps0 r H NP fuel 0 dp [85; 84; 67] VF0 eq_refl V1 (eq_sym S1) ltac:(lia))
    as (st & E2 & P).
  unfold RUN, ps0, tm0 in E2.
  cbn [ps_saw_year ps_year ps_tm ps_subsec ps_saw_offset ps_offset ps_twelve ps_afternoon ps_week_num ps_week_start ps_saw_s ps_percent_s
       tm_sec tm_min tm_hour tm_mday tm_mon tm_year tm_wday tm_yday tm_isdst] in E2.
  unfold sp_parse_loop. cbv zeta. rewrite E1. cbn [bind].
  change (sub32 1970 1900) with (@OK Z 70). cbn [bind]. change (sub32 1 1) with (@OK Z 0). cbn [bind].
  rewrite E2. cbn [bind].
  destruct st as [[[[[[[[[[[[[[[[[[[[[[a1 a2] a3] a4] a5] a6] a7] a8] a9] a10] a11] a12] a13] a14] a15] a16] a17] a18] a19] a20] a21] a22] a23].
  eexists. split; [reflexivity|].
  destruct r as [[rest s]|].
  - destruct P as (zone' & dp' & fp' & ET & VD & ER). unfold TUP in ET. inversion ET; subst.
    exists zone', dp'. split; [reflexivity|]. split; [exact VD|reflexivity].
  - exact P.
Qed.

(* non-vacuity: "%Y-%m-%e %H:%M:%S" on "2024-02- 9 03:04:05" *)
Example int_ex :
  int_fmt [37;89;45;37;109;45;37;101;32;37;72;58;37;77;58;37;83] = true /\
  scan_loop toy_strptime 18 [37;89;45;37;109;45;37;101;32;37;72;58;37;77;58;37;83]
    [50;48;50;52;45;48;50;45;32;57;32;48;51;58;48;52;58;48;53] ps0 =
    OK (Some ([], mkPS 2024 true (mkTM 5 4 3 9 1 70 4 0 0) 0 false 0 false false (-1) 6 false 0)) /\
  sp_parse_loop toy_strptime 100 [37;89;45;37;109;45;37;101;32;37;72;58;37;77;58;37;83]
    [50;48;50;52;45;48;50;45;32;57;32;48;51;58;48;52;58;48;53] =
    OK (FINAL (mkPS 2024 true (mkTM 5 4 3 9 1 70 4 0 0) 0 false 0 false false (-1) 6 false 0) [85; 84; 67] 19).
Proof. repeat split; vm_compute; reflexivity. Qed.

(* the hypothesis on the oracle is satisfiable, and a strptime-delegated conversion is exercised on both sides *)
Definition one_char_strptime (d f : list Z) (t : tmrec) : option (list Z * tmrec) :=
  match d with _ :: d' => Some (d', tm_with t 2 7) | [] => None end.
Example oracle_suffix_inhabited : oracle_suffix one_char_strptime.
Proof. intros d f t rest t' H. destruct d as [|x d]; [discriminate|]. injection H as <- _. exists [x]. reflexivity. Qed.
Example strp_ex :
  int_fmt [37;84;32;37;89;37;97] = true /\
  scan_loop one_char_strptime 8 [37;84;32;37;89;37;97] [88;50;48;50;52;33] ps0 =
    OK (Some ([], mkPS 2024 true (mkTM 0 0 7 1 0 70 4 0 0) 0 false 0 false false (-1) 6 false 0)) /\
  sp_parse_loop one_char_strptime 100 [37;84;32;37;89;37;97] [88;50;48;50;52;33] =
    OK (FINAL (mkPS 2024 true (mkTM 0 0 7 1 0 70 4 0 0) 0 false 0 false false (-1) 6 false 0) [85; 84; 67] 6).
Proof. repeat split; vm_compute; reflexivity. Qed.

(* "%Y-%m-%d%ET%H:%M:%E*S%Ez" (RFC3339_full) on "2024-02-09T03:04:05.25+01:00" *)
Definition rfc3339_full : list Z := [37;89;45;37;109;45;37;100;37;69;84;37;72;58;37;77;58;37;69;42;83;37;69;122].
Example rfc3339_ex :
  int_fmt rfc3339_full = true /\
  match scan_loop toy_strptime 25 rfc3339_full
          [50;48;50;52;45;48;50;45;48;57;84;48;51;58;48;52;58;48;53;46;50;53;43;48;49;58;48;48] ps0,
        sp_parse_loop toy_strptime 200 rfc3339_full
          [50;48;50;52;45;48;50;45;48;57;84;48;51;58;48;52;58;48;53;46;50;53;43;48;49;58;48;48] with
  | OK (Some (rest, s)), OK st =>
      st = FINAL s [85; 84; 67] 28 /\ rest = [] /\ ps_year s = 2024 /\ ps_subsec s = 250000000000000 /\ ps_offset s = 3600
  | _, _ => False
  end.
Proof. vm_compute. repeat split; reflexivity. Qed.

(* the name asked for; the restriction to the formats of int_fmt and the hypothesis on the oracle are in the statement *)
Definition sp_parse_loop_tie := sp_parse_loop_tie_int.

Print Assumptions sp_parse_loop_tie_int.
Print Assumptions sp_parse_loop_tie.
