(* FutureProofs.v — the far-future behaviour of BreakTime / MakeTime (the
   extended_ branches of ZoneImpl.break_time / make_time) and the 400-year
   periodicity of the footer rule as a function of the instant. *)
From CCTZ Require Import Base Cal CivilImpl PosixImpl FixedImpl ZoneLoad ZoneImpl ZoneZ ZoneHist ZoneRefineDefs.
From CCTZ Require Import CalProofs CivilNorm CivilDiff ZoneSelect ZoneZProofs ZoneRefine ZoneSpec RuleProofs FutureDefs.
Require Import Lia ZifyBool.
Local Open Scope Z_scope.

Local Ltac Zify.zify_post_hook ::= idtac.

Local Notation cos := civil_of_seconds.
(* kernel conversion must not look inside the calendar functions (as in CivilNorm.v) *)
Local Strategy 100 [civil_of_seconds civil_of_days days_from_civil].

Lemma P400_val : P400 = 12622780800.
Proof. reflexivity. Qed.
Lemma k400_val : kSecsPer400Years = 12622780800.
Proof. reflexivity. Qed.

(* ================================================================== *)
(* 3. the rule as a function of the instant is 400-year periodic        *)

Definition shiftc (s : Z) (x : Z * bool) : Z * bool := (fst x + s, snd x).

Definition ll_step (lo t : Z) (best : option (Z * bool)) (x : Z * bool) : option (Z * bool) :=
  if (lo <? fst x) && (fst x <=? t) then
    match best with
    | Some b => if fst b <? fst x then Some x else best
    | None => Some x
    end
  else best.

Lemma latest_le_fold c lo t : latest_le c lo t = fold_left (ll_step lo t) c None.
Proof. reflexivity. Qed.

Lemma ll_step_shift s lo t best x :
  ll_step (lo + s) (t + s) (option_map (shiftc s) best) (shiftc s x)
  = option_map (shiftc s) (ll_step lo t best x).
Proof.
  unfold ll_step, shiftc. cbn [fst snd].
  replace (lo + s <? fst x + s) with (lo <? fst x) by lia.
  replace (fst x + s <=? t + s) with (fst x <=? t) by lia.
  destruct ((lo <? fst x) && (fst x <=? t)); [|reflexivity].
  destruct best as [b|]; cbn [option_map fst snd]; [|reflexivity].
  replace (fst b + s <? fst x + s) with (fst b <? fst x) by lia.
  destruct (fst b <? fst x); reflexivity.
Qed.

Lemma latest_le_shift s c lo t :
  latest_le (map (shiftc s) c) (lo + s) (t + s) = option_map (shiftc s) (latest_le c lo t).
Proof.
  rewrite !latest_le_fold.
  change (@None (Z * bool)) with (option_map (shiftc s) None) at 1.
  generalize (@None (Z * bool)) as best.
  induction c as [|x r IH]; intros best; [reflexivity|].
  cbn [map fold_left]. rewrite ll_step_shift. apply IH.
Qed.

Lemma year_of_instant_period t k : year_of_instant (t + P400 * k) = year_of_instant t + 400 * k.
Proof.
  unfold year_of_instant, P400. rewrite cos_period. reflexivity.
Qed.

Lemma rule_candidates_period r Y k :
  rule_candidates r (Y + 400 * k) = map (shiftc (P400 * k)) (rule_candidates r Y).
Proof.
  unfold rule_candidates. cbn [map]. unfold shiftc. cbn [fst snd].
  replace (Y + 400 * k - 1) with (Y - 1 + 400 * k) by lia.
  replace (Y + 400 * k + 1) with (Y + 1 + 400 * k) by lia.
  destruct (rule_periodic_lemma r (Y - 1) k) as [-> ->].
  destruct (rule_periodic_lemma r Y k) as [-> ->].
  destruct (rule_periodic_lemma r (Y + 1) k) as [-> ->].
  reflexivity.
Qed.

Lemma rule_state_periodic_lemma : forall r t k, rule_state r (t + P400 * k) = rule_state r t.
Proof.
  intros r t k. unfold rule_state.
  rewrite year_of_instant_period, rule_candidates_period.
  replace (t + P400 * k - 3 * 366 * 86400) with (t - 3 * 366 * 86400 + P400 * k) by lia.
  rewrite latest_le_shift.
  destruct (latest_le (rule_candidates r (year_of_instant t)) (t - 3 * 366 * 86400) t) as [[x b]|];
    reflexivity.
Qed.

(* ================================================================== *)
(* helpers                                                              *)

Lemma add64_ok a b : int64 (a + b) -> add64 a b = OK (a + b).
Proof. intros H. unfold add64. apply chk64_in; exact H. Qed.
Lemma sub64_ok a b : int64 (a - b) -> sub64 a b = OK (a - b).
Proof. intros H. unfold sub64. apply chk64_in; exact H. Qed.
Lemma mul64_ok a b : int64 (a * b) -> mul64 a b = OK (a * b).
Proof. intros H. unfold mul64. apply chk64_in; exact H. Qed.

Ltac zi' := unfold int64, min64, max64, SB in *; lia.

(* YearShift by a multiple of 400 years keeps the other five fields *)
Lemma year_shift_ok f k : valid_fields f = true -> int64 (fy f + 400 * k) ->
  year_shift f (400 * k) = OK (mkF (fy f + 400 * k) (fm f) (fd f) (fhh f) (fmm f) (fss f)).
Proof.
  intros V Ir.
  apply valid_fields_inv in V. destruct V as (Vd & Hh & Hm & Hs).
  destruct (valid_date_inv _ _ _ Vd) as [Hmo Hd].
  pose proof (dim_range (fy f) (fm f)) as DR.
  unfold year_shift. rewrite add64_ok by exact Ir. cbn [bind].
  set (y' := fy f + 400 * k) in *.
  assert (norm_spec y' (fm f) (fd f) (fhh f) (fmm f) (fss f)
          = mkF y' (fm f) (fd f) (fhh f) (fmm f) (fss f)) as N.
  { unfold norm_spec, norm_sec. destruct (carry_id y' (fm f) Hmo) as [-> ->].
    rewrite <- dfc_day.
    assert (valid_fields (mkF y' (fm f) (fd f) (fhh f) (fmm f) (fss f)) = true) as Vg.
    { apply valid_fields_intro; cbn [fy fm fd fhh fmm fss]; auto.
      unfold y'. rewrite valid_date_period. exact Vd. }
    apply cos_sec_of in Vg. unfold sec_of in Vg. cbn [fy fm fd fhh fmm fss] in Vg. exact Vg. }
  rewrite construct_refines_lemma.
  - rewrite N. reflexivity.
  - exact Ir.
  - zi'.
  - zi'.
  - zi'.
  - zi'.
  - zi'.
  - destruct (carry_id y' (fm f) Hmo) as [-> _]. exact Ir.
  - rewrite N. exact Ir.
Qed.

Lemma zoff_bound z t : zfacts z -> -93599 <= zoff (abs_zone z) t <= 93599.
Proof.
  intros F. rewrite abs_zone_eq. unfold zoff. cbn [zz_tr zz_doff].
  rewrite zoff_ob. apply ob_bound; exact F.
Qed.

(* ================================================================== *)
(* 1. BreakTime beyond the table                                        *)

Lemma break_ext_core z t l f q : zfacts z -> z_extended z = true ->
  last_opt (z_trans z) = Some l -> nth_error (z_trans z) 0 = Some f -> tr_time f < 0 ->
  12622780800 <= tr_time l -> tr_time l <= 1152921504606846976 -> int64 t -> tr_time l <= t ->
  Z.quot (t - tr_time l) 12622780800 = q ->
  12622780800 * q <= t - tr_time l < 12622780800 * q + 12622780800 ->
  exists h' dst ab,
    break_time z 0 t = OK (mkAL (cos (t + zoff (abs_zone z) (t - (q + 1) * 12622780800)))
                                (zoff (abs_zone z) (t - (q + 1) * 12622780800)) dst ab, h')
    /\ info_of z (zid (abs_zone z) (t - (q + 1) * 12622780800)) = OK (dst, ab).
Proof.
  intros F Hext Hl Hn0 Hf0 HP HT Ht Hge Hq Hdiv.
  set (t' := t - (q + 1) * 12622780800) in *.
  assert (Ht' : int64 t') by zi'.
  destruct (break_noext_ok z t' F Ht') as (h0 & dst & ab & HB & HI).
  pose proof (zoff_bound z t' F) as HO.
  set (off := zoff (abs_zone z) t') in *.
  exists h0, dst, ab. split; [|exact HI].
  unfold break_time. rewrite Hl, (nth_tr_some z 0 f Hn0). cbn [bind].
  replace (negb (t <? tr_time f) && (tr_time l <=? t) && z_extended z) with true by (rewrite Hext; lia).
  rewrite k400_val.
  rewrite sub64_ok by zi'. cbn [bind].
  rewrite Hq.
  rewrite add64_ok by zi'. cbn [bind].
  rewrite mul64_ok by zi'. cbn [bind].
  rewrite sub64_ok by zi'. cbn [bind]. fold t'.
  replace (negb (t' <? tr_time f) && (tr_time l <=? t')) with false by (unfold t'; lia).
  rewrite HB. cbn [bind]. cbv beta iota.
  rewrite mul64_ok by zi'. cbn [bind al_cs al_off al_dst al_abbr].
  replace ((q + 1) * 400) with (400 * (q + 1)) by lia.
  pose proof (cos_period (t' + off) (q + 1)) as CP. cbv zeta in CP.
  replace (t' + off + 146097 * 86400 * (q + 1)) with (t + off) in CP by (unfold t'; lia).
  rewrite year_shift_ok.
  - cbn [bind]. rewrite CP. reflexivity.
  - apply valid_cos.
  - assert (int64 (fy (cos (t + off)))) as Y by (apply year_ok; zi').
    rewrite CP in Y. cbn [fy] in Y. exact Y.
Qed.

Lemma break_future_lemma : forall z h t l,
  zone_ok z = true -> z_extended z = true -> last_opt (z_trans z) = Some l ->
  P400 <= tr_time l -> int64 t -> tr_time l <= t ->
  let k := (t - tr_time l) / P400 + 1 in
  exists h' dst ab,
    break_time z h t = OK (mkAL (civil_of_seconds (t + zoff (abs_zone z) (t - k * P400)))
                                (zoff (abs_zone z) (t - k * P400)) dst ab, h')
    /\ info_of z (zid (abs_zone z) (t - k * P400)) = OK (dst, ab)
    /\ tr_time l - P400 <= t - k * P400 < tr_time l.
Proof.
  intros z h t l Hok Hext Hl HP Ht Hge. rewrite P400_val in *. intros k.
  pose proof (zone_ok_facts z Hok) as F.
  destruct (zf_first z F) as (f & r & Hfr & Hf0).
  assert (Hn0 : nth_error (z_trans z) 0 = Some f) by (rewrite Hfr; reflexivity).
  destruct (last_opt_nth _ _ Hl) as [Hln _].
  destruct (tr_facts z _ l F Hln) as (_ & HT & _).
  assert (2 ^ 60 = 1152921504606846976) as E60 by reflexivity. rewrite E60 in HT.
  assert (Hk : k = (t - tr_time l) / 12622780800 + 1) by reflexivity. clearbody k.
  assert (Hq : Z.quot (t - tr_time l) 12622780800 = (t - tr_time l) / 12622780800)
    by (apply Z.quot_div_nonneg; lia).
  pose proof (Z.mul_div_le (t - tr_time l) 12622780800 ltac:(lia)) as D1.
  pose proof (Z.mul_succ_div_gt (t - tr_time l) 12622780800 ltac:(lia)) as D2.
  set (q := (t - tr_time l) / 12622780800) in *. clearbody q. subst k.
  destruct (break_ext_core z t l f q F Hext Hl Hn0 Hf0 HP ltac:(lia) Ht Hge Hq ltac:(lia))
    as (h0 & dst & ab & HB & HI).
  pose proof (break_time_hint z h t (zf_times_sorted z F)) as Hh.
  rewrite HB in Hh. cbn [res_fst] in Hh.
  destruct (res_fst_OK _ _ Hh) as [h' Hr].
  exists h', dst, ab. split; [exact Hr|]. split; [exact HI|]. lia.
Qed.

(* ================================================================== *)
(* 2. MakeTime beyond last_year                                         *)

(* every instant MakeTime reports lies within 26 hours (the widest offset, 25:59:59, plus one second) of the civil second *)
Lemma zmake_bounds z L : zfacts z ->
  let c := zmake (abs_zone z) L in
  L - 93600 <= zpre c <= L + 93600 /\ L - 93600 <= ztrans c <= L + 93600 /\
  L - 93600 <= zpost c <= L + 93600.
Proof.
  intros F. cbv zeta. rewrite abs_zone_eq, zmake_zmakeL.
  destruct (zf_wf z F) as (ST & SA & GP & NE).
  assert (OB : forall m, -93599 <= ob (doff z) (absl z) m <= 93599) by (intros; apply ob_bound; exact F).
  assert (OA : forall m a, nth_error (absl z) m = Some a -> -93599 <= zt_off a <= 93599).
  { intros m a Ha. rewrite <- (ob_S (doff z) _ _ _ Ha). apply OB. }
  destruct (zmake_cases (doff z) (absl z) L NE SA) as [m [HU|[HS|HR]]].
  - destruct HU as [E _]. rewrite E. unfold zunique. cbn [zpre ztrans zpost].
    specialize (OB m). lia.
  - destruct HS as (a & Ha & E & HL). rewrite E. unfold zskipped, pre_, at_ in *.
    cbn [zpre ztrans zpost]. specialize (OB m). specialize (OA m a Ha). lia.
  - destruct HR as (a & Ha & E & HL & _). rewrite E. unfold zrepeated, pre_, at_ in *.
    cbn [zpre ztrans zpost]. specialize (OB m). specialize (OA m a Ha). lia.
Qed.

Lemma fields_ltb_year a b : fy a < fy b -> fields_ltb a b = true.
Proof. intros H. unfold fields_ltb. apply orb_true_iff. left. apply Z.ltb_lt; exact H. Qed.

Lemma fields_ltb_year_f a b : fy b < fy a -> fields_ltb a b = false.
Proof.
  intros H. unfold fields_ltb.
  destruct (Z.ltb_spec (fy a) (fy b)); [lia|]. destruct (Z.eqb_spec (fy a) (fy b)); [lia|]. reflexivity.
Qed.

Lemma cos_year_lt a b : fy (cos a) < fy (cos b) -> a < b.
Proof.
  intros H. destruct (Z_lt_le_dec a b) as [L|L]; [exact L|].
  pose proof (cos_year_mono b a L). lia.
Qed.

Lemma sat_ok v offset : min64 <= v + offset ->
  (if max64 - offset <? v then OK max64 else add64 v offset) = OK (Z.min max64 (v + offset)).
Proof.
  intros Hlo. destruct (Z.ltb_spec (max64 - offset) v).
  - f_equal. lia.
  - rewrite add64_ok by (unfold int64; lia). f_equal. lia.
Qed.

Lemma quot_max64_P : Z.quot max64 12622780800 = 730692561.
Proof. reflexivity. Qed.

Lemma make_future_core z cs l q : zfacts z -> z_extended z = true ->
  valid_fields cs = true -> int64 (fy cs) -> z_last_year z < fy cs ->
  last_opt (z_trans z) = Some l ->
  fy (tr_cs l) = z_last_year z -> fy (tr_pcs l) <= z_last_year z -> 12622780800 <= tr_time l ->
  Z.quot (fy cs - z_last_year z - 1) 400 = q ->
  400 * q <= fy cs - z_last_year z - 1 < 400 * q + 400 ->
  exists h',
    make_time z 0 cs =
    OK (mkCL (kind_of' (zk (zmake (abs_zone z) (sec_of (mkF (fy cs - 400 * (q + 1)) (fm cs) (fd cs) (fhh cs) (fmm cs) (fss cs))))))
             (Z.min max64 (zpre (zmake (abs_zone z) (sec_of (mkF (fy cs - 400 * (q + 1)) (fm cs) (fd cs) (fhh cs) (fmm cs) (fss cs)))) + (q + 1) * 12622780800))
             (Z.min max64 (ztrans (zmake (abs_zone z) (sec_of (mkF (fy cs - 400 * (q + 1)) (fm cs) (fd cs) (fhh cs) (fmm cs) (fss cs)))) + (q + 1) * 12622780800))
             (Z.min max64 (zpost (zmake (abs_zone z) (sec_of (mkF (fy cs - 400 * (q + 1)) (fm cs) (fd cs) (fhh cs) (fmm cs) (fss cs)))) + (q + 1) * 12622780800)), h').
Proof.
  intros F Hext V I Hly Hl HY HPY HP Hq Hdiv.
  destruct (zf_first z F) as (f & r & Hfr & Hf0).
  assert (Hn0 : nth_error (z_trans z) 0 = Some f) by (rewrite Hfr; reflexivity).
  destruct (last_opt_nth _ _ Hl) as [Hln _].
  destruct (tr_facts z _ l F Hln) as (_ & HT & HO & Ccs & _ & _).
  destruct (tr_facts z 0 f F Hn0) as (_ & HTf & HOf & Ccsf & _ & _).
  assert (2 ^ 60 = 1152921504606846976) as E60 by reflexivity. rewrite E60 in HT. clear E60 HTf.
  set (LY := z_last_year z) in *.
  set (A := tr_time l + off_of z (tr_type l)) in *.
  assert (HA : 12622780800 - 93599 <= A <= 1152921504606846976 + 93599) by (unfold A; lia).
  assert (E0 : fy (cos 0) = 1970) by (vm_compute; reflexivity).
  assert (HLY : 1970 <= LY).
  { rewrite <- HY, Ccs, <- E0. apply cos_year_mono. lia. }
  assert (HfY : fy (tr_cs f) <= LY).
  { rewrite <- HY, Ccs, Ccsf. apply cos_year_mono. fold A. lia. }
  assert (YA : fy (cos A) = LY) by (rewrite <- Ccs; exact HY).
  unfold make_time. rewrite Hl, (nth_tr_some z 0 f Hn0). cbn [bind].
  assert (C : negb (lt64 cs (tr_cs f)) && le64 (tr_cs l) cs && lt64 (tr_pcs l) cs
              && z_extended z && (z_last_year z <? fy cs) = true).
  { unfold le64, lt64. fold LY.
    rewrite (fields_ltb_year_f cs (tr_cs f)) by lia.
    rewrite (fields_ltb_year_f cs (tr_cs l)) by lia.
    rewrite (fields_ltb_year (tr_pcs l) cs) by lia.
    rewrite Hext. cbn [negb andb]. apply Z.ltb_lt. exact Hly. }
  rewrite C. fold LY.
  rewrite sub64_ok by zi'. cbn [bind].
  rewrite sub64_ok by zi'. cbn [bind].
  rewrite Hq.
  rewrite add64_ok by zi'. cbn [bind].
  rewrite mul64_ok by zi'. cbn [bind].
  replace ((q + 1) * -400) with (400 * (- (q + 1))) by lia.
  rewrite year_shift_ok by (auto; zi'). cbn [bind fy].
  replace (fy cs + 400 * - (q + 1)) with (fy cs - 400 * (q + 1)) by lia.
  replace (LY <? fy cs - 400 * (q + 1)) with false by lia.
  set (cs' := mkF (fy cs - 400 * (q + 1)) (fm cs) (fd cs) (fhh cs) (fmm cs) (fss cs)).
  assert (V' : valid_fields cs' = true).
  { apply valid_fields_inv in V. destruct V as (Vd & Hh & Hm & Hs).
    apply valid_fields_intro; cbn [cs' fy fm fd fhh fmm fss]; auto.
    replace (fy cs - 400 * (q + 1)) with (fy cs + 400 * (- (q + 1))) by lia.
    rewrite valid_date_period. exact Vd. }
  assert (Y' : LY - 399 <= fy cs' <= LY) by (cbn [cs' fy]; lia).
  assert (I' : int64 (fy cs')) by zi'.
  destruct (make_noext_ok z cs' F V' I') as (h' & HM).
  exists h'.
  pose proof (zmake_bounds z (sec_of cs') F) as B. cbv zeta in B.
  (* the civil second cs' lies within 400 years of the last transition's *)
  assert (HL : A - 12622780800 < sec_of cs' < A + 12622780800).
  { pose proof (cos_sec_of cs' V') as EC.
    pose proof (cos_period A (-1)) as P1. pose proof (cos_period A 1) as P2. cbv zeta in P1, P2.
    split.
    - apply cos_year_lt. rewrite EC.
      replace (A - 12622780800) with (A + 146097 * 86400 * -1) by lia.
      rewrite P1. cbn [fy]. lia.
    - apply cos_year_lt. rewrite EC.
      replace (A + 12622780800) with (A + 146097 * 86400 * 1) by lia.
      rewrite P2. cbn [fy]. lia. }
  set (c := zmake (abs_zone z) (sec_of cs')) in *.
  unfold time_local. rewrite HM. cbn [bind]. cbv beta iota zeta.
  rewrite k400_val, quot_max64_P.
  unfold cl_of. cbn [cl_kind cl_pre cl_trans cl_post].
  rewrite !clamp_id by zi'.
  destruct (Z.ltb_spec 730692561 (q + 1)) as [Hs|Hs].
  - f_equal. f_equal. unfold max64 in *. f_equal; lia.
  - rewrite mul64_ok by zi'. cbn [bind].
    rewrite sub64_ok by zi'. cbn [bind].
    rewrite !sat_ok by (unfold min64; lia). cbn [bind]. reflexivity.
Qed.

Lemma make_future_lemma : forall z h cs,
  zone_ok z = true -> z_extended z = true -> valid_fields cs = true -> int64 (fy cs) ->
  z_last_year z < fy cs ->
  (* the table's last transition is local year last_year (what ExtendTransitions guarantees) *)
  (forall l, last_opt (z_trans z) = Some l -> fy (tr_cs l) = z_last_year z /\ P400 <= tr_time l) ->
  (* ... and the civil second just before it is not in a later year (ADDED: see the remark below) *)
  (forall l, last_opt (z_trans z) = Some l -> fy (tr_pcs l) <= z_last_year z) ->
  let k := (fy cs - z_last_year z - 1) / 400 + 1 in
  let cs' := mkF (fy cs - 400 * k) (fm cs) (fd cs) (fhh cs) (fmm cs) (fss cs) in
  exists h', let c := zmake (abs_zone z) (sec_of cs') in
    make_time z h cs = OK (mkCL (match zk c with ZU => UNIQUE | ZS => SKIPPED | ZR => REPEATED end)
                                (Z.min max64 (zpre c + k * P400)) (Z.min max64 (ztrans c + k * P400))
                                (Z.min max64 (zpost c + k * P400)), h').
Proof.
  intros z h cs Hok Hext V I Hly HL1 HL2. rewrite P400_val in *. intros k.
  pose proof (zone_ok_facts z Hok) as F.
  destruct (zf_last z F) as (l & Hl & _).
  destruct (HL1 l Hl) as [HY HP]. specialize (HL2 l Hl).
  assert (Hk : k = (fy cs - z_last_year z - 1) / 400 + 1) by reflexivity. clearbody k.
  assert (Hq : Z.quot (fy cs - z_last_year z - 1) 400 = (fy cs - z_last_year z - 1) / 400)
    by (apply Z.quot_div_nonneg; lia).
  pose proof (Z.mul_div_le (fy cs - z_last_year z - 1) 400 ltac:(lia)) as D1.
  pose proof (Z.mul_succ_div_gt (fy cs - z_last_year z - 1) 400 ltac:(lia)) as D2.
  set (q := (fy cs - z_last_year z - 1) / 400) in *. clearbody q. subst k.
  destruct (make_future_core z cs l q F Hext V I Hly Hl HY HL2 HP Hq ltac:(lia)) as (h0 & HM).
  pose proof (make_time_hint z h cs (zf_civil_sorted z F)) as Hh.
  rewrite HM in Hh. cbn [res_fst] in Hh.
  destruct (res_fst_OK _ _ Hh) as [h' Hr].
  intros cs'. exists h'. cbv zeta. exact Hr.
Qed.

(* ================================================================== *)
(* 4. inside the generated window the table's type is the rule's        *)

(* the value attached to the last element at or before t (scan as zid_list / zoff_list do) *)
Fixpoint lastle {A} (l : list (Z * A)) (cur : A) (t : Z) : A :=
  match l with
  | [] => cur
  | e :: r => if fst e <=? t then lastle r (snd e) t else cur
  end.

Lemma zid_lastle l : forall cur t,
  zid_list l cur t = lastle (map (fun x => (zt_time x, zt_id x)) l) cur t.
Proof. induction l as [|a r IH]; intros; cbn [zid_list map lastle fst snd]; [reflexivity|]. rewrite IH. reflexivity. Qed.

Lemma zoff_lastle l : forall cur t,
  zoff_list l cur t = lastle (map (fun x => (zt_time x, zt_off x)) l) cur t.
Proof. induction l as [|a r IH]; intros; cbn [zoff_list map lastle fst snd]; [reflexivity|]. rewrite IH. reflexivity. Qed.

Lemma lastle_app_le {A} (X Y : list (Z * A)) t : forall cur,
  (forall e, In e X -> fst e <= t) -> lastle (X ++ Y) cur t = lastle Y (lastle X cur t) t.
Proof.
  induction X as [|a r IH]; intros cur H; [reflexivity|].
  cbn [app lastle]. pose proof (H a (or_introl eq_refl)).
  destruct (Z.leb_spec (fst a) t); [|lia]. apply IH. intros e He. apply H. right; exact He.
Qed.

Lemma lastle_gt {A} (Y : list (Z * A)) cur t : (forall e, In e Y -> t < fst e) -> lastle Y cur t = cur.
Proof.
  destruct Y as [|a r]; intros H; [reflexivity|]. cbn [lastle].
  pose proof (H a (or_introl eq_refl)). destruct (Z.leb_spec (fst a) t); [lia|reflexivity].
Qed.

(* what latest_le returns: a member of the list inside the window, maximal there *)
Lemma ll_fold lo t c : forall best e, fold_left (ll_step lo t) c best = Some e ->
  (best = Some e \/ (In e c /\ lo < fst e <= t)) /\
  (forall b0, best = Some b0 -> fst b0 <= fst e) /\
  (forall e', In e' c -> lo < fst e' <= t -> fst e' <= fst e).
Proof.
  induction c as [|a r IH]; intros best e H.
  - cbn [fold_left] in H. subst best. split; [left; reflexivity|]. split.
    + intros b0 Hb. inversion Hb; subst. lia.
    + intros e' [].
  - cbn [fold_left] in H. destruct (IH _ _ H) as (I1 & I2 & I3). clear IH H.
    unfold ll_step in I1, I2.
    destruct (Z.ltb_spec lo (fst a)) as [W1|W1]; cbn [andb] in I1, I2.
    + destruct (Z.leb_spec (fst a) t) as [W2|W2].
      * destruct best as [b|].
        -- destruct (Z.ltb_spec (fst b) (fst a)) as [C|C].
           ++ pose proof (I2 a eq_refl) as Ia. split; [|split].
              ** right. destruct I1 as [I1|[I1 I1']].
                 --- inversion I1; subst. split; [left; reflexivity|lia].
                 --- split; [right; exact I1|exact I1'].
              ** intros b0 Hb. inversion Hb; subst. lia.
              ** intros e' [<-|He'] We'; [exact Ia|apply I3; assumption].
           ++ pose proof (I2 b eq_refl) as Ib. split; [|split].
              ** destruct I1 as [I1|[I1 I1']]; [left; exact I1|right; split; [right; exact I1|exact I1']].
              ** intros b0 Hb. inversion Hb; subst. exact Ib.
              ** intros e' [<-|He'] We'; [lia|apply I3; assumption].
        -- pose proof (I2 a eq_refl) as Ia. split; [|split].
           ++ right. destruct I1 as [I1|[I1 I1']].
              ** inversion I1; subst. split; [left; reflexivity|lia].
              ** split; [right; exact I1|exact I1'].
           ++ intros b0 Hb. discriminate.
           ++ intros e' [<-|He'] We'; [exact Ia|apply I3; assumption].
      * split; [|split].
        -- destruct I1 as [I1|[I1 I1']]; [left; exact I1|right; split; [right; exact I1|exact I1']].
        -- exact I2.
        -- intros e' [<-|He'] We'; [lia|apply I3; assumption].
    + split; [|split].
      * destruct I1 as [I1|[I1 I1']]; [left; exact I1|right; split; [right; exact I1|exact I1']].
      * exact I2.
      * intros e' [<-|He'] We'; [lia|apply I3; assumption].
Qed.

Lemma latest_le_spec c lo t e : latest_le c lo t = Some e ->
  In e c /\ lo < fst e <= t /\ (forall e', In e' c -> lo < fst e' <= t -> fst e' <= fst e).
Proof.
  rewrite latest_le_fold. intros H. destruct (ll_fold lo t c None e H) as ([I1|[I1 I1']] & _ & I3).
  - discriminate.
  - auto.
Qed.

Section RuleWindow.
Variable r : rule.

Definition inst (y : Z) (b : bool) : Z := if b then rule_start r y else rule_end r y.

(* consecutive years: the two instants of a year differ and precede both of the next year *)
Definition radj (y : Z) : Prop :=
  inst y true <> inst y false /\ forall b b', inst y b < inst (y + 1) b'.

Lemma inst_period y k b : inst (y + 400 * k) b = inst y b + 12622780800 * k.
Proof.
  unfold inst. destruct (rule_periodic_lemma r y k) as [E1 E2]. destruct b; [rewrite E1|rewrite E2]; lia.
Qed.

Lemma radj_period y k : radj y -> radj (y + 400 * k).
Proof.
  intros [A1 A2]. split.
  - rewrite !inst_period. lia.
  - intros b b'. replace (y + 400 * k + 1) with (y + 1 + 400 * k) by lia.
    rewrite !inst_period. specialize (A2 b b'). lia.
Qed.

Lemma mg_adj g k Y : 0 <= g -> min_gap_ok (rule_seq r Y (S (S k))) g = true ->
  radj Y /\ min_gap_ok (rule_seq r (Y + 1) (S k)) g = true.
Proof.
  intros Hg H. cbn [rule_seq] in H |- *. cbv zeta in H |- *.
  set (rest := rule_seq r (Y + 1 + 1) k) in *. clearbody rest.
  unfold radj, inst.
  set (a := rule_start r Y) in *. set (b := rule_end r Y) in *.
  set (a' := rule_start r (Y + 1)) in *. set (b' := rule_end r (Y + 1)) in *.
  clearbody a b a' b'.
  destruct (Z.ltb_spec a b) as [C|C]; destruct (Z.ltb_spec a' b') as [C'|C'];
    cbn [app min_gap_ok] in H |- *;
    apply andb_true_iff in H; destruct H as [H1 H];
    apply andb_true_iff in H; destruct H as [H2 H3];
    pose proof H3 as H4; apply andb_true_iff in H4; destruct H4 as [H4 _];
    apply Z.ltb_lt in H1, H2, H4;
    (split; [split; [lia|intros [|] [|]; lia]|exact H3]).
Qed.

Lemma mg_adj_n g : 0 <= g -> forall i k Y, min_gap_ok (rule_seq r Y (S (S (i + k)))) g = true ->
  radj (Y + Z.of_nat i).
Proof.
  intros Hg. induction i as [|i IH]; intros k Y H.
  - replace (Y + Z.of_nat 0) with Y by lia. exact (proj1 (mg_adj g _ Y Hg H)).
  - replace (Y + Z.of_nat (S i)) with (Y + 1 + Z.of_nat i) by lia.
    apply (IH k). exact (proj2 (mg_adj g _ Y Hg H)).
Qed.

Lemma rule_ok_radj : rule_ok r = true -> forall y, radj y.
Proof.
  intros H y. unfold rule_ok in H. cbv zeta in H.
  set (g := 2 * Z.abs (fst (fst (r_std r)) - fst (fst (r_dst r)))) in *.
  assert (Hg : 0 <= g) by (unfold g; lia).
  pose proof (Z.div_mod (y - 2000) 400 ltac:(lia)) as DM.
  pose proof (Z.mod_pos_bound (y - 2000) 400 ltac:(lia)) as MB.
  set (q := (y - 2000) / 400) in *. set (m := (y - 2000) mod 400) in *. clearbody q m.
  replace y with (2000 + m + 400 * q) by lia. apply radj_period.
  replace m with (Z.of_nat (Z.to_nat m)) by lia.
  apply (mg_adj_n g Hg (Z.to_nat m) (400 - Z.to_nat m)%nat 2000).
  replace (S (S (Z.to_nat m + (400 - Z.to_nat m))))%nat with 402%nat by lia.
  exact H.
Qed.

Hypothesis Hadj : forall y, radj y.

Lemma inst_mono_n : forall n y b b', inst y b < inst (y + 1 + Z.of_nat n) b'.
Proof.
  induction n as [|n IH]; intros y b b'.
  - replace (y + 1 + Z.of_nat 0) with (y + 1) by lia. apply (proj2 (Hadj y)).
  - replace (y + 1 + Z.of_nat (S n)) with (y + 1 + Z.of_nat n + 1) by lia.
    pose proof (IH y b true). pose proof (proj2 (Hadj (y + 1 + Z.of_nat n)) true b'). lia.
Qed.

Lemma inst_lt y y' b b' : y < y' -> inst y b < inst y' b'.
Proof.
  intros H. pose proof (inst_mono_n (Z.to_nat (y' - y - 1)) y b b') as M.
  replace (y + 1 + Z.of_nat (Z.to_nat (y' - y - 1))) with y' in M by lia. exact M.
Qed.

Variables (A : Type) (g : Z -> A) (std_ti dst_ti last_time : Z).

Definition liftg (p : Z * Z) : Z * A := (fst p, g (snd p)).
Definition tyof (b : bool) : Z := if b then dst_ti else std_ti.

Definition stepl (Y : Z) : list (Z * Z) :=
  let a := (rule_start r Y, dst_ti) in
  let b := (rule_end r Y, std_ti) in
  let '(ta, tb) := if fst a <? fst b then (a, b) else (b, a) in
  if last_time <? fst tb then (if last_time <? fst ta then [ta; tb] else [tb]) else [].

Lemma rule_gen'_step Y k : rule_gen' r std_ti dst_ti last_time Y (S k)
  = stepl Y ++ rule_gen' r std_ti dst_ti last_time (Y + 1) k.
Proof.
  cbn [rule_gen']. unfold stepl. cbv zeta. cbn [fst].
  destruct (rule_start r Y <? rule_end r Y); reflexivity.
Qed.

Lemma stepl_in Y e : In e (stepl Y) -> exists b, e = (inst Y b, tyof b) /\ last_time < inst Y b.
Proof.
  unfold stepl. cbn [fst]. unfold inst, tyof.
  set (s := rule_start r Y). set (n := rule_end r Y). clearbody s n.
  destruct (Z.ltb_spec s n) as [C|C]; cbn [fst];
    match goal with |- context [last_time <? ?x] => destruct (Z.ltb_spec last_time x) end;
    try (intros []);
    match goal with |- context [last_time <? ?x] => destruct (Z.ltb_spec last_time x) end;
    cbn [In]; intros HIn; repeat (destruct HIn as [HIn|HIn]; [subst e|]); try (destruct HIn);
    first [ exists true; split; [reflexivity|lia] | exists false; split; [reflexivity|lia] ].
Qed.

Lemma gen_in : forall n Y e, In e (rule_gen' r std_ti dst_ti last_time Y n) ->
  exists y b, Y <= y /\ fst e = inst y b.
Proof.
  induction n as [|n IH]; intros Y e H; [destruct H|].
  rewrite rule_gen'_step in H. apply in_app_or in H. destruct H as [H|H].
  - destruct (stepl_in Y e H) as (b & -> & _). exists Y, b. split; [lia|reflexivity].
  - destruct (IH _ _ H) as (y & b & Hy & E). exists y, b. split; [lia|exact E].
Qed.

Variable t : Z.

(* the year of the selected instant: its own entry wins *)
Lemma stepl_select Y bx rest cur :
  inst Y bx <= t -> last_time < inst Y bx ->
  (inst Y (negb bx) <= inst Y bx \/ t < inst Y (negb bx)) ->
  (forall e, In e rest -> t < fst e) ->
  lastle (map liftg (stepl Y ++ rest)) cur t = g (tyof bx).
Proof.
  intros Hx Hl Ho Hr.
  pose proof (proj1 (Hadj Y)) as Hne.
  assert (Hr' : forall c, lastle (map liftg rest) c t = c).
  { intros c. apply lastle_gt. intros e He. apply in_map_iff in He.
    destruct He as (p & <- & Hp). cbn [liftg fst]. apply Hr; exact Hp. }
  unfold stepl. cbn [fst]. unfold inst, tyof in *.
  set (s := rule_start r Y) in *. set (n := rule_end r Y) in *. clearbody s n.
  destruct bx; cbn [negb] in *;
  (destruct (Z.ltb_spec s n) as [C|C]; cbn [fst];
   match goal with |- context [last_time <? ?x] => destruct (Z.ltb_spec last_time x) end; try lia;
   match goal with |- context [last_time <? ?x] => destruct (Z.ltb_spec last_time x) end;
   cbn [app map liftg lastle fst snd];
   repeat match goal with |- context [?x <=? t] => destruct (Z.leb_spec x t); try lia end;
   cbn [lastle]; rewrite ?Hr'; reflexivity).
Qed.

Lemma gen_core : forall n y0 cur yx bx,
  y0 <= yx < y0 + Z.of_nat n -> inst yx bx <= t -> last_time < inst yx bx ->
  (forall y b', inst y b' <= inst yx bx \/ t < inst y b') ->
  lastle (map liftg (rule_gen' r std_ti dst_ti last_time y0 n)) cur t = g (tyof bx).
Proof.
  induction n as [|n IH]; intros y0 cur yx bx Hy Hx Hl Hall; [lia|].
  rewrite rule_gen'_step.
  destruct (Z.eq_dec yx y0) as [->|Hne].
  - apply stepl_select; auto.
    intros e He. destruct (gen_in _ _ _ He) as (y & b & Hyy & ->).
    pose proof (inst_lt y0 y bx b ltac:(lia)).
    destruct (Hall y b); lia.
  - rewrite map_app, lastle_app_le.
    + apply (IH (y0 + 1) _ yx bx); auto. lia.
    + intros e He. apply in_map_iff in He. destruct He as (p & <- & Hp).
      destruct (stepl_in y0 p Hp) as (b & -> & _). cbn [liftg fst].
      pose proof (inst_lt y0 yx b bx ltac:(lia)). lia.
Qed.

End RuleWindow.

Lemma inst_lower r y b :
  pdate_ok' (r_start_date r) = true -> pdate_ok' (r_end_date r) = true ->
  -1000000 <= r_start_time r -> -1000000 <= r_end_time r ->
  fst (fst (r_std r)) <= 100000 -> fst (fst (r_dst r)) <= 100000 ->
  86400 * days_from_civil y 1 1 - 1100000 <= inst r y b.
Proof.
  intros Hsd Hed Hst Het Hso Hdo.
  pose proof (date_yday_range_lemma y _ Hsd). pose proof (date_yday_range_lemma y _ Hed).
  unfold inst, rule_start, rule_end. destruct b; lia.
Qed.

(* t lies before Jan 1 of the year after its own *)
Lemma instant_before_next_year t :
  t < 86400 * days_from_civil (year_of_instant t + 1) 1 1.
Proof.
  unfold year_of_instant.
  pose proof (valid_cos t) as V. pose proof (sec_of_cos t) as E.
  set (f := cos t) in *. clearbody f.
  apply valid_fields_inv in V. destruct V as (Vd & Hh & Hm & Hs).
  pose proof (dfc_lt_of_lex (fy f) (fm f) (fd f) (fy f + 1) 1 1 Vd (valid_first _ 1 ltac:(lia)) ltac:(lia)).
  unfold sec_of in E. lia.
Qed.

Lemma cand_in r Y y b : Y - 1 <= y <= Y + 1 -> In (inst r y b, b) (rule_candidates r Y).
Proof.
  intros H. assert (y = Y - 1 \/ y = Y \/ y = Y + 1) as [-> | [-> | ->]] by lia;
    destruct b; unfold rule_candidates, inst; cbn [In]; tauto.
Qed.

Lemma cand_inv r Y x b : In (x, b) (rule_candidates r Y) ->
  exists y, Y - 1 <= y <= Y + 1 /\ x = inst r y b.
Proof.
  unfold rule_candidates. cbn [In]. intros H.
  repeat (destruct H as [H|H]; [inversion H; subst; clear H|]); try destruct H;
    eexists; (split; [|unfold inst; reflexivity]); lia.
Qed.

(* inside the generated window: the type (and offset) in force according to a
   transition list generated from the rule is the one rule_state names *)
Lemma rule_window_lemma : forall r std_ti dst_ti last_time y0 n (l : list ztr) t b,
  rule_ok r = true ->
  pdate_ok' (r_start_date r) = true -> pdate_ok' (r_end_date r) = true ->
  -1000000 <= r_start_time r <= 1000000 -> -1000000 <= r_end_time r <= 1000000 ->
  -100000 <= fst (fst (r_std r)) <= 100000 -> -100000 <= fst (fst (r_dst r)) <= 100000 ->
  map (fun x => (zt_time x, zt_id x)) l = rule_gen' r std_ti dst_ti last_time y0 n ->
  y0 + 1 <= year_of_instant t <= y0 + Z.of_nat n - 2 ->
  last_time <= t - 3 * 366 * 86400 ->
  rule_state r t = Some b ->
  (forall cur, zid_list l cur t = (if b then dst_ti else std_ti)) /\
  (forall offf, (forall x, In x l -> zt_off x = offf (zt_id x)) ->
     forall cur, zoff_list l cur t = offf (if b then dst_ti else std_ti)).
Proof.
  intros r std_ti dst_ti last_time y0 n l t b Hok Hsd Hed Hst Het Hso Hdo Hl HY Hlt Hrs.
  pose proof (rule_ok_radj r Hok) as Hadj.
  unfold rule_state in Hrs.
  destruct (latest_le (rule_candidates r (year_of_instant t)) (t - 3 * 366 * 86400) t)
    as [[x bx]|] eqn:E; [|discriminate].
  inversion Hrs; subst bx. clear Hrs.
  set (Y := year_of_instant t) in *.
  destruct (latest_le_spec _ _ _ _ E) as (Hin & Hw & Hmax). cbn [fst] in Hw.
  destruct (cand_inv r Y x b Hin) as (yx & Hyx & ->).
  assert (Hall : forall y b', inst r y b' <= inst r yx b \/ t < inst r y b').
  { intros y b'.
    destruct (Z_lt_le_dec y (Y - 1)) as [L|L].
    { left. pose proof (inst_lt r Hadj y yx b' b ltac:(lia)). lia. }
    destruct (Z_lt_le_dec (Y + 1) y) as [G|G].
    { right.
      pose proof (inst_lower r y b' Hsd Hed ltac:(lia) ltac:(lia) ltac:(lia) ltac:(lia)) as LB.
      pose proof (instant_before_next_year t) as TB. fold Y in TB.
      assert (days_from_civil (Y + 1) 1 1 + 365 <= days_from_civil y 1 1).
      { pose proof (dfc_year_step (Y + 1)) as S1. pose proof (diy_ge (Y + 1)).
        destruct (Z.eq_dec y (Y + 1 + 1)) as [->|Ne]; [lia|].
        pose proof (dfc_lt_of_lex (Y + 1 + 1) 1 1 y 1 1 (valid_first _ 1 ltac:(lia))
                      (valid_first _ 1 ltac:(lia)) ltac:(lia)). lia. }
      lia. }
    destruct (Z_lt_le_dec t (inst r y b')) as [T|T]; [right; exact T|left].
    destruct (Z_lt_le_dec (t - 3 * 366 * 86400) (inst r y b')) as [W|W].
    - exact (Hmax _ (cand_in r Y y b' ltac:(lia)) ltac:(cbn [fst]; lia)).
    - lia. }
  assert (Core : forall (A : Type) (g : Z -> A) cur,
             lastle (map (liftg A g) (rule_gen' r std_ti dst_ti last_time y0 n)) cur t
             = g (if b then dst_ti else std_ti)).
  { intros A g cur.
    exact (gen_core r Hadj A g std_ti dst_ti last_time t n y0 cur yx b
             ltac:(lia) ltac:(lia) ltac:(lia) Hall). }
  split.
  - intros cur. rewrite zid_lastle, Hl.
    rewrite <- (Core Z (fun x => x) cur). f_equal.
    rewrite <- (map_id (rule_gen' r std_ti dst_ti last_time y0 n)) at 1.
    apply map_ext. intros [p q]. reflexivity.
  - intros offf Hoff cur. rewrite zoff_lastle.
    rewrite <- (Core Z offf cur). f_equal. rewrite <- Hl, map_map.
    apply map_ext_in. intros x Hx. unfold liftg. cbn [fst snd]. rewrite (Hoff x Hx). reflexivity.
Qed.

(* Status: break_future_lemma, make_future_lemma, rule_state_periodic_lemma and the
   stretch rule_window_lemma (+ rule_ok_radj) are proved; nothing is left open and
   `Print Assumptions` reports "Closed under the global context" for each.

   Remark on make_future_lemma: the hypothesis
     forall l, last_opt (z_trans z) = Some l -> fy (tr_pcs l) <= z_last_year z
   was ADDED.  Without it the statement is false: MakeTime enters the extended_
   branch only when cs > last.prev_civil_sec, and when the last transition is a
   fall-back across New Year prev_civil_sec lies in year last_year + 1.
   Counterexample (vm_compute): types [off 0; off 3600], default 0, transitions
   [(-1000000 -> type 1); (T -> type 0)] with T = sec_of 2400-12-31T23:30:00 =
   13601086200, extended, last_year = 2400 (zone_ok = true, tr_cs last has year
   2400, P400 <= T, tr_pcs last = 2401-01-01T00:29:59).  For cs = 2401-01-01T00:10:00
   make_time returns REPEATED (13601085000, 13601086200, 13601088600) whereas the
   right-hand side (k = 1, cs' = 2001-01-01T00:10:00) is UNIQUE 13601085000.
   The saturating corner of TimeLocal (k > max64 / P400) needs no extra hypothesis:
   it is covered by the Z.min form (zmake_bounds gives v >= -172800). *)
