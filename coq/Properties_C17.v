(* Properties_C17.v — C17: weekday, day-of-year, next/prev weekday agree with
   the proleptic Gregorian calendar.  Only statements + `exact`. *)
From CCTZ Require Import Base Cal CivilImpl CalProofs WeekdayProofs CivilProofs.
Local Open Scope Z_scope.

Definition day_aligned (f : fields) : Prop := fhh f = 0 /\ fmm f = 0 /\ fss f = 0.

(* 1970-01-01 is a Thursday (3 in cctz's monday=0 numbering) and each following
   day advances the weekday by one: this pins weekday_of_days completely. *)
Theorem weekday_epoch : weekday_of_days (days_from_civil 1970 1 1) = 3.
Proof. exact weekday_epoch_lemma. Qed.
Print Assumptions weekday_epoch.

Theorem weekday_succ : forall z, weekday_of_days (z + 1) = (weekday_of_days z + 1) mod 7.
Proof. exact weekday_succ_lemma. Qed.
Print Assumptions weekday_succ.

(* get_weekday, for every valid date with an int64 year, without overflow or
   out-of-bounds table reads. *)
Theorem weekday_spec : forall f, valid_fields f = true -> int64 (fy f) ->
  get_weekday64 f = OK (weekday_of_days (days_from_civil (fy f) (fm f) (fd f))).
Proof. exact weekday_spec_lemma. Qed.
Print Assumptions weekday_spec.

Theorem yearday_spec : forall f, valid_fields f = true -> int64 (fy f) ->
  get_yearday64 f = OK (days_from_civil (fy f) (fm f) (fd f) - days_from_civil (fy f) 1 1 + 1)
  /\ 1 <= days_from_civil (fy f) (fm f) (fd f) - days_from_civil (fy f) 1 1 + 1 <= days_in_year (fy f).
Proof. exact yearday_spec_lemma. Qed.
Print Assumptions yearday_spec.

(* next_weekday: the nearest day strictly after, 1..7 days away. *)
Theorem next_weekday_spec : forall f w,
  valid_fields f = true -> day_aligned f -> int64 (fy f) -> 0 <= w <= 6 ->
  exists k, 1 <= k <= 7 /\
    weekday_of_days (days_from_civil (fy f) (fm f) (fd f) + k) = w /\
    (forall j, 1 <= j < k -> weekday_of_days (days_from_civil (fy f) (fm f) (fd f) + j) <> w) /\
    (int64 (fy (civil_of_seconds ((days_from_civil (fy f) (fm f) (fd f) + k) * 86400))) ->
     next_weekday64 f w = OK (civil_of_seconds ((days_from_civil (fy f) (fm f) (fd f) + k) * 86400))).
Proof. exact next_weekday_spec_lemma. Qed.
Print Assumptions next_weekday_spec.

Theorem prev_weekday_spec : forall f w,
  valid_fields f = true -> day_aligned f -> int64 (fy f) -> 0 <= w <= 6 ->
  exists k, 1 <= k <= 7 /\
    weekday_of_days (days_from_civil (fy f) (fm f) (fd f) - k) = w /\
    (forall j, 1 <= j < k -> weekday_of_days (days_from_civil (fy f) (fm f) (fd f) - j) <> w) /\
    (int64 (fy (civil_of_seconds ((days_from_civil (fy f) (fm f) (fd f) - k) * 86400))) ->
     prev_weekday64 f w = OK (civil_of_seconds ((days_from_civil (fy f) (fm f) (fd f) - k) * 86400))).
Proof. exact prev_weekday_spec_lemma. Qed.
Print Assumptions prev_weekday_spec.

(* non-vacuity *)
Example c17_nonvacuous :
  valid_fields (mkF 2024 2 29 0 0 0) = true /\ get_weekday64 (mkF 2024 2 29 0 0 0) = OK 3.
Proof. vm_compute. split; reflexivity. Qed.

(* ---- tie to the CURRENT source: the functions below are translated from clang's AST
   of /repo on every run (coq/Translated.v); the model computes exactly them ---- *)
From CCTZ Require Import Translated TranslatedProofs.
Theorem src_tie_get_weekday : forall f r, get_weekday64 f = OK r -> r = tr_get_weekday (fy f) (fm f) (fd f).
Proof. exact tr_get_weekday_eq. Qed.
Print Assumptions src_tie_get_weekday.
Theorem src_tie_get_yearday : forall f r, get_yearday64 f = OK r -> r = tr_get_yearday (fy f) (fm f) (fd f).
Proof. exact tr_get_yearday_eq. Qed.
Print Assumptions src_tie_get_yearday.

From CCTZ Require Import Source64 Source64Proofs Source64Cor.

(* SOURCE-DERIVED checked functions (Source64.v, regenerated from clang's AST of the current
   civil_time_detail.h on every run): get_weekday / get_yearday meet the calendar spec *)
Theorem src64_weekday_meets_spec : forall f, valid_fields f = true -> int64 (fy f) ->
  s64_get_weekday f = OK (weekday_of_days (days_from_civil (fy f) (fm f) (fd f))).
Proof. exact src64_weekday_meets_spec_lemma. Qed.
Print Assumptions src64_weekday_meets_spec.

Theorem src64_yearday_meets_spec : forall f, valid_fields f = true -> int64 (fy f) ->
  s64_get_yearday f = OK (days_from_civil (fy f) (fm f) (fd f) - days_from_civil (fy f) 1 1 + 1).
Proof. exact src64_yearday_meets_spec_lemma. Qed.
Print Assumptions src64_yearday_meets_spec.


From CCTZ Require Import Source64 Source64Proofs Source64MoreProofs.
(* MORE OF civil_time_detail.h AS CLANG READS IT NOW (Source64.v, regenerated every run; templates read through their
   instantiations in a probe translation unit, overloads resolved by clang): the civil_time constructors, conversions,
   operators and next/prev_weekday.  Source64MoreProofs.v ties each to the hand-written model and composes with the
   refinement theorems: the CURRENT source meets the calendar specification, with no intermediate overflow. *)
Theorem src64m_next_weekday_meets_spec : forall f w,
  valid_fields f = true -> (fhh f = 0 /\ fmm f = 0 /\ fss f = 0) -> int64 (fy f) -> 0 <= w <= 6 ->
  exists k, 1 <= k <= 7 /\
    weekday_of_days (days_from_civil (fy f) (fm f) (fd f) + k) = w /\
    (forall j, 1 <= j < k -> weekday_of_days (days_from_civil (fy f) (fm f) (fd f) + j) <> w) /\
    (int64 (fy (civil_of_seconds ((days_from_civil (fy f) (fm f) (fd f) + k) * 86400))) ->
     s64_next_weekday s64_fuel f w = OK (civil_of_seconds ((days_from_civil (fy f) (fm f) (fd f) + k) * 86400))).
Proof. exact Source64MoreProofs.src64m_next_weekday_meets_spec. Qed.
Print Assumptions src64m_next_weekday_meets_spec.
Theorem src64m_prev_weekday_meets_spec : forall f w,
  valid_fields f = true -> (fhh f = 0 /\ fmm f = 0 /\ fss f = 0) -> int64 (fy f) -> 0 <= w <= 6 ->
  exists k, 1 <= k <= 7 /\
    weekday_of_days (days_from_civil (fy f) (fm f) (fd f) - k) = w /\
    (forall j, 1 <= j < k -> weekday_of_days (days_from_civil (fy f) (fm f) (fd f) - j) <> w) /\
    (int64 (fy (civil_of_seconds ((days_from_civil (fy f) (fm f) (fd f) - k) * 86400))) ->
     s64_prev_weekday s64_fuel f w = OK (civil_of_seconds ((days_from_civil (fy f) (fm f) (fd f) - k) * 86400))).
Proof. exact Source64MoreProofs.src64m_prev_weekday_meets_spec. Qed.
Print Assumptions src64m_prev_weekday_meets_spec.
