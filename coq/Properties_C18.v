(* Properties_C18.v — C18: sub-second time points floor toward the past. *)
From CCTZ Require Import Base SplitJoin SplitJoinProofs.
Local Open Scope Z_scope.

(* for ALL periods num/den and ALL tick counts (whenever the whole-second count
   is representable, which the property assumes): split = floor, with a
   non-negative remainder below one second *)
Theorem split_floor : forall num den c, 1 <= num -> 1 <= den ->
  int64 (c * num) -> int64 ((c * num) / den * den) -> int64 ((c * num) / den - 1) ->
  split_seconds num den c = OK (split_spec num den c) /\
  0 <= c * num - ((c * num) / den) * den < den.
Proof. exact split_floor_lemma. Qed.
Print Assumptions split_floor.

(* join into a coarser type floors the same way and reports failure - never a
   wrapped value - exactly when the floored count does not fit the rep *)
Theorem join_floor : forall bits num sec, 1 < num -> 1 <= bits ->
  join_coarse bits num sec =
    (if (rep_min bits <=? sec / num) && (sec / num <=? rep_max bits) then Some (sec / num) else None).
Proof. exact join_floor_lemma. Qed.
Print Assumptions join_floor.

Theorem join_seconds_exact : forall bits sec,
  join_seconds_rep bits sec = (if (rep_min bits <=? sec) && (sec <=? rep_max bits) then Some sec else None).
Proof. exact join_seconds_exact_lemma. Qed.
Print Assumptions join_seconds_exact.

(* the remainder handed to format() is truncated, never rounded *)
Theorem femto_truncates : forall num den ticks, 1 <= num -> 1 <= den -> 0 <= ticks ->
  int64 (ticks * (num * 10 ^ 15 / Z.gcd (num * 10 ^ 15) den)) ->
  to_femto num den ticks = OK ((ticks * num * 10 ^ 15) / den).
Proof. exact femto_truncates_lemma. Qed.
Print Assumptions femto_truncates.

Example c18_nonvacuous :
  split_seconds 1 1000000000 (-100000000) = OK (-1, 900000000) /\     (* 1969-12-31T23:59:59.9 *)
  split_seconds 1 3 (-1) = OK (-1, 2) /\ to_femto 1 3 1 = OK 333333333333333 /\
  join_coarse 32 60 (-61) = Some (-2) /\ join_coarse 8 60 (128 * 60) = None.
Proof. vm_compute. repeat split; reflexivity. Qed.

From CCTZ Require Import Cal CivilImpl ZoneLoad ZoneImpl SubSecondDefs SubSecond SourceSplit SourceSplitProofs.
(* THE TEMPLATES OF time_zone.h AS CLANG READS THEM NOW (SourceSplit.v, regenerated every run by gen/ast_translate_chrono.py
   from their INSTANTIATIONS in a probe translation unit - int64 nano/micro/milliseconds, ratio<1,3>, int32 minutes and hours,
   int8/int16 seconds; deduction, overload resolution and common_type are clang's; the <chrono> casts and arithmetic are a
   stated vocabulary V1-V8 of checked integer operations in the common type): split_seconds floors, join_seconds floors or
   fails, the lookup / convert / next_transition wrappers hand the floor on, prev_transition the ceiling, format the
   truncated femtoseconds. *)
Theorem src_split_floors_ns : forall c,
  int64 (c * 1) -> int64 ((c * 1) / 1000000000 * 1000000000) -> int64 ((c * 1) / 1000000000 - 1) ->
  ss_split_seconds_ns c = OK (split_spec 1 1000000000 c) /\ 0 <= c * 1 - ((c * 1) / 1000000000) * 1000000000 < 1000000000.
Proof. exact SourceSplitProofs.src_split_floors_ns. Qed.
Print Assumptions src_split_floors_ns.
Theorem src_split_floors_ms : forall c,
  int64 (c * 1) -> int64 ((c * 1) / 1000 * 1000) -> int64 ((c * 1) / 1000 - 1) ->
  ss_split_seconds_ms c = OK (split_spec 1 1000 c) /\ 0 <= c * 1 - ((c * 1) / 1000) * 1000 < 1000.
Proof. exact SourceSplitProofs.src_split_floors_ms. Qed.
Print Assumptions src_split_floors_ms.
Theorem src_split_floors_third : forall c,
  int64 (c * 1) -> int64 ((c * 1) / 3 * 3) -> int64 ((c * 1) / 3 - 1) ->
  ss_split_seconds_third c = OK (split_spec 1 3 c) /\ 0 <= c * 1 - ((c * 1) / 3) * 3 < 3.
Proof. exact SourceSplitProofs.src_split_floors_third. Qed.
Print Assumptions src_split_floors_third.
Theorem src_split_floors_min32 : forall c,
  int64 (c * 60) -> int64 ((c * 60) / 1 * 1) -> int64 ((c * 60) / 1 - 1) ->
  ss_split_seconds_min32 c = OK (split_spec 60 1 c) /\ 0 <= c * 60 - ((c * 60) / 1) * 1 < 1.
Proof. exact SourceSplitProofs.src_split_floors_min32. Qed.
Print Assumptions src_split_floors_min32.
Theorem src_wrappers_floor_ms : forall A B (k : Z -> res A) (p : A -> B) c,
  int64 (c * 1) -> int64 ((c * 1) / 1000 * 1000) -> int64 ((c * 1) / 1000 - 1) ->
  ss_lookup_ms A k c = k ((c * 1) / 1000) /\
  ss_next_transition_ms A k c = k ((c * 1) / 1000) /\
  ss_convert_ms A B k p c = (do r <- k ((c * 1) / 1000) ;; OK (p r)).
Proof. exact SourceSplitProofs.src_wrappers_floor_ms. Qed.
Print Assumptions src_wrappers_floor_ms.
Theorem src_next_transition_ms : forall z c r,
  int64 (c * 1) -> int64 ((c * 1) / 1000 * 1000) -> int64 ((c * 1) / 1000 - 1) ->
  next_transition z ((c * 1) / 1000) = OK r -> ss_next_transition_ms _ (next_transition z) c = OK r.
Proof. exact SourceSplitProofs.src_next_transition_ms. Qed.
Print Assumptions src_next_transition_ms.
Theorem src_prev_transition_ms : forall z c r,
  int64 (c * 1) -> int64 ((c * 1) / 1000 * 1000) -> int64 ((c * 1) / 1000 - 1) -> (c * 1) / 1000 < max64 ->
  prev_transition z (if (c * 1) mod 1000 =? 0 then (c * 1) / 1000 else (c * 1) / 1000 + 1) = OK r ->
  ss_prev_transition_ms _ (prev_transition z) c = OK r.
Proof. exact SourceSplitProofs.src_prev_transition_ms. Qed.
Print Assumptions src_prev_transition_ms.
Theorem src_format_ns : forall A (k : Z -> Z -> res A) c,
  int64 (c * 1) -> int64 ((c * 1) / 1000000000 * 1000000000) -> int64 ((c * 1) / 1000000000 - 1) ->
  int64 (snd (split_spec 1 1000000000 c) * (1 * 10 ^ 15 / Z.gcd (1 * 10 ^ 15) 1000000000)) ->
  ss_format_ns A k c = k ((c * 1) / 1000000000) ((snd (split_spec 1 1000000000 c) * 1 * 10 ^ 15) / 1000000000).
Proof. exact SourceSplitProofs.src_format_ns. Qed.
Print Assumptions src_format_ns.
Theorem src_join_floors_min32 : forall sec, int64 sec ->
  ss_join_seconds_min32 sec = OK (if (rep_min 32 <=? sec / 60) && (sec / 60 <=? rep_max 32) then Some (sec / 60) else None).
Proof. exact SourceSplitProofs.src_join_floors_min32. Qed.
Print Assumptions src_join_floors_min32.
Theorem src_join_floors_hour32 : forall sec, int64 sec ->
  ss_join_seconds_hour32 sec = OK (if (rep_min 32 <=? sec / 3600) && (sec / 3600 <=? rep_max 32) then Some (sec / 3600) else None).
Proof. exact SourceSplitProofs.src_join_floors_hour32. Qed.
Print Assumptions src_join_floors_hour32.
Theorem src_join_exact_s8 : forall sec, int64 sec ->
  ss_join_seconds_s8 sec = OK (if (rep_min 8 <=? sec) && (sec <=? rep_max 8) then Some sec else None).
Proof. exact SourceSplitProofs.src_join_exact_s8. Qed.
Print Assumptions src_join_exact_s8.
Theorem src_join_exact_s16 : forall sec, int64 sec ->
  ss_join_seconds_s16 sec = OK (if (rep_min 16 <=? sec) && (sec <=? rep_max 16) then Some sec else None).
Proof. exact SourceSplitProofs.src_join_exact_s16. Qed.
Print Assumptions src_join_exact_s16.
