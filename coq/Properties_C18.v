(* Properties_C18.v — C18: sub-second time points floor toward the past. *)
From CCTZ Require Import Base SplitJoin SplitJoinProofs.
Local Open Scope Z_scope.

(* for ALL periods num/den and ALL tick counts (whenever the whole-second count
   is representable, which the property assumes): split = floor, with a
   non-negative remainder below one second *)
Theorem split_floor : forall num den c, 1 <= num -> 1 <= den ->
  int64 (c * num) -> int64 ((c * num) / den * den) -> int64 ((c * num) / den - 1) ->
  split_seconds num den c = OK (split_spec num den c) /\
  0 <= c * num - ((c * num) / den) * den < den.
Proof. exact split_floor_lemma. Qed.
Print Assumptions split_floor.

(* join into a coarser type floors the same way and reports failure - never a
   wrapped value - exactly when the floored count does not fit the rep *)
Theorem join_floor : forall bits num sec, 1 < num -> 1 <= bits ->
  join_coarse bits num sec =
    (if (rep_min bits <=? sec / num) && (sec / num <=? rep_max bits) then Some (sec / num) else None).
Proof. exact join_floor_lemma. Qed.
Print Assumptions join_floor.

Theorem join_seconds_exact : forall bits sec,
  join_seconds_rep bits sec = (if (rep_min bits <=? sec) && (sec <=? rep_max bits) then Some sec else None).
Proof. exact join_seconds_exact_lemma. Qed.
Print Assumptions join_seconds_exact.

(* the remainder handed to format() is truncated, never rounded *)
Theorem femto_truncates : forall num den ticks, 1 <= num -> 1 <= den -> 0 <= ticks ->
  int64 (ticks * (num * 10 ^ 15 / Z.gcd (num * 10 ^ 15) den)) ->
  to_femto num den ticks = OK ((ticks * num * 10 ^ 15) / den).
Proof. exact femto_truncates_lemma. Qed.
Print Assumptions femto_truncates.

Example c18_nonvacuous :
  split_seconds 1 1000000000 (-100000000) = OK (-1, 900000000) /\     (* 1969-12-31T23:59:59.9 *)
  split_seconds 1 3 (-1) = OK (-1, 2) /\ to_femto 1 3 1 = OK 333333333333333 /\
  join_coarse 32 60 (-61) = Some (-2) /\ join_coarse 8 60 (128 * 60) = None.
Proof. vm_compute. repeat split; reflexivity. Qed.
